"""C34 — symmetric placement bookkeeping (place_objects with config.symmetry) vs lean/FdtdxModel/C34.lean"""
import itertools

RULE = ("K: fdtdx.place_objects on generated scenes: symmetry tuple from all 27 (incl. none), volume extents 2..8 "
        "(odd / extent-2 symmetric axes included -> ValueError expected), 1..5 boxes (UniformMaterialObject / FieldDetector) "
        "whose relation to each symmetry plane is drawn from {below, touching from below, symmetric straddle, asymmetric "
        "straddle, touching from above, above, full extent}, optionally an object already called _sym_wall_<axis>. "
        "Observed: error kind, reduced volume slice / field array shape, for every input object dropped-or-(grid_slice_tuple, "
        "unreduced_grid_slice_tuple), straddles_symmetry_plane, the wall objects (class, name, axis, direction, slice, flag), "
        "absence of PMC objects, order of the placed list. All compared exactly with the model's reduceSlices / wallAxes / "
        "wallSlice / wallNames and with an independent cell-set oracle (intersection of cell ranges with the upper half). "
        "non-trivial = some symmetric axis with a dropped, clipped or plane-touching object, an error, or a name clash. "
        "Explicit non-uniform grids: RectilinearGrid.custom(..).reduce_symmetric(sym) for every axis subset / wall kind on "
        "generated edge arrays (2..9 cells per axis, odd and even, physical scales 1e-9..1, mirror-symmetric widths, and one "
        "width perturbed by a relative 0, 5e-5, 9e-5, 1.1e-4, 2e-4 or 1e-2 around the 1e-4 tolerance); outcome (kept edges of "
        "all three axes, or which axis is rejected for its cell count / its widths) compared exactly with the model's "
        "reduceEdges on binary64 and with a numpy oracle (upper-half edges, mirrored reduced widths reproduce the full "
        "widths within the tolerance, reduced cell count n/2); a few of them through place_objects(config.grid=explicit grid).")

_J = None
AX = "xyz"
ALL27 = list(itertools.product((-1, 0, 1), repeat=3))


def J():
    global _J
    if _J is None:
        import jax
        jax.config.update("jax_enable_x64", True)
        import jax.numpy as jnp
        import fdtdx
        from loguru import logger
        logger.remove()
        _J = dict(jax=jax, jnp=jnp, fdtdx=fdtdx)
    return _J


RELS = ["below", "touch_below", "straddle_sym", "straddle_asym", "touch_above", "above", "full"]


def interval(rng, n, m, rel):
    """(lo, hi) with 0 <= lo < hi <= n in the given relation to the plane index m (0 < m < n); None if impossible"""
    if rel == "below":
        if m < 2:
            return None
        lo = rng.randint(0, m - 2)
        return lo, rng.randint(lo + 1, m - 1)
    if rel == "touch_below":
        return rng.randint(0, m - 1), m
    if rel == "straddle_sym":
        d = rng.randint(1, min(m, n - m))
        return m - d, m + d
    if rel == "straddle_asym":
        cands = [(l, h) for l in range(0, m) for h in range(m + 1, n + 1) if l + h != 2 * m]
        return rng.choice(cands) if cands else None
    if rel == "touch_above":
        return m, rng.randint(m + 1, n)
    if rel == "above":
        if n - m < 2:
            return None
        lo = rng.randint(m + 1, n - 1)
        return lo, rng.randint(lo + 1, n)
    return 0, n


def gen_case(rng, force_sym=None):
    sym = force_sym if force_sym is not None else rng.choice(ALL27)
    vshape = []
    for a in range(3):
        if sym[a] != 0:
            vshape.append(rng.choice([3, 5, 7]) if rng.chance(0.1) else rng.choice([2, 4, 4, 6, 6]))
        else:
            vshape.append(rng.choice([2, 3, 5]))
    if all(sym[a] != 0 and vshape[a] == 2 for a in range(3)):
        # a reduced volume of one single cell cannot be allocated by fdtdx with or without symmetry (StopIteration in
        # core/jax/sharding.py for a (1,1,1) volume) - not a statement of this property, so it is never generated
        vshape[2] = 4
    objs = []
    for i in range(rng.randint(1, 5)):
        lo, hi, rels = [], [], []
        for a in range(3):
            n = vshape[a]
            iv = None
            rel = "free"
            if sym[a] != 0 and n % 2 == 0:
                while iv is None:
                    rel = rng.choice(RELS)
                    iv = interval(rng, n, n // 2, rel)
            else:
                l = rng.randint(0, n - 1)
                iv = (l, rng.randint(l + 1, n))
            lo.append(iv[0])
            hi.append(iv[1])
            rels.append(rel)
        objs.append({"name": f"o{i}", "kind": "detector" if rng.chance(0.25) else "material", "lo": lo, "hi": hi, "rels": rels})
    if objs and rng.chance(0.2):
        el = [a for a in range(3) if sym[a] == -1]
        a = el[0] if el else rng.randint(0, 2)
        objs[0]["name"] = f"_sym_wall_{AX[a]}"
        if len(objs) > 1 and rng.chance(0.5):
            objs[1]["name"] = f"_sym_wall_{AX[a]}_1"
    return {"sym": list(sym), "vshape": vshape, "objs": objs}


# ----------------------------------------------------------------------------------- implementation
def impl(case):
    j = J()
    jnp, fdtdx, jax = j["jnp"], j["fdtdx"], j["jax"]
    cfg = fdtdx.SimulationConfig(grid=fdtdx.UniformGrid(spacing=50e-9), time=1.7e-16, dtype=jnp.float64, symmetry=tuple(case["sym"]))
    vol = fdtdx.SimulationVolume(name="vol", partial_grid_shape=tuple(case["vshape"]))
    objs, cons = [vol], []
    for o in case["objs"]:
        shp = tuple(h - l for l, h in zip(o["lo"], o["hi"]))
        if o["kind"] == "detector":
            ob = fdtdx.FieldDetector(name=o["name"], partial_grid_shape=shp)
        else:
            ob = fdtdx.UniformMaterialObject(name=o["name"], partial_grid_shape=shp, material=fdtdx.Material(permittivity=2.0))
        cons.append(ob.set_grid_coordinates(axes=(0, 1, 2), sides=("-", "-", "-"), coordinates=tuple(o["lo"])))
        objs.append(ob)
    try:
        oc, arrays, _p, cfg2, _i = fdtdx.place_objects(object_list=objs, config=cfg, constraints=cons, key=jax.random.PRNGKey(0))
    except Exception as e:  # noqa: BLE001
        return {"error": type(e).__name__, "msg": str(e)[:160]}
    placed = list(oc.object_list)
    is_wall = lambda o: bool(getattr(o, "_is_symmetry_wall", False))  # noqa: E731
    byname = {o.name: o for o in placed if not is_wall(o)}
    res = {"order": [o.name for o in placed], "nonwall": [o.name for o in placed if not is_wall(o)], "E_shape": [int(x) for x in arrays.fields.E.shape[1:]],
           "vol": [list(map(int, p)) for p in oc.volume.grid_slice_tuple],
           "vol_un": [list(map(int, p)) for p in oc.volume.unreduced_grid_slice_tuple],
           "grid_shape": [int(x) for x in cfg2.grid.shape] if hasattr(cfg2.grid, "shape") else None,
           "objs": {}, "walls": [], "pmc": len(oc.pmc_objects)}
    for o in case["objs"]:
        p = byname.get(o["name"])
        if p is None:
            res["objs"][o["name"]] = None
        else:
            res["objs"][o["name"]] = {"c": [list(map(int, q)) for q in p.grid_slice_tuple],
                                      "u": [list(map(int, q)) for q in p.unreduced_grid_slice_tuple],
                                      "straddle": [bool(p.straddles_symmetry_plane(a)) for a in range(3)],
                                      "cls": type(p).__name__}
    inputs = {"vol"} | {o["name"] for o in case["objs"]}
    for p in placed:
        if is_wall(p) or p.name not in inputs:
            res["walls"].append({"name": p.name, "cls": type(p).__name__, "axis": int(getattr(p, "axis", -1)),
                                 "direction": getattr(p, "direction", None),
                                 "slice": [list(map(int, q)) for q in p.grid_slice_tuple],
                                 "flag": bool(getattr(p, "_is_symmetry_wall", False))})
    return res


# ------------------------------------------------------------------------------------------ oracle
def oracle(case):
    """the property statement, with cell sets"""
    sym, vs = case["sym"], case["vshape"]
    for a in range(3):
        if sym[a] != 0 and (vs[a] % 2 == 1 or vs[a] < 2):
            return {"error": "ValueError"}
    upper = [set(range(vs[a] // 2, vs[a])) if sym[a] != 0 else set(range(vs[a])) for a in range(3)]
    shift = [vs[a] // 2 if sym[a] != 0 else 0 for a in range(3)]
    out = {"shape": [len(upper[a]) for a in range(3)], "objs": {}, "walls": []}
    for o in case["objs"]:
        cl, un, dropped = [], [], False
        for a in range(3):
            cells = set(range(o["lo"][a], o["hi"][a])) & upper[a]
            if not cells:
                dropped = True
                break
            cl.append([min(cells) - shift[a], max(cells) + 1 - shift[a]])
            un.append([o["lo"][a] - shift[a], o["hi"][a] - shift[a]])
        out["objs"][o["name"]] = None if dropped else {"c": cl, "u": un,
                                                        "straddle": [sym[a] != 0 and o["lo"][a] < shift[a] for a in range(3)]}
    for a in range(3):
        if sym[a] == -1:
            out["walls"].append({"axis": a, "slice": [[0, 1] if b == a else [0, out["shape"][b]] for b in range(3)]})
    return out


def property_fails(case, got=None):
    got = impl(case) if got is None else got
    exp = oracle(case)
    if "error" in exp:
        return None if got.get("error") == "ValueError" else f"odd/too small symmetric axis {case['vshape']} {case['sym']} accepted: {str(got)[:120]}"
    if "error" in got:
        return f"place_objects raised {got['error']}: {got['msg']}"
    if got["E_shape"] != exp["shape"] or got["vol"] != [[0, s] for s in exp["shape"]]:
        return f"reduced volume {got['vol']} / fields {got['E_shape']}, upper half is {exp['shape']}"
    if any(case["sym"]):
        vu = [[-(case["vshape"][a] // 2), case["vshape"][a] // 2] if case["sym"][a] else [0, case["vshape"][a]] for a in range(3)]
        if got["vol_un"] != vu:
            return f"volume's unclipped extent {got['vol_un']} != {vu}"
    for name, e in exp["objs"].items():
        g = got["objs"][name]
        if e is None:
            if g is not None:
                return f"object {name} lies in the discarded half but was kept at {g['c']}"
            continue
        if g is None:
            return f"object {name} reaches into the kept half but was dropped"
        if g["c"] != e["c"]:
            return f"object {name}: clipped slice {g['c']} != intersection with the upper half {e['c']}"
        if g["u"] != e["u"]:
            return f"object {name}: recorded unclipped extent {g['u']} != shifted full extent {e['u']}"
        if g["straddle"] != e["straddle"]:
            return f"object {name}: straddles_symmetry_plane {g['straddle']} != {e['straddle']}"
    gw = [{"axis": w["axis"], "slice": w["slice"]} for w in got["walls"]]
    if gw != exp["walls"]:
        return f"walls {gw} != expected electric-plane walls {exp['walls']}"
    for w in got["walls"]:
        if w["cls"] != "PerfectElectricConductor" or w["direction"] != "-" or not w["flag"]:
            return f"wall {w} is not a flagged min-side PEC"
    taken = set(got["nonwall"])
    for w in got["walls"]:      # documented naming: _sym_wall_<axis>, then _sym_wall_<axis>_1, _2, ... (first free)
        base, k, want = f"_sym_wall_{AX[w['axis']]}", 0, None
        while want is None:
            cand = base if k == 0 else f"{base}_{k}"
            if cand not in taken:
                want = cand
            k += 1
        if w["name"] != want:
            return f"wall on axis {AX[w['axis']]} is called {w['name']!r}, the first free documented name is {want!r}"
        taken.add(want)
    if got["pmc"] != 0:
        return "a PMC object was created"
    names = got["order"]
    if len(set(names)) != len(names):
        return f"duplicate object names {names}"
    kept = [o["name"] for o in case["objs"] if exp["objs"][o["name"]] is not None]
    if names[0] != "vol" or names[1:1 + len(kept)] != kept:
        return f"placed order {names}, expected volume, {kept}, walls"
    return None


# ------------------------------------------------------------------- explicit grids: reduce_symmetric
RTOL = 1e-4
DELTAS = [0.0, 0.0, 0.0, 0.0, 0.0, 5e-5, 9e-5, 9e-5, 1.1e-4, 2e-4, 1e-2]


def gen_grid(rng, force_sym=None):
    import numpy as np
    sym = list(force_sym) if force_sym is not None else list(rng.choice(ALL27))
    scale = rng.choice([1.0, 1e-3, 25e-9, 3.7e-7])
    axes = []
    for a in range(3):
        n = rng.choice([2, 4, 4, 6, 8]) if rng.chance(0.9) else rng.choice([1, 3, 5, 9])
        half = [scale * rng.uniform(0.5, 2.0) for _ in range((n + 1) // 2)]
        w = (half[::-1] + half) if n % 2 == 0 else (half[::-1] + half[1:])
        if rng.chance(0.15):                       # uniform axis
            w = [scale] * n
        delta = rng.choice(DELTAS) * rng.choice([1, -1])
        k = rng.randint(0, n - 1)
        w[k] = w[k] * (1.0 + delta)
        origin = scale * rng.uniform(-3, 3)
        edges = [float(x) for x in (origin + np.concatenate([[0.0], np.cumsum(np.asarray(w))]))]
        axes.append({"n": n, "delta": delta, "k": k, "edges": edges})
    return {"op": "grid", "sym": sym, "axes": axes}


def grid_impl(case, via_place=False):
    """('ok', [edges x3]) or ('error', kind, axis) from the real code"""
    import numpy as np
    j = J()
    jnp, fdtdx, jax = j["jnp"], j["fdtdx"], j["jax"]
    from fdtdx.core.grid import RectilinearGrid
    g = RectilinearGrid.custom(*[jnp.asarray(ax["edges"], dtype=jnp.float64) for ax in case["axes"]])
    try:
        if via_place:
            cfg = fdtdx.SimulationConfig(grid=g, time=1e-18, dtype=jnp.float64, symmetry=tuple(case["sym"]))
            vol = fdtdx.SimulationVolume(name="vol", partial_grid_shape=tuple(ax["n"] for ax in case["axes"]))
            oc, arrays, _p, cfg2, _i = fdtdx.place_objects(object_list=[vol], config=cfg, constraints=[], key=jax.random.PRNGKey(0))
            r = cfg2.grid
            if tuple(arrays.fields.E.shape[1:]) != tuple(r.shape):
                return ("error", f"field shape {arrays.fields.E.shape} vs grid {r.shape}", -1)
        else:
            r = g.reduce_symmetric(tuple(case["sym"]))
    except ValueError as e:
        msg = str(e)
        kind = "cells" if "even number of" in msg else "widths" if "mirror-symmetric" in msg else "other:" + msg[:80]
        axis = next((a for a in range(3) if f"on axis {AX[a]}" in msg), -1)
        return ("error", kind, axis)
    return ("ok", [[float(x) for x in np.asarray(r.edges(a))] for a in range(3)])


def grid_oracle(case, via_place=False):
    import numpy as np
    out = []
    if via_place:   # place_objects validates the cell counts of every symmetric axis (slice reduction) before the grid
        for a in range(3):
            n = case["axes"][a]["n"]
            if case["sym"][a] != 0 and (n < 2 or n % 2):
                return ("error", "cells", a)
    for a in range(3):
        e = np.asarray(case["axes"][a]["edges"])
        if case["sym"][a] == 0:
            out.append(list(e))
            continue
        n = len(e) - 1
        if n < 2 or n % 2:
            return ("error", "cells", a)
        w = np.diff(e)
        if not all(abs(w[i] - w[n - 1 - i]) <= RTOL * abs(w[n - 1 - i]) for i in range(n)):
            return ("error", "widths", a)
        out.append(list(e[n // 2:]))
    return ("ok", out)


def grid_property_fails(case, got=None, via_place=False):
    import numpy as np
    got = grid_impl(case, via_place) if got is None else got
    exp = grid_oracle(case, via_place)
    if exp[0] == "error":
        return None if got == exp else f"grid {case['sym']}: expected rejection {exp[1:]} (axis cells {[ax['n'] for ax in case['axes']]}, deltas {[ax['delta'] for ax in case['axes']]}), got {str(got)[:120]}"
    if got[0] != "ok":
        return f"accepted-by-specification grid rejected: {got[1:]} (deltas {[ax['delta'] for ax in case['axes']]})"
    for a in range(3):
        e, r = np.asarray(case["axes"][a]["edges"]), np.asarray(got[1][a])
        if not np.array_equal(r, np.asarray(exp[1][a])):
            return f"axis {AX[a]}: reduced edges are not the upper-half edges"
        if case["sym"][a] != 0:
            wr, w = np.diff(r), np.diff(e)
            if len(wr) * 2 != len(w):
                return f"axis {AX[a]}: reduced cell count {len(wr)} != n/2"
            full = np.concatenate([wr[::-1], wr])
            if not np.all(np.abs(full - w) <= RTOL * np.abs(w) * (1 + 1e-9)):
                return f"axis {AX[a]}: mirroring the reduced widths does not reproduce the full widths within {RTOL}"
    return None


def grid_model_lines(case):
    from .common import f2h
    return [f"grid {case['sym'][a]} {f2h(RTOL)} " + " ".join(f2h(x) for x in case["axes"][a]["edges"]) for a in range(3)]


def grid_model_result(reps, via_place=False):
    from .common import h2f
    out = []
    if via_place:
        for a, rep in enumerate(reps):
            if rep == "error cells":
                return ("error", "cells", a)
    for a, rep in enumerate(reps):
        t = rep.split()
        if t[0] == "error":
            return ("error", t[1], a)
        if t[0] != "ok":
            return ("model", rep, a)
        out.append([h2f(x) for x in t[1:]])
    return ("ok", out)


def run_grids(ctx):
    n = ctx.scale(40, 400)
    syms = ctx.rng.shuffle([s for s in ALL27 if any(s)])
    cases = [gen_grid(ctx.rng, force_sym=syms[i % len(syms)]) for i in range(n)]
    lines, gots = [], []
    for i, case in enumerate(cases):
        via_place = i < ctx.scale(4, 30)
        got = grid_impl(case, via_place)
        gots.append(got)
        lines += grid_model_lines(case)
        nt = (tuple(case["sym"]), got[0], got[1] if got[0] == "error" else "",
              tuple(ax["delta"] != 0 for ax in case["axes"]))
        ctx.case(sample={"op": "grid", "sym": case["sym"], "cells": [ax["n"] for ax in case["axes"]],
                         "deltas": [ax["delta"] for ax in case["axes"]], "outcome": got[:2] if got[0] == "error" else "ok"}
                 if i in (0, 5) else None,
                 nontrivial=nt, op="grid", grid_outcome=(got[0] if got[0] == "ok" else got[1]), via_place=via_place)
        ctx.impl_property_evals += 1
        d = grid_property_fails(case, got, via_place)
        if d:
            ctx.violation({**case, "via_place": via_place}, d)
    reps = ctx.driver.ask_many(lines)
    for i, case in enumerate(cases):
        m = grid_model_result(reps[3 * i: 3 * i + 3], i < ctx.scale(4, 30))
        ctx.expect_equal("grid", {**case, "via_place": i < ctx.scale(4, 30)}, str(gots[i]), str(m))


# ------------------------------------------------------------------------------------------- K
def model_line(case):
    vs = case["vshape"]
    toks = [f"reduce {case['sym'][0]} {case['sym'][1]} {case['sym'][2]}", f"0 {vs[0]} 0 {vs[1]} 0 {vs[2]}", str(len(case["objs"]))]
    for o in case["objs"]:
        toks.append(" ".join(f"{o['lo'][a]} {o['hi'][a]}" for a in range(3)))
    return " ".join(toks)


def impl_repr(case, got):
    """the implementation's result in the model's reply format"""
    if "error" in got:
        return "error" if got["error"] == "ValueError" else "raised " + got["error"]
    fl = lambda sl: " ".join(f"{p[0]} {p[1]}" for p in sl)  # noqa: E731
    so = []
    for o in case["objs"]:
        g = got["objs"][o["name"]]
        so.append("D" if g is None else f"{fl(g['c'])} / {fl(g['u'])}")
    wa = [w["axis"] for w in got["walls"]]
    return (f"{fl(got['vol'])} | {fl(got['vol_un'])} | {' '.join(map(str, got['E_shape']))} | {' ; '.join(so)} | "
            f"{' '.join(map(str, wa))} | {' ; '.join(fl(w['slice']) for w in got['walls'])}")


def nontrivial(case, got):
    if "error" in got:
        return ("error", tuple(case["sym"]), tuple(case["vshape"]))
    if not any(case["sym"]):
        return None
    rel = tuple(sorted({r for o in case["objs"] for r in o["rels"] if r not in ("free",)}))
    return (tuple(case["sym"]), rel, any(o["name"].startswith("_sym") for o in case["objs"]))


def run(ctx):
    n = ctx.scale(30, 200)
    cases = [gen_case(ctx.rng, force_sym=s) for s in ctx.rng.shuffle([s for s in ALL27 if any(s)])[: n // 2]]
    while len(cases) < n:
        cases.append(gen_case(ctx.rng))
    lines, cmps = [], []
    for case in cases:
        got = impl(case)
        lines.append(model_line(case))
        cmps.append(("reduce", case, impl_repr(case, got)))
        if "error" not in got:
            used = got["nonwall"]
            axes = [a for a in range(3) if case["sym"][a] == -1]
            lines.append("wallnames " + " ".join(map(str, axes)) + " | " + " ".join(used))
            cmps.append(("wallnames", case, " ".join(w["name"] for w in got["walls"])))
        rels = {}
        for o in case["objs"]:
            for r in o["rels"]:
                rels[r] = rels.get(r, 0) + 1
        ctx.case(sample=case if len(case["objs"]) <= 2 else None, nontrivial=nontrivial(case, got), op="scene",
                 nsym=sum(1 for s in case["sym"] if s), error="error" in got,
                 dropped=sum(1 for v in got.get("objs", {}).values() if v is None))
        for r, c in rels.items():
            d = ctx.dist.setdefault("relation", {})
            d[r] = d.get(r, 0) + c
        ctx.impl_property_evals += 1
        d = property_fails(case, got)
        if d:
            ctx.violation(case, d)
    reps = ctx.driver.ask_many(lines)
    for (op, case, im), rep in zip(cmps, reps):
        ctx.expect_equal(op, case, im, rep)
    run_grids(ctx)


# ------------------------------------------------------------------------------------------- S
def search(ctx, hints):
    for h in hints:
        if isinstance(h, dict) and h.get("op") == "grid":
            d = grid_property_fails(h, via_place=h.get("via_place", False))
            if d:
                ctx.violation(h, d)
                return
    # explicit grids: one symmetric axis, 2 then 4 cells, each perturbation size
    for n in (2, 4, 3):
        for a in range(3):
            for delta in (0.0, 9e-5, -9e-5, 1.1e-4, -1.1e-4, 1e-2):
                for k in range(n):
                    axes = []
                    for b in range(3):
                        m = n if b == a else 2
                        w = [1.0] * m
                        if b == a:
                            w[k] *= 1.0 + delta
                        edges = [0.0]
                        for x in w:
                            edges.append(edges[-1] + x)
                        axes.append({"n": m, "delta": delta if b == a else 0.0, "k": k, "edges": edges})
                    sym = [0, 0, 0]
                    sym[a] = -1
                    case = {"op": "grid", "sym": sym, "axes": axes}
                    ctx.impl_property_evals += 1
                    d = grid_property_fails(case)
                    if d:
                        ctx.violation(case, d)
                        return
    for h in hints:
        if isinstance(h, dict) and "vshape" in h:
            d = property_fails(h)
            if d:
                ctx.violation(h, d)
                return
    # one box, one symmetric axis, every interval: smallest scenes first
    for n in (2, 4, 3, 6):
        for a in range(3):
            for w in (-1, 1):
                sym = [0, 0, 0]
                sym[a] = w
                vshape = [2, 2, 2]
                vshape[a] = n
                ivs = [(l, h) for l in range(n) for h in range(l + 1, n + 1)] if n % 2 == 0 else [(0, 1)]
                for (l, h) in ivs:
                    lo, hi = [0, 0, 0], [2, 2, 2]
                    lo[a], hi[a] = l, h
                    case = {"sym": sym, "vshape": vshape, "objs": [{"name": "o0", "kind": "material", "lo": lo, "hi": hi, "rels": ["free"] * 3}]}
                    ctx.impl_property_evals += 1
                    d = property_fails(case)
                    if d:
                        ctx.violation(case, d)
                        return
    from .common import Rng
    rng = Rng(ctx.seed + 99)
    for _ in range(120):
        case = gen_case(rng)
        ctx.impl_property_evals += 1
        d = property_fails(case)
        if d:
            ctx.violation(case, d)
            return


def replay(ctx, inp):
    if inp.get("op") == "grid":
        return grid_property_fails(inp, via_place=inp.get("via_place", False))
    return property_fails(inp)
