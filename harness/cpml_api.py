"""Adapters between fdtdx scenes with PerfectlyMatchedLayer objects and the Lean CPML model (FdtdxModel/Cpml.lean).
Used by C03 and C12.  Scenes are built through yee_api.build; the PML objects are created here (per-face thickness
and grading parameters) exactly the way boundary_objects_from_config creates them."""
import numpy as np

from . import yee_api as Y
from .common import f2h, h2f

GRADING_KEYS = ("sigma_start", "sigma_end", "sigma_order", "kappa_start", "kappa_end", "kappa_order",
                "alpha_start", "alpha_end", "alpha_order")


def axis_dir(face):
    return "xyz".index(face[-1]), ("-" if face.startswith("min") else "+")


def make_pmls(vol, spec, params=None):
    """spec: {face: thickness}; params: {face: {grading kwargs}} -> (objects, constraints)"""
    fdtdx = Y.J()["fdtdx"]
    objs, cons = [], []
    for face in Y.FACES:
        if face not in spec:
            continue
        th = spec[face]
        ax, d = axis_dir(face)
        shp = [None, None, None]
        shp[ax] = th
        kw = dict((params or {}).get(face, {}))
        p = fdtdx.PerfectlyMatchedLayer(axis=ax, partial_grid_shape=tuple(shp), direction=d, name="pml_" + face, **kw)
        other = [0, 1, 2]
        del other[ax]
        di = -1 if d == "-" else 1
        cons.append(p.place_relative_to(vol, axes=(ax, other[0], other[1]), own_positions=(di, 0, 0),
                                        other_positions=(di, 0, 0)))
        objs.append(p)
    return objs, cons


def build(shape, faces, spec, params=None, widths=None, extra_fn=None, time=1e-15, **kw):
    """faces: kinds of the non-PML faces (PML faces may be given as 'pml' or omitted); spec: {face: thickness}"""
    f2 = {k: ("none" if (k in spec or v == "pml") else v) for k, v in faces.items()}

    def fn(vol):
        o, c = make_pmls(vol, spec, params)
        if extra_fn is not None:
            o2, c2 = extra_fn(vol)
            o, c = o + list(o2), c + list(c2)
        return o, c
    sc = Y.build(shape, f2, widths=widths, extra_fn=fn, time=time, **kw)
    sc.pml_spec = dict(spec)
    sc.pml_params = params
    return sc


def build_cfg(shape, faces, spec, params=None, widths=None, extra_fn=None, time=1e-15, gradient="reversible",
              courant_factor=0.99):
    """like `build`, but the PML objects come from BoundaryConfig(**per-face fields) -> boundary_objects_from_config,
    i.e. the route users take; params[face] holds the grading fields the user WROTE (absent = None in the config)"""
    j = Y.J()
    fdtdx, jnp, jax = j["fdtdx"], j["jnp"], j["jax"]
    gc = None
    if gradient == "reversible":
        gc = fdtdx.GradientConfig(method="reversible", recorder=fdtdx.Recorder(modules=[]))
    cfg = fdtdx.SimulationConfig(time=time, grid=make_grid(widths), dtype=jnp.float64, backend="cpu", gradient_config=gc,
                                 courant_factor=courant_factor)
    vol = fdtdx.SimulationVolume(partial_grid_shape=tuple(shape))
    kinds = {k: ("pml" if k in spec else ("none" if faces.get(k, "none") == "pml" else faces.get(k, "none"))) for k in Y.FACES}
    kw = {}
    for k in Y.FACES:
        kk = k.replace("_", "")
        if kinds[k] != "none":
            kw[f"boundary_type_{kk}"] = kinds[k]
        kw[f"thickness_grid_{kk}"] = spec.get(k, 1)
        for name, val in (params or {}).get(k, {}).items():
            kw[f"{name}_{kk}"] = val
    bd, bcons = fdtdx.boundary_objects_from_config(fdtdx.BoundaryConfig(**kw), vol)
    objs, cons = [vol], []
    for (k, b), cc in zip(bd.items(), bcons):
        if kinds[k] != "none":
            objs.append(b)
            cons.append(cc)
    if extra_fn is not None:
        o2, c2 = extra_fn(vol)
        objs += list(o2)
        cons += list(c2)
    objects, arrays, prm, config, info = fdtdx.place_objects(object_list=objs, config=cfg, constraints=cons,
                                                             key=jax.random.PRNGKey(0))
    sc = Y.Scene()
    sc.objects, sc.arrays, sc.params, sc.config = objects, arrays, prm, config
    sc.shape, sc.widths = tuple(shape), widths
    sc.faces = {k: ("none" if kinds[k] == "pml" else kinds[k]) for k in Y.FACES}
    sc.bloch_vector = (0.0, 0.0, 0.0)
    sc.volume = vol
    sc.pml_spec, sc.pml_params = dict(spec), params
    return sc


def make_grid(widths, spacing=50e-9):
    j = Y.J()
    fdtdx, jnp = j["fdtdx"], j["jnp"]
    if widths is None:
        return fdtdx.UniformGrid(spacing=spacing)
    edges = [np.concatenate([[0.0], np.cumsum(np.asarray(w, dtype=np.float64))]) for w in widths]
    return fdtdx.RectilinearGrid(x_edges=jnp.asarray(edges[0]), y_edges=jnp.asarray(edges[1]), z_edges=jnp.asarray(edges[2]))


def step_duration(widths=None, courant_factor=0.99, spacing=50e-9):
    """time_step_duration of the grid Y.build would create (no placement needed)"""
    j = Y.J()
    cfg = j["fdtdx"].SimulationConfig(time=1e-15, grid=make_grid(widths, spacing), dtype=j["jnp"].float64, backend="cpu",
                                      courant_factor=courant_factor)
    return float(cfg.time_step_duration)


def build_steps(shape, faces, spec, steps, via_config=False, **kw):
    """scene whose run has exactly `steps` time steps"""
    dt = step_duration(kw.get("widths"), kw.get("courant_factor", 0.99))
    sc = (build_cfg if via_config else build)(shape, faces, spec, time=(steps + 0.01) * dt, **kw)
    assert int(sc.config.time_steps_total) == steps, (int(sc.config.time_steps_total), steps)
    return sc


def pml_list(scene):
    return list(scene.objects.pml_objects)


def box_of(p):
    t = p.grid_slice_tuple
    return [int(t[0][0]), int(t[0][1]), int(t[1][0]), int(t[1][1]), int(t[2][0]), int(t[2][1])]


def coef_arrays(p):
    """(aE, bE, ikE, aH, bH, ikH) as 1-D float64 arrays of length thickness"""
    return [np.asarray(getattr(p, n), dtype=np.float64).ravel()
            for n in ("pml_a_E", "pml_b_E", "inv_kappa_E", "pml_a_H", "pml_b_H", "inv_kappa_H")]


def pml_block(p, psi_e, psi_h, coefs=None):
    """protocol tokens of one PmlSt; psi_e / psi_h: pairs of box-shaped arrays"""
    b = box_of(p)
    L = b[2 * p.axis + 1] - b[2 * p.axis]
    kd = (p.kappa_start == 1.0 and p.kappa_end == 1.0)
    t = [str(p.axis), "1" if p.direction == "+" else "0"] + [str(x) for x in b] + ["1" if kd else "0", str(L)]
    for c in (coefs or coef_arrays(p)):
        assert c.size == L
        t += [f2h(x) for x in c]
    vol = (b[1] - b[0]) * (b[3] - b[2]) * (b[5] - b[4])
    for a in (psi_e[0], psi_e[1], psi_h[0], psi_h[1]):
        a = np.asarray(a, dtype=np.float64)
        assert a.size == vol
        t += [f2h(x) for x in a.ravel()]
    return t


def pmls_tokens(scene, psi_E, psi_H):
    ps = pml_list(scene)
    t = [str(len(ps))]
    for p in ps:
        t += pml_block(p, psi_E[p.name], psi_H[p.name])
    return t


def yee_tail(scene, E, H, inv_eps, inv_mu, src=None):
    """the Yee request without op and kind tokens"""
    line = Y.request(scene, "x", E, H, inv_eps, inv_mu, None, None, src, 1, False)
    return line.split(" ", 2)[2]


def decode(reply, scene, n_fields, psi_per_pml):
    """reply -> list of n_fields (3,nx,ny,nz) arrays and, per PML, `psi_per_pml` box-shaped arrays"""
    if reply == "bad-op":
        raise ValueError("model rejected the request")
    vals = np.array([h2f(x) for x in reply.split()], dtype=np.float64)
    nx, ny, nz = scene.shape
    n = 3 * nx * ny * nz
    out, pos = [], 0
    for _ in range(n_fields):
        out.append(vals[pos:pos + n].reshape(3, nx, ny, nz))
        pos += n
    psis = {}
    for p in pml_list(scene):
        b = box_of(p)
        shp = (b[1] - b[0], b[3] - b[2], b[5] - b[4])
        v = shp[0] * shp[1] * shp[2]
        cur = []
        for _ in range(psi_per_pml):
            cur.append(vals[pos:pos + v].reshape(shp))
            pos += v
        psis[p.name] = cur
    if pos != vals.size:
        raise ValueError(f"model reply has {vals.size} scalars, expected {pos}")
    return out, psis


def interior_mask(scene):
    m = np.ones(scene.shape, dtype=bool)
    for p in pml_list(scene):
        m[p.grid_slice] = False
    return m


def iface_mask(scene):
    m = np.zeros(scene.shape, dtype=bool)
    for p in pml_list(scene):
        m[p.interface_slice()] = True
    return m


def random_psi(scene, r, scale=1.0):
    jnp = Y.J()["jnp"]
    pe, ph = {}, {}
    for p in pml_list(scene):
        pe[p.name] = tuple(jnp.asarray(scale * r.standard_normal(p.grid_shape)) for _ in range(2))
        ph[p.name] = tuple(jnp.asarray(scale * r.standard_normal(p.grid_shape)) for _ in range(2))
    return pe, ph


def with_psi(arrays, psi_E, psi_H):
    a = arrays.aset("fields->psi_E", psi_E)
    return a.aset("fields->psi_H", psi_H)
