"""C18 — fdtdx.apply_params (device parameters -> material arrays) vs lean/FdtdxModel/C18.lean"""
import warnings

import numpy as np

RULE = ("K: fdtdx.apply_params on scenes built with fdtdx.place_objects: volume 3-7 cells per axis; permittivity tier "
        "isotropic / diagonal / full tensor (decided by the materials present); optional background slab (plain or "
        "dispersive) partly under the devices; 1-2 devices (two-device scenes always of MIXED kinds — etched+discrete, continuous+etched, continuous+discrete … — over a full background slab when one is etched, with histories of 2-3 sets applied to the returned arrays; the second device sometimes overlaps the first) of kind "
        "continuous (2 materials, no transform or StandardToCustomRange), etched (1 material, use_etching) or discrete "
        "(2-4 materials, ClosestIndex; BINARY and DISCRETE), design voxels of 1-2 cells per axis, Lorentz/Drude materials "
        "(isotropic and per-axis poles) and CCPR critical-point poles with non-zero dE/dt coupling (so that dispersive_c4 is allocated; always present in two fixed discrete/continuous scenes) in a fraction of the scenes; "
        "parameter histories of 1-3 sets per device (continuous: [0,1] incl. exact 0 and 1; discrete: latent values incl. "
        "half-integers and out-of-range). The final inv_permittivities and dispersive_c1..c4 after the whole history are "
        "compared with the model (tol 1e-12 for 1/3 components, 1e-9 for full tensors whose inverse the implementation "
        "forms by LU). Independent numpy oracle on the implementation for every case: cells outside all devices bitwise "
        "unchanged; continuous cells = inverse of the linear blend (from the transformed parameters returned by "
        "Device.__call__, expanded with the index law i // v) and inside [min,max] of the two inverse permittivities; "
        "discrete cells = the table entry of exactly one device material for every component and every coefficient "
        "array; history independence (whole history vs last set on fresh arrays, bitwise). expand_matrix/jnp.repeat is "
        "compared with the model's repeatList. non-trivial = etched, or overlapping devices, or history longer than one, "
        "or non-isotropic tier, or dispersive arrays present.")

_j = None


def J():
    global _j
    if _j is None:
        import jax
        jax.config.update("jax_enable_x64", True)
        import jax.numpy as jnp
        import fdtdx
        from fdtdx.core.misc import expand_matrix
        from fdtdx.dispersion import compute_pole_coefficients_tensor
        _j = dict(jax=jax, jnp=jnp, fdtdx=fdtdx, expand_matrix=expand_matrix, pole_coefs=compute_pole_coefficients_tensor)
    return _j


# ------------------------------------------------------------------------------------ scene description
# mat = {"eps": float | [3] | [9], "mu": float, "poles": [ {"kind": "lorentz", "w0":…, "g":…, "de":…} | {"kind":"drude","wp":…,"g":…} ]}
# dev = {"name", "lo":[3], "shape":[3], "vox":[3], "kind": "cont"|"cont-range"|"etch"|"disc", "mats":[mat…]}
# case = {"N":[3], "bg": None | {"mat": mat, "lo": z0, "thick": t}, "devs":[dev…], "hist":[ {devname: flat latent list} … ]}

def build_material(m):
    fx = J()["fdtdx"]
    e = m["eps"]
    e = float(e) if not isinstance(e, (list, tuple)) else tuple(float(v) for v in e)
    poles = []
    for p in m.get("poles", []):
        def ax(v):
            return tuple(v) if isinstance(v, (list, tuple)) else v
        if p["kind"] == "ccpr":      # critical-point pole: non-zero dE/dt coupling, allocates dispersive_c4
            poles.append(fx.CCPRPole.from_critical_point(amplitude=p["A"], phase=p["phi"], resonance_frequency=p["w0"], damping=p["g"]))
        elif p["kind"] == "lorentz":
            poles.append(fx.LorentzPole(resonance_frequency=ax(p["w0"]), damping=ax(p["g"]), delta_epsilon=ax(p["de"])))
        else:
            poles.append(fx.DrudePole(plasma_frequency=ax(p["wp"]), damping=ax(p["g"])))
    disp = fx.DispersionModel(poles=tuple(poles)) if poles else None
    return fx.Material(permittivity=e, permeability=float(m.get("mu", 1.0)), dispersion=disp)


def build_scene(case):
    j = J()
    fx, jnp, jax = j["fdtdx"], j["jnp"], j["jax"]
    with warnings.catch_warnings():
        warnings.simplefilter("ignore")
        cfg = fx.SimulationConfig(time=20e-15, grid=fx.UniformGrid(spacing=100e-9), backend="cpu", dtype=jnp.float64)
        N = tuple(case["N"])
        vol = fx.SimulationVolume(partial_grid_shape=N, name="vol")
        objs, cons = [vol], []
        if case.get("bg"):
            b = case["bg"]
            o = fx.UniformMaterialObject(name="bg", partial_grid_shape=(N[0], N[1], b["thick"]), material=build_material(b["mat"]))
            cons.append(o.place_relative_to(vol, axes=(0, 1, 2), own_positions=(-1, -1, -1), other_positions=(-1, -1, -1),
                                            grid_margins=(0, 0, b["lo"])))
            objs.append(o)
        for d in case["devs"]:
            mats = {f"{d['name']}_m{i}": build_material(m) for i, m in enumerate(d["mats"])}
            if d["kind"] == "disc":
                tr = [fx.ClosestIndex()]
            elif d["kind"] == "cont-range":
                tr = [fx.StandardToCustomRange(min_value=0.0, max_value=1.0)]
            else:
                tr = []
            dev = fx.Device(name=d["name"], partial_grid_shape=tuple(d["shape"]), materials=mats, param_transforms=tr,
                            partial_voxel_grid_shape=tuple(d["vox"]), use_etching=(d["kind"] == "etch"))
            cons.append(dev.place_relative_to(vol, axes=(0, 1, 2), own_positions=(-1, -1, -1), other_positions=(-1, -1, -1),
                                              grid_margins=tuple(d["lo"])))
            objs.append(dev)
        oc, arrays, params, cfg2, _ = fx.place_objects(objs, cfg, cons, key=jax.random.PRNGKey(0))
    return oc, arrays, params, cfg2


def latent_arrays(case, oc, h):
    jnp = J()["jnp"]
    out = {}
    for dev in oc.devices:
        out[dev.name] = jnp.asarray(np.asarray(h[dev.name], dtype=np.float64).reshape(dev.matrix_voxel_grid_shape))
    return out


def snapshot(arrays):
    def a(x):
        return None if x is None else np.asarray(x, dtype=np.float64)
    return {"inv": a(arrays.inv_permittivities), "init": a(arrays.initial_inv_permittivities),
            "c": [a(arrays.dispersive_c1), a(arrays.dispersive_c2), a(arrays.dispersive_c3), a(arrays.dispersive_c4)]}


def run_history(case, oc, arrays, hist, jit=False):
    j = J()
    fx, jax = j["fdtdx"], j["jax"]
    key = jax.random.PRNGKey(1)
    cur = arrays
    with warnings.catch_warnings():
        warnings.simplefilter("ignore")
        for h in hist:
            p = latent_arrays(case, oc, h)
            if jit:
                cur = jax.jit(lambda a, pp: fx.apply_params(a, oc, pp, key)[0])(cur, p)
            else:
                cur, _, _ = fx.apply_params(cur, oc, p, key)
    return cur


# -------------------------------------------------------------------- independent reading of the scene
def eps9(e):
    if not isinstance(e, (list, tuple)):
        return [float(e), 0, 0, 0, float(e), 0, 0, 0, float(e)]
    if len(e) == 3:
        return [float(e[0]), 0, 0, 0, float(e[1]), 0, 0, 0, float(e[2])]
    return [float(v) for v in e]


def ordered(mats):
    return sorted(mats, key=lambda m: (eps9(m["eps"])[0], float(m.get("mu", 1.0))))


def perm_rows(mats, C):
    rows = []
    for m in ordered(mats):
        e = eps9(m["eps"])
        rows.append([e[0]] if C == 1 else [e[0], e[4], e[8]] if C == 3 else e)
    return rows


def coef_rows(mats, snap, dt):
    """per ordered material: concatenated (c1,c2,c3[,c4]) rows flattened over (pole, component); [] when no dispersive arrays"""
    if snap["c"][0] is None:
        return [[] for _ in mats], 0
    P = snap["c"][0].shape[0]
    comps = [snap["c"][t].shape[1] if snap["c"][t] is not None else None for t in range(4)]
    rows = []
    for m in ordered(mats):
        mat = build_material(m)
        tabs = [np.zeros((P, c)) if c is not None else None for c in comps]
        if mat.dispersion is not None:
            vals = J()["pole_coefs"](mat.dispersion.poles, dt)
            n = len(mat.dispersion.poles)
            for t in range(4):
                if comps[t] is None:
                    continue
                v = np.asarray(vals[t])
                if t < 2:
                    tabs[t][:n] = v[:, :comps[t]]
                elif comps[t] == 9:
                    tabs[t][:n] = v
                else:
                    tabs[t][:n] = v[:, [0, 4, 8][:comps[t]]]
        rows.append([float(x) for t in range(4) if tabs[t] is not None for x in tabs[t].ravel()])
    return rows, len(rows[0])


def stack_coef(snap):
    """(Q, N0, N1, N2) stack of the coefficient arrays that exist"""
    parts = [c.reshape((-1,) + c.shape[2:]) for c in snap["c"] if c is not None]
    if not parts:
        return np.zeros((0,) + snap["inv"].shape[1:])
    return np.concatenate(parts, axis=0)


def inv_prop(a):
    """numpy version of _invert_property on (C, ...)"""
    if a.shape[0] in (1, 3):
        return 1.0 / a
    m = np.moveaxis(a, 0, -1).reshape(a.shape[1:] + (3, 3))
    return np.moveaxis(np.linalg.inv(m).reshape(a.shape[1:] + (9,)), -1, 0)


def dev_slices(oc):
    out = []
    for dev in oc.devices:
        sl = dev.grid_slice
        out.append((dev.name, tuple((s.start, s.stop) for s in sl), tuple(dev.single_voxel_grid_shape), dev))
    return out


# ------------------------------------------------------------------------ property oracle (numpy)
def oracle(case, oc, A0, final, transformed_last, dt):
    """property statement on the final arrays; `transformed_last[name]` = Device.__call__(last params) at design resolution"""
    C = A0["inv"].shape[0]
    N = A0["inv"].shape[1:]
    devs = dev_slices(oc)
    spec = {d["name"]: d for d in case["devs"]}
    inside = np.zeros(N, dtype=bool)
    for _, sl, _, _ in devs:
        inside[sl[0][0]:sl[0][1], sl[1][0]:sl[1][1], sl[2][0]:sl[2][1]] = True
    base = A0["init"] if A0["init"] is not None else A0["inv"]
    # (a) outside every device: unchanged, bitwise
    if not np.array_equal(final["inv"][:, ~inside], base[:, ~inside]):
        idx = np.argwhere((final["inv"] != base) & ~inside[None])[0]
        return f"inv_permittivities changed outside every device at (component,i,j,k)={tuple(int(t) for t in idx)}: {base[tuple(idx)]!r} -> {final['inv'][tuple(idx)]!r}"
    c0, cf = stack_coef(A0), stack_coef(final)
    if c0.shape[0] and not np.array_equal(cf[:, ~inside], c0[:, ~inside]):
        return "dispersive coefficients changed outside every device"
    # (b) device cells, in container order, on a running copy
    run = base.copy()
    for di, (name, sl, vox, dev) in enumerate(devs):
        d = spec[name]
        rows = np.asarray(perm_rows(d["mats"], C))          # (nmat, C)
        t = np.asarray(transformed_last[name], dtype=np.float64)
        ii = (np.arange(sl[0][1] - sl[0][0]) // vox[0])[:, None, None]
        jj = (np.arange(sl[1][1] - sl[1][0]) // vox[1])[None, :, None]
        kk = (np.arange(sl[2][1] - sl[2][0]) // vox[2])[None, None, :]
        if tuple(t.shape) != tuple(dev.matrix_voxel_grid_shape):
            return f"device {name}: transformed parameters have shape {t.shape}, design grid is {dev.matrix_voxel_grid_shape}"
        x = t[ii, jj, kk]                                   # expand_matrix index law
        S = (slice(None), slice(*sl[0]), slice(*sl[1]), slice(*sl[2]))
        later = np.zeros(N, dtype=bool)
        for _, sl2, _, _ in devs[di + 1:]:
            later[sl2[0][0]:sl2[0][1], sl2[1][0]:sl2[1][1], sl2[2][0]:sl2[2][1]] = True
        vis = ~later[S[1:]]
        got = final["inv"][S]
        crow, Q = coef_rows(d["mats"], A0, dt)
        crow = np.asarray(crow).reshape(len(d["mats"]), Q)
        gotc = cf[S] if Q else None
        if d["kind"] in ("cont", "cont-range", "etch"):
            if d["kind"] == "etch":
                bg = inv_prop(run[S])
                perm = bg + x[None] * (rows[0][:, None, None, None] - bg)
                lo_hi = None
            else:
                e0, e1 = rows[0][:, None, None, None], rows[1][:, None, None, None]
                perm = e0 + x[None] * (e1 - e0)
                lo_hi = (np.minimum(1 / rows[0], 1 / rows[1]), np.maximum(1 / rows[0], 1 / rows[1])) if C in (1, 3) else None
            exp = inv_prop(perm)
            tol = 1e-12 if C in (1, 3) else 1e-9
            err = np.abs(got - exp)[:, vis] / np.maximum(1.0, np.abs(exp)[:, vis])
            if err.size and not (np.max(err) <= tol):
                return (f"device {name} ({d['kind']}): inverse permittivity differs from the inverse of the linear blend by "
                        f"{float(np.max(err)):.3e} (rel.)")
            if lo_hi is not None and np.all((x >= 0) & (x <= 1)):
                lo, hi = lo_hi[0][:, None, None, None], lo_hi[1][:, None, None, None]
                bad = ((got < lo * (1 - 1e-14)) | (got > hi * (1 + 1e-14)))[:, vis]
                if bad.any():
                    return f"device {name}: continuous cell outside [min,max] of the two inverse permittivities"
            if Q:
                r1 = crow[min(1, len(crow) - 1)]
                expc = (1 - x)[None] * crow[0][:, None, None, None] + x[None] * r1[:, None, None, None]
                errc = np.abs(gotc - expc)[:, vis]
                if errc.size and not (np.max(errc) <= 1e-12 * max(1.0, float(np.max(np.abs(expc))))):
                    return f"device {name}: dispersive coefficients are not the linear blend of the two materials' coefficients"
            run[S] = exp
        else:
            inv_tab = inv_prop(rows.T[:, :, None, None])[:, :, 0, 0].T    # (nmat, C)
            # exactly one material per cell: same index for every component and every coefficient channel
            match = np.ones((len(rows),) + got.shape[1:], dtype=bool)
            for m in range(len(rows)):
                match[m] &= np.all(np.abs(got - inv_tab[m][:, None, None, None]) <= (1e-14 if C != 9 else 1e-12) * np.maximum(1.0, np.abs(inv_tab[m]))[:, None, None, None], axis=0)
                if Q:
                    match[m] &= np.all(np.abs(gotc - crow[m][:, None, None, None]) <= 1e-13 * np.maximum(1.0, np.abs(crow[m]))[:, None, None, None], axis=0)
            ok = match.any(axis=0)
            if not np.all(ok[vis]):
                c = np.argwhere(~ok & vis)[0]
                return (f"device {name} (discrete): cell {tuple(int(v) + sl[a][0] for a, v in enumerate(c))} has inverse permittivity "
                        f"{got[(slice(None),) + tuple(c)].tolist()} / coefficients that are not those of any single device material")
            # and it is the material selected by the transformed parameter
            mi = np.clip(x.astype(np.int64), 0, len(rows) - 1)
            sel = np.take_along_axis(match, mi[None], axis=0)[0]
            if not np.all(sel[vis]):
                c = np.argwhere(~sel & vis)[0]
                return f"device {name} (discrete): cell {tuple(int(v) for v in c)} does not carry the material with index {int(mi[tuple(c)])} chosen by the parameters"
            run[S] = inv_tab[mi].transpose(3, 0, 1, 2)
    return None


def property_fails(case, want_snap=False):
    j = J()
    oc, arrays, params, cfg = build_scene(case)
    A0 = snapshot(arrays)
    hist = case["hist"]
    fin_arr = run_history(case, oc, arrays, hist, jit=case.get("jit", False))
    final = snapshot(fin_arr)
    last = latent_arrays(case, oc, hist[-1])
    with warnings.catch_warnings():
        warnings.simplefilter("ignore")
        transformed = {dev.name: np.asarray(dev(last[dev.name], expand_to_sim_grid=False)) for dev in oc.devices}
    dt = float(cfg.time_step_duration)
    d = oracle(case, oc, A0, final, transformed, dt)
    if d is None and len(hist) > 1:
        only_last = snapshot(run_history(case, oc, arrays, hist[-1:], jit=case.get("jit", False)))
        if not np.array_equal(final["inv"], only_last["inv"]) or not np.array_equal(stack_coef(final), stack_coef(only_last)):
            dif = float(np.max(np.abs(final["inv"] - only_last["inv"])))
            d = (f"history dependence: applying {len(hist)} parameter sets leaves different materials than applying only the last one "
                 f"(max |Δ inv_permittivity| = {dif:.3e})")
    if d is None and (final["init"] is None) != (A0["init"] is None):
        d = "initial_inv_permittivities backup appeared/disappeared"
    if d is None and A0["init"] is not None and not np.array_equal(final["init"], A0["init"]):
        d = "initial_inv_permittivities backup was modified by apply_params"
    if want_snap:
        return d, (oc, A0, final, dt)
    return d


ETCH_SIGNATURE = "etched-device-erases-dispersion-of-background"
ETCH_NOOP_CASE = {"etch_noop": True, "N": [4, 3, 4], "jit": False,
                  "bg": {"mat": {"eps": 4.0, "poles": [{"kind": "lorentz", "w0": 3e15, "g": 1e14, "de": 1.5}]}, "lo": 1, "thick": 2},
                  "devs": [{"name": "dev0", "lo": [1, 0, 0], "shape": [2, 2, 4], "vox": [1, 2, 2], "kind": "etch", "mats": [{"eps": 1.0}]}],
                  "hist": [{"dev0": [0.0, 0.0, 0.0, 0.0]}]}


def etch_noop_fails(case):
    """documented behaviour of an etched device: parameters 0 leave the space unmodified (materials = permittivity AND dispersion)"""
    oc, arrays, params, cfg = build_scene(case)
    A0 = snapshot(arrays)
    final = snapshot(run_history(case, oc, arrays, case["hist"]))
    if not np.allclose(final["inv"], A0["inv"], rtol=1e-14, atol=0):
        return "etched device with all parameters 0 changed inv_permittivities"
    c0, cf = stack_coef(A0), stack_coef(final)
    if c0.shape[0] and not np.array_equal(c0, cf):
        idx = tuple(int(t) for t in np.argwhere(c0 != cf)[0])
        return (f"etched device with all parameters 0 (space documented as unmodified) erased the dispersive coefficients of the "
                f"background inside its slice: stacked coefficient {idx} was {c0[idx]!r}, is {cf[idx]!r}")
    return None


# ------------------------------------------------------------------------------------------- generators
def gen_mat(rng, tier, dispersive, lo=1.0, hi=12.0):
    e = round(rng.uniform(lo, hi), 3)
    if tier == "iso":
        eps = e
    elif tier == "diag":
        eps = [e, round(rng.uniform(lo, hi), 3), round(rng.uniform(lo, hi), 3)]
    else:
        o = [round(rng.uniform(-0.3, 0.3), 3) for _ in range(3)]
        dg = [e, round(rng.uniform(lo + 1, hi), 3), round(rng.uniform(lo + 1, hi), 3)]
        eps = [dg[0], o[0], o[1], o[0], dg[1], o[2], o[1], o[2], dg[2]]
    m = {"eps": eps, "mu": 1.0}
    if dispersive and rng.chance(0.7):
        poles = []
        for _ in range(rng.randint(1, 2)):
            per_axis = dispersive == "axis" and rng.chance(0.6)
            def val(a, b):
                return [round(rng.uniform(a, b), 4) for _ in range(3)] if per_axis else round(rng.uniform(a, b), 4)
            if dispersive == "ccpr" or (not per_axis and rng.chance(0.25)):
                poles.append({"kind": "ccpr", "A": round(rng.uniform(0.3, 1.5), 4), "phi": round(rng.uniform(-1.2, -0.3), 4),
                              "w0": round(rng.uniform(2e15, 5e15), -11), "g": round(rng.uniform(3e14, 9e14), -10)})
            elif rng.chance(0.6):
                poles.append({"kind": "lorentz", "w0": val(1e15, 5e15), "g": val(1e13, 3e14), "de": val(0.2, 2.0)})
            else:
                poles.append({"kind": "drude", "wp": val(1e15, 4e15), "g": val(1e13, 3e14)})
        m["poles"] = poles
    return m


def gen_case(rng, i, big=False):
    tier = ["iso", "iso", "diag", "iso", "full", "diag"][i % 6]
    dispersive = [None, "ccpr", "iso", None, "axis", "iso"][(i // 2) % 6] if tier != "full" else None
    # a small pool of volume shapes keeps XLA's per-shape compilation of the eager operations affordable;
    # positions, kinds, materials, voxel sizes and values are random.  thorough: free shapes as well.
    pool = [[6, 5, 4], [4, 3, 5], [3, 7, 4], [5, 4, 3]]
    if big and i % 2 == 1:
        N = [rng.randint(3, 8), rng.randint(3, 8), rng.randint(3, 8)]
    else:
        N = list(pool[rng.randint(0, len(pool) - 1)])
    case = {"N": N, "bg": None, "devs": [], "hist": [], "jit": (i % 13 == 4)}
    if rng.chance(0.6):
        thick = rng.randint(1, max(1, N[2] - 1))
        lo = rng.randint(0, N[2] - thick)
        case["bg"] = {"mat": gen_mat(rng, tier if rng.chance(0.7) else "iso", dispersive, 1.5, 9.0), "lo": lo, "thick": thick}
    ndev = 2 if (i % 3 == 2) else 1
    kinds_cycle = ["cont", "disc", "etch", "disc", "cont-range", "etch", "disc", "cont"]
    mixed_pairs = [("etch", "disc"), ("cont", "etch"), ("disc", "etch"), ("etch", "cont-range"), ("cont", "disc"), ("etch", "cont")]
    if ndev == 2:
        pair = mixed_pairs[(i // 3) % len(mixed_pairs)]
        if "etch" in pair:
            # a slab over the whole volume that differs from every etch material, so that etching is visible
            case["bg"] = {"mat": gen_mat(rng, tier, dispersive, 6.0, 9.0), "lo": 0, "thick": N[2]}
    for di in range(ndev):
        kind = pair[di] if ndev == 2 else kinds_cycle[i % len(kinds_cycle)]
        if big and i % 2 == 1:
            vox = [rng.choice([1, 1, 2]) for _ in range(3)]
            m = [rng.randint(1, min(3, max(1, N[a] // vox[a]))) for a in range(3)]
        else:
            vox = list(rng.choice([[1, 1, 1], [2, 1, 2], [1, 2, 1], [1, 1, 2]]))
            m = list(rng.choice([[2, 2, 1], [1, 2, 2], [2, 1, 2], [3, 1, 1], [1, 1, 1]]))
            for a in range(3):
                if vox[a] > N[a]:
                    vox[a] = 1
                m[a] = max(1, min(m[a], N[a] // vox[a]))
        lo = [rng.randint(0, N[a] - m[a] * vox[a]) for a in range(3)]
        shape = [m[a] * vox[a] for a in range(3)]
        if di == 1 and rng.chance(0.6):
            # try to overlap the first device: start inside it
            d0 = case["devs"][0]
            for a in range(3):
                cand = min(d0["lo"][a] + rng.randint(0, max(0, d0["shape"][a] - 1)), N[a] - shape[a])
                lo[a] = max(0, cand)
        if kind == "etch":
            mats = [gen_mat(rng, tier, dispersive, 1.0, 4.0)]
        elif kind == "disc":
            mats = [gen_mat(rng, tier, dispersive) for _ in range(rng.randint(2, 4))]
        else:
            mats = [gen_mat(rng, tier, dispersive) for _ in range(2)]
        if dispersive and rng.chance(0.3):
            for mm_ in mats:                      # plain device in a dispersive scene
                mm_.pop("poles", None)
        # distinct leading permittivities keep the material order well defined
        for t, mm_ in enumerate(mats):
            e = mm_["eps"]
            bump = 0.37 * t
            if isinstance(e, list):
                e[0] = round(e[0] + bump, 3)
            else:
                mm_["eps"] = round(e + bump, 3)
        case["devs"].append({"name": f"dev{di}", "lo": lo, "shape": shape, "vox": vox, "kind": kind, "mats": mats})
    nh = 1 + (i % 3)
    if ndev == 2:
        nh = 2 + ((i // 3) % 2)          # mixed scenes: always a history applied to the returned arrays
    for _ in range(nh):
        h = {}
        for d in case["devs"]:
            cnt = int(np.prod([d["shape"][a] // d["vox"][a] for a in range(3)]))
            if d["kind"] == "disc":
                n = len(d["mats"])
                vals = [rng.choice([rng.uniform(-0.7, n - 0.3), rng.randint(0, n - 1) + 0.5, float(rng.randint(-1, n)), rng.uniform(0, n - 1)])
                        for _ in range(cnt)]
            else:
                vals = [rng.choice([0.0, 1.0, rng.random(), rng.random(), rng.random()]) for _ in range(cnt)]
            h[d["name"]] = [float(v) for v in vals]
        case["hist"].append(h)
    return case


def overlapping(case):
    if len(case["devs"]) < 2:
        return False
    a, b = case["devs"][0], case["devs"][1]
    return all(a["lo"][t] < b["lo"][t] + b["shape"][t] and b["lo"][t] < a["lo"][t] + a["shape"][t] for t in range(3))


# ------------------------------------------------------------------------------------------- model side
def model_line(case, oc, A0, dt):
    from .common import f2h
    C = A0["inv"].shape[0]
    N = A0["inv"].shape[1:]
    c0 = stack_coef(A0)
    Q = c0.shape[0]
    toks = ["apply", *map(str, N), str(C), str(Q)]
    toks += [f2h(v) for v in A0["inv"].ravel()]
    if A0["init"] is not None:
        toks += ["1"] + [f2h(v) for v in A0["init"].ravel()]
    else:
        toks += ["0"]
    toks += [f2h(v) for v in c0.ravel()]
    devs = dev_slices(oc)
    spec = {d["name"]: d for d in case["devs"]}
    toks.append(str(len(devs)))
    for name, sl, vox, dev in devs:
        d = spec[name]
        toks += [str(sl[a][0]) for a in range(3)] + [str(sl[a][1]) for a in range(3)] + [str(v) for v in vox]
        mode = {"cont": 0, "cont-range": 0, "etch": 1, "disc": 2}[d["kind"]]
        toks += [str(mode), str(len(d["mats"]) if d["kind"] == "disc" else 0), str(len(d["mats"]))]
        toks += [f2h(v) for row in perm_rows(d["mats"], C) for v in row]
        crow, q = coef_rows(d["mats"], A0, dt)
        assert q == Q
        toks += [f2h(v) for row in crow for v in row]
    toks.append(str(len(case["hist"])))
    for h in case["hist"]:
        for name, _, _, _ in devs:
            toks += [f2h(v) for v in h[name]]
    return " ".join(toks)


def parse_model(rep, C, Q, N):
    from .common import h2f
    if "|" not in rep:
        return None, None
    a, b = rep.split("|")
    inv = np.asarray([h2f(t) for t in a.split()]).reshape((C,) + tuple(N))
    co = np.asarray([h2f(t) for t in b.split()]).reshape((Q,) + tuple(N))
    return inv, co


# ------------------------------------------------------------------------------------------- K
def run(ctx):
    j = J()
    n = ctx.scale(16, 160)
    fixed = [
        # etched device over a background slab, history of 3 (the reset to the backup matters)
        {"N": [4, 3, 4], "bg": {"mat": {"eps": 4.0}, "lo": 1, "thick": 2}, "jit": False,
         "devs": [{"name": "dev0", "lo": [1, 0, 0], "shape": [2, 2, 4], "vox": [1, 2, 2], "kind": "etch", "mats": [{"eps": 1.0}]}],
         "hist": [{"dev0": [0.3, 0.9, 1.0, 0.5]}, {"dev0": [1.0, 0.0, 0.25, 0.75]}, {"dev0": [0.5, 0.0, 1.0, 0.125]}]},
        # etched device on top of a continuous one (painter's order), backup present
        {"N": [4, 4, 3], "bg": {"mat": {"eps": 4.0}, "lo": 0, "thick": 3}, "jit": False,
         "devs": [{"name": "dev0", "lo": [0, 0, 0], "shape": [3, 2, 2], "vox": [1, 1, 1], "kind": "cont", "mats": [{"eps": 2.0}, {"eps": 6.0}]},
                  {"name": "dev1", "lo": [1, 1, 1], "shape": [2, 2, 2], "vox": [2, 1, 1], "kind": "etch", "mats": [{"eps": 1.0}]}],
         "hist": [{"dev0": [0.1 * t for t in range(12)], "dev1": [0.2, 0.4, 0.6, 0.8]},
                  {"dev0": [1.0 - 0.05 * t for t in range(12)], "dev1": [1.0, 0.0, 0.5, 0.25]}]},
    ]
    fixed += [
        # mixed kinds, disjoint: etched + discrete over a slab, history of 3 applied to the returned arrays
        {"N": [6, 5, 4], "bg": {"mat": {"eps": 5.0}, "lo": 0, "thick": 4}, "jit": False,
         "devs": [{"name": "dev0", "lo": [0, 0, 0], "shape": [2, 2, 2], "vox": [1, 1, 2], "kind": "etch", "mats": [{"eps": 1.0}]},
                  {"name": "dev1", "lo": [3, 2, 1], "shape": [2, 2, 2], "vox": [2, 1, 1], "kind": "disc",
                   "mats": [{"eps": 1.0}, {"eps": 3.0}, {"eps": 7.0}]}],
         "hist": [{"dev0": [0.9, 0.4, 0.7, 1.0], "dev1": [0.2, 1.6, 2.4, 0.5]},
                  {"dev0": [0.3, 0.8, 0.1, 0.6], "dev1": [2.0, 0.0, 1.0, 1.5]},
                  {"dev0": [0.5, 0.25, 1.0, 0.0], "dev1": [1.2, 2.7, 0.4, 0.6]}]},
        # discrete first, etched second, diagonal tier, history of 2
        {"N": [5, 4, 3], "bg": {"mat": {"eps": [3.0, 4.0, 5.0]}, "lo": 0, "thick": 3}, "jit": False,
         "devs": [{"name": "dev0", "lo": [0, 0, 0], "shape": [2, 2, 1], "vox": [1, 1, 1], "kind": "disc",
                   "mats": [{"eps": [1.0, 1.5, 2.0]}, {"eps": [6.0, 5.0, 4.0]}]},
                  {"name": "dev1", "lo": [2, 1, 1], "shape": [2, 2, 2], "vox": [1, 2, 1], "kind": "etch", "mats": [{"eps": [1.0, 1.2, 1.4]}]}],
         "hist": [{"dev0": [0.2, 0.8, 0.5, 1.3], "dev1": [0.8, 0.6, 1.0, 0.3]},
                  {"dev0": [0.9, 0.1, 0.7, 0.4], "dev1": [0.2, 0.9, 0.5, 0.7]}]},
    ]
    cp1 = {"kind": "ccpr", "A": 0.9, "phi": -0.8, "w0": 4.0e15, "g": 6e14}
    cp2 = {"kind": "ccpr", "A": 0.5, "phi": -0.5, "w0": 2.5e15, "g": 4e14}
    fixed += [
        # CCPR (critical-point) materials: dispersive_c4 exists. discrete device, 3 materials, history of 2
        {"N": [4, 3, 5], "bg": {"mat": {"eps": 3.0, "poles": [cp2]}, "lo": 0, "thick": 3}, "jit": False,
         "devs": [{"name": "dev0", "lo": [1, 0, 1], "shape": [2, 2, 2], "vox": [1, 2, 1], "kind": "disc",
                   "mats": [{"eps": 1.0}, {"eps": 2.5, "poles": [cp1]}, {"eps": 6.0, "poles": [cp2, {"kind": "drude", "wp": 2e15, "g": 1e14}]}]}],
         "hist": [{"dev0": [0.2, 1.4, 2.6, 0.9]}, {"dev0": [2.0, 0.0, 1.0, 1.6]}]},
        # … continuous device between a plain and a CCPR material, plus a discrete CCPR device next to it
        {"N": [6, 5, 4], "bg": None, "jit": False,
         "devs": [{"name": "dev0", "lo": [0, 1, 0], "shape": [2, 2, 2], "vox": [2, 1, 1], "kind": "cont",
                   "mats": [{"eps": 2.0}, {"eps": 5.0, "poles": [cp1, {"kind": "lorentz", "w0": 3e15, "g": 1e14, "de": 0.7}]}]},
                  {"name": "dev1", "lo": [3, 0, 1], "shape": [2, 2, 2], "vox": [1, 1, 2], "kind": "disc",
                   "mats": [{"eps": 1.5, "poles": [cp2]}, {"eps": 4.0, "poles": [cp1]}]}],
         "hist": [{"dev0": [0.0, 1.0, 0.25, 0.5], "dev1": [0.1, 0.9, 0.6, 0.4]},
                  {"dev0": [0.7, 0.3, 1.0, 0.0], "dev1": [1.0, 0.0, 0.2, 0.8]}]},
    ]
    lor = {"kind": "lorentz", "w0": 3e15, "g": 1e14, "de": 1.5}
    fixed += [
        # plain (non-dispersive) discrete device partly over a dispersive slab: the slab's coefficients must not survive
        {"N": [4, 3, 5], "bg": {"mat": {"eps": 4.0, "poles": [lor]}, "lo": 1, "thick": 3}, "jit": False,
         "devs": [{"name": "dev0", "lo": [1, 0, 1], "shape": [2, 2, 2], "vox": [1, 1, 2], "kind": "disc",
                   "mats": [{"eps": 1.0}, {"eps": 2.5}, {"eps": 6.0}]}],
         "hist": [{"dev0": [0.2, 1.4, 2.6, 0.9]}, {"dev0": [2.0, 0.0, 1.0, 1.5]}]},
        # … and the same for a continuous device whose second material is dispersive
        {"N": [4, 3, 5], "bg": {"mat": {"eps": 4.0, "poles": [lor]}, "lo": 0, "thick": 4}, "jit": False,
         "devs": [{"name": "dev0", "lo": [0, 1, 2], "shape": [2, 2, 2], "vox": [2, 1, 1], "kind": "cont",
                   "mats": [{"eps": 2.0}, {"eps": 5.0, "poles": [{"kind": "drude", "wp": 2e15, "g": 1e14}]}]}],
         "hist": [{"dev0": [0.0, 1.0, 0.25, 0.5]}]},
    ]
    cases = fixed + [gen_case(ctx.rng, i, ctx.thorough) for i in range(n)]
    lines, meta = [], []
    for ci, case in enumerate(cases):
        d, (oc, A0, final, dt) = property_fails(case, want_snap=True)
        C, N = A0["inv"].shape[0], A0["inv"].shape[1:]
        Q = stack_coef(A0).shape[0]
        kinds = tuple(dv["kind"] for dv in case["devs"])
        tier = {1: "iso", 3: "diag", 9: "full"}[C]
        ov = overlapping(case)
        nontriv = None
        if "etch" in kinds or ov or len(case["hist"]) > 1 or C != 1 or Q:
            nontriv = (ci, tier, kinds, ov, len(case["hist"]), Q > 0)
        ctx.case(sample={"op": "apply", "case": case, "inv_after": final["inv"].ravel()[:6].tolist()} if ci in (0, 3) else None,
                 nontrivial=nontriv, tier=tier, devices=len(kinds), history=len(case["hist"]), overlap=ov,
                 dispersive_arrays=Q > 0, c4_allocated=A0["c"][3] is not None, backup=A0["init"] is not None, background=case["bg"] is not None,
                 jit=case.get("jit", False), **{"kind_" + k: True for k in set(kinds)})
        ctx.impl_property_evals += 1
        if d:
            ctx.violation(case, d)
        lines.append(model_line(case, oc, A0, dt))
        meta.append((case, C, Q, N, final))
    replies = ctx.driver.ask_many(lines)
    for (case, C, Q, N, final), rep in zip(meta, replies):
        inv, co = parse_model(rep, C, Q, N)
        if inv is None:
            ctx.mismatch("apply", case, {"model": rep[:200]})
            continue
        tol = 1e-12 if C in (1, 3) else 1e-9
        ctx.expect_close("apply:inv", case, final["inv"].ravel(), inv.ravel(), tol=tol)
        if Q:
            ctx.expect_close("apply:coef", case, stack_coef(final).ravel(), co.ravel(), tol=1e-12)

    # known finding: an etched device with x = 0 everywhere must leave everything as it is, dispersion included
    ctx.case(nontrivial=("etch-noop",), tier="iso", kind_etch=True)
    ctx.impl_property_evals += 1
    d = etch_noop_fails(ETCH_NOOP_CASE)
    if d:
        ctx.violation(ETCH_NOOP_CASE, d, signature=ETCH_SIGNATURE)

    # expand_matrix (jnp.repeat) against the model's repeatList, and the index law
    jnp = j["jnp"]
    rl, rmeta = [], []
    for t in range(ctx.scale(8, 60)):
        m = [ctx.rng.randint(1, 4) for _ in range(3)]
        v = [ctx.rng.randint(1, 3) for _ in range(3)]
        mat = np.arange(int(np.prod(m))).reshape(m)
        two_d = t % 4 == 3
        src = mat[:, :, 0] if two_d else mat
        out = np.asarray(j["expand_matrix"](jnp.asarray(src), tuple(v)))
        mm = [m[0], m[1], 1 if two_d else m[2]]
        ref = mat[:, :, :1] if two_d else mat
        case = {"op": "expand", "m": mm, "v": v}
        ctx.case(nontrivial=("expand", tuple(mm), tuple(v)), tier="expand")
        ctx.impl_property_evals += 1
        ok = out.shape == tuple(mm[a] * v[a] for a in range(3)) and all(
            out[i0, i1, i2] == ref[i0 // v[0], i1 // v[1], i2 // v[2]]
            for i0 in range(out.shape[0]) for i1 in range(out.shape[1]) for i2 in range(out.shape[2]))
        if not ok:
            ctx.violation(case, f"expand_matrix: voxel (i,j,k) does not read design cell (i//{v[0]}, j//{v[1]}, k//{v[2]})")
        row = [int(x) for x in ref[:, 0, 0]]
        rl.append(f"repeat {v[0]} " + " ".join(map(str, row)))
        rmeta.append((case, " ".join(str(int(x)) for x in out[:, 0, 0])))
    for (case, impl), rep in zip(rmeta, ctx.driver.ask_many(rl)):
        ctx.expect_equal("repeat", case, impl, rep)


# ------------------------------------------------------------------------------------------- S
def search(ctx, hints):
    for h in hints:
        if isinstance(h, dict) and "devs" in h:
            ctx.impl_property_evals += 1
            d = property_fails(h)
            if d:
                ctx.violation(h, d)
                return
    # small scenes first: one device of each kind, each tier, histories 1..3
    from .common import Rng
    rng = Rng(12345)
    for size in (3, 4, 5):
        for tier_i in range(6):
            for kind_i in range(8):
                i = tier_i + 6 * kind_i
                case = gen_case(rng, i)
                case["N"] = [min(x, size + 1) for x in case["N"]]
                for d in case["devs"]:
                    for a in range(3):
                        d["vox"][a] = min(d["vox"][a], case["N"][a])
                        mm = max(1, min(d["shape"][a] // max(1, d["vox"][a]), case["N"][a] // d["vox"][a]))
                        d["shape"][a] = mm * d["vox"][a]
                        d["lo"][a] = min(d["lo"][a], case["N"][a] - d["shape"][a])
                if case["bg"]:
                    case["bg"]["thick"] = min(case["bg"]["thick"], case["N"][2])
                    case["bg"]["lo"] = min(case["bg"]["lo"], case["N"][2] - case["bg"]["thick"])
                for h in case["hist"]:
                    for d in case["devs"]:
                        cnt = int(np.prod([d["shape"][a] // d["vox"][a] for a in range(3)]))
                        h[d["name"]] = (h[d["name"]] * cnt)[:cnt]
                ctx.impl_property_evals += 1
                try:
                    d = property_fails(case)
                except Exception as e:  # a scene the implementation rejects is not a property failure
                    ctx.notes.append(f"search: scene rejected: {type(e).__name__}")
                    continue
                if d:
                    ctx.violation(case, d)
                    return


def replay(ctx, inp):
    if inp.get("op") == "expand":
        j = J()
        m, v = inp["m"], inp["v"]
        mat = np.arange(int(np.prod(m))).reshape(m)
        out = np.asarray(j["expand_matrix"](j["jnp"].asarray(mat), tuple(v)))
        ok = all(out[a, b, c] == mat[a // v[0], b // v[1], c // v[2]] for a in range(out.shape[0]) for b in range(out.shape[1]) for c in range(out.shape[2]))
        return None if ok else "expand_matrix index law fails"
    if inp.get("etch_noop"):
        return etch_noop_fails(inp)
    return property_fails(inp)
