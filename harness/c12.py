"""C12 — absorbing layers absorb (partial by nature).

K: PerfectlyMatchedLayer coefficient arrays after placement, step_cpml, curl_E / curl_H with PML objects and one
forward step, against FdtdxModel/Cpml.lean.  Oracle (independent of the model): numpy re-computation of the graded
profiles and coefficients + the algebraic clauses of the theorems evaluated on the placed arrays, and the property's
own scenario on the real code (8+-cell layers on every face, zero-DC pulse, EnergyDetector residual / peak < 1e-6;
thorough: also the 1e-4 comparison with a much larger reference domain)."""
import math

import numpy as np

from . import cpml_api as P
from . import yee_api as Y
from .common import f2h, h2f

RULE = ("Fixed: two BoundaryConfig objects in which EVERY per-face field (kind, thickness, sigma/kappa/alpha "
        "start/end/order of all six faces) has a distinct value -> boundary_objects_from_config must hand each face its own "
        "values (class, axis, direction, thickness, nine grading parameters; exact). Placed scenes are built through BoundaryConfig(per-face fields) -> boundary_objects_from_config; per face each of "
        "sigma/kappa/alpha start/end/order is independently absent (None), the documented default written out, or another "
        "value; the model `coef` and the numpy oracle are fed with the grading the user's input calls for (absent -> "
        "documented default, default sigma_end from the formula), never with values read back from the placed object, and "
        "the object's resolved parameters are compared with them. The quick absorption scenario is configured the same way "
        "with the documented defaults written out. K: placed scenes (quick: one non-uniform 22x6x5 scene with PML on a random subset of >= 2 faces; thorough: 4 "
        "uniform 22x7x6 scenes with PML on all six faces + 4 non-uniform ones), per-face thickness 1..6, default grading "
        "or random sigma/kappa/alpha start/end/order incl. sigma_start=alpha_start=0 (0/0 -> nan_to_num) and kappa != 1, "
        "plus PMLs placed directly with place_on_grid on the long axis with thickness 1..20, both directions, on the "
        "scene's grid and on an unplaced uniform config: (1) pml_a/b/inv_kappa E and H arrays vs model `coef` (profile, "
        "expm1, nan_to_num) and default sigma_end vs `sigend`; (2) step_cpml with random derivative / psi arrays, both "
        "coefficient sets and both simulate_boundaries values vs `stepcpml`; (3) curl_E / curl_H with the PML objects on "
        "random fields and psi vs `pmlcurlE/H` (curl and updated psi); (4) one forward() step vs `pmlfwd` (E, H, psi_E, "
        "psi_H). Tolerance 1e-9. Oracle on the implementation: numpy re-implementation of the coefficient formulas and "
        "of the default sigma_end, 0 < b <= 1, a <= 0, a = 0 and 1/kappa = 1 at the inner face for the default grading; "
        "scenario: 8 (thorough 8..10) cell layers on all faces, 28..36 cells per axis, dipole (thorough also "
        "finite-aperture plane) source with a sine-phase narrow-band Gaussian pulse, residual energy / peak < 1e-6 after "
        "the pulse has left; thorough (and the failing-input search): relative energy difference to a reference domain "
        "enlarged by 24 (search: 12) cells per side < 1e-4. non-trivial = non-default grading, thickness != 10, "
        "non-uniform grid, or a scenario.")

TOL = 1e-9


# ------------------------------------------------------------------------------------------- generators
def gen_grading(rng, default_p=0.4):
    if rng.chance(default_p):
        return {}
    g = {}
    if rng.chance(0.3):
        g["sigma_start"] = rng.choice([0.0, 0.05, 2.0])
    if rng.chance(0.5):
        g["sigma_end"] = rng.uniform(1e4, 2e6)
    if rng.chance(0.5):
        g["sigma_order"] = rng.choice([1.0, 2.0, 3.0, 3.5])
    if rng.chance(0.5):
        g["kappa_start"] = rng.choice([1.0, 1.0, 1.3])
        g["kappa_end"] = rng.choice([1.0, 2.0, 5.0])
        g["kappa_order"] = rng.choice([1.0, 3.0])
    if rng.chance(0.5):
        g["alpha_start"] = rng.choice([0.0, 0.0, 1e-3, 5.0])
        g["alpha_end"] = rng.choice([0.0, 1e-4])
        g["alpha_order"] = rng.choice([1.0, 2.0])
    return g


def documented_defaults():
    from fdtdx import constants
    return dict(sigma_start=0.0, sigma_order=3.0, kappa_start=1.0, kappa_end=1.0, kappa_order=3.0,
                alpha_start=0.01 * 2 * math.pi * float(constants.c) / 1.55e-6 * float(constants.eps0), alpha_end=0.0,
                alpha_order=1.0)


def gen_grading_cfg(rng):
    """what a user writes into BoundaryConfig for one face: each field independently absent (None), the documented
    default written out, or another value"""
    dd = documented_defaults()
    other = dict(sigma_start=[0.05, 2.0], sigma_end=[3e4, 4e5, 1.5e6], sigma_order=[1.0, 2.0, 3.5], kappa_start=[1.3],
                 kappa_end=[2.0, 5.0], kappa_order=[1.0, 2.0], alpha_start=[0.0, 1e-3, 5.0], alpha_end=[1e-4, 2.0],
                 alpha_order=[2.0])
    g = {}
    for name in P.GRADING_KEYS:
        r = rng.random()
        if r < 0.4:
            continue
        if r < 0.7 and name in dd:
            g[name] = dd[name]
        else:
            g[name] = rng.choice(other[name])
    return g


def expected_grading(given, thick):
    """the nine grading parameters a layer must use for what the user wrote (absent -> documented default; the default
    sigma_end is -(sigma_order+1) ln(1e-6) / (2 eta0 thickness)) — computed here, never read from the placed object"""
    from fdtdx import constants
    g = dict(documented_defaults())
    g.update({k: float(v) for k, v in given.items() if v is not None})
    if "sigma_end" not in g:
        g["sigma_end"] = -(g["sigma_order"] + 1.0) * math.log(1e-6) / (2.0 * float(constants.eta0) * thick)
    return [g[k] for k in P.GRADING_KEYS]


def gen_scene(rng, nonuniform):
    shape = [22, 6, 5] if nonuniform else [22, 7, 6]
    spec = {"min_x": rng.randint(1, 6), "max_x": rng.randint(1, 6), "min_y": rng.randint(1, 2), "max_y": rng.randint(1, 3),
            "min_z": rng.randint(1, 2), "max_z": rng.randint(1, 2)}
    if nonuniform:  # PML on a random subset of (at least two) faces, the other faces keep the zero halo
        keep = [k for k in Y.FACES if rng.chance(0.5)]
        while len(keep) < 2:
            keep.append(rng.choice([k for k in Y.FACES if k not in keep]))
        spec = {k: v for k, v in spec.items() if k in keep}
    # the PML objects are created through BoundaryConfig -> boundary_objects_from_config (per-face fields)
    params = {k: gen_grading_cfg(rng) for k in spec}
    widths = None
    if nonuniform:
        widths = [[50e-9 * rng.uniform(0.6, 1.6) for _ in range(n)] for n in shape]
    return dict(shape=shape, spec=spec, params=params, widths=widths, seed=rng.np_seed(), via_config=True)


def scene_of(c):
    return (P.build_cfg if c.get("via_config") else P.build)(c["shape"], {k: ("pml" if k in c["spec"] else "none") for k in Y.FACES}, c["spec"], params=c["params"],
                   widths=c["widths"])


# --------------------------------------------------------------------- independent numpy coefficient oracle
def np_coefs(plus, L, edges, g, dt, eps0):
    """re-implementation of _compute_pml_profile + the coefficient formulas (numpy, float64)"""
    if edges is None:
        if plus:
            dE = np.array([0.0] + [i - 0.5 for i in range(1, L)])
            dH = np.arange(L, dtype=np.float64)
        else:
            dE = np.array([L - 1.0 - i for i in range(L)])
            dH = np.array([L - 1.5 - i for i in range(L - 1)] + [0.0])
        norm = float(L)
    else:
        e = np.asarray(edges, dtype=np.float64)
        cen = 0.5 * (e[:-1] + e[1:])
        norm = e[-1] - e[0]
        if plus:
            dE = np.concatenate([[0.0], cen[:-1] - e[0]])
            dH = e[:-1] - e[0]
        else:
            dE = e[-1] - e[1:]
            dH = np.concatenate([e[-1] - cen[1:], [0.0]])
    out = []
    for d in (dE, dH):
        x = d / norm
        sig = g[0] + (g[1] - g[0]) * x ** g[2]
        kap = g[3] + (g[4] - g[3]) * x ** g[5]
        al = g[6] + (g[7] - g[6]) * x ** g[8]
        b = np.exp(-dt / eps0 * (sig / kap + al))
        with np.errstate(invalid="ignore", divide="ignore"):
            a = (b - 1.0) * sig / (sig + al * kap) / kap
        a = np.where(np.isnan(a), 0.0, a)
        out += [a, b, 1.0 / kap]
    return out, (dE, dH, norm)


def grading_of(p):
    return [float(x) for x in (p.sigma_start, p.sigma_end, p.sigma_order, p.kappa_start, p.kappa_end, p.kappa_order,
                               p.alpha_start, p.alpha_end, p.alpha_order)]


def edges_of(c, axis):
    if c["widths"] is None:
        return None
    return np.concatenate([[0.0], np.cumsum(np.asarray(c["widths"][axis], dtype=np.float64))])


def check_layer(ctx, c, sc, p, given, label):
    """coefficient arrays of one placed PML: K against the model, oracle against numpy + algebraic clauses"""
    j = Y.J()
    from fdtdx import constants
    L = int(p.thickness)
    plus = p.direction == "+"
    lo, hi = p.grid_slice_tuple[p.axis]
    e_all = edges_of(c, p.axis)
    edges = None if e_all is None else e_all[lo:hi + 1]
    dt, eps0, eta0 = float(sc.config.time_step_duration), float(constants.eps0), float(constants.eta0)
    thick = (L * 50e-9) if edges is None else float(edges[-1] - edges[0])
    g = expected_grading(given, thick)
    resolved = grading_of(p)
    impl = P.coef_arrays(p)
    case = dict(kind="coef", label=label, axis=int(p.axis), plus=plus, L=L, grading=given, nonuniform=edges is not None,
                scene=c)
    line = ["coef", "1" if plus else "0", str(L)]
    line += ["u"] if edges is None else ["n"] + [f2h(x) for x in edges]
    line += [f2h(dt), f2h(eps0)] + [f2h(x) for x in g]
    rep = ctx.driver.ask(" ".join(line))
    model = np.array([h2f(x) for x in rep.split()]) if rep != "bad-op" else np.zeros(0)
    ctx.expect_close("coef", case, np.concatenate(impl), model, tol=TOL)
    for name, have, want in zip(P.GRADING_KEYS, resolved, g):
        ctx.expect_close("resolved " + name, case, [have], [want], tol=TOL, floor=max(abs(want), 1e-300))
    if "sigma_end" not in given:
        rep = ctx.driver.ask(" ".join(["sigend", f2h(1e-6), f2h(g[2]), f2h(eta0), f2h(thick)]))
        ctx.expect_close("sigma_end default", case, [float(p.sigma_end)], [h2f(rep)] if rep != "bad-op" else [], tol=TOL,
                         floor=abs(g[1]))
    nt = (label, int(p.axis), plus, L, tuple(sorted(given.items())), edges is not None)
    ctx.case(sample=None, nontrivial=nt if (given or edges is not None or L != 10) else None, coef_L=L,
             coef_dir=p.direction, coef_axis=int(p.axis), coef_grid="nonuniform" if edges is not None else "uniform",
             coef_grading="default" if not given else "custom", placed=label)
    d = layer_oracle(impl, resolved, plus, L, edges, g, dt, eps0)
    ctx.impl_property_evals += 1
    if d:
        ctx.violation(case, d)


def layer_oracle(impl, resolved, plus, L, edges, g, dt, eps0):
    """g = the grading the user's input calls for (expected_grading); resolved = what the placed object reports"""
    for name, have, want in zip(P.GRADING_KEYS, resolved, g):
        if not abs(have - want) <= 1e-9 * max(abs(want), 1e-300):
            return f"layer uses {name} = {have!r} but the configuration calls for {want!r}"
    ref, _ = np_coefs(plus, L, edges, g, dt, eps0)
    for name, a, b in zip(("a_E", "b_E", "inv_kappa_E", "a_H", "b_H", "inv_kappa_H"), impl, ref):
        if a.shape != b.shape or not np.allclose(a, b, rtol=1e-9, atol=1e-12):
            return f"pml_{name} differs from the graded-profile formula: impl {a[:4]} expected {b[:4]}"
    sane = g[0] >= 0 and g[1] >= g[0] and g[3] >= 1 and g[4] >= g[3] and g[6] >= 0 and g[7] >= 0
    if sane:
        for a, b, ik in ((impl[0], impl[1], impl[2]), (impl[3], impl[4], impl[5])):
            if not (np.all(b > 0) and np.all(b <= 1)):
                return f"b outside (0,1]: {b}"
            if not np.all(a <= 0):
                return f"a > 0: {a}"
            i0 = 0 if plus else L - 1
            if g[0] == 0 and a[i0] != 0:
                return f"a != 0 at the inner face with sigma_start = 0: {a[i0]}"
            if g[3] == 1 and g[4] == 1 and not np.all(ik == 1):
                return f"inv_kappa != 1 with default kappa: {ik}"
            if g[3] == 1 and abs(ik[i0] - 1) > 0:
                return f"inv_kappa != 1 at the inner face: {ik[i0]}"
    return None


class _Cfg:
    """stand-in for a scene when only its config is needed (direct placement on an unplaced uniform config)"""

    def __init__(self):
        j = Y.J()
        self.config = j["fdtdx"].SimulationConfig(time=1e-15, grid=j["fdtdx"].UniformGrid(spacing=50e-9),
                                                  dtype=j["jnp"].float64, backend="cpu")


UNIFORM_C = dict(shape=[22, 7, 6], widths=None, spec={}, params={}, seed=0)


def direct_layer(rng, c, sc, thorough):
    """a PML placed directly with place_on_grid on the long axis (thickness 1..20)"""
    j = Y.J()
    L = rng.randint(1, 20)
    plus = rng.chance(0.5)
    given = gen_grading(rng, 0.3)
    n = c["shape"]
    box = [(0, n[0]), (0, n[1]), (0, n[2])]
    box[0] = (n[0] - L, n[0]) if plus else (0, L)
    q = j["fdtdx"].PerfectlyMatchedLayer(axis=0, partial_grid_shape=(L, None, None), direction="+" if plus else "-",
                                         name="direct", **given)
    q = q.place_on_grid(tuple(box), sc.config, j["jax"].random.PRNGKey(0))
    return q, given


# ------------------------------------------------------------------------------------------ K on a scene
def k_scene(ctx, c, sample=False):
    j = Y.J()
    jnp = j["jnp"]
    sc = scene_of(c)
    r = np.random.default_rng(c["seed"])
    pmls = P.pml_list(sc)
    for p in pmls:
        check_layer(ctx, c, sc, p, c["params"].get(p.descriptive_name, {}), "scene")
    for _ in range(ctx.scale(2, 30)):
        q, given = direct_layer(ctx.rng, c, sc, ctx.thorough)
        check_layer(ctx, c, sc, q, given, "direct")
    # ---- step_cpml
    for p in (pmls if ctx.thorough else [pmls[i] for i in sorted(set(r.integers(len(pmls), size=2).tolist()))]):
        is_e, sim = bool(r.integers(2)), bool(r.integers(4) > 0)
        shp = p.grid_shape
        d1, d2, s1, s2 = (r.standard_normal(shp) for _ in range(4))
        out = p.step_cpml(jnp.asarray(d1), jnp.asarray(d2), jnp.asarray(s1), jnp.asarray(s2), is_curl_E=is_e,
                          simulate_boundaries=sim)
        impl = np.concatenate([np.asarray(np.broadcast_to(np.asarray(o), shp), dtype=np.float64).ravel() for o in out])
        z = np.zeros(shp)
        blk = P.pml_block(p, (z, z) if is_e else (s1, s2), (s1, s2) if is_e else (z, z))
        line = ["stepcpml", "1" if is_e else "0", "1" if sim else "0"] + blk + [f2h(x) for x in d1.ravel()] + [f2h(x) for x in d2.ravel()]
        rep = ctx.driver.ask(" ".join(line))
        model = np.array([h2f(x) for x in rep.split()]) if rep != "bad-op" else np.zeros(0)
        case = dict(kind="step_cpml", scene=c, pml=p.name, is_curl_E=is_e, sim=sim)
        ctx.expect_close("step_cpml", case, impl, model, tol=TOL)
        kd = (p.kappa_start == 1.0 and p.kappa_end == 1.0)
        ctx.case(nontrivial=("step", p.name, is_e, sim, kd, c["seed"]), step_is_curl_E=is_e, step_sim=sim, step_kappa_default=kd)
    # ---- curls with PML objects, forward step
    nx, ny, nz = c["shape"]
    E, H = r.standard_normal((3, nx, ny, nz)), r.standard_normal((3, nx, ny, nz))
    inv_eps = r.uniform(0.3, 1.0, (3, nx, ny, nz))
    psi_E, psi_H = P.random_psi(sc, r)
    for sim in (True, False):
        Ep = j["pad"](jnp.asarray(E), sc.objects, sc.config)
        Hp = j["pad"](jnp.asarray(H), sc.objects, sc.config)
        cuE, pH = j["curl_E"](sc.config, Ep, psi_H, sc.objects, sim)
        cuH, pE = j["curl_H"](sc.config, Hp, psi_E, sc.objects, sim)
        for nm, cu, ps, op in (("curl_E", cuE, pH, "pmlcurlE"), ("curl_H", cuH, pE, "pmlcurlH")):
            line = [op, "1" if sim else "0"] + P.pmls_tokens(sc, psi_E, psi_H) + [P.yee_tail(sc, E, H, inv_eps, 1.0)]
            rep = ctx.driver.ask(" ".join(line))
            case = dict(kind=nm, scene=c, sim=sim)
            try:
                (mcu,), mps = P.decode(rep, sc, 1, 2)
            except ValueError as e:
                ctx.mismatch(nm, case, str(e))
                continue
            ctx.expect_close(nm, case, np.asarray(cu).ravel(), mcu.ravel(), tol=TOL)
            ctx.expect_close(nm + " psi", case, np.concatenate([np.asarray(a).ravel() for p in pmls for a in ps[p.name]]),
                             np.concatenate([a.ravel() for p in pmls for a in mps[p.name]]), tol=TOL)
            ctx.case(sample=dict(kind=nm, shape=c["shape"], spec=c["spec"], sim=sim) if sample and sim else None,
                     nontrivial=(nm, sim, c["seed"]), curl_sim=sim, curl_grid="nonuniform" if c["widths"] else "uniform")
    arrays = P.with_psi(Y.with_state(sc, E, H, inv_eps), psi_E, psi_H)
    st = Y.impl_forward(sc, arrays, t=0, n=1)
    f = st[1].fields
    line = ["pmlfwd", "1"] + P.pmls_tokens(sc, psi_E, psi_H) + [P.yee_tail(sc, E, H, inv_eps, 1.0)]
    rep = ctx.driver.ask(" ".join(line))
    case = dict(kind="forward", scene=c)
    try:
        (mE, mH), mps = P.decode(rep, sc, 2, 4)
        ctx.expect_close("forward E,H", case, np.concatenate([np.asarray(f.E).ravel(), np.asarray(f.H).ravel()]),
                         np.concatenate([mE.ravel(), mH.ravel()]), tol=TOL)
        ip = np.concatenate([np.asarray(a).ravel() for p in pmls for a in (*f.psi_E[p.name], *f.psi_H[p.name])])
        ctx.expect_close("forward psi", case, ip, np.concatenate([a.ravel() for p in pmls for a in mps[p.name]]), tol=TOL)
    except ValueError as e:
        ctx.mismatch("forward", case, str(e))
    ctx.case(nontrivial=("forward", c["seed"]), forward_grid="nonuniform" if c["widths"] else "uniform")


# ------------------------------------------------------------------------------ the property's own scenario
def gen_scenario(rng, thorough, kind=None):
    th = rng.randint(8, 10) if thorough else 8
    n = 2 * th + rng.randint(12, 16)
    kind = kind or rng.choice(["dipole_e", "dipole_m"])
    lo, hi = th + 3, n - th - 4
    return dict(kind="scenario", src=kind, n=n, th=th, pol=rng.randint(0, 2), pos=[rng.randint(lo, hi) for _ in range(3)],
                axis=rng.randint(0, 2), direction=rng.choice(["+", "-"]), lam_cells=rng.choice([10, 12, 14]),
                steps=700 if not thorough else 900, reference=False)


def scenario_scene(s, pad=0, field_det=False):
    """the scenario scene; pad > 0 = reference domain enlarged by `pad` cells on every side (same source position
    relative to the observation window)"""
    j = Y.J()
    fdtdx, jnp = j["fdtdx"], j["jnp"]
    n, th = s["n"] + 2 * pad, s["th"]
    lam = s["lam_cells"] * 50e-9
    win = s["n"] - 2 * s["th"]

    def fn(vol):
        wave = fdtdx.WaveCharacter(wavelength=lam, phase_shift=math.pi / 2)
        prof = fdtdx.GaussianPulseProfile(spectral_width=fdtdx.WaveCharacter(wavelength=6 * lam), center_wave=wave)
        objs, cons = [], []
        pos = [p + pad for p in s["pos"]]
        if s["src"].startswith("dipole"):
            src = fdtdx.PointDipoleSource(partial_grid_shape=(1, 1, 1), wave_character=fdtdx.WaveCharacter(wavelength=lam),
                                          polarization=s["pol"], temporal_profile=prof, name="src",
                                          source_type="electric" if s["src"] == "dipole_e" else "magnetic")
            cons.append(src.set_grid_coordinates(axes=(0, 1, 2), sides=("-", "-", "-"), coordinates=tuple(pos)))
        else:
            # finite aperture = the observation window (same source in the scenario and in the reference domain)
            ax = s["axis"]
            shp = [win, win, win]
            shp[ax] = 1
            pol = [0.0, 0.0, 0.0]
            pol[(ax + 1 + s["pol"] % 2) % 3] = 1.0
            src = fdtdx.UniformPlaneSource(partial_grid_shape=tuple(shp), wave_character=fdtdx.WaveCharacter(wavelength=lam),
                                           direction=s["direction"], fixed_E_polarization_vector=tuple(pol),
                                           temporal_profile=prof, name="src")
            cons.append(src.set_grid_coordinates(axes=ax, sides="-", coordinates=pos[ax]))
            cons.append(src.place_at_center(vol, axes=tuple(a for a in range(3) if a != ax)))
        objs.append(src)
        det = fdtdx.EnergyDetector(name="en", reduce_volume=True, partial_grid_shape=(win, win, win), dtype=jnp.float64)
        cons.append(det.place_at_center(vol))
        objs.append(det)
        if field_det:
            fd = fdtdx.FieldDetector(name="fd", partial_grid_shape=(win, win, 1), dtype=jnp.float64)
            # z index fixed explicitly: centring a 1-cell object in an even-sized volume hits a half-integer that is
            # rounded to even (13.5 -> 13 but 37.5 -> 38), which would shift the plane between scenario and reference
            cons.append(fd.place_at_center(vol, axes=(0, 1)))
            cons.append(fd.set_grid_coordinates(axes=2, sides="-", coordinates=s["n"] // 2 + pad))
            objs.append(fd)
        return objs, cons
    spec = {k: th for k in Y.FACES}
    params = None
    if s.get("explicit"):
        # the documented defaults written out by the user (BoundaryConfig -> boundary_objects_from_config route)
        dd = documented_defaults()
        params = {k: {n: dd[n] for n in s["explicit"]} for k in Y.FACES}
        return P.build_steps((n, n, n), {k: "pml" for k in Y.FACES}, spec, s["steps"], via_config=True, params=params,
                             extra_fn=fn, gradient=None)
    if s.get("kappa_end"):   # kappa grading on every face: exercises the `(1/kappa - 1) * d + psi` branch of step_cpml
        params = {k: dict(kappa_end=float(s["kappa_end"])) for k in Y.FACES}
    return P.build_steps((n, n, n), {k: "pml" for k in Y.FACES}, spec, s["steps"], params=params, extra_fn=fn, gradient=None)


def run_scene(sc):
    j = Y.J()
    fdtdx, jax = j["fdtdx"], j["jax"]
    key = jax.random.PRNGKey(0)
    run = jax.jit(lambda arrays: fdtdx.run_fdtd(arrays=arrays, objects=sc.objects, config=sc.config, key=key,
                                                show_progress=False))
    st = run(sc.arrays)
    return st[1].detector_states


def scenario_fails(s):
    """None when the property's clause(s) hold on the implementation, else a description"""
    sc = scenario_scene(s, field_det=s.get("reference", False))
    ds = run_scene(sc)
    en = np.asarray(ds["en"]["energy"], dtype=np.float64).ravel()
    if not np.all(np.isfinite(en)):
        return f"energy record is not finite from step {int(np.argmin(np.isfinite(en)))} on (unstable layer)"
    peak = float(en.max())
    if not peak > 0:
        return "no energy was injected (peak = 0)"
    k = int(np.argmax(en))
    if k > 0.6 * en.size:
        return f"pulse has not left: peak at step {k} of {en.size}"
    res = float(en[-1]) / peak
    if not res < 1e-6:
        return f"residual energy / peak = {res:.3e} >= 1e-6 after {en.size} steps"
    if s.get("reference", False):
        ref = run_scene(scenario_scene(s, pad=s.get("pad", 24), field_det=True))
        a = np.asarray(ds["fd"]["fields"], dtype=np.float64)
        b = np.asarray(ref["fd"]["fields"], dtype=np.float64)
        # energy-like norm: E components weighted by eps0, H by mu0 cancel in fdtdx's normalised units (H scaled by eta0)
        num, den = float(np.sum((a - b) ** 2)), float(np.sum(b ** 2))
        if not den > 0:
            return "reference run recorded no field"
        if not num / den < 1e-4:
            return f"relative energy difference to the reference domain = {num / den:.3e} >= 1e-4"
    return None


def scenario_case(ctx, s, sample=False):
    d = scenario_fails(s)
    ctx.impl_property_evals += 1
    ctx.case(sample=s if sample else None, nontrivial=("scenario", s["src"], s["n"], s["th"], s["pol"], tuple(s["pos"]), s["reference"]),
             scenario_kind=s["src"], scenario_reference=s["reference"], scenario_th=s["th"], scenario_kappa_end=s.get("kappa_end") or 1.0, scenario_explicit=bool(s.get("explicit")))
    if d:
        ctx.violation(s, d)


# ------------------------------------------------------- per-face getters of BoundaryConfig (no placement needed)
KINDS_B = {"min_x": "pml", "max_x": "pec", "min_y": "pmc", "max_y": "pml", "min_z": "periodic", "max_z": "bloch"}


def distinct_config(variant):
    """every per-face field of BoundaryConfig gets a DISTINCT value (base + face-dependent offset), so that a crossed
    entry in any of the get_*_dict tables shows. variant A: PML on all faces; B: five different kinds"""
    per = {}
    for fi, face in enumerate(Y.FACES):
        per[face] = dict(thickness=fi + 2, kind="pml" if variant == "A" else KINDS_B[face],
                         sigma_start=0.01 * (fi + 1), sigma_end=1e5 * (fi + 2), sigma_order=2.0 + 0.25 * fi,
                         kappa_start=1.0 + 0.1 * fi, kappa_end=2.0 + 0.5 * fi, kappa_order=1.0 + 0.5 * fi,
                         alpha_start=1e-3 * (fi + 1), alpha_end=1e-4 * (fi + 1), alpha_order=1.0 + 0.25 * fi)
    return dict(kind="config", variant=variant, per=per)


def config_fails(inp, collect=None):
    """boundary_objects_from_config(BoundaryConfig(**what the user wrote)) must hand every face its own values"""
    f = Y.J()["fdtdx"]
    kw = {}
    for face, d in inp["per"].items():
        kk = face.replace("_", "")
        kw[f"boundary_type_{kk}"] = d["kind"]
        kw[f"thickness_grid_{kk}"] = d["thickness"]
        for name in P.GRADING_KEYS:
            kw[f"{name}_{kk}"] = d[name]
    vol = f.SimulationVolume(partial_grid_shape=(20, 20, 20))
    bd, _ = f.boundary_objects_from_config(f.BoundaryConfig(**kw), vol)
    cls = {"pml": "PerfectlyMatchedLayer", "pec": "PerfectElectricConductor", "pmc": "PerfectMagneticConductor",
           "periodic": "BlochBoundary", "bloch": "BlochBoundary"}
    bad = None
    for face, d in inp["per"].items():
        b = bd[face]
        ax, di = P.axis_dir(face)
        want = dict(cls=cls[d["kind"]], axis=ax, direction=di, thickness=d["thickness"] if d["kind"] == "pml" else 1)
        have = dict(cls=type(b).__name__, axis=int(b.axis), direction=b.direction, thickness=int(b.partial_grid_shape[ax]))
        if d["kind"] == "pml":
            for name in P.GRADING_KEYS:
                want[name] = float(d[name])
                v = getattr(b, name)
                have[name] = None if v is None else float(v)
        if collect is not None:
            collect.append((face, have, want))
        for k in want:
            if have[k] != want[k] and bad is None:
                bad = f"{face}: the boundary object has {k} = {have[k]!r} but the configuration says {want[k]!r}"
    return bad


def k_config(ctx):
    for variant in ("A", "B"):
        inp = distinct_config(variant)
        rows = []
        d = config_fails(inp, rows)
        ctx.impl_property_evals += 1
        for face, have, want in rows:
            ctx.expect_equal("boundary_objects_from_config " + face, inp, have, want)
            ctx.case(nontrivial=("config", variant, face), config_variant=variant, config_kind=want["cls"])
        if d:
            ctx.violation(inp, d)


def run(ctx):
    k_config(ctx)
    # quick: ONE placed scene (non-uniform grid; the uniform curl/forward path with PMLs is K-checked by C03's quick
    # tier and run by the scenario below) + directly placed layers on a uniform config; thorough: both kinds, 4 each
    if ctx.thorough:
        for i in range(4):
            for nonuni in (False, True):
                k_scene(ctx, gen_scene(ctx.rng, nonuni), sample=(i == 0))
    else:
        k_scene(ctx, gen_scene(ctx.rng, True), sample=True)
    uc = _Cfg()
    for _ in range(ctx.scale(4, 20)):
        q, given = direct_layer(ctx.rng, UNIFORM_C, uc, ctx.thorough)
        check_layer(ctx, UNIFORM_C, uc, q, given, "direct-uniform")
    # the absorption oracle runs on a scene configured through BoundaryConfig with explicitly written parameters
    s0 = gen_scenario(ctx.rng, ctx.thorough)
    s0["explicit"] = ["sigma_start", "alpha_start", "alpha_end", "kappa_start", "kappa_end"] + \
        [n for n in ("sigma_order", "alpha_order", "kappa_order") if ctx.rng.chance(0.5)]
    scenario_case(ctx, s0, sample=True)
    if ctx.thorough:
        scenario_case(ctx, gen_scenario(ctx.rng, True))
        for kind in ("dipole_e", "dipole_m", "plane", "plane"):
            scenario_case(ctx, gen_scenario(ctx.rng, True, kind))
        s = gen_scenario(ctx.rng, True, "dipole_m")
        s["kappa_end"] = 2.0
        scenario_case(ctx, s)
        for kind in ("dipole_e", "plane"):
            s = gen_scenario(ctx.rng, False, kind)
            s["reference"] = True
            scenario_case(ctx, s, sample=True)


# ------------------------------------------------------------------------------------------------ S
def property_fails(inp):
    kind = inp.get("kind")
    if kind == "config":
        return config_fails(inp)
    if kind == "scenario":
        return scenario_fails(inp)
    # every other case lives in a scene: evaluate the coefficient oracle on all its layers, then a small scenario
    c = inp.get("scene", inp)
    if inp.get("kind") == "coef" and inp.get("label", "").startswith("direct"):
        return direct_fails(inp)
    if "spec" not in c or not c["spec"]:
        return None
    from fdtdx import constants
    sc = scene_of(c)
    dt, eps0 = float(sc.config.time_step_duration), float(constants.eps0)
    for p in P.pml_list(sc):
        lo, hi = p.grid_slice_tuple[p.axis]
        e_all = edges_of(c, p.axis)
        edges = None if e_all is None else e_all[lo:hi + 1]
        L = int(p.thickness)
        thick = (L * 50e-9) if edges is None else float(edges[-1] - edges[0])
        d = layer_oracle(P.coef_arrays(p), grading_of(p), p.direction == "+", L, edges,
                         expected_grading(c["params"].get(p.descriptive_name, {}), thick), dt, eps0)
        if d:
            return f"{p.name}: {d}"
    return None


def direct_fails(inp):
    """re-place one directly placed layer and evaluate the coefficient oracle"""
    j = Y.J()
    from fdtdx import constants
    c = inp["scene"]
    sc = _Cfg() if not c.get("spec") else scene_of(c)
    L, plus, given = inp["L"], inp["plus"], inp["grading"]
    n = c["shape"]
    box = [(0, n[0]), (0, n[1]), (0, n[2])]
    box[0] = (n[0] - L, n[0]) if plus else (0, L)
    q = j["fdtdx"].PerfectlyMatchedLayer(axis=0, partial_grid_shape=(L, None, None), direction="+" if plus else "-",
                                         name="direct", **given)
    q = q.place_on_grid(tuple(box), sc.config, j["jax"].random.PRNGKey(0))
    e_all = edges_of(c, 0)
    edges = None if e_all is None else e_all[box[0][0]:box[0][1] + 1]
    thick = (L * 50e-9) if edges is None else float(edges[-1] - edges[0])
    return layer_oracle(P.coef_arrays(q), grading_of(q), plus, L, edges, expected_grading(given, thick),
                        float(sc.config.time_step_duration), float(constants.eps0))


def search(ctx, hints):
    for h in hints:
        if isinstance(h, dict):
            ctx.impl_property_evals += 1
            d = property_fails(h)
            if d:
                keep = h.get("kind") == "scenario" or (h.get("kind") == "coef" and h.get("label", "").startswith("direct"))
                ctx.violation(h if keep else dict(kind="scene", scene=h.get("scene", h)), d)
                return
    rng = ctx.rng.fork()
    # cheap first: the coefficient / resolved-parameter oracle on configuration-built scenes (explicit per-face parameters)
    for i in range(ctx.scale(3, 10)):
        c = gen_scene(rng, i % 2 == 1)
        ctx.impl_property_evals += 1
        d = property_fails(dict(kind="scene", scene=c))
        if d:
            ctx.violation(dict(kind="scene", scene=c), d)
            return
    # the property's scenario with the documented defaults written out (BoundaryConfig route), then with kappa grading
    # (kappa_end = 2: the non-default branch of step_cpml)
    for extra in (dict(explicit=["sigma_start", "alpha_start", "alpha_end", "kappa_start", "kappa_end", "sigma_order"]),
                  dict(kappa_end=2.0)):
        s = gen_scenario(rng, False, "dipole_e")
        s.update(extra)
        ctx.impl_property_evals += 1
        d = scenario_fails(s)
        if d:
            ctx.violation(s, d)
            return
    # the property's scenario: residual-energy clause, then the reference-domain clause (reference enlarged by 12 cells
    # per side here to keep the search affordable; baseline 1e-10 .. 3e-8 against the 1e-4 threshold)
    for i in range(ctx.scale(3, 8)):
        s = gen_scenario(rng, False, ["dipole_e", "plane", "dipole_m"][i % 3])
        s["reference"], s["pad"] = True, 12
        ctx.impl_property_evals += 1
        d = scenario_fails(s)
        if d:
            ctx.violation(s, d)
            return


def replay(ctx, inp):
    return property_fails(inp)
