"""C35 — pole -> recurrence coefficients -> susceptibility (fdtdx/dispersion.py) vs lean/FdtdxModel/C35.lean"""
import cmath
import math

import numpy as np

RULE = ("K: random Lorentz / Drude / CCPR / critical-point poles in the variants isotropic, per-axis 3-tuples (with "
        "zero-coupling axes, also with omega_0*dt >= 2 on such an axis) and oriented (random direction, unnormalised), "
        "time steps 10^U(-18,-13) s, omega_0*dt in (0.01,1.99) plus the boundary values {2, 2 +- 1ulp, 2.5} (ValueError "
        "branch), gamma*dt in {0, small, 2 (c2 = 0), large}, five frequencies omega*dt in (1e-3, 1.6) per pole. Compared "
        "with the model at 1e-9 relative per coefficient: compute_pole_coefficients_per_axis / compute_pole_coefficients "
        "(isotropic entry point and its rejection of per-axis poles) / compute_pole_coefficients_tensor (diagonal "
        "placement, oriented K u u^T, K<0 error, orientation normalisation), susceptibility_from_coefficients on "
        "(poles,3) and (poles,9) stacks with random zero-padded slots. Independent oracles on the real code's output: "
        "chi_from_coefficients == analytic pole formula (written out in the harness, not via the model) and == "
        "DispersionModel.susceptibility_axes/_tensor; Jury conditions |c2|<=1, |c1|<=1-c2 and root moduli of "
        "z^2 - c1 z - c2 (numpy.roots) <= 1 + 1e-12 (1e-6 next to a double root); padded slots change nothing; "
        "steady-state residual of the recurrence for the model's frequency response; halving-dt ratio test "
        "(relative error of the recurrence response drops by 4 +- 1) and the proved explicit error bound. "
        "non-trivial = any case that is not an isotropic accepted Lorentz pole.")

_m = None


def M():
    global _m
    if _m is None:
        import jax
        jax.config.update("jax_enable_x64", True)
        import jax.numpy as jnp
        import fdtdx
        from fdtdx import dispersion as D
        _m = dict(jax=jax, jnp=jnp, fdtdx=fdtdx, D=D)
    return _m


# --------------------------------------------------------------------------- analytic pole models (oracle)
def chi_lorentz(w0, g, de, w):
    return de * w0 * w0 / (w0 * w0 - w * w - 1j * g * w)


def chi_drude(wp, g, w):
    return -wp * wp / (w * w + 1j * g * w)


def chi_ccpr(q, r, w):
    return r / (-1j * w - q) + r.conjugate() / (-1j * w - q.conjugate())


def chi_cp(A, phi, Om, Ga, w):
    return A * Om * (cmath.exp(1j * phi) / (Om - w - 1j * Ga) + cmath.exp(-1j * phi) / (Om + w + 1j * Ga))


def analytic(kind, par, w):
    if kind == "lor":
        return chi_lorentz(par[0], par[1], par[2], w)
    if kind == "dru":
        return chi_drude(par[0], par[1], w)
    if kind == "ccpr":
        return chi_ccpr(complex(par[0], par[1]), complex(par[2], par[3]), w)
    if kind == "cp":
        return chi_cp(par[0], par[1], par[2], par[3], w)
    raise ValueError(kind)


def denom_of(kind, par, w):
    """|w0^2 - w^2 - i g w| of the unified form, for conditioning"""
    if kind == "lor":
        w0, g = par[0], par[1]
    elif kind == "dru":
        w0, g = 0.0, par[1]
    elif kind == "ccpr":
        w0, g = abs(complex(par[0], par[1])), -2 * par[0]
    else:
        w0, g = abs(complex(-par[3], -par[2])), 2 * par[3]
    return abs(w0 * w0 - w * w - 1j * g * w), w0, g


# ------------------------------------------------------------------------------------- real poles
def make_pole(kind, pars, orientation=None):
    """pars: list of 1 (isotropic) or 3 (per-axis) parameter tuples"""
    f = M()["fdtdx"]
    kw = {} if orientation is None else {"orientation": tuple(orientation)}

    def col(i, cplx=False):
        vals = [p[i] for p in pars]
        return vals[0] if len(vals) == 1 else tuple(vals)

    if kind == "lor":
        return f.LorentzPole(resonance_frequency=col(0), damping=col(1), delta_epsilon=col(2), **kw)
    if kind == "dru":
        return f.DrudePole(plasma_frequency=col(0), damping=col(1), **kw)
    if kind == "ccpr":
        q = [complex(p[0], p[1]) for p in pars]
        r = [complex(p[2], p[3]) for p in pars]
        return f.CCPRPole(pole=q[0] if len(q) == 1 else tuple(q), residue=r[0] if len(r) == 1 else tuple(r), **kw)
    if kind == "cp":
        assert len(pars) == 1 and orientation is None
        p = pars[0]
        return f.CCPRPole.from_critical_point(amplitude=p[0], phase=p[1], resonance_frequency=p[2], damping=p[3])
    raise ValueError(kind)


def lockstep(ctx, gens):
    """Run the case coroutines in lockstep: every `yield [lines]` of every live coroutine goes into ONE batch run of the
    model driver per round (a driver start costs ~50 ms; the persistent `Driver.ask` blocks because the driver's stdout
    is block-buffered on a pipe).  Returns the coroutines' return values."""
    res = [None] * len(gens)
    live = {}
    for i, g in enumerate(gens):
        try:
            live[i] = (g, next(g))
        except StopIteration as e:
            res[i] = e.value
    while live:
        order = list(live)
        lines = [l for i in order for l in live[i][1]]
        reps = ctx.driver.ask_many(lines) if lines else []
        pos = 0
        for i in order:
            g, req = live[i]
            mine = reps[pos:pos + len(req)]
            pos += len(req)
            try:
                live[i] = (g, g.send(mine))
            except StopIteration as e:
                res[i] = e.value
                del live[i]
    return res


def model_line(kind, par, dt):
    from .common import f2h
    if kind == "cp":
        raise ValueError
    return f"{kind} " + " ".join(f2h(x) for x in par) + " " + f2h(dt)


def cp_to_ccpr(ctx, par):
    """model's from_critical_point"""
    from .common import f2h, h2fs
    A, phi, Om, Ga = par
    rep = (yield ["cp " + " ".join(f2h(x) for x in (A, math.cos(phi), math.sin(phi), Om, Ga))])[0]
    return h2fs(rep)


def model_coefs(ctx, kind, pars, dt):
    """model coefficients per axis: list of (4 floats | 'error')"""
    from .common import h2fs
    if kind == "cp":
        kind, pars = "ccpr", [(yield from cp_to_ccpr(ctx, pars[0]))] * len(pars)
    reps = yield [model_line(kind, p, dt) for p in pars]
    return ["error" if rep == "error" else h2fs(rep) for rep in reps]


def impl_coef(fn, poles, dt):
    try:
        out = fn(tuple(poles), dt)
    except ValueError:
        return "error"
    return [np.asarray(a, dtype=np.float64) for a in out]


def close(a, b, tol=1e-9):
    a, b = np.asarray(a), np.asarray(b)
    if a.shape != b.shape:
        return False
    s = np.maximum(np.abs(b), 1e-300)
    return bool(np.all(np.abs(a - b) <= tol * s))


# ------------------------------------------------------------------------------------- generators
def gen_axis(rng, kind, dt, wdt=None, gdt=None):
    """one axis' physical parameters (SI), chosen relative to dt"""
    if wdt is None:
        wdt = rng.choice([rng.uniform(0.01, 1.99), rng.uniform(0.01, 0.3), rng.uniform(1.5, 1.99)])
    if gdt is None:
        gdt = rng.choice([0.0, rng.uniform(1e-4, 0.2), 2.0, rng.uniform(0.2, 6.0), rng.uniform(1e-3, 0.05)])
    if kind == "lor":
        return (wdt / dt, gdt / dt, rng.choice([rng.uniform(0.1, 5.0), rng.uniform(-1.0, -0.1), rng.uniform(0.1, 5.0)]))
    if kind == "dru":
        return (rng.uniform(0.01, 2.5) / dt, gdt / dt)
    if kind == "ccpr":
        # |q| dt = wdt, Re q = -gdt/(2dt) clipped so that |Re q| <= |q|
        re = -min(gdt / 2.0, wdt * rng.uniform(0.0, 1.0)) / dt
        im = -math.sqrt(max((wdt / dt) ** 2 - re * re, 0.0))
        return (re, im, rng.uniform(-0.5, 0.5) / dt, rng.uniform(-2.0, 2.0) / dt)
    if kind == "cp":
        return (rng.uniform(0.1, 3.0), rng.uniform(-3.1, 3.1), wdt / dt * rng.uniform(0.3, 0.9), min(gdt, 0.5) / dt)
    raise ValueError(kind)


def pick_freqs(rng, kind, par, dt, n=5):
    out = []
    tries = 0
    while len(out) < n and tries < 200:
        tries += 1
        th = rng.choice([rng.uniform(1e-3, 0.1), rng.uniform(0.1, 1.6), rng.uniform(0.01, 0.5)])
        w = th / dt
        d, w0, g = denom_of(kind, par, w)
        if d * dt * dt < 1e-4:          # conditioning of the inversion 2 - c1*D near a sharp resonance
            continue
        out.append(w)
    return out


_chi_jit = {}


def chi_impl(c1, c2, c3, c4, omega, dt, use_c4=True):
    """susceptibility_from_coefficients under jit with omega, dt traced (one compilation per stack shape)"""
    m = M()
    jnp, jax, D = m["jnp"], m["jax"], m["D"]
    if use_c4 not in _chi_jit:
        if use_c4:
            _chi_jit[use_c4] = jax.jit(lambda a, b, c, d, w, t: D.susceptibility_from_coefficients(a, b, c, w, t, d))
        else:
            _chi_jit[use_c4] = jax.jit(lambda a, b, c, d, w, t: D.susceptibility_from_coefficients(a, b, c, w, t, None))
    r = _chi_jit[use_c4](jnp.asarray(c1), jnp.asarray(c2), jnp.asarray(c3), jnp.asarray(c4),
                         jnp.asarray(omega, dtype=jnp.float64), jnp.asarray(dt, dtype=jnp.float64))
    return np.asarray(r)


def chi_line(rows, omega, dt):
    from .common import f2h
    flat = [x for r in rows for x in r]
    return "chi " + f2h(omega) + " " + f2h(dt) + (" " + " ".join(f2h(x) for x in flat) if flat else "")


def pair_of(rep):
    from .common import h2fs
    v = h2fs(rep)
    return complex(v[0], v[1])


def jury_fail(c1, c2):
    """property: no root of z^2 - c1 z - c2 outside the closed unit disc"""
    if not (abs(c2) <= 1 + 1e-15 and abs(c1) <= 1 - c2 + 4e-15):
        return f"Jury condition violated: c1={c1!r}, c2={c2!r}"
    disc = c1 * c1 + 4 * c2
    tol = 1e-12 if abs(disc) > 1e-8 else 1e-6        # double root: numpy.roots loses half the digits
    mod = np.abs(np.roots([1.0, -c1, -c2]))
    if mod.size and float(mod.max()) > 1 + tol:
        return f"recurrence root modulus {float(mod.max())!r} > 1 (c1={c1!r}, c2={c2!r})"
    return None


def resp_py(c, theta):
    """recurrence frequency response from the real code's coefficients (python complex)"""
    z = cmath.exp(-1j * theta)
    return (c[2] + c[3] * z) / (z - c[0] - c[1] / z)


# ------------------------------------------------------------------------------------------ one case
def check_case(ctx, case, count=True):
    """runs K + oracles for one generated case; returns a detail string when the PROPERTY fails on the real code"""
    from .common import f2h, h2fs
    m = M()
    D = m["D"]
    kind, pars, dt, orient, pad, freqs = case["kind"], case["pars"], case["dt"], case.get("orient"), case.get("pad", 0), case["freqs"]
    viol = None
    pole = None
    try:
        pole = make_pole(kind, [tuple(p) for p in pars], orient)
    except (ValueError, NotImplementedError) as e:
        built = type(e).__name__
    axes = [pars[0]] * 3 if len(pars) == 1 else pars
    mcoef = yield from model_coefs(ctx, kind, [tuple(p) for p in axes], dt)
    any_err = any(c == "error" for c in mcoef)
    accepted = False

    if orient is None:
        assert pole is not None
        # ---- per-axis entry point
        got = impl_coef(D.compute_pole_coefficients_per_axis, [pole], dt)
        if got == "error" or any_err:
            ctx.expect_equal("per_axis-error", case, "error" if got == "error" else "ok", "error" if any_err else "ok")
        else:
            accepted = True
            for ax in range(3):
                if not close([float(a[0, ax]) for a in got], mcoef[ax]):
                    ctx.mismatch("per_axis", case, {"axis": ax, "impl": [float(a[0, ax]) for a in got], "model": mcoef[ax]})
        # ---- isotropic entry point
        iso = impl_coef(D.compute_pole_coefficients, [pole], dt)
        if len(pars) == 3 and not pole.is_isotropic:
            ctx.expect_equal("isotropic-rejects-per-axis", case, "error" if iso == "error" else "ok", "error")
        elif iso == "error" or any_err:
            ctx.expect_equal("isotropic-error", case, "error" if iso == "error" else "ok", "error" if any_err else "ok")
        else:
            if not close([float(a[0]) for a in iso], mcoef[0]):
                ctx.mismatch("isotropic", case, {"impl": [float(a[0]) for a in iso], "model": mcoef[0]})
        # ---- tensor entry point (diagonal placement)
        ten = impl_coef(D.compute_pole_coefficients_tensor, [pole], dt)
        if ten == "error" or any_err:
            ctx.expect_equal("tensor-error", case, "error" if ten == "error" else "ok", "error" if any_err else "ok")
        else:
            exp3 = np.zeros(9)
            exp4 = np.zeros(9)
            for ax in range(3):
                exp3[4 * ax], exp4[4 * ax] = mcoef[ax][2], mcoef[ax][3]
            ok = (close(ten[0][0], [c[0] for c in mcoef]) and close(ten[1][0], [c[1] for c in mcoef])
                  and close(ten[2][0], exp3) and close(ten[3][0], exp4)
                  and np.all(ten[2][0][exp3 == 0] == 0) and np.all(ten[3][0][exp4 == 0] == 0))
            if not ok:
                ctx.mismatch("tensor-diag", case, {"impl": [a.tolist() for a in ten], "model": mcoef})
            # ---- the property on the tensor entry point itself (seed C35h: a c4 of the x/y axes divided by the z axis'
            # damping factor was only visible as a model mismatch): diagonal of the 9-component coefficients -> chi
            tst = [np.asarray(ten[0], dtype=float), np.asarray(ten[1], dtype=float),
                   np.asarray(ten[2], dtype=float)[:, ::4], np.asarray(ten[3], dtype=float)[:, ::4]]
            for w in freqs:
                tchi = chi_impl(tst[0], tst[1], tst[2], tst[3], w, dt,
                                use_c4=not (kind in ("lor", "dru") and case.get("c4none")))
                for ax in range(3):
                    ana = analytic(kind, tuple(axes[ax]), w)
                    dd, _, _ = denom_of(kind, tuple(axes[ax]), w)
                    ctx.impl_property_evals += 1
                    if dd * dt * dt >= 1e-4 and not abs(tchi[ax] - ana) <= 1e-9 * max(abs(ana), 1e-300) and not viol:
                        viol = (f"compute_pole_coefficients_tensor: diagonal coefficients give chi = {complex(tchi[ax])!r} but the "
                                f"declared {kind} pole model gives {ana!r} at omega*dt={w * dt:.4g} (axis {ax})")
        if accepted:
            c1, c2, c3, c4 = got
            # ---- Jury / roots on the real coefficients (only promised for non-negative damping)
            for ax in range(3):
                _, w0, g = denom_of(kind, axes[ax], 1.0)
                if g >= 0 and (c3[0, ax] != 0 or c4[0, ax] != 0):
                    ctx.impl_property_evals += 1
                    d = jury_fail(float(c1[0, ax]), float(c2[0, ax]))
                    if d and not viol:
                        viol = d + f" for {kind} pole axis {ax}"
            # ---- susceptibility_from_coefficients on a padded (poles, 3) stack
            rows = pad_rows(pad, [[(float(c1[0, ax]), float(c2[0, ax]), float(c3[0, ax]), float(c4[0, ax])) for ax in range(3)]])
            stack = [np.array([[r[ax][i] for ax in range(3)] for r in rows]) for i in range(4)]
            lor_dru = kind in ("lor", "dru")
            th0 = (freqs[0] * dt) if freqs else 0.1
            c0 = (float(c1[0, 0]), float(c2[0, 0]), float(c3[0, 0]), float(c4[0, 0]))
            lines = [chi_line([r[ax] for r in rows], w, dt) for w in freqs for ax in range(3)]
            lines.append("resp " + " ".join(f2h(x) for x in c0) + " " + f2h(math.cos(th0)) + " " + f2h(math.sin(th0)))
            reps = yield lines
            for wi, w in enumerate(freqs):
                impl_chi = chi_impl(stack[0], stack[1], stack[2], stack[3], w, dt, use_c4=not (lor_dru and case.get("c4none")))
                decl = pole_susc_axes(pole, w)
                for ax in range(3):
                    mod = pair_of(reps[3 * wi + ax])
                    if not abs(impl_chi[ax] - mod) <= 1e-9 * max(abs(mod), 1e-300):
                        ctx.mismatch("chi", case, {"axis": ax, "omega": w, "impl": complex(impl_chi[ax]), "model": mod})
                    ana = analytic(kind, tuple(axes[ax]), w)
                    dd, _, _ = denom_of(kind, tuple(axes[ax]), w)
                    ctx.impl_property_evals += 1
                    scale = max(abs(ana), 1e-300)
                    if dd * dt * dt >= 1e-4 and not abs(impl_chi[ax] - ana) <= 1e-9 * scale and not viol:
                        viol = (f"susceptibility_from_coefficients = {complex(impl_chi[ax])!r} but the declared {kind} pole model "
                                f"gives {ana!r} at omega*dt={w * dt:.4g} (axis {ax}, {pad} padded slots)")
                    if dd * dt * dt >= 1e-4 and not abs(decl[ax] - ana) <= 1e-9 * scale:
                        ctx.mismatch("declared-model", case, {"axis": ax, "impl": complex(decl[ax]), "analytic": ana})
            # ---- frequency response of the recurrence: steady state + convergence (Lorentz / Drude)
            c = c0
            if c[2] != 0 or c[3] != 0:
                th = th0
                chi_d = pair_of(reps[-1])
                z = cmath.exp(-1j * th)
                # P_n = chi_d z^n must satisfy P_{n+1} = c1 P_n + c2 P_{n-1} + c3 E_n + c4 E_{n+1}
                res = chi_d * z - (c[0] * chi_d + c[1] * chi_d / z + c[2] + c[3] * z)
                if not abs(res) <= 1e-9 * max(abs(chi_d), abs(c[2]) + abs(c[3]), 1e-300):
                    ctx.mismatch("resp-steady-state", case, {"residual": abs(res), "chi": chi_d})
    else:
        # ---- oriented pole
        from .common import f2h as _f
        rep = (yield ["norm " + " ".join(_f(x) for x in orient)])[0]
        if pole is None:
            # construction refused: zero vector, per-axis parameters, or Re(residue) != 0
            expect_err = rep == "error" or len(pars) == 3 or (kind == "ccpr" and pars[0][2] != 0.0)
            ctx.expect_equal("oriented-construct", case, "error", "error" if expect_err else "ok")
            if count:
                ctx.case(nontrivial=(kind, "oriented-refused", rep == "error"), kind=kind, variant="oriented", accepted=False, padded_slots=pad)
            return None
        u = h2fs(rep)
        if not close(pole.orientation, u):
            ctx.mismatch("orientation-normalise", case, {"impl": pole.orientation, "model": u})
        _, w0, g = denom_of(kind, tuple(pars[0]), 1.0)
        a = {"lor": lambda p: p[2] * p[0] ** 2, "dru": lambda p: p[0] ** 2,
             "ccpr": lambda p: -2.0 * (p[2] * p[0] + p[3] * p[1])}[kind](pars[0])
        b = 2.0 * pars[0][2] if kind == "ccpr" else 0.0
        rep = (yield ["tens " + " ".join(_f(x) for x in (w0, g, a, b, *pole.orientation, dt))])[0]
        ten = impl_coef(D.compute_pole_coefficients_tensor, [pole], dt)
        pa = impl_coef(D.compute_pole_coefficients_per_axis, [pole], dt)
        ctx.expect_equal("per_axis-rejects-oriented", case, "error" if pa == "error" else "ok", "error")
        if rep == "error" or ten == "error":
            ctx.expect_equal("tensor-oriented-error", case, "error" if ten == "error" else "ok", "error" if rep == "error" else "ok")
            if count:
                ctx.case(nontrivial=(kind, "oriented-tensor-error"), kind=kind, variant="oriented", accepted=False, padded_slots=pad)
            return None
        accepted = True
        mv = h2fs(rep)
        if not (close(ten[0][0], [mv[0]] * 3) and close(ten[1][0], [mv[1]] * 3) and close(ten[2][0], mv[2:11], 1e-9)
                and np.all(ten[3][0] == 0)):
            ctx.mismatch("tensor-oriented", case, {"impl": [x.tolist() for x in ten], "model": mv})
        if g >= 0:
            ctx.impl_property_evals += 1
            d = jury_fail(float(ten[0][0, 0]), float(ten[1][0, 0]))
            if d:
                viol = d + " (oriented pole)"
        # 9-component susceptibility with padded slots
        rows = [(ten[0][0], ten[1][0], ten[2][0], ten[3][0])]
        mix = case.get("mix")        # a per-axis Lorentz pole in the same 9-component stack (row rule of the expansion)
        mixpole = None
        if mix:
            mixpole = make_pole("lor", [tuple(p) for p in mix])
            mt = impl_coef(D.compute_pole_coefficients_tensor, [mixpole], dt)
            if mt != "error":
                rows.append((mt[0][0], mt[1][0], mt[2][0], mt[3][0]))
            else:
                mixpole = None
        zero = (np.zeros(3), np.zeros(3), np.zeros(9), np.zeros(9))
        for i in range(pad):
            rows.insert(ctx_pad_pos(case, i, len(rows)), zero)
        st = [np.stack([r[i] for r in rows]) for i in range(4)]
        model9 = M()["fdtdx"].DispersionModel(poles=(pole,) if mixpole is None else (pole, mixpole))
        flat = [x for r in rows for part in r for x in part]
        reps9 = yield (["chi9 " + _f(w) + " " + _f(dt) + " " + " ".join(_f(float(x)) for x in flat) for w in freqs])
        for wi, w in enumerate(freqs):
            impl_chi = chi_impl(st[0], st[1], st[2], st[3], w, dt, use_c4=not case.get("c4none"))
            rep = reps9[wi]
            v = h2fs(rep)
            mod = np.array([complex(v[2 * i], v[2 * i + 1]) for i in range(9)])
            sc = max(float(np.max(np.abs(mod))), 1e-300)
            if not np.max(np.abs(impl_chi - mod)) <= 1e-9 * sc:
                ctx.mismatch("chi9", case, {"omega": w, "impl": impl_chi.tolist(), "model": mod.tolist()})
            un = np.asarray(pole.orientation)
            ana = analytic(kind, tuple(pars[0]), w) * np.outer(un, un).reshape(-1)
            dd, _, _ = denom_of(kind, tuple(pars[0]), w)
            if mixpole is not None:
                for ax in range(3):
                    ana[4 * ax] += analytic("lor", tuple(mix[ax]), w)
                    dd = min(dd, denom_of("lor", tuple(mix[ax]), w)[0])
            ctx.impl_property_evals += 1
            if dd * dt * dt >= 1e-4 and not np.max(np.abs(impl_chi - ana)) <= 1e-9 * max(float(np.max(np.abs(ana))), 1e-300) and not viol:
                viol = (f"susceptibility_from_coefficients (9-component) differs from chi(omega) u u^T of the declared {kind} "
                        f"pole by {float(np.max(np.abs(impl_chi - ana))):.3g} at omega*dt={w * dt:.4g}")
            decl = model9.susceptibility_tensor(w).reshape(-1)
            if dd * dt * dt >= 1e-4 and not np.max(np.abs(decl - ana)) <= 1e-9 * max(float(np.max(np.abs(ana))), 1e-300):
                ctx.mismatch("declared-tensor", case, {"impl": decl.tolist(), "analytic": ana.tolist()})
    if count:
        trivial = kind == "lor" and len(pars) == 1 and orient is None and accepted and pad == 0
        ctx.case(sample=None, nontrivial=None if trivial else (kind, len(pars), orient is not None, accepted, pad),
                 kind=kind, variant=("oriented" if orient is not None else ("per-axis" if len(pars) == 3 else "isotropic")),
                 accepted=accepted, padded_slots=pad)
    return viol


def pole_susc_axes(pole, w):
    return M()["fdtdx"].DispersionModel(poles=(pole,)).susceptibility_axes(w)


def ctx_pad_pos(case, i, n):
    return (case.get("padpos", 0) + i) % (n + 1)


def pad_rows(pad, rows, pos=0):
    zero = [(0.0, 0.0, 0.0, 0.0)] * 3
    rows = list(rows)
    for i in range(pad):
        rows.insert((pos + i) % (len(rows) + 1), zero)
    return rows


def synthetic9(ctx, case):
    """susceptibility_from_coefficients on a (poles,3)+(poles,9) stack with per-axis recurrence coefficients AND a full
    coupling tensor (documented row rule: entry 3i+j uses the oscillator of row i) vs the model's chi9"""
    from .common import f2h, h2fs
    D = M()["D"]
    dt = case["dt"]
    pole = make_pole("lor", [tuple(p) for p in case["pars"]])
    c1, c2, _, _ = D.compute_pole_coefficients_per_axis((pole,), dt)
    c3 = np.asarray(case["c3"], dtype=np.float64)[None]
    c4 = np.zeros_like(c3)
    lines = ["chi9 " + f2h(w) + " " + f2h(dt) + " " + " ".join(f2h(float(x)) for part in (c1[0], c2[0], c3[0], c4[0]) for x in part)
             for w in case["freqs"]]
    reps = yield lines
    for w, rep in zip(case["freqs"], reps):
        impl = chi_impl(c1, c2, c3, c4, w, dt)
        v = h2fs(rep)
        mod = np.array([complex(v[2 * i], v[2 * i + 1]) for i in range(9)])
        if not np.max(np.abs(impl - mod)) <= 1e-9 * max(float(np.max(np.abs(mod))), 1e-300):
            ctx.mismatch("chi9-row-rule", case, {"omega": w, "impl": impl.tolist(), "model": mod.tolist()})
        # oracle: entry (i, j) is c3_ij * D_i / (w0_i^2 dt^2 - th^2 - i g_i dt th) with row i's oscillator
        th = w * dt
        for e in range(9):
            p = case["pars"][e // 3]
            g, w0 = p[1] * dt, p[0] * dt
            ana = c3[0, e] * (1 + g / 2) / (w0 * w0 - th * th - 1j * g * th)
            ctx.impl_property_evals += 1
            if abs(w0 * w0 - th * th - 1j * g * th) >= 1e-4 and not abs(impl[e] - ana) <= 1e-9 * max(abs(ana), 1e-300):
                return (f"susceptibility_from_coefficients entry {e} = {complex(impl[e])!r}, but the oscillator of row {e // 3} "
                        f"gives {ana!r} (9-component coupling with per-axis recurrence coefficients)")
    ctx.case(nontrivial=("synthetic9", case["dt"]), kind="lor", variant="synthetic-9-stack")
    return None


# ------------------------------------------------------------------------------- convergence clause
def convergence_fail(kind, par, omega, dt0, levels=4):
    """relative error of the recurrence's own frequency response vs the declared model: O((omega dt)^2).
    Uses the real code's coefficients.  Returns detail on failure."""
    D = M()["D"]
    errs, ths = [], []
    for j in range(levels):
        dt = dt0 / 2 ** j
        pole = make_pole(kind, [tuple(par)])
        c = [float(a[0, 0]) for a in D.compute_pole_coefficients_per_axis((pole,), dt)]
        chi_d = resp_py(c, omega * dt)
        ana = analytic(kind, tuple(par), omega)
        errs.append(abs(chi_d - ana) / abs(ana))
        ths.append(omega * dt)
    # explicit bound proved in Lean (C35_response_relative_error): with B = 5/48 + (gamma/omega)/6 and
    # m = |(w0/omega)^2 - 1 - i gamma/omega|, for theta <= 1 and theta^2 B < m: relerr <= theta^2 B / (m - theta^2 B)
    _, w0, g = denom_of(kind, tuple(par), omega)
    B = 5.0 / 48.0 + (g / omega) / 6.0
    mm = abs((w0 / omega) ** 2 - 1 - 1j * g / omega)
    for e, th in zip(errs, ths):
        if th <= 1 and th * th * B < mm:
            bound = th * th * B / (mm - th * th * B)
            if not e <= bound * (1 + 1e-6) + 1e-12:
                return f"relative error {e:.3e} of the recurrence response exceeds the explicit bound {bound:.3e} at omega*dt={th:.3g}"
    for j in range(levels - 1):
        if errs[j + 1] > 1e-11:          # above round-off
            ratio = errs[j] / errs[j + 1]
            if not 3.0 <= ratio <= 5.0:
                return (f"halving dt changes the relative error of the recurrence response by {ratio:.3f} (expected 4): "
                        f"errors {errs} at omega*dt {ths}")
    return None


# ------------------------------------------------------------------------------------------- K
def gen_case(rng, i):
    dt = 10.0 ** rng.uniform(-18, -13)
    kind = ["lor", "dru", "ccpr", "cp", "lor", "dru"][i % 6]
    variant = ["iso", "axes", "oriented", "iso", "axes"][(i // 6) % 5]
    if kind == "cp":
        variant = "iso"
    boundary = rng.chance(0.12)
    case = {"kind": kind, "dt": dt, "pad": rng.choice([0, 0, 1, 2]), "padpos": rng.randint(0, 3), "c4none": rng.chance(0.3)}
    if variant == "axes":
        pars = [list(gen_axis(rng, kind, dt)) for _ in range(3)]
        # a zero-coupling axis, possibly with omega_0 dt >= 2 there (must be accepted)
        if rng.chance(0.5):
            ax = rng.randint(0, 2)
            if kind == "lor":
                pars[ax][2] = 0.0
                if rng.chance(0.5):
                    pars[ax][0] = rng.uniform(2.0, 4.0) / dt
            elif kind == "dru":
                pars[ax][0] = 0.0
            else:
                pars[ax][2] = pars[ax][3] = 0.0
                if rng.chance(0.5):
                    pars[ax][1] = -3.0 / dt
        if boundary and kind in ("lor", "ccpr"):
            ax = rng.randint(0, 2)
            if kind == "lor":
                pars[ax][0] = boundary_w0(rng, dt)
            else:
                pars[ax][0], pars[ax][1] = 0.0, -boundary_w0(rng, dt)
        case["pars"] = pars
    else:
        par = list(gen_axis(rng, kind, dt))
        if boundary and kind == "lor":
            par[0] = boundary_w0(rng, dt)
        if boundary and kind == "ccpr":
            par[0], par[1] = 0.0, -boundary_w0(rng, dt)
        if variant == "oriented":
            if kind == "ccpr" and rng.chance(0.8):
                par[2] = 0.0          # purely imaginary residue: the only oriented CCPR that is supported
            if kind == "lor" and rng.chance(0.15):
                par[2] = -abs(par[2])  # K < 0: ValueError in the tensor entry point
            u = [rng.uniform(-1, 1) * 10.0 ** rng.randint(-3, 3) for _ in range(3)]
            if rng.chance(0.2):
                u[rng.randint(0, 2)] = 0.0
            if rng.chance(0.05):
                u = [0.0, 0.0, 0.0]
            case["orient"] = u
            if rng.chance(0.5):
                case["mix"] = [list(gen_axis(rng, "lor", dt, gdt=rng.uniform(0.05, 1.0))) for _ in range(3)]
        case["pars"] = [par]
    p0 = tuple(case["pars"][0])
    case["freqs"] = pick_freqs(rng, kind, p0, dt)
    if len(case["pars"]) == 3:          # frequencies away from every axis' resonance
        fr = []
        for w in pick_freqs(rng, kind, p0, dt, 12):
            if all(denom_of(kind, tuple(p), w)[0] * dt * dt >= 1e-4 for p in case["pars"]):
                fr.append(w)
        case["freqs"] = fr[:5] or case["freqs"]
    return case


def boundary_w0(rng, dt):
    w = 2.0 / dt
    return rng.choice([w, float(np.nextafter(w, 0.0)), float(np.nextafter(w, np.inf)), 2.5 / dt, 1.999 / dt])


def run(ctx):
    n = ctx.scale(360, 3000)
    cases = [gen_case(ctx.rng, i) for i in range(n)]
    ctx.samples.append({k: cases[7][k] for k in ("kind", "pars", "dt", "pad")})
    for lo in range(0, n, 250):
        chunk = cases[lo:lo + 250]
        for case, d in zip(chunk, lockstep(ctx, [check_case(ctx, c) for c in chunk])):
            if d:
                ctx.violation(case, d)
    # full coupling tensors with per-axis recurrence coefficients (row rule of the 9-component expansion)
    syn = []
    for i in range(ctx.scale(12, 60)):
        dt = 10.0 ** ctx.rng.uniform(-18, -13)
        pars = [list(gen_axis(ctx.rng, "lor", dt, gdt=ctx.rng.uniform(0.0, 1.0))) for _ in range(3)]
        fr = [w for w in pick_freqs(ctx.rng, "lor", tuple(pars[0]), dt, 12)
              if all(denom_of("lor", tuple(p), w)[0] * dt * dt >= 1e-4 for p in pars)][:3]
        syn.append({"syn9": True, "dt": dt, "pars": pars, "c3": [ctx.rng.uniform(-1, 1) * 1e-2 for _ in range(9)], "freqs": fr})
    for case, d in zip(syn, lockstep(ctx, [synthetic9(ctx, c) for c in syn])):
        if d:
            ctx.violation(case, d)
    # convergence clause (Lorentz / Drude): ratio test over halving dt + the proved explicit bound
    for i in range(ctx.scale(40, 300)):
        kind = ["lor", "dru"][i % 2]
        dt0 = 10.0 ** ctx.rng.uniform(-17, -14)
        th = ctx.rng.uniform(0.02, 0.2)
        omega = th / dt0
        if kind == "lor":
            par = (omega * ctx.rng.choice([ctx.rng.uniform(0.2, 0.8), ctx.rng.uniform(1.3, 4.0)]),
                   omega * ctx.rng.choice([0.0, ctx.rng.uniform(0.01, 2.0)]), ctx.rng.uniform(0.2, 4.0))
        else:
            par = (omega * ctx.rng.uniform(0.3, 4.0), omega * ctx.rng.choice([0.0, ctx.rng.uniform(0.01, 2.0)]))
        case = {"conv": True, "kind": kind, "par": list(par), "omega": omega, "dt": dt0}
        ctx.case(nontrivial=("conv", i), kind=kind, variant="convergence")
        ctx.impl_property_evals += 1
        d = convergence_fail(kind, par, omega, dt0)
        if d:
            ctx.violation(case, d)


# ------------------------------------------------------------------------------------------- S
def replay(ctx, inp):
    if inp.get("conv"):
        return convergence_fail(inp["kind"], tuple(inp["par"]), inp["omega"], inp["dt"])
    if inp.get("syn9"):
        sub9 = type(ctx)(ctx.pid, ctx.tier, ctx.seed)
        sub9.driver = ctx.driver
        return lockstep(sub9, [synthetic9(sub9, inp)])[0]
    sub = type(ctx)(ctx.pid, ctx.tier, ctx.seed)      # scratch context: K mismatches of the replay are not the verdict
    sub.driver = ctx.driver
    try:
        return lockstep(sub, [check_case(sub, inp, count=False)])[0]
    except Exception as e:       # the real code refuses an input the property covers
        return f"{type(e).__name__}: {e}"


def search(ctx, hints):
    for h in hints:
        if isinstance(h, dict) and ("kind" in h or "syn9" in h):
            d = replay(ctx, h)
            if d:
                ctx.violation(h, d)
                return
    rng = ctx.rng.fork()
    for i in range(ctx.scale(1500, 6000)):
        case = gen_case(rng, i)
        case["pad"] = case["pad"] if i % 2 else 0
        d = replay(ctx, case)
        ctx.impl_property_evals += 1
        if d:
            # shrink: fewer frequencies, no padding, isotropic
            for fr in case["freqs"]:
                small = dict(case, freqs=[fr], pad=0)
                if replay(ctx, small):
                    case = small
                    break
            ctx.violation(case, d)
            return
    for i in range(100):
        kind = ["lor", "dru"][i % 2]
        dt0 = 10.0 ** rng.uniform(-17, -14)
        omega = rng.uniform(0.02, 0.2) / dt0
        par = (omega * rng.uniform(1.3, 4.0), omega * rng.uniform(0.0, 2.0), 2.0) if kind == "lor" else (omega * 2.0, omega * rng.uniform(0, 2.0))
        d = convergence_fail(kind, par, omega, dt0)
        if d:
            ctx.violation({"conv": True, "kind": kind, "par": list(par), "omega": omega, "dt": dt0}, d)
            return
