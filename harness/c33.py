"""C33 — electric-plane symmetry reduction is exact (inside the light cone of the discarded half's far boundary).

K: fdtdx.fdtd.forward.forward on the FULL container vs the shared Yee model (`fwd`), and on the REDUCED container
   (place_objects with config.symmetry = -1 on one axis: halved volume + PEC wall of make_symmetry_walls) vs the model's
   own reduction of the full request (`redfwd`: reduceCfg/upperV of FdtdxModel/C33.lean), single and multi step.
Oracle (the property itself, implementation against implementation): unfold(reduced run) == full run on every cell the
   discarded half's far boundary cannot have reached yet; same for FieldDetector(exact_interpolation) records through
   unfold_detector_states."""
import numpy as np

from . import yee_api as Y

RULE = ("cases from the seed: ONE electric plane: symmetry axis 0..2, half size m in 1..3 (thorough 1..4; full domain 2m cells), "
        "1..4 cells on the other axes (singletons included), far faces of the symmetry axis both none | pec | pmc | pml(1 cell, "
        "oracle only) | periodic (K only: reduced axis keeps wrap padding with a zeroed min-side halo), transverse face pairs out "
        "of none/periodic/pec/pmc mixes, uniform or mirror-symmetric non-uniform grid, isotropic or diagonal inv_eps, scalar / "
        "iso / diagonal inv_mu, optional sigma_E / sigma_H, all constant along the symmetric axes; SEVERAL planes (every run, every "
        "seed): symmetry (-1,-1,0), (-1,0,-1), (0,-1,-1) and (-1,-1,-1), half sizes 2..3, far none/pmc (thorough also pec), always "
        "with a FieldDetector(exact_interpolation) touching all planes - the whole volume or a 4-cell box centred on the planes, "
        "so the line where two planes meet and the corner cell are recorded. Detector layout `tie` (forced for axes 0, 2 and the "
        "pair (1,2), random otherwise): three one-cell slabs on the first symmetric axis, spanning all other axes: lower face "
        "exactly ON the plane (kept, not clipped: its record must come back un-mirrored with the full-domain shape), upper face "
        "exactly on the plane (discarded half: must be dropped), strictly inside the kept half. Random reduced fields with the PEC-mirror parity on "
        "every plane (tangential E and normal H zero on it), full-domain initial state = fdtdx.unfold_fields of them; m+2 steps "
        "(pmc: m+4; several planes: min m + 1). Oracle per step n, with c_a the full cell index along each symmetric axis a: "
        "|unfold(reduced) - full| <= 1e-12 wherever c_a >= n + d for all a, d = 0 (none, pmc), 1 (pec, pml) [the asymmetry of "
        "the far face of a discarded half sits at cell 0 resp. 1 and moves one cell per step; measured on the unchanged tree: "
        "first difference exactly at c = n + d - 1]; detector rows (unfold_detector_states vs the full-domain detector) wherever "
        "c_a >= n + d + 1 (a = x, y: the co-location stencil reads one cell back) resp. c_a >= n + d (z: it reads forward), minus "
        "the filler cell of an unfolded box. K: forward on the full container vs model fwd; forward on the reduced container vs "
        "model redfwd (single-axis reduction once per plane; 1 step and all steps), 1e-9; every case is stepped a second time with "
        "forward(..., simulate_boundaries=False) on the same placed scenes (the flag only freezes the PML psi arrays; symmetry "
        "wall, PEC, PMC and halo rules ignore it): without PML objects flag-off = flag-on (1e-12) = model on both containers, and "
        "the light-cone oracle is evaluated on the flag-off runs of every case (PML included); one forced case also goes through the "
        "library loop custom_fdtd_forward(reset_container=False) (run_fdtd itself zeroes the fields first, so an initial-field "
        "scene cannot use it): = forward iterated, and the oracle on its result; the boundary objects of the reduced "
        "container (one wall per plane: type/axis/side/slice, dropped min-side objects) exactly; odd cell counts are rejected "
        "by both. non-trivial = (axes, ms, far, faces, tiers, seed).")

PAIRS_OK = [("none", "none"), ("periodic", "periodic"), ("pec", "pec"), ("pmc", "pmc"), ("pec", "none"), ("none", "pmc"),
            ("pec", "pmc"), ("pmc", "pec")]
DELTA = {"none": 0, "pmc": 0, "pec": 1, "pml": 1}
TOL = 1e-12


class UnfoldFailure(Exception):
    """fdtdx.unfold_fields / unfold_detector_states refused an input the reduction accepted: the property's
    'running the reduced domain and unfolding' cannot even be formed"""


def unfold(arr, sym, kind):
    j = Y.J()
    try:
        return np.asarray(j["fdtdx"].unfold_fields(j["jnp"].asarray(arr), tuple(sym), kind))
    except Exception as e:
        raise UnfoldFailure(f"unfold_fields raises on a reduced {kind} field of shape {tuple(arr.shape)} with symmetry {tuple(sym)}: "
                            f"{type(e).__name__}: {str(e)[:160]}")


def norm(c):
    """cases carry `axes` (symmetric axes, ascending) and `ms` (half sizes); single-plane inputs may say axis / m"""
    if "axes" not in c:
        c = dict(c, axes=[c["axis"]], ms=[c["m"]])
    return c


def gen_case(rng, thorough, force=None):
    c = {}
    c["axes"] = [rng.randint(0, 2)]
    c["ms"] = [rng.choice([1, 2, 2, 3, 3, 4] if thorough else [1, 2, 2, 3, 3])]
    c["far"] = rng.choice(["none", "none", "none", "pec", "pec", "pmc", "pml", "periodic"])
    c["tshape"] = [rng.randint(1, 4), rng.randint(1, 4)]
    c["tfaces"] = [list(rng.choice(PAIRS_OK)), list(rng.choice(PAIRS_OK))]
    c["nonuniform"] = rng.chance(0.3)
    c["eps_tier"] = rng.choice([1, 3])
    c["mu_tier"] = rng.choice([0, 0, 1, 3])
    c["sig_e"] = rng.chance(0.3)
    c["sig_h"] = rng.chance(0.2)
    c["det"] = rng.choice(["", "", "vol", "tie"])
    c["seed"] = rng.np_seed()
    if force:
        force = dict(force)
        if "axis" in force:
            force["axes"] = [force.pop("axis")]
        if "m" in force:
            force["ms"] = [force.pop("m")]
        if force.get("det") is True:
            force["det"] = "vol"
        if force.get("det") is False:
            force["det"] = ""
        c.update(force)
    k = len(c["axes"])
    c["tshape"], c["tfaces"] = c["tshape"][:3 - k], c["tfaces"][:3 - k]
    if c["far"] == "pml":
        c["ms"] = [max(m, 2) for m in c["ms"]]
        c["nonuniform"] = False
    if all(m == 1 for m in c["ms"]) and all(n == 1 for n in c["tshape"]):
        c["ms"][0] = 2          # a 1x1x1 reduced volume trips place_objects' sharding helper (unrelated to the property)
    if c["det"] == "box" and min(c["ms"]) < 2:
        c["det"] = "vol"
    if c["det"] == "tie":
        c["nonuniform"] = False          # slabs are placed by grid index (GridCoordinateConstraint: uniform grids only)
    return c


def gen_multi(rng, axes, force=None):
    """two or three electric planes at once; always with a co-located detector touching all of them"""
    f = dict(axes=list(axes), ms=[rng.choice([2, 3]) for _ in axes], far=rng.choice(["none", "none", "pmc", "pec"]),
             nonuniform=False, det=rng.choice(["vol", "box", "tie"]))
    if f["far"] == "pec":
        f["ms"] = [3 for _ in axes]      # with a far PEC layer the plane rows enter the compared region only for m >= 3
    f.update(force or {})
    return gen_case(rng, False, f)


def others_of(c):
    return [a for a in range(3) if a not in c["axes"]]


def full_shape(c):
    s = [0, 0, 0]
    for a, m in zip(c["axes"], c["ms"]):
        s[a] = 2 * m + (1 if c.get("odd") else 0)
    for o, n in zip(others_of(c), c["tshape"]):
        s[o] = n
    return s


def red_shape(c):
    s = full_shape(c)
    for a, m in zip(c["axes"], c["ms"]):
        s[a] = m
    return s


def sym_of(c):
    return tuple(-1 if a in c["axes"] else 0 for a in range(3))


def faces_of(c):
    f = {}
    for a in c["axes"]:
        f[Y.FACES[2 * a]] = f[Y.FACES[2 * a + 1]] = c["far"]
    for o, pr in zip(others_of(c), c["tfaces"]):
        f[Y.FACES[2 * o]], f[Y.FACES[2 * o + 1]] = pr
    return f


def widths_of(c):
    if not c["nonuniform"]:
        return None
    r = np.random.default_rng(c["seed"] + 17)
    w = []
    ms = dict(zip(c["axes"], c["ms"]))
    for a, n in enumerate(full_shape(c)):
        if a in ms:
            half = 50e-9 * r.uniform(0.6, 1.6, ms[a])
            w.append(list(np.concatenate([half[::-1], half])))
        else:
            w.append(list(50e-9 * r.uniform(0.6, 1.6, n)))
    return w


def detectors_of(c):
    """[(name, region)] with region = full-domain cell range per axis.
    vol : one detector = the whole volume;  box : 4 cells centred on every plane (meeting line and corner included);
    tie : along the FIRST symmetric axis (half size m) three one-cell slabs spanning the other axes -
          det_up [m, m+1)   lower face exactly ON the plane, entirely in the kept half (stored record is already the full one),
          det_lo [m-1, m)   upper face exactly on the plane, entirely in the discarded half (dropped by the reduction),
          det_in [m+1, m+2) strictly inside the kept half (only for m >= 2)
          (on the other symmetric axes of a several-plane case the slabs span, i.e. straddle those planes)."""
    fs = full_shape(c)
    whole = [(0, n) for n in fs]
    if not c["det"]:
        return []
    if c["det"] == "vol":
        return [("det", whole)]
    box = list(whole)
    if min(c["ms"]) >= 2:
        for a, m in zip(c["axes"], c["ms"]):
            box[a] = (m - 2, m + 2)
    if c["det"] == "box":
        return [("det", box)]
    a, m = c["axes"][0], c["ms"][0]
    out = []
    for nm, lo in (("det_up", m), ("det_lo", m - 1), ("det_in", m + 1)):
        if lo + 1 <= 2 * m - (1 if nm == "det_in" else 0) and (nm != "det_in" or m >= 2):
            r = list(whole)
            r[a] = (lo, lo + 1)
            out.append((nm, r))
    return out


def detector_fn(c):
    dets = detectors_of(c)
    if not dets:
        return None
    f = Y.J()["fdtdx"]
    jnp = Y.J()["jnp"]
    fs = full_shape(c)

    def fn(vol):
        objs, cons = [], []
        for nm, reg in dets:
            part = [r[1] - r[0] if r != (0, n) else None for r, n in zip(reg, fs)]
            d = f.FieldDetector(name=nm, exact_interpolation=True, reduce_volume=False, dtype=jnp.float64, plot=False,
                                partial_grid_shape=tuple(part))
            objs.append(d)
            if all(p is None for p in part):
                cons += list(d.same_position_and_size(vol))
            else:
                ax = tuple(a for a in range(3) if part[a] is not None)
                cons.append(d.set_grid_coordinates(axes=ax, sides=tuple("-" for _ in ax), coordinates=tuple(reg[a][0] for a in ax)))
        return objs, cons
    return fn


def scenes(c):
    kw = dict(widths=widths_of(c), pml_thickness=1, time=2.5e-15, extra_fn=detector_fn(c))
    full = Y.build(full_shape(c), faces_of(c), **kw)
    red = Y.build(full_shape(c), faces_of(c), symmetry=sym_of(c), **kw)
    red.shape = tuple(red.objects.volume.grid_shape)
    return full, red, sym_of(c)


def materialise(c):
    """random reduced state with the PEC-mirror parity on every plane, materials varying only along the non-symmetric
    axes; returns reduced and full arrays"""
    fs, rs = full_shape(c), red_shape(c)
    r = np.random.default_rng(c["seed"])
    Er, Hr = r.standard_normal([3] + rs), r.standard_normal([3] + rs)
    for a in c["axes"]:
        plane = [slice(None)] * 3
        plane[a] = 0
        for comp in range(3):
            if comp != a:
                Er[(comp,) + tuple(plane)] = 0.0        # tangential E: odd, sampled on the plane
        Hr[(a,) + tuple(plane)] = 0.0                   # normal H: odd, sampled on the plane
    Ef, Hf = unfold(Er, sym_of(c), "E"), unfold(Hr, sym_of(c), "H")
    ts = [1 if a in c["axes"] else n for a, n in enumerate(fs)]

    def mat(tier, lo, hi):
        v = r.uniform(lo, hi, [tier] + ts)
        return np.broadcast_to(v, [tier] + rs).copy(), np.broadcast_to(v, [tier] + fs).copy()
    ie = mat(c["eps_tier"], 0.15, 1.0)
    imu = (None, None) if c["mu_tier"] == 0 else mat(c["mu_tier"], 0.3, 1.0)
    se = mat(c["eps_tier"], 0.0, 0.02) if c["sig_e"] else (None, None)
    sh = mat(max(c["mu_tier"], 1), 0.0, 2e3) if c["sig_h"] else (None, None)
    return (Er, Hr, ie[0], imu[0], se[0], sh[0]), (Ef, Hf, ie[1], imu[1], se[1], sh[1])


def boundary_signature(objects):
    out = []
    for b in objects.boundary_objects:
        sl = b.grid_slice[b.axis]
        out.append((type(b).__name__, int(b.axis), b.direction, int(sl.start), int(sl.stop), bool(getattr(b, "_is_symmetry_wall", False))))
    return sorted(out)


def expected_signature(c):
    names = {"pec": "PerfectElectricConductor", "pmc": "PerfectMagneticConductor", "periodic": "BlochBoundary",
             "pml": "PerfectlyMatchedLayer"}
    rs = red_shape(c)
    out = []
    f = faces_of(c)
    for ax in range(3):
        for side, d in ((0, "-"), (1, "+")):
            kind = f[Y.FACES[2 * ax + side]]
            if kind == "none" or (ax in c["axes"] and d == "-"):
                continue                              # the min-side object of a symmetric axis lies in the discarded half
            n = rs[ax]
            out.append((names[kind], ax, d, 0 if d == "-" else n - 1, 1 if d == "-" else n, False))
    for a in c["axes"]:
        out.append(("PerfectElectricConductor", a, "-", 0, 1, True))
    return sorted(out)


def run_both(c, nsteps, sim=True, rec=None, built=None):
    """implementation runs with forward(..., simulate_boundaries=sim): list over steps n = 1..nsteps of
    (E_red, H_red, E_full, H_full), detector states.  `built` = (full, red, sym, R, F) reuses placed scenes."""
    j = Y.J()
    jnp = j["jnp"]
    if built is None:
        full, red, sym = scenes(c)
        R, F = materialise(c)
    else:
        full, red, sym, R, F = built
    ar = Y.with_state(red, R[0], R[1], R[2], R[3], R[4], R[5])
    af = Y.with_state(full, F[0], F[1], F[2], F[3], F[4], F[5])
    jax = j["jax"]
    rec = bool(c["det"]) if rec is None else rec

    def stepper(sc):      # the public time step, jit-compiled once per container (eager dispatch is 5x slower on fresh shapes)
        return jax.jit(lambda a, t: j["forward"]((t, a), sc.config, sc.objects, key=jax.random.PRNGKey(0),
                                                 record_detectors=rec, record_boundaries=False, simulate_boundaries=sim)[1])
    fr, ff = stepper(red), stepper(full)
    hist = []
    for n in range(1, nsteps + 1):
        t = jnp.asarray(n - 1, dtype=jnp.int32)
        ar, af = fr(ar, t), ff(af, t)
        hist.append((np.asarray(ar.fields.E), np.asarray(ar.fields.H), np.asarray(af.fields.E), np.asarray(af.fields.H)))
    det = None
    if rec:
        try:
            un = j["fdtdx"].unfold_detector_states(ar, red.objects, red.config)
        except Exception as e:
            raise UnfoldFailure(f"unfold_detector_states raises: {type(e).__name__}: {str(e)[:160]}")
        det = {}
        for nm, reg in detectors_of(c):
            ufull = np.asarray(af.detector_states[nm]["fields"])
            ured = np.asarray(un.detector_states[nm]["fields"]) if nm in un.detector_states else None
            det[nm] = (ured, ufull)
    return full, red, sym, R, F, hist, det


def nsteps_of(c):
    if len(c["axes"]) > 1:
        return min(c["ms"]) + 1
    return c["ms"][0] + (4 if c["far"] == "pmc" else 2)


def cone_mask(c, shape3, n, extra, start=(0, 0, 0), skip_first=()):
    """boolean mask over an array of spatial shape `shape3` whose cell (0,0,0) is full-domain cell `start`: True where
    every symmetric axis index c_a satisfies c_a >= n + d + extra(a), i.e. outside the reach of the far faces"""
    d = DELTA[c["far"]]
    mask = np.ones(shape3, dtype=bool)
    for a in c["axes"]:
        idx = np.arange(shape3[a]) + start[a]
        ok = idx >= n + d + extra(a)
        if a in skip_first:
            ok[0] = False
        sh = [1, 1, 1]
        sh[a] = shape3[a]
        mask = mask & ok.reshape(sh)
    return mask


def first_bad(diff, mask):
    """first masked cell where diff exceeds TOL (diff: (comp, x, y, z))"""
    bad = (~(diff <= TOL)) & mask[None]
    if not bad.any():
        return None
    w = np.argwhere(bad)[0]
    return tuple(int(x) for x in w), float(diff[tuple(w)])


def oracle(c, sym, hist, det):
    """the property on the implementation; returns (detail or None, info)"""
    fs = full_shape(c)
    info = {"diverged_outside_cone": False, "compared_cells": 0}
    up = (slice(None),) + tuple(slice(fs[a] // 2, None) if a in c["axes"] else slice(None) for a in range(3))
    where = f"axes={c['axes']}, ms={c['ms']}, far={c['far']}"
    for n, (Er, Hr, Ef, Hf) in enumerate(hist, start=1):
        mask = cone_mask(c, fs, n, lambda a: 0)
        for nm, red, ful in (("E", Er, Ef), ("H", Hr, Hf)):
            diff = np.abs(unfold(red, sym, nm) - ful)
            info["compared_cells"] += int(mask.sum())
            if np.any((diff > TOL) & ~mask[None]):
                info["diverged_outside_cone"] = True
            b = first_bad(diff, mask)
            if b:
                return (f"{nm} after step {n}: unfold(reduced) differs from the full run by {b[1]:.3e} at (component, cell) {b[0]} "
                        f"({where}: this cell is outside the reach of the far faces of the discarded parts)"), info
            b = first_bad(np.abs(ful[up] - red), mask[up[1:]])
            if b:
                return f"{nm} after step {n}: reduced run differs from the kept part of the full run by {b[1]:.3e} at {b[0]} ({where})", info
    if det is not None:
        ms = dict(zip(c["axes"], c["ms"]))
        for nm, reg in detectors_of(c):
            ur, uf = det[nm]
            kept = all(reg[a][1] > ms[a] for a in c["axes"])        # reaches into the kept part on every symmetric axis
            if ur is None:
                if kept:
                    return f"detector {nm} (full cells {reg}) has no record in the reduced run although it reaches the kept part ({where})", info
                continue
            if not kept:
                return f"detector {nm} (full cells {reg}) lies in a discarded half but the reduced run records it ({where})", info
            if ur.shape != uf.shape:
                return (f"unfolded record of detector {nm} (full cells {reg}) has shape {ur.shape}, the full-domain one {uf.shape} "
                        f"({where})"), info
            start = tuple(r[0] for r in reg)
            # the co-location stencil reads one cell back along x, y and forward along z; the outermost cell of an unfolded
            # detector that straddles a plane without spanning the axis is a filler (its mirror partner lies outside the
            # reduced detector) on x, y
            skip = tuple(a for a in c["axes"] if a in (0, 1) and 0 < reg[a][0] < ms[a])
            for n in range(1, len(hist) + 1):
                mask = cone_mask(c, ur.shape[2:], n, lambda a: 0 if a == 2 else 1, start=start, skip_first=skip)
                info["compared_cells"] += int(mask.sum())
                b = first_bad(np.abs(ur[n - 1] - uf[n - 1]), mask)
                if b:
                    comp = ["Ex", "Ey", "Ez", "Hx", "Hy", "Hz"][b[0][0]]
                    cell = tuple(x + s0 for x, s0 in zip(b[0][1:], start))
                    return (f"detector row of step {n}: unfold_detector_states(reduced) differs from the full-domain record by "
                            f"{b[1]:.3e} in {comp} at full cell {cell} ({where}, detector {nm} on full cells {reg})"), info
    return None, info


def property_fails(c):
    c = norm(c)
    if c.get("odd"):
        return None
    if c["far"] == "periodic":
        return None
    try:
        full, red, sym, R, F, hist, det = run_both(c, nsteps_of(c))
        d = oracle(c, sym, hist, det)[0]
        if d:
            return d
        # the same with forward(..., simulate_boundaries=False): the flag only freezes the PML auxiliary fields; the symmetry
        # wall and every PEC/PMC wall are enforced regardless of it
        hist0 = run_both(c, nsteps_of(c), sim=False, rec=False, built=(full, red, sym, R, F))[5]
        d = oracle(c, sym, hist0, None)[0]
        return ("with simulate_boundaries=False: " + d) if d else None
    except UnfoldFailure as e:
        return str(e)


def red_request(full, c, F, nsteps):
    line = Y.request(full, "fwd", F[0], F[1], F[2], 1.0 if F[3] is None else F[3], F[4], F[5], None, nsteps)
    assert line.startswith("fwd r ")
    return f"redfwd {''.join(str(a) for a in c['axes'])} r " + line[len("fwd r "):]


def one_case(ctx, c, sample=False):
    c = norm(c)
    nsteps = nsteps_of(c)
    try:
        full, red, sym, R, F, hist, det = run_both(c, nsteps)
    except UnfoldFailure as e:
        ctx.case(nontrivial=None, unfold_failure=True)
        ctx.impl_property_evals += 1
        ctx.violation(c, str(e))
        return
    key = (str(c["axes"]), str(c["ms"]), c["far"], str(c["tfaces"]), c["eps_tier"], c["mu_tier"], c["sig_e"], c["sig_h"], c["seed"])
    ctx.case(sample=c if sample else None, nontrivial=key, axes="".join(map(str, c["axes"])), m=str(c["ms"]), far=c["far"],
             planes=len(c["axes"]), grid="nonuniform" if c["nonuniform"] else "uniform", det=c["det"] or "none",
             sig_e=c["sig_e"], sig_h=c["sig_h"], eps_tier=c["eps_tier"], mu_tier=c["mu_tier"], tshape=str(c["tshape"]),
             tfaces=",".join("/".join(p) for p in c["tfaces"]))
    ctx.expect_equal("boundary objects of the reduced container", c, boundary_signature(red.objects), expected_signature(c))
    ctx.expect_equal("reduced volume shape", c, list(red.shape), red_shape(c))
    if c["far"] != "pml":
        fs, rs = full_shape(c), list(red.shape)
        imu = 1.0 if F[3] is None else F[3]
        mE, mH = Y.decode_fields(ctx.driver.ask(Y.request(full, "fwd", F[0], F[1], F[2], imu, F[4], F[5], None, 1)), fs)
        ctx.expect_close("full container: forward vs model", c, np.concatenate([hist[0][2].ravel(), hist[0][3].ravel()]),
                         np.concatenate([mE.ravel(), mH.ravel()]))
        for k in (1, nsteps):
            mE, mH = Y.decode_fields(ctx.driver.ask(red_request(full, c, F, k)), rs)
            ctx.expect_close(f"reduced container: {k} step(s) of forward vs model reduction", c,
                             np.concatenate([hist[k - 1][0].ravel(), hist[k - 1][1].ravel()]),
                             np.concatenate([mE.ravel(), mH.ravel()]))
    if c["far"] != "periodic":
        ctx.impl_property_evals += 1
        detail, info = oracle(c, sym, hist, det)
        ctx.case(nontrivial=None, diverges_past_cone=info["diverged_outside_cone"])
        ctx.evaluations -= 1
        if detail:
            ctx.violation(c, detail)
    # forward(..., simulate_boundaries=False) on the same placed scenes.  In the code as it is the flag reaches only
    # PerfectlyMatchedLayer.step_cpml (psi arrays are not advanced); update_E / update_H, apply_boundary_post_E/H_update
    # (symmetry wall, PEC, PMC) and the halo rules ignore it.  So without PML objects the runs must coincide with the
    # flag-on runs and with the model; with PML objects (psi frozen at 0) only the oracle applies.
    hist0 = run_both(c, nsteps, sim=False, rec=False, built=(full, red, sym, R, F))[5]
    ctx.case(nontrivial=None, flag_off_run=True)
    ctx.evaluations -= 1
    if c["far"] != "pml":
        for k in (1, nsteps):
            for who, a, b in (("reduced", 0, 1), ("full", 2, 3)):
                ctx.expect_close(f"{who} container, step {k}: forward(simulate_boundaries=False) vs forward(simulate_boundaries=True)", c,
                                 np.concatenate([hist0[k - 1][a].ravel(), hist0[k - 1][b].ravel()]),
                                 np.concatenate([hist[k - 1][a].ravel(), hist[k - 1][b].ravel()]), tol=1e-12)
        mE, mH = Y.decode_fields(ctx.driver.ask(red_request(full, c, F, nsteps)), list(red.shape))
        ctx.expect_close(f"reduced container: {nsteps} step(s) of forward(simulate_boundaries=False) vs model reduction", c,
                         np.concatenate([hist0[nsteps - 1][0].ravel(), hist0[nsteps - 1][1].ravel()]),
                         np.concatenate([mE.ravel(), mH.ravel()]))
    if c["far"] != "periodic":
        ctx.impl_property_evals += 1
        detail, _ = oracle(c, sym, hist0, None)
        if detail:
            ctx.violation(c, "with simulate_boundaries=False: " + detail)
    if c.get("run_fdtd"):
        run_fdtd_check(ctx, c, full, red, R, F, hist)


def run_fdtd_check(ctx, c, full, red, R, F, hist):
    """the library time loop.  run_fdtd itself calls arrays.reset() (fields zeroed), so a scene driven by initial fields
    cannot go through it; its loop is custom_fdtd_forward, which is called here with reset_container=False for `n` steps
    (it always passes simulate_boundaries=True).  Compared with forward() iterated, and the property oracle (light cone)
    is evaluated on its result."""
    j = Y.J()
    jax, jnp = j["jax"], j["jnp"]
    from fdtdx.fdtd.fdtd import custom_fdtd_forward
    n = nsteps_of(c)
    res = {}
    for who, sc, S in (("reduced", red, R), ("full", full, F)):
        a0 = Y.with_state(sc, S[0], S[1], S[2], S[3], S[4], S[5])
        t_end, out = custom_fdtd_forward(arrays=a0, objects=sc.objects, config=sc.config, key=jax.random.PRNGKey(0),
                                         reset_container=False, record_detectors=False, start_time=0, end_time=n,
                                         show_progress=False)
        res[who] = (np.asarray(out.fields.E), np.asarray(out.fields.H))
        ctx.expect_equal(f"{who} container: custom_fdtd_forward end step", c, int(t_end), n)
    for who, a, b in (("reduced", 0, 1), ("full", 2, 3)):
        ctx.expect_close(f"{who} container: custom_fdtd_forward ({n} steps) vs forward() iterated", c,
                         np.concatenate([res[who][0].ravel(), res[who][1].ravel()]),
                         np.concatenate([hist[n - 1][a].ravel(), hist[n - 1][b].ravel()]), tol=1e-12)
    ctx.case(nontrivial=None, library_loop=True)
    ctx.evaluations -= 1
    ctx.impl_property_evals += 1
    # evaluate the oracle on the last step only: pad the history so that the step index is right
    fake = [hist[i] for i in range(n - 1)] + [(res["reduced"][0], res["reduced"][1], res["full"][0], res["full"][1])]
    detail, _ = oracle(c, sym_of(c), fake, None)
    if detail:
        ctx.violation(c, "custom_fdtd_forward: " + detail)


def odd_case(ctx, c):
    """odd cell count along the symmetric axis: both sides refuse"""
    c = dict(norm(c), odd=True, far="none", det="", nonuniform=False)
    try:
        Y.build(full_shape(c), faces_of(c), symmetry=sym_of(c))
        impl = "ok"
    except Exception:
        impl = "error"
    full = Y.build(full_shape(c), faces_of(c))
    fs = full_shape(c)
    z = np.zeros([3] + fs)
    rep = ctx.driver.ask(red_request(full, c, (z, z, np.ones([1] + fs), None, None, None), 1))
    ctx.case(nontrivial=("odd", str(c["axes"]), str(c["ms"])), odd=True)
    ctx.expect_equal("odd cell count on the symmetric axis", c, impl, rep)


FORCED = [
    dict(axis=0, m=3, far="none", tshape=[3, 2], tfaces=[["periodic", "periodic"], ["pec", "pmc"]], det="tie", nonuniform=False, eps_tier=3),
    dict(axis=1, m=2, far="pec", tshape=[2, 3], tfaces=[["none", "none"], ["periodic", "periodic"]], det=True, nonuniform=True, sig_e=True),
    dict(axis=2, m=2, far="pmc", tshape=[3, 1], tfaces=[["pec", "none"], ["none", "none"]], det="tie", nonuniform=False, mu_tier=3, sig_h=True,
         run_fdtd=True),
    dict(axis=2, m=1, far="none", tshape=[2, 2], tfaces=[["periodic", "periodic"], ["periodic", "periodic"]], det=False),
    dict(axis=0, m=2, far="periodic", tshape=[2, 2], tfaces=[["none", "none"], ["pmc", "pmc"]], det=False),
    dict(axis=1, m=3, far="pml", tshape=[2, 2], tfaces=[["periodic", "periodic"], ["none", "none"]], det=False),
]
# several electric planes at once: every pair of axes and the triple, each with a co-located detector that touches all planes
# (whole volume, or a 4-cell box around the meeting line / corner); quick runs all of them on every seed
MULTI = [
    dict(axes=[0, 1], ms=[2, 2], far="none", det="vol", tshape=[2], tfaces=[["periodic", "periodic"]]),
    dict(axes=[0, 2], ms=[3, 2], far="pmc", det="box", tshape=[2], tfaces=[["none", "none"]]),
    dict(axes=[1, 2], ms=[2, 3], far="none", det="tie", tshape=[1], tfaces=[["pec", "pec"]], eps_tier=3),
    dict(axes=[0, 1, 2], ms=[2, 2, 2], far="none", det="vol", tshape=[], tfaces=[]),
]


def multi_cases(rng, thorough):
    out = []
    for i, f in enumerate(MULTI):
        f = dict(f)
        if len(f["axes"]) == 2:        # vary half sizes, far kind and detector kind over the seeds; the axes pairs stay fixed
            f["ms"] = [rng.choice([2, 3]), rng.choice([2, 3])]
            f["far"] = rng.choice(["none", "none", "pmc"])
            f["det"] = rng.choice(["vol", "box"]) if f["det"] != "tie" else "tie"
        out.append(gen_case(rng, False, f))
    if thorough:
        for i in range(12):
            axes = [[0, 1], [0, 2], [1, 2], [0, 1, 2]][i % 4]
            out.append(gen_multi(rng, axes, dict(tshape=[rng.randint(1, 3)], tfaces=[list(rng.choice(PAIRS_OK))])))
    return out


def run(ctx):
    n = ctx.scale(7, 80)
    cases = [gen_case(ctx.rng, ctx.thorough, f) for f in FORCED]
    while len(cases) < n:
        cases.append(gen_case(ctx.rng, ctx.thorough))
    cases = multi_cases(ctx.rng, ctx.thorough) + cases
    for i, c in enumerate(cases):
        one_case(ctx, c, sample=i in (0, 4))
    for i in range(ctx.scale(2, 6)):
        odd_case(ctx, gen_case(ctx.rng, False, dict(axis=i % 3)))


def search(ctx, hints):
    for h in hints:
        if isinstance(h, dict) and ("axis" in h or "axes" in h) and not h.get("odd"):
            ctx.impl_property_evals += 1
            d = property_fails(h)
            if d:
                ctx.violation(h, d)
                return
    rng = ctx.rng.fork()
    for i in range(ctx.scale(40, 300)):
        if i % 4 == 3:
            c = gen_multi(rng, [[0, 1], [0, 2], [1, 2], [0, 1, 2]][(i // 4) % 4])
        else:
            c = gen_case(rng, False, dict(axis=i % 3, det=(i % 2 == 0)))
            if i < 12:      # smallest first
                c.update(ms=[1 + i % 2], tshape=[1 + (i // 6), 2], nonuniform=False, sig_e=False, sig_h=False, mu_tier=0, eps_tier=1,
                         far=["none", "pec", "pmc"][(i // 3) % 3])
        if c["far"] == "periodic":
            c["far"] = "none"
        ctx.impl_property_evals += 1
        d = property_fails(c)
        if d:
            ctx.violation(c, d)
            return


def replay(ctx, inp):
    return property_fails(inp)
