"""C33 — electric-plane symmetry reduction is exact (inside the light cone of the discarded half's far boundary).

K: fdtdx.fdtd.forward.forward on the FULL container vs the shared Yee model (`fwd`), and on the REDUCED container
   (place_objects with config.symmetry = -1 on one axis: halved volume + PEC wall of make_symmetry_walls) vs the model's
   own reduction of the full request (`redfwd`: reduceCfg/upperV of FdtdxModel/C33.lean), single and multi step.
Oracle (the property itself, implementation against implementation): unfold(reduced run) == full run on every cell the
   discarded half's far boundary cannot have reached yet; same for FieldDetector(exact_interpolation) records through
   unfold_detector_states."""
import numpy as np

from . import yee_api as Y

RULE = ("cases from the seed: symmetry axis 0..2, half size m in 1..3 (thorough 1..4; full domain 2m cells), 1..4 cells on the "
        "other axes (singletons included), far faces of the symmetry axis both none | pec | pmc | pml(1 cell, oracle only) | "
        "periodic (K only: reduced axis keeps wrap padding with a zeroed min-side halo), transverse face pairs out of "
        "none/periodic/pec/pmc mixes, uniform or mirror-symmetric non-uniform grid, isotropic or diagonal inv_eps, scalar / "
        "iso / diagonal inv_mu, optional sigma_E / sigma_H, all varying transversally and constant along the axis; random "
        "reduced fields with the PEC-mirror parity (tangential E and normal H zero on the plane), full-domain initial state "
        "= fdtdx.unfold_fields of them; m+2 steps (pmc: m+4). Oracle per step n and full cell index c along the axis: "
        "|unfold(reduced) - full| <= 1e-12 wherever c >= n + d, d = 0 (none, pmc), 1 (pec, pml) [the asymmetry of the "
        "far face of the discarded half sits at cell 0 resp. 1 and moves one cell per step; measured on the unchanged tree: "
        "first difference exactly at c = n + d - 1]; detector rows (FieldDetector, exact_interpolation, whole volume, "
        "unfold_detector_states) wherever c >= n + d + 1 (x, y: the co-location stencil reads one cell back) resp. c >= n + d (z: it reads forward). K: forward on the "
        "full container vs model fwd; forward on the reduced container vs model redfwd (1 step and all steps), 1e-9; the "
        "boundary objects of the reduced container (wall type/axis/side/slice, dropped min-side object) exactly; odd cell "
        "counts are rejected by both. non-trivial = (axis, m, far, faces, tiers, seed).")

PAIRS_OK = [("none", "none"), ("periodic", "periodic"), ("pec", "pec"), ("pmc", "pmc"), ("pec", "none"), ("none", "pmc"),
            ("pec", "pmc"), ("pmc", "pec")]
DELTA = {"none": 0, "pmc": 0, "pec": 1, "pml": 1}
TOL = 1e-12


class UnfoldFailure(Exception):
    """fdtdx.unfold_fields / unfold_detector_states refused an input the reduction accepted: the property's
    'running the reduced domain and unfolding' cannot even be formed"""


def unfold(arr, sym, kind):
    j = Y.J()
    try:
        return np.asarray(j["fdtdx"].unfold_fields(j["jnp"].asarray(arr), tuple(sym), kind))
    except Exception as e:
        raise UnfoldFailure(f"unfold_fields raises on a reduced {kind} field of shape {tuple(arr.shape)} with symmetry {tuple(sym)}: "
                            f"{type(e).__name__}: {str(e)[:160]}")


def gen_case(rng, thorough, force=None):
    c = {}
    c["axis"] = rng.randint(0, 2)
    c["m"] = rng.choice([1, 2, 2, 3, 3, 4] if thorough else [1, 2, 2, 3, 3])
    c["far"] = rng.choice(["none", "none", "none", "pec", "pec", "pmc", "pml", "periodic"])
    c["tshape"] = [rng.randint(1, 4), rng.randint(1, 4)]
    c["tfaces"] = [list(rng.choice(PAIRS_OK)), list(rng.choice(PAIRS_OK))]
    c["nonuniform"] = rng.chance(0.3)
    c["eps_tier"] = rng.choice([1, 3])
    c["mu_tier"] = rng.choice([0, 0, 1, 3])
    c["sig_e"] = rng.chance(0.3)
    c["sig_h"] = rng.chance(0.2)
    c["det"] = rng.chance(0.5)
    c["seed"] = rng.np_seed()
    if force:
        c.update(force)
    if c["far"] == "pml":
        c["m"] = max(c["m"], 2)
        c["nonuniform"] = False
    if c["m"] == 1 and c["tshape"] == [1, 1]:
        c["tshape"] = [2, 1]          # a 1x1x1 reduced volume trips place_objects' sharding helper (unrelated to the property)
    return c


def full_shape(c):
    others = [a for a in range(3) if a != c["axis"]]
    s = [0, 0, 0]
    s[c["axis"]] = 2 * c["m"] + (1 if c.get("odd") else 0)
    s[others[0]], s[others[1]] = c["tshape"]
    return s


def faces_of(c):
    others = [a for a in range(3) if a != c["axis"]]
    f = {}
    f[Y.FACES[2 * c["axis"]]] = f[Y.FACES[2 * c["axis"] + 1]] = c["far"]
    for o, pr in zip(others, c["tfaces"]):
        f[Y.FACES[2 * o]], f[Y.FACES[2 * o + 1]] = pr
    return f


def widths_of(c):
    if not c["nonuniform"]:
        return None
    r = np.random.default_rng(c["seed"] + 17)
    w = []
    for a, n in enumerate(full_shape(c)):
        if a == c["axis"]:
            half = 50e-9 * r.uniform(0.6, 1.6, c["m"])
            w.append(list(np.concatenate([half[::-1], half])))
        else:
            w.append(list(50e-9 * r.uniform(0.6, 1.6, n)))
    return w


def detector_fn(c):
    if not c["det"]:
        return None
    f = Y.J()["fdtdx"]
    jnp = Y.J()["jnp"]

    def fn(vol):
        d = f.FieldDetector(name="det", exact_interpolation=True, reduce_volume=False, dtype=jnp.float64, plot=False)
        return [d], list(d.same_position_and_size(vol))
    return fn


def scenes(c):
    sym = [0, 0, 0]
    sym[c["axis"]] = -1
    kw = dict(widths=widths_of(c), pml_thickness=1, time=2.5e-15, extra_fn=detector_fn(c))
    full = Y.build(full_shape(c), faces_of(c), **kw)
    red = Y.build(full_shape(c), faces_of(c), symmetry=sym, **kw)
    red.shape = tuple(red.objects.volume.grid_shape)
    return full, red, tuple(sym)


def materialise(c):
    """random reduced state with the PEC-mirror parity, transversally varying materials; returns reduced and full arrays"""
    j = Y.J()
    fdtdx, jnp = j["fdtdx"], j["jnp"]
    a, m = c["axis"], c["m"]
    fs = full_shape(c)
    rs = list(fs)
    rs[a] = m
    r = np.random.default_rng(c["seed"])
    Er, Hr = r.standard_normal([3] + rs), r.standard_normal([3] + rs)
    plane = [slice(None)] * 3
    plane[a] = 0
    for comp in range(3):
        if comp != a:
            Er[(comp,) + tuple(plane)] = 0.0        # tangential E: odd, sampled on the plane
    Hr[(a,) + tuple(plane)] = 0.0                   # normal H: odd, sampled on the plane
    sym = [0, 0, 0]
    sym[a] = -1
    Ef, Hf = unfold(Er, sym, "E"), unfold(Hr, sym, "H")
    ts = list(fs)
    ts[a] = 1

    def mat(tier, lo, hi):
        v = r.uniform(lo, hi, [tier] + ts)
        return np.broadcast_to(v, [tier] + rs).copy(), np.broadcast_to(v, [tier] + fs).copy()
    ie = mat(c["eps_tier"], 0.15, 1.0)
    imu = (None, None) if c["mu_tier"] == 0 else mat(c["mu_tier"], 0.3, 1.0)
    se = mat(c["eps_tier"], 0.0, 0.02) if c["sig_e"] else (None, None)
    sh = mat(max(c["mu_tier"], 1), 0.0, 2e3) if c["sig_h"] else (None, None)
    return (Er, Hr, ie[0], imu[0], se[0], sh[0]), (Ef, Hf, ie[1], imu[1], se[1], sh[1])


def boundary_signature(objects):
    out = []
    for b in objects.boundary_objects:
        sl = b.grid_slice[b.axis]
        out.append((type(b).__name__, int(b.axis), b.direction, int(sl.start), int(sl.stop), bool(getattr(b, "_is_symmetry_wall", False))))
    return sorted(out)


def expected_signature(c):
    names = {"pec": "PerfectElectricConductor", "pmc": "PerfectMagneticConductor", "periodic": "BlochBoundary",
             "pml": "PerfectlyMatchedLayer"}
    fs = full_shape(c)
    rs = list(fs)
    rs[c["axis"]] = c["m"]
    out = []
    f = faces_of(c)
    for ax in range(3):
        for side, d in ((0, "-"), (1, "+")):
            kind = f[Y.FACES[2 * ax + side]]
            if kind == "none" or (ax == c["axis"] and d == "-"):
                continue                              # the min-side object of the symmetric axis lies in the discarded half
            n = rs[ax]
            out.append((names[kind], ax, d, 0 if d == "-" else n - 1, 1 if d == "-" else n, False))
    out.append(("PerfectElectricConductor", c["axis"], "-", 0, 1, True))
    return sorted(out)


def run_both(c, nsteps):
    """implementation runs: list over steps n = 1..nsteps of (E_red, H_red, E_full, H_full), detector states"""
    j = Y.J()
    jnp = j["jnp"]
    full, red, sym = scenes(c)
    R, F = materialise(c)
    ar = Y.with_state(red, R[0], R[1], R[2], R[3], R[4], R[5])
    af = Y.with_state(full, F[0], F[1], F[2], F[3], F[4], F[5])
    jax = j["jax"]

    def stepper(sc):      # the public time step, jit-compiled once per container (eager dispatch is 5x slower on fresh shapes)
        return jax.jit(lambda a, t: j["forward"]((t, a), sc.config, sc.objects, key=jax.random.PRNGKey(0),
                                                 record_detectors=c["det"], record_boundaries=False, simulate_boundaries=True)[1])
    fr, ff = stepper(red), stepper(full)
    hist = []
    for n in range(1, nsteps + 1):
        t = jnp.asarray(n - 1, dtype=jnp.int32)
        ar, af = fr(ar, t), ff(af, t)
        hist.append((np.asarray(ar.fields.E), np.asarray(ar.fields.H), np.asarray(af.fields.E), np.asarray(af.fields.H)))
    det = None
    if c["det"]:
        try:
            un = j["fdtdx"].unfold_detector_states(ar, red.objects, red.config)
        except Exception as e:
            raise UnfoldFailure(f"unfold_detector_states raises: {type(e).__name__}: {str(e)[:160]}")
        det = (np.asarray(un.detector_states["det"]["fields"]), np.asarray(af.detector_states["det"]["fields"]))
    return full, red, sym, R, F, hist, det


def nsteps_of(c):
    return c["m"] + (4 if c["far"] == "pmc" else 2)


def oracle(c, sym, hist, det):
    """the property on the implementation; returns (detail or None, info)"""
    j = Y.J()
    fdtdx, jnp = j["fdtdx"], j["jnp"]
    a, m = c["axis"], c["m"]
    d = DELTA[c["far"]]
    other = tuple(x for x in range(4) if x != a + 1)
    info = {"diverged_outside_cone": False, "compared_cells": 0}
    for n, (Er, Hr, Ef, Hf) in enumerate(hist, start=1):
        for nm, red, ful in (("E", Er, Ef), ("H", Hr, Hf)):
            un = unfold(red, sym, nm)
            diff = np.max(np.abs(un - ful), axis=other)          # per full cell index along the axis
            lo = n + d
            info["compared_cells"] += max(0, 2 * m - lo)
            if np.any(diff[:lo] > TOL):
                info["diverged_outside_cone"] = True
            bad = np.where(~(diff[lo:] <= TOL))[0]
            if bad.size:
                cidx = int(bad[0]) + lo
                return (f"{nm} after step {n}: unfold(reduced) differs from the full run by {diff[cidx]:.3e} at cell {cidx} "
                        f"of the symmetry axis {a} (m={m}, far={c['far']}: cells >= {lo} are outside the reach of the far face)"), info
            up = [slice(None)] * 4
            up[a + 1] = slice(m, None)
            dd = np.max(np.abs(ful[tuple(up)] - red), axis=other)
            bad = np.where(~(dd[max(0, lo - m):] <= TOL))[0]
            if bad.size:
                return f"{nm} after step {n}: reduced run differs from the upper half of the full run by {dd.max():.3e}", info
    if det is not None:
        ur, uf = det
        if ur.shape != uf.shape:
            return f"unfolded detector record has shape {ur.shape}, the full-domain one {uf.shape}", info
        for n in range(1, len(hist) + 1):
            diff = np.max(np.abs(ur[n - 1] - uf[n - 1]), axis=tuple(x for x in range(4) if x != a + 1))
            lo = n + d + (0 if a == 2 else 1)     # co-location reads one cell back along x, y; forward along z
            bad = np.where(~(diff[lo:] <= TOL))[0]
            info["compared_cells"] += max(0, 2 * m - lo)
            if bad.size:
                cidx = int(bad[0]) + lo
                return (f"detector row of step {n}: unfold_detector_states(reduced) differs from the full-domain record by "
                        f"{diff[cidx]:.3e} at cell {cidx} of axis {a} (m={m}, far={c['far']})"), info
    return None, info


def property_fails(c):
    if c.get("odd"):
        return None
    if c["far"] == "periodic":
        return None
    try:
        full, red, sym, R, F, hist, det = run_both(c, nsteps_of(c))
        return oracle(c, sym, hist, det)[0]
    except UnfoldFailure as e:
        return str(e)


def red_request(full, c, F, nsteps):
    line = Y.request(full, "fwd", F[0], F[1], F[2], 1.0 if F[3] is None else F[3], F[4], F[5], None, nsteps)
    assert line.startswith("fwd r ")
    return f"redfwd {c['axis']} r " + line[len("fwd r "):]


def one_case(ctx, c, sample=False):
    nsteps = nsteps_of(c)
    try:
        full, red, sym, R, F, hist, det = run_both(c, nsteps)
    except UnfoldFailure as e:
        ctx.case(nontrivial=None, unfold_failure=True)
        ctx.impl_property_evals += 1
        ctx.violation(c, str(e))
        return
    key = (c["axis"], c["m"], c["far"], str(c["tfaces"]), c["eps_tier"], c["mu_tier"], c["sig_e"], c["sig_h"], c["seed"])
    ctx.case(sample=c if sample else None, nontrivial=key, axis=c["axis"], m=c["m"], far=c["far"],
             grid="nonuniform" if c["nonuniform"] else "uniform", det=c["det"], sig_e=c["sig_e"], sig_h=c["sig_h"],
             eps_tier=c["eps_tier"], mu_tier=c["mu_tier"], tshape=str(c["tshape"]),
             tfaces=",".join("/".join(p) for p in c["tfaces"]))
    ctx.expect_equal("boundary objects of the reduced container", c, boundary_signature(red.objects), expected_signature(c))
    ctx.expect_equal("reduced volume shape", c, list(red.shape), [c["m"] if a == c["axis"] else n for a, n in enumerate(full_shape(c))])
    if c["far"] != "pml":
        fs, rs = full_shape(c), list(red.shape)
        imu = 1.0 if F[3] is None else F[3]
        mE, mH = Y.decode_fields(ctx.driver.ask(Y.request(full, "fwd", F[0], F[1], F[2], imu, F[4], F[5], None, 1)), fs)
        ctx.expect_close("full container: forward vs model", c, np.concatenate([hist[0][2].ravel(), hist[0][3].ravel()]),
                         np.concatenate([mE.ravel(), mH.ravel()]))
        for k in (1, nsteps):
            mE, mH = Y.decode_fields(ctx.driver.ask(red_request(full, c, F, k)), rs)
            ctx.expect_close(f"reduced container: {k} step(s) of forward vs model reduction", c,
                             np.concatenate([hist[k - 1][0].ravel(), hist[k - 1][1].ravel()]),
                             np.concatenate([mE.ravel(), mH.ravel()]))
    if c["far"] != "periodic":
        ctx.impl_property_evals += 1
        detail, info = oracle(c, sym, hist, det)
        ctx.case(nontrivial=None, diverges_past_cone=info["diverged_outside_cone"])
        ctx.evaluations -= 1
        if detail:
            ctx.violation(c, detail)


def odd_case(ctx, c):
    """odd cell count along the symmetric axis: both sides refuse"""
    c = dict(c, odd=True, far="none", det=False, nonuniform=False)
    sym = [0, 0, 0]
    sym[c["axis"]] = -1
    try:
        Y.build(full_shape(c), faces_of(c), symmetry=sym)
        impl = "ok"
    except Exception:
        impl = "error"
    full = Y.build(full_shape(c), faces_of(c))
    fs = full_shape(c)
    z = np.zeros([3] + fs)
    rep = ctx.driver.ask(red_request(full, c, (z, z, np.ones([1] + fs), None, None, None), 1))
    ctx.case(nontrivial=("odd", c["axis"], c["m"]), odd=True)
    ctx.expect_equal("odd cell count on the symmetric axis", c, impl, rep)


FORCED = [
    dict(axis=0, m=3, far="none", tshape=[3, 2], tfaces=[["periodic", "periodic"], ["pec", "pmc"]], det=True, nonuniform=False, eps_tier=3),
    dict(axis=1, m=2, far="pec", tshape=[2, 3], tfaces=[["none", "none"], ["periodic", "periodic"]], det=True, nonuniform=True, sig_e=True),
    dict(axis=2, m=2, far="pmc", tshape=[3, 1], tfaces=[["pec", "none"], ["none", "none"]], det=True, nonuniform=False, mu_tier=3, sig_h=True),
    dict(axis=2, m=1, far="none", tshape=[2, 2], tfaces=[["periodic", "periodic"], ["periodic", "periodic"]], det=False),
    dict(axis=0, m=2, far="periodic", tshape=[2, 2], tfaces=[["none", "none"], ["pmc", "pmc"]], det=False),
    dict(axis=1, m=3, far="pml", tshape=[2, 2], tfaces=[["periodic", "periodic"], ["none", "none"]], det=False),
]


def run(ctx):
    n = ctx.scale(10, 80)
    cases = [gen_case(ctx.rng, ctx.thorough, f) for f in FORCED]
    while len(cases) < n:
        cases.append(gen_case(ctx.rng, ctx.thorough))
    for i, c in enumerate(cases):
        one_case(ctx, c, sample=i in (0, 1))
    for i in range(ctx.scale(2, 6)):
        odd_case(ctx, gen_case(ctx.rng, False, dict(axis=i % 3)))


def search(ctx, hints):
    for h in hints:
        if isinstance(h, dict) and "axis" in h and not h.get("odd"):
            ctx.impl_property_evals += 1
            d = property_fails(h)
            if d:
                ctx.violation(h, d)
                return
    rng = ctx.rng.fork()
    for i in range(ctx.scale(40, 300)):
        c = gen_case(rng, False, dict(axis=i % 3, det=(i % 2 == 0)))
        if i < 12:      # smallest first
            c.update(m=1 + i % 2, tshape=[1 + (i // 6), 2], nonuniform=False, sig_e=False, sig_h=False, mu_tier=0, eps_tier=1,
                     far=["none", "pec", "pmc"][(i // 3) % 3])
        if c["far"] == "periodic":
            c["far"] = "none"
        ctx.impl_property_evals += 1
        d = property_fails(c)
        if d:
            ctx.violation(c, d)
            return


def replay(ctx, inp):
    return property_fails(inp)
