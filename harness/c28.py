"""C28 — painter's rule of _init_arrays (fdtdx.place_objects arrays) vs lean/FdtdxModel/C28.lean"""
import math

import numpy as np

from .common import f2h, h2f, relerr

RULE = ("K: fdtdx.place_objects on generated scenes (volume 5-8 cells per axis; 2-5 overlapping UniformMaterialObject boxes, "
        "Sphere/ellipsoid and Cylinder objects at random positions; placement orders drawn from a small set so that ties are "
        "frequent, sometimes equal to or below the volume's -1000; materials per property isotropic / near-isotropic within "
        "math.isclose / diagonal / full tensor, magnetic or not, electrically and magnetically conductive or not; unused "
        "entries in `materials` dicts — incl. entries that TIE on permittivity with the painted one and differ in permeability "
        "/ electric / magnetic conductivity, painted entry first or last in the dict — and a Device whose materials only widen the tiers; 40 % of the scenes mix multi-material "
        "objects WITH subpixel_smoothing=True and others WITHOUT, the latter birefringent and over anisotropic boxes; "
        "float64). Observed: "
        "arrays.inv_permittivities, inv_permeabilities (array or scalar), electric_conductivity, magnetic_conductivity "
        "(array or None) and their component counts. Compared with the Lean model's initArrays (counts exactly, values 1e-9) "
        "fed with the container's object order, boxes, voxel masks and materials; and with an independent numpy oracle that "
        "takes, per cell, the covering object with the largest (placement_order, index in the list handed to place_objects), "
        "every scene containing an overlapping equal-order pair of a round (multi-material class) object and a box in "
        "either list order; with smoothed objects the rule is checked on every cell outside their grid slices, component by "
        "component, and those cells must be bit-identical to the same scene with all smoothing flags cleared; the widest "
        "tier any material "
        "needs, and conductivity x uniform grid spacing. non-trivial = tier pattern x kinds x tie/below-volume flags.")

_jax = None


def J():
    global _jax
    if _jax is None:
        import warnings
        import jax
        jax.config.update("jax_enable_x64", True)
        import jax.numpy as jnp
        import fdtdx
        warnings.filterwarnings("ignore")
        try:
            from loguru import logger
            logger.disable("fdtdx")
        except Exception:
            pass
        _jax = dict(jax=jax, jnp=jnp, fdtdx=fdtdx)
    return _jax


H = 50e-9          # uniform grid spacing of every scene
PROPS = ["eps", "mu", "sigE", "sigM"]
DEFAULT = {"eps": 1.0, "mu": 1.0, "sigE": 0.0, "sigM": 0.0}


# ----------------------------------------------------------------------------- materials
def norm9(v):
    """Material normalisation (independent re-statement): scalar / 3 / 9 -> 9-tuple"""
    if isinstance(v, (int, float)):
        return [float(v), 0.0, 0.0, 0.0, float(v), 0.0, 0.0, 0.0, float(v)]
    v = [float(x) for x in v]
    if len(v) == 3:
        return [v[0], 0.0, 0.0, 0.0, v[1], 0.0, 0.0, 0.0, v[2]]
    assert len(v) == 9
    return v


def mat9(m):
    return {p: norm9(m.get(p, DEFAULT[p])) for p in PROPS}


def to_material(m):
    fdtdx = J()["fdtdx"]

    def arg(v):
        return float(v) if isinstance(v, (int, float)) else tuple(float(x) for x in v)
    return fdtdx.Material(permittivity=arg(m.get("eps", 1.0)), permeability=arg(m.get("mu", 1.0)),
                          electric_conductivity=arg(m.get("sigE", 0.0)), magnetic_conductivity=arg(m.get("sigM", 0.0)))


def gen_value(rng, prop, tier):
    """a property value needing exactly (at most) the given tier; tier 0 = the default value"""
    if tier == 0:
        return DEFAULT[prop]
    if prop in ("eps", "mu"):
        base = lambda: round(rng.uniform(1.2, 9.0), 3)
    else:
        base = lambda: round(rng.uniform(0.5, 8.0), 3) * 10.0 ** rng.randint(3, 7)
    if tier == 1:
        a = base()
        if rng.chance(0.15):                       # isotropic only up to math.isclose: stored value is the xx entry
            return [a, a * (1 + 3e-10), a * (1 - 2e-10)]
        return a
    if tier == 3:
        return [base(), base(), base()]
    d = [base(), base(), base()]
    s = min(d)
    off = lambda: round(rng.uniform(-0.25, 0.25), 3) * s
    return [d[0], off(), off(), off(), d[1], off(), off(), off(), d[2]]


def gen_material(rng, plan):
    m = {}
    for p in PROPS:
        t = plan[p]
        if t == 0:
            continue
        choice = rng.choice([c for c in (0, 1, 3, 9) if c <= t])
        if p == "eps" and choice == 0:
            choice = 1
        if choice:
            m[p] = gen_value(rng, p, choice)
    return m


# ----------------------------------------------------------------------------- scenes
QUICK_BOX = [(3, 3, 3), (2, 4, 3), (6, 6, 2), (1, 1, 1)]
QUICK_SPH = [(4, 4, 4), (4, 3, 2)]
QUICK_CYL = [(0, 2, 6), (1, 3, 3), (2, 2, 4)]          # (axis, diameter cells, length)


def gen_scene(rng, idx, thorough=False):
    V = [6, 6, 6] if not thorough else [rng.randint(5, 8) for _ in range(3)]
    smooth_scene = idx % 5 in (1, 3)          # 40 %: some multi-material objects request sub-pixel smoothing, others not
    plan = {"eps": 3 if smooth_scene else [1, 1, 3, 9][idx % 4] if idx < 8 else rng.choice([1, 3, 9]),
            "mu": rng.choice([0, 0, 1, 3, 9]), "sigE": rng.choice([0, 0, 1, 3, 9]), "sigM": rng.choice([0, 0, 0, 1, 3, 9])}
    orders = rng.choice([[0, 0, 1], [0, 1, 1, 2], [-1, 0, 0, 5], [0], [3, 2, 1, 0], [-1000, 0, 0], [-2000, -1000, 0, 1]])
    objs = []
    for k in range(rng.randint(2, 5)):
        kind = rng.choice(["box", "box", "sphere", "cyl"])
        o = {"kind": kind, "order": rng.choice(orders), "mat": gen_material(rng, plan)}
        if kind == "box":
            size = list(rng.choice(QUICK_BOX)) if not thorough else [rng.randint(1, V[a]) for a in range(3)]
        elif kind == "sphere":
            size = list(rng.choice(QUICK_SPH)) if not thorough else [rng.randint(2, 5) for _ in range(3)]
            o["extra"] = [gen_material(rng, plan)] if rng.chance(0.4) else []
        else:
            axis, dia, ln = rng.choice(QUICK_CYL) if not thorough else (rng.randint(0, 2), rng.randint(2, 4), rng.randint(1, 5))
            size = [dia, dia, dia]
            size[axis] = ln
            o["axis"] = axis
            o["extra"] = [gen_material(rng, plan)] if rng.chance(0.3) else []
        size = [min(size[a], V[a]) for a in range(3)]
        if kind == "cyl":
            # the cross-section is derived from the radius: keep both transverse sizes equal
            t = [a for a in range(3) if a != o["axis"]]
            d = min(size[t[0]], size[t[1]])
            size[t[0]] = size[t[1]] = d
        o["size"] = size
        o["lo"] = [rng.randint(0, V[a] - size[a]) for a in range(3)]
        objs.append(o)
    # always: an overlapping pair of objects of DIFFERENT classes with EQUAL placement order, in either list order
    # (list order breaks the tie: the later one wins the overlap whatever its class)
    p0 = [rng.randint(0, V[a] - 4) for a in range(3)]
    tie = rng.choice(orders)
    round_kind = rng.choice(["sphere", "cyl"])
    if round_kind == "sphere":
        rnd = {"kind": "sphere", "order": tie, "mat": gen_material(rng, plan), "extra": [], "size": [4, 4, 4], "lo": p0}
    else:
        rnd = {"kind": "cyl", "order": tie, "axis": 1, "mat": gen_material(rng, plan), "extra": [], "size": [3, 3, 3], "lo": p0}
    bx = {"kind": "box", "order": tie, "mat": gen_material(rng, plan), "size": [3, 3, 3], "lo": [v + 1 for v in p0]}
    pair = [rnd, bx] if rng.chance(0.5) else [bx, rnd]
    objs = objs[:3]
    at = rng.randint(0, len(objs))
    objs = objs[:at] + [pair[0]] + objs[at:]
    at2 = rng.randint(at + 1, len(objs))
    objs = objs[:at2] + [pair[1]] + objs[at2:]
    # materials dicts whose entries TIE on permittivity but differ in permeability / conductivities, painted entry
    # first or last in the dict and greater or smaller in the remaining sort keys: the selected name must get its own values
    for o in objs:
        if o["kind"] != "box" and rng.chance(0.6):
            twin = {k: v for k, v in o["mat"].items()}
            which = rng.choice(["sigE", "sigM", "mu"])
            val = {"sigE": round(rng.uniform(1, 9), 2) * 1e5, "sigM": round(rng.uniform(1, 9), 2) * 1e4,
                   "mu": round(rng.uniform(1.5, 4.0), 2)}[which]
            if rng.chance(0.5):
                twin[which] = val                    # the other entry is the lossy / magnetic one
            else:
                twin.pop(which, None)
                o["mat"] = {**o["mat"], which: val}  # the painted entry is
            o["extra"] = list(o.get("extra", [])) + [twin]
            o["extra_first"] = rng.chance(0.5)
    if smooth_scene:
        # one round object smoothed (the tied one or a fresh sphere), and ALWAYS a different, un-smoothed birefringent
        # cylinder plus an anisotropic box underneath: the switch of one object must not touch the others' cells
        rounds = [o for o in objs if o["kind"] != "box"]
        rng.choice(rounds)["smooth"] = True
        dia = lambda: [round(rng.uniform(1.5, 9.0), 3) for _ in range(3)]
        lo = [rng.randint(0, V[0] - 2), rng.randint(0, V[1] - 2), rng.randint(0, V[2] - 4)]
        objs.append({"kind": "cyl", "order": rng.choice(orders), "axis": 2, "mat": {**gen_material(rng, plan), "eps": dia()},
                     "extra": [], "size": [2, 2, 4], "lo": lo})
        zlo = rng.randint(0, V[2] - 2)
        objs.insert(0, {"kind": "box", "order": min(orders), "mat": {**gen_material(rng, plan), "eps": dia()},
                        "size": [V[0], V[1], 2], "lo": [0, 0, zlo]})
        if rng.chance(0.5):
            un = [o for o in objs if o["kind"] != "box" and not o.get("smooth")]
            rng.choice(un)["mat"]["eps"] = dia()
    scene = {"volume": V, "vol_order": rng.choice([-1000] * 9 + [0]), "vol_mat": gen_material(rng, plan) if rng.chance(0.5) else {},
             "objects": objs, "device": None}
    if rng.chance(0.25):
        dplan = dict(plan)
        dplan["eps"] = rng.choice([1, 3, 9])          # may widen the permittivity tier without painting anything
        scene["device"] = {"lo": [1, 1, 1], "size": [2, 2, 2], "mats": [gen_material(rng, dplan), gen_material(rng, dplan)]}
    return scene


def build_scene(sc):
    j = J()
    fdtdx, jnp = j["fdtdx"], j["jnp"]
    cfg = fdtdx.SimulationConfig(time=20e-15, grid=fdtdx.UniformGrid(spacing=H), dtype=jnp.float64, backend="cpu")
    objs = [fdtdx.SimulationVolume(name="vol", partial_grid_shape=tuple(sc["volume"]), material=to_material(sc["vol_mat"]),
                                   placement_order=int(sc["vol_order"]))]
    cons = []
    for i, o in enumerate(sc["objects"]):
        name = f"o{i}"
        if o["kind"] == "box":
            ob = fdtdx.UniformMaterialObject(name=name, partial_grid_shape=tuple(o["size"]), material=to_material(o["mat"]),
                                             placement_order=int(o["order"]))
        else:
            # dict order matters for sorts that tie: the painted entry comes first or last
            mats = {}
            if not o.get("extra_first"):
                mats["paint"] = to_material(o["mat"])
            for e, m in enumerate(o.get("extra", [])):
                mats[f"extra{e}"] = to_material(m)
            if o.get("extra_first"):
                mats["paint"] = to_material(o["mat"])
            if o["kind"] == "sphere":
                r = [s * H / 2.0 for s in o["size"]]
                ob = fdtdx.Sphere(name=name, radius=r[0], radius_x=r[0], radius_y=r[1], radius_z=r[2], material_name="paint",
                                  materials=mats, placement_order=int(o["order"]),
                                  subpixel_smoothing=bool(o.get("smooth", False)))
            else:
                ax = int(o["axis"])
                t = [a for a in range(3) if a != ax][0]
                pgs = [None, None, None]
                pgs[ax] = int(o["size"][ax])
                ob = fdtdx.Cylinder(name=name, radius=o["size"][t] * H / 2.0, axis=ax, partial_grid_shape=tuple(pgs),
                                    material_name="paint", materials=mats, placement_order=int(o["order"]),
                                    subpixel_smoothing=bool(o.get("smooth", False)))
        objs.append(ob)
        cons.append(fdtdx.GridCoordinateConstraint(object=name, axes=[0, 1, 2], sides=["-", "-", "-"],
                                                   coordinates=[int(v) for v in o["lo"]]))
    if sc.get("device"):
        d = sc["device"]
        objs.append(fdtdx.Device(name="dev", partial_grid_shape=tuple(d["size"]), partial_voxel_grid_shape=(1, 1, 1),
                                 materials={f"d{i}": to_material(m) for i, m in enumerate(d["mats"])}, param_transforms=[]))
        cons.append(fdtdx.GridCoordinateConstraint(object="dev", axes=[0, 1, 2], sides=["-", "-", "-"],
                                                   coordinates=[int(v) for v in d["lo"]]))
    return objs, cfg, cons


def observe(sc):
    """run place_objects; returns (arrays as numpy, painter inputs read from the returned ObjectContainer)"""
    j = J()
    fdtdx, jax = j["fdtdx"], j["jax"]
    objs, cfg, cons = build_scene(sc)
    oc, arrays, _, cfg2, _ = fdtdx.place_objects(objs, cfg, cons, jax.random.PRNGKey(0))
    V = tuple(sc["volume"])
    got = {"eps": np.asarray(arrays.inv_permittivities),
           "mu": arrays.inv_permeabilities if isinstance(arrays.inv_permeabilities, (int, float)) else np.asarray(arrays.inv_permeabilities),
           "sigE": None if arrays.electric_conductivity is None else np.asarray(arrays.electric_conductivity),
           "sigM": None if arrays.magnetic_conductivity is None else np.asarray(arrays.magnetic_conductivity)}
    painters = []
    # "list order" is the order of the object list handed to place_objects (volume first, then the scene's objects);
    # it is taken from the scene, NOT from ObjectContainer.static_material_objects, whose order is part of what is checked
    by_name = {o.name: o for o in oc.object_list}
    listed = ["vol"] + [f"o{i}" for i in range(len(sc["objects"]))]
    got["container_order"] = [o.name for o in oc.object_list if o.name in set(listed)]
    got["listed_order"] = listed
    for o in (by_name[n] for n in listed):
        sl = tuple(slice(a, b) for a, b in o.grid_slice_tuple)
        box = np.zeros(V, dtype=bool)
        box[sl] = True
        mask = np.zeros(V, dtype=bool)
        uniform = isinstance(o, fdtdx.UniformMaterialObject)
        if uniform:
            mat, mats = o.material, [o.material]
        else:
            mask[sl] = np.broadcast_to(np.asarray(o.get_voxel_mask_for_shape()).astype(bool), box[sl].shape)
            mat, mats = o.materials[o.material_name], list(o.materials.values())
        smooth = (not uniform) and bool(getattr(o, "subpixel_smoothing", False))
        nrm2 = np.zeros((3,) + V)
        if smooth:
            fill = np.broadcast_to(np.asarray(o.get_fill_fraction_for_shape(), dtype=float), box[sl].shape)
            if not np.all((fill == 0.0) | (fill == 1.0)):
                raise RuntimeError("fractional fill fraction: outside the model (0/1 fill only)")
            nrm2[(slice(None),) + sl] = np.broadcast_to(np.asarray(o.get_interface_normal_for_shape(), dtype=float),
                                                        (3,) + box[sl].shape) ** 2
        painters.append({"name": o.name, "order": int(o.placement_order), "uniform": uniform, "box": box, "mask": mask,
                         "smooth": smooth, "nrm2": nrm2,
                         "slice": [list(map(int, t)) for t in o.grid_slice_tuple],
                         "mat": mat_tuple(mat), "mats": [mat_tuple(m) for m in mats]})
    devmats = [mat_tuple(m) for d in oc.devices for m in d.materials.values()]
    consts = {"c": float(fdtdx.constants.c), "dt": float(cfg2.time_step_duration), "courant": float(cfg2.courant_number)}
    return got, painters, devmats, consts


def mat_tuple(m):
    return {"eps": [float(x) for x in m.permittivity], "mu": [float(x) for x in m.permeability],
            "sigE": [float(x) for x in m.electric_conductivity], "sigM": [float(x) for x in m.magnetic_conductivity]}


# ----------------------------------------------------------------------------- model side
def model_arrays(ctx, V, painters, devmats, consts):
    N = V[0] * V[1] * V[2]
    toks = ["paint", str(N), f2h(consts["c"]), f2h(consts["dt"]), f2h(consts["courant"]), str(len(painters))]
    bits = lambda a: "".join("1" if b else "0" for b in a.ravel())
    m36 = lambda m: " ".join(f2h(x) for p in PROPS for x in m[p])
    for p in painters:
        others = [m for m in p["mats"] if m != p["mat"]]
        if len(others) != len(p["mats"]) - 1:              # duplicates of the painted material: keep the count right
            others = list(p["mats"])
            others.remove(p["mat"])
        toks += [str(p["order"]), "1" if p["uniform"] else ("2" if p["smooth"] else "0"), bits(p["box"]), bits(p["mask"])]
        if p["smooth"]:
            toks.append(" ".join(f2h(x) for x in p["nrm2"].ravel()))          # n_i^2, component-major
        toks += [str(1 + len(others)), m36(p["mat"])]
        toks += [m36(m) for m in others]
    toks.append(str(len(devmats)))
    toks += [m36(m) for m in devmats]
    rep = ctx.driver.ask_many([" ".join(toks)])[0]
    if rep in ("bad-op", "bad-property", "error"):
        raise RuntimeError("model rejected the request: " + rep)
    parts = [s.strip() for s in rep.split("|")]

    def arr(s, none_word):
        if s == none_word:
            return None
        t = s.split()
        n = int(t[0])
        return np.array([h2f(x) for x in t[1:]]).reshape((n,) + tuple(V))
    return {"eps": arr(parts[0], "-"), "mu": arr(parts[1], "scalar"), "sigE": arr(parts[2], "none"), "sigM": arr(parts[3], "none")}


# ----------------------------------------------------------------------------- independent oracle
def need(p9):
    """narrowest tier a 9-tuple needs (math.isclose semantics)"""
    off = all(math.isclose(p9[k], 0.0) for k in (1, 2, 3, 5, 6, 7))
    if off and math.isclose(p9[0], p9[4]) and math.isclose(p9[4], p9[8]):
        return 1
    return 3 if off else 9


def stored(p9, n, inverse, scale=1.0):
    if n == 1:
        v = np.array([p9[0]])
    elif n == 3:
        v = np.array([p9[0], p9[4], p9[8]])
    else:
        v = np.array(p9)
    if not inverse:
        return v * scale
    return 1.0 / v if n < 9 else np.linalg.inv(v.reshape(3, 3)).ravel()


def oracle(V, painters, devmats):
    """the property statement, evaluated directly: per cell the covering object with the largest (order, list index)"""
    allm = [m for p in painters for m in p["mats"]] + list(devmats)
    best_key = np.full(V, -1, dtype=np.int64)              # rank of the winning object
    ranked = sorted(range(len(painters)), key=lambda i: (painters[i]["order"], i))
    rank = {i: r for r, i in enumerate(ranked)}
    winner = np.full(V, -1, dtype=np.int64)
    for i, p in enumerate(painters):
        cov = p["box"] & (p["mask"] | p["uniform"])
        upd = cov & (rank[i] > best_key)
        best_key[upd] = rank[i]
        winner[upd] = i
    out = {}
    smoothed = [p for p in painters if p.get("smooth")]
    # cells inside the grid slice of a smoothed object are outside the painter's-rule oracle for the permittivity
    # (there the blend writes the xx entry on every diagonal component); everywhere else the rule is exact
    out["eps_checked"] = ~np.any([p["box"] for p in smoothed], axis=0) if smoothed else np.ones(V, dtype=bool)
    for prop in PROPS:
        n = max(need(m[prop]) for m in allm)
        if prop == "eps" and smoothed:
            n = 3                                         # any smoothed object forces the diagonal tier
        inverse = prop in ("eps", "mu")
        if prop == "mu" and all(all(math.isclose(m["mu"][k], 1.0 if k in (0, 4, 8) else 0.0) for k in range(9)) for m in allm):
            out[prop] = 1.0
            continue
        if prop in ("sigE", "sigM") and all(all(math.isclose(x, 0.0) for x in m[prop]) for m in allm):
            out[prop] = None
            continue
        a = np.zeros((n,) + tuple(V))
        for i, p in enumerate(painters):
            val = stored(p["mat"][prop], n, inverse, scale=H)
            a[:, winner == i] = val[:, None]
        out[prop] = a
    return out, winner


def compare(got, exp, tol=1e-9):
    """None when equal, else a description of the first difference"""
    for prop in PROPS:
        g, e = got[prop], exp[prop]
        if isinstance(e, float) or isinstance(g, (int, float)):
            if not (isinstance(g, (int, float)) and isinstance(e, float) and float(g) == e):
                return f"{prop}: scalar/array mismatch (implementation {type(g).__name__} {np.shape(g)}, expected {'scalar 1.0' if isinstance(e, float) else np.shape(e)})"
            continue
        if (g is None) != (e is None):
            return f"{prop}: implementation {'None' if g is None else 'array ' + str(g.shape)}, expected {'None' if e is None else 'array ' + str(e.shape)}"
        if g is None:
            continue
        if g.shape != e.shape:
            return f"{prop}: component count {g.shape[0]} instead of {e.shape[0]}"
        if prop == "eps" and "eps_checked" in exp and not exp["eps_checked"].all():
            g = np.where(exp["eps_checked"][None], g, 0.0)
            e = np.where(exp["eps_checked"][None], e, 0.0)
        err = relerr(g, e, floor=1e-300)
        if not err <= tol:
            bad = np.argwhere(~np.isclose(g, e, rtol=1e-7, atol=0.0) | (np.isnan(g) != np.isnan(e)))
            k = tuple(int(x) for x in bad[0]) if len(bad) else None
            return f"{prop}: values differ (rel {err:.3g}), first at component/cell {k}: implementation {g[k] if k else '?'} expected {e[k] if k else '?'}"
    return None


def property_fails(sc):
    try:
        got, painters, devmats, consts = observe(sc)
    except Exception as e:                               # a valid scene on which the real code raises
        return f"place_objects raised {type(e).__name__}: {str(e)[:300]}"
    exp, winner = oracle(tuple(sc["volume"]), painters, devmats)
    d = compare(got, exp) or twin_detail(sc, got, exp)
    if d:
        return d + f" | objects in list order: {[(p['name'], p['order'], p['slice'], 'smoothed' if p['smooth'] else '') for p in painters]}"
    return None


def twin_detail(sc, got, exp):
    """the smoothing switch is per object: outside the smoothed objects' grid slices the arrays are bit-identical to the
    same scene with every smoothing flag cleared (compared when the twin has the same permittivity tier)"""
    if not any(o.get("smooth") for o in sc["objects"]):
        return None
    twin = {**sc, "objects": [{**o, "smooth": False} for o in sc["objects"]]}
    try:
        tgot, _, _, _ = observe(twin)
    except Exception as e:
        return f"the same scene without smoothing flags raised {type(e).__name__}: {str(e)[:200]}"
    for prop in PROPS:
        g, t = got[prop], tgot[prop]
        if isinstance(g, np.ndarray) and isinstance(t, np.ndarray) and g.shape == t.shape:
            keep = exp["eps_checked"][None] if prop == "eps" else np.ones((1,) + g.shape[1:], dtype=bool)
            same = (g == t) | (np.isnan(g) & np.isnan(t)) | ~keep
            if not same.all():
                k = tuple(int(x) for x in np.argwhere(~same)[0])
                return (f"{prop}: cell {k} outside every smoothed object differs from the same scene without smoothing "
                        f"flags ({g[k]!r} vs {t[k]!r}): the switch of one object changed another object's cells")
    return None


# ------------------------------------------------------------------------------------------- K
def scene_key(sc, got, painters):
    tiers = tuple(("s" if isinstance(got[p], (int, float)) else "-" if got[p] is None else got[p].shape[0]) for p in PROPS)
    orders = [p["order"] for p in painters]
    kinds = tuple(sorted({o["kind"] + ("~" if o.get("smooth") else "") for o in sc["objects"]}))
    return (tiers, kinds, len(set(orders)) < len(orders), min(orders[1:]) <= orders[0] if len(orders) > 1 else False)


def check_scene(ctx, sc, sample=False):
    got, painters, devmats, consts = observe(sc)
    V = tuple(sc["volume"])
    # the generated placement is what was asked for
    for i, o in enumerate(sc["objects"]):
        p = next(q for q in painters if q["name"] == f"o{i}")
        ctx.expect_equal("placement", sc, p["slice"], [[o["lo"][a], o["lo"][a] + o["size"][a]] for a in range(3)])
    ctx.expect_equal("object-list-order", sc, got["container_order"], got["listed_order"])
    key = scene_key(sc, got, painters)
    overl = int(np.sum(np.sum([p["box"] & (p["mask"] | p["uniform"]) for p in painters], axis=0) > 2))
    ctx.case(sample={"scene": sc, "tiers": key[0]} if sample else None, nontrivial=key, op="paint",
             tiers="/".join(map(str, key[0])), ties=key[2], at_or_below_volume=key[3], objects=len(painters),
             cells_with_3plus_layers=min(overl, 1),
             smoothed_and_unsmoothed_round_objects=(sum(1 for p in painters if p["smooth"]),
                                                    sum(1 for p in painters if not p["uniform"] and not p["smooth"])))
    model = model_arrays(ctx, V, painters, devmats, consts)
    for prop in PROPS:
        g, m = got[prop], model[prop]
        if isinstance(g, (int, float)):
            ctx.expect_equal("paint-" + prop, sc, f"scalar {float(g)}", "scalar 1.0" if m is None else f"array {m.shape}")
        elif g is None or m is None:
            ctx.expect_equal("paint-" + prop, sc, "None" if g is None else f"array {g.shape}", "None" if m is None else f"array {m.shape}")
        elif g.shape != m.shape:
            ctx.expect_equal("paint-" + prop, sc, str(g.shape), str(m.shape))
        else:
            e = relerr(g, m, floor=1e-300)
            if not e <= 1e-9:
                ctx.mismatch("paint-" + prop, sc, {"relerr": e, "tol": 1e-9})
    # reference spacing: the model's c*dt/courant against the uniform grid spacing (oracle side uses H directly)
    ctx.expect_close("cond-spacing", sc, [consts["c"] * consts["dt"] / consts["courant"]], [H], tol=1e-12, floor=1e-300)
    ctx.impl_property_evals += 1
    exp, _ = oracle(V, painters, devmats)
    d = compare(got, exp) or twin_detail(sc, got, exp)
    if d:
        ctx.violation(sc, d)
    return d


FIXED = [
    # tie broken by list order, a sphere over a box over the volume, isotropic
    {"volume": [6, 6, 6], "vol_order": -1000, "vol_mat": {}, "device": None, "objects": [
        {"kind": "box", "order": 1, "mat": {"eps": 2.0}, "size": [3, 3, 3], "lo": [1, 1, 1]},
        {"kind": "sphere", "order": 1, "mat": {"eps": 5.0}, "extra": [], "size": [4, 4, 4], "lo": [2, 2, 1]},
        {"kind": "box", "order": 0, "mat": {"eps": 9.0}, "size": [6, 6, 2], "lo": [0, 0, 2]}]},
    # cross-class ties, round object listed BEFORE the overlapping box: the box (listed later) must win the overlap
    {"volume": [6, 6, 6], "vol_order": -1000, "vol_mat": {}, "device": None, "objects": [
        {"kind": "sphere", "order": 0, "mat": {"eps": 5.0}, "extra": [], "size": [4, 4, 4], "lo": [1, 1, 1]},
        {"kind": "box", "order": 0, "mat": {"eps": 2.0}, "size": [3, 3, 3], "lo": [2, 2, 2]},
        {"kind": "cyl", "order": 2, "axis": 2, "mat": {"eps": 7.0}, "extra": [], "size": [2, 2, 4], "lo": [0, 0, 1]},
        {"kind": "box", "order": 2, "mat": {"eps": 3.0}, "size": [1, 1, 1], "lo": [1, 1, 2]}]},
    # per-object sub-pixel switch: a smoothed isotropic sphere; elsewhere an UN-smoothed birefringent cylinder and an
    # un-smoothed ellipsoid over an anisotropic slab must keep their yy / zz entries
    {"volume": [6, 6, 6], "vol_order": -1000, "vol_mat": {}, "device": None, "objects": [
        {"kind": "box", "order": 0, "mat": {"eps": [2.5, 3.5, 4.5]}, "size": [6, 6, 2], "lo": [0, 0, 4]},
        {"kind": "sphere", "order": 1, "mat": {"eps": 5.0}, "extra": [], "size": [4, 4, 4], "lo": [0, 0, 0], "smooth": True},
        {"kind": "cyl", "order": 1, "axis": 2, "mat": {"eps": [2.0, 3.0, 4.0]}, "extra": [], "size": [2, 2, 4], "lo": [4, 4, 1]},
        {"kind": "sphere", "order": 2, "mat": {"eps": [6.0, 7.0, 8.0]}, "extra": [], "size": [4, 3, 2], "lo": [2, 3, 4]}]},
    # materials dicts with a permittivity tie ("absorber" eps 2.25 + loss / "clear" eps 2.25), either dict order and
    # either entry selected: the cells must carry the selected entry's conductivity and permeability
    {"volume": [6, 6, 6], "vol_order": -1000, "vol_mat": {}, "device": None, "objects": [
        {"kind": "sphere", "order": 0, "mat": {"eps": 2.25, "sigE": 4.0e5}, "extra": [{"eps": 2.25}], "extra_first": False,
         "size": [4, 3, 2], "lo": [0, 0, 0]},
        {"kind": "sphere", "order": 0, "mat": {"eps": 2.25, "sigE": 4.0e5}, "extra": [{"eps": 2.25}], "extra_first": True,
         "size": [4, 3, 2], "lo": [2, 3, 4]},
        {"kind": "cyl", "order": 0, "axis": 2, "mat": {"eps": 3.0}, "extra": [{"eps": 3.0, "mu": 2.0, "sigM": 5.0e4}],
         "extra_first": True, "size": [2, 2, 4], "lo": [4, 0, 2]},
        {"kind": "cyl", "order": 0, "axis": 1, "mat": {"eps": 3.0, "mu": 2.0}, "extra": [{"eps": 3.0}],
         "extra_first": False, "size": [3, 3, 3], "lo": [0, 3, 0]}]},
    # everything wide: full permittivity tensor, diagonal permeability, conductivities
    {"volume": [6, 6, 6], "vol_order": -1000, "vol_mat": {"eps": 1.5}, "device": None, "objects": [
        {"kind": "box", "order": 0, "mat": {"eps": [2.0, 0.1, 0.0, 0.1, 3.0, 0.2, 0.0, 0.2, 4.0], "sigE": 3.0e4}, "size": [2, 4, 3], "lo": [0, 1, 2]},
        {"kind": "cyl", "order": 0, "axis": 2, "mat": {"eps": 6.0, "mu": [1.5, 2.0, 2.5], "sigM": [1.0e3, 2.0e3, 3.0e3]}, "extra": [],
         "size": [2, 2, 4], "lo": [1, 2, 1]}]},
]


def run(ctx):
    import time
    t0 = time.time()
    J()
    t1 = time.time()
    for sc in FIXED:
        check_scene(ctx, sc)
    n = ctx.scale(13, 90)
    for i in range(n):
        check_scene(ctx, gen_scene(ctx.rng, i, ctx.thorough), sample=(i == 0))
    ctx.extra["phase_seconds"] = {"import": round(t1 - t0, 1), "scenes": round(time.time() - t1, 1)}


# ------------------------------------------------------------------------------------------- S
def small_scenes():
    """smallest first: two overlapping objects of every kind pair, tied / ordered either way, per tier"""
    mats = {1: ({"eps": 2.0}, {"eps": 5.0}), 3: ({"eps": [2.0, 3.0, 4.0]}, {"eps": 5.0, "sigE": 1.0e4}),
            9: ({"eps": [2.0, 0.1, 0.0, 0.1, 3.0, 0.2, 0.0, 0.2, 4.0]}, {"eps": 6.0, "mu": 2.0})}
    shapes = {"box": {"size": [3, 3, 3]}, "sphere": {"size": [4, 4, 4], "extra": []}, "cyl": {"size": [2, 2, 4], "axis": 2, "extra": []}}
    for tier in (1, 3, 9):
        for ka in ("box", "sphere", "cyl"):
            for kb in ("box", "sphere", "cyl"):
                for (oa, ob) in ((0, 0), (1, 0), (0, 1)):
                    a = dict(kind=ka, order=oa, mat=mats[tier][0], lo=[1, 1, 1], **shapes[ka])
                    b = dict(kind=kb, order=ob, mat=mats[tier][1], lo=[2, 2, 1], **shapes[kb])
                    yield {"volume": [6, 6, 6], "vol_order": -1000, "vol_mat": {}, "device": None, "objects": [a, b]}


def search(ctx, hints):
    from .common import Rng
    for h in hints:
        if isinstance(h, dict) and "objects" in h:
            ctx.impl_property_evals += 1
            d = property_fails(h)
            if d:
                ctx.violation(shrink(ctx, h), d)
                return
    for sc in list(FIXED) + list(small_scenes()):
        ctx.impl_property_evals += 1
        d = property_fails(sc)
        if d:
            ctx.violation(sc, d)
            return
    rng = Rng(ctx.seed + 1000)
    for i in range(ctx.scale(60, 300)):
        sc = gen_scene(rng, i, False)
        ctx.impl_property_evals += 1
        d = property_fails(sc)
        if d:
            ctx.violation(shrink(ctx, sc), d)
            return


def shrink(ctx, sc):
    """drop objects (and the device) while the property still fails"""
    cur = sc
    changed = True
    while changed:
        changed = False
        cands = []
        if cur.get("device"):
            cands.append({**cur, "device": None})
        for i in range(len(cur["objects"])):
            if len(cur["objects"]) > 1:
                cands.append({**cur, "objects": cur["objects"][:i] + cur["objects"][i + 1:]})
        for c in cands:
            ctx.impl_property_evals += 1
            if property_fails(c):
                cur, changed = c, True
                break
    return cur


def replay(ctx, inp):
    return property_fails(inp)
