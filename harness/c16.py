"""C16 — detector reductions vs their spatial records: Detector.update of every detector kind/option on random inputs,
compared with lean/FdtdxModel/C16.lean and, across detectors of one group (same region, same inputs), with the
property's identities."""
import numpy as np

RULE = ("K: per scene (UniformGrid / non-uniform RectilinearGrid, 5..6 cells per axis, placed by the real place_objects; plus a "
        "batch placed directly with Detector.place_on_grid on an unresolved UniformGrid config = the uniform-fallback weight "
        "branches) groups of detectors sharing one random region (1..4 cells per axis, singleton axes frequent) and the same "
        "random binary64 inputs: FieldDetector (spatial all / reduced subset, components given out of canonical order), "
        "EnergyDetector (spatial / reduced / mean slices; inv_permittivity with 1 or 3 components, inv_permeability scalar, 1 "
        "or 3 components), PoyntingFluxDetector (direction x reduce x keep_all x fixed/auto axis), "
        "ClosedSurfacePoyntingFluxDetector (orientation, axes None/subset) with single-plane detectors on its faces, "
        "PhasorDetector (spatial/reduced x forward/inverse, 1-2 frequencies, continuous/pulse, 2-3 accumulation steps), "
        "PhasorPoyntingFluxDetector.compute_poynting_flux and ClosedSurfacePhasorPoyntingFluxDetector update/compute_net_flux. "
        "Every Detector.update result is compared with the model (tol 1e-9; weights for the model are recomputed from the "
        "grid widths, not read from the detector) and the group identities of the property are evaluated on the "
        "implementation's own outputs (reduced = weighted mean / sum / area sum of spatial, minus = -plus, single = component "
        "of all, closed = signed sum of face detectors, inverse undoes forward). non-trivial = every case (non-uniform "
        "weights, singleton axes, subsets, inverse ... are counted in the distribution). Every non-uniform scene also carries a fixed "
        "battery of closed-surface detectors (time domain and phasor) whose active axes are NOT a prefix of (0,1,2): a 3-D box "
        "with explicit axes (1,), (2,), (0,2), (1,2), a box one cell thin along x and one thin along y; every closed-surface "
        "member (any axes/orientation) is compared with the signed sum of its real face detectors and with an independent numpy "
        "face sum; plus three PhasorDetector pairs (forward / inverse=True) with a window asymmetric in time (off-centre switch "
        "interval, off-centre Gaussian apodization, dft_subsample=2 with T=4): accumulating the recorded steps forward and then the "
        "same steps with the inverse detector must restore the zero state.")

TOL = 1e-9
COMP = ("Ex", "Ey", "Ez", "Hx", "Hy", "Hz")
_J = None


def J():
    global _J
    if _J is None:
        import jax
        jax.config.update("jax_enable_x64", True)
        import jax.numpy as jnp
        import fdtdx
        from fdtdx.core.grid import RectilinearGrid, UniformGrid
        from fdtdx.fdtd.initialization import place_objects
        from fdtdx.objects.object import RealCoordinateConstraint
        from loguru import logger
        logger.remove()
        _J = dict(jax=jax, jnp=jnp, fdtdx=fdtdx, RectilinearGrid=RectilinearGrid, UniformGrid=UniformGrid,
                  place_objects=place_objects, RC=RealCoordinateConstraint)
    return _J


# --------------------------------------------------------------------------------------- scene
def make_detector(d, name, dt=1.0):
    j = J()
    fdtdx, jnp = j["fdtdx"], j["jnp"]
    k, o = d["kind"], d["opts"]
    common = dict(name=name, plot=False)
    if k == "field":
        return fdtdx.FieldDetector(dtype=jnp.float64, reduce_volume=o["reduce"], components=tuple(o["components"]), **common)
    if k == "energy":
        return fdtdx.EnergyDetector(dtype=jnp.float64, reduce_volume=o["mode"] == 1, as_slices=o["mode"] == 2,
                                    aggregate="mean" if o["mode"] == 2 else None, **common)
    if k == "poynt":
        return fdtdx.PoyntingFluxDetector(dtype=jnp.float64, direction=o["direction"], reduce_volume=o["reduce"],
                                          keep_all_components=o["keep_all"], fixed_propagation_axis=o["fixed_axis"], **common)
    if k == "closed":
        return fdtdx.ClosedSurfacePoyntingFluxDetector(dtype=jnp.float64, orientation=o["orientation"],
                                                       axes=None if o["axes"] is None else tuple(o["axes"]), **common)
    wcs = tuple(fdtdx.WaveCharacter(wavelength=w) for w in o.get("wavelengths", []))
    if k == "phasor":
        extra = {}
        win = o.get("window")
        if win == "switch":        # off-centre on-interval
            extra["switch"] = fdtdx.OnOffSwitch(fixed_on_time_steps=[0, 1])
        elif win == "apod":        # off-centre apodization
            extra["apodization"] = fdtdx.GaussianWindow(center_time=0.5 * dt, sigma_time=1.2 * dt)
        elif win == "stride":      # kept steps 0,2 of T=4: (T-1) % 2 != 0
            extra["dft_subsample"] = 2
        return fdtdx.PhasorDetector(name=name, dtype=jnp.complex128, wave_characters=wcs, reduce_volume=o["reduce"],
                                    components=tuple(o["components"]), inverse=o["inverse"], scaling_mode=o["scaling"], **extra)
    if k == "pflux":
        return fdtdx.PhasorPoyntingFluxDetector(name=name, dtype=jnp.complex128, wave_characters=wcs, direction=o["direction"],
                                                fixed_propagation_axis=o["fixed_axis"], keep_all_components=o["keep_all"],
                                                scaling_mode=o["scaling"])
    if k == "cphasor":
        return fdtdx.ClosedSurfacePhasorPoyntingFluxDetector(name=name, dtype=jnp.complex128, wave_characters=wcs,
                                                             orientation=o["orientation"], inverse=o["inverse"],
                                                             axes=None if o["axes"] is None else tuple(o["axes"]),
                                                             scaling_mode=o["scaling"])
    raise ValueError(k)


def widths_of(spec):
    return [list(spec["widths"][a]) if spec["widths"] else [1.0] * spec["shape"][a] for a in range(3)]


def build(spec):
    """returns ({name: placed detector}, dt, T)"""
    j = J()
    fdtdx, jnp = j["fdtdx"], j["jnp"]
    w = [[x * 1e-7 for x in ws] for ws in widths_of(spec)]
    edges = [np.concatenate([[0.0], np.cumsum(x)]) for x in w]
    if spec["grid"] == "nonuniform":
        grid = j["RectilinearGrid"](x_edges=jnp.asarray(edges[0]), y_edges=jnp.asarray(edges[1]), z_edges=jnp.asarray(edges[2]))
    else:
        grid = j["UniformGrid"](spacing=1e-7)
    dt = fdtdx.SimulationConfig(time=1e-15, grid=grid, backend="cpu", dtype=jnp.float64).time_step_duration
    cfg = fdtdx.SimulationConfig(time=(spec["T"] + 0.01) * dt, grid=grid, backend="cpu", dtype=jnp.float64)
    flat = [(g, m, d) for g, grp in enumerate(spec["groups"]) for m, d in enumerate(grp["members"])]
    out = {}
    if spec["grid"] == "direct":
        key = j["jax"].random.PRNGKey(0)
        for g, m, d in flat:
            obj = make_detector(d, f"g{g}m{m}", float(dt))
            out[(g, m)] = obj.place_on_grid(tuple(tuple(x) for x in d["box"]), cfg, key)
        return out, float(cfg.time_step_duration), int(cfg.time_steps_total)
    vol = fdtdx.SimulationVolume(partial_grid_shape=tuple(spec["shape"]))
    objs, cons = [vol], []
    for g, m, d in flat:
        name = f"g{g}m{m}"
        obj = make_detector(d, name, float(dt))
        lo = [b[0] for b in d["box"]]
        hi = [b[1] for b in d["box"]]
        if spec["grid"] == "nonuniform":
            RC = j["RC"]
            cons.append(RC(object=name, axes=(0, 1, 2), sides=("-", "-", "-"), coordinates=tuple(float(edges[a][lo[a]]) for a in range(3))))
            cons.append(RC(object=name, axes=(0, 1, 2), sides=("+", "+", "+"), coordinates=tuple(float(edges[a][hi[a]]) for a in range(3))))
        else:
            cons.append(obj.set_grid_coordinates(axes=(0, 1, 2), sides=("-", "-", "-"), coordinates=tuple(lo)))
            cons.append(obj.set_grid_coordinates(axes=(0, 1, 2), sides=("+", "+", "+"), coordinates=tuple(hi)))
        objs.append(obj)
    oc, _, _, cfg, _ = j["place_objects"](objs, cfg, cons)
    byname = {o.name: o for o in oc.detectors}
    for g, m, d in flat:
        det = byname[f"g{g}m{m}"]
        if [list(x) for x in det.grid_slice_tuple] != [list(x) for x in d["box"]]:
            raise RuntimeError(f"detector placed at {det.grid_slice_tuple}, requested {d['box']}")
        out[(g, m)] = det
    return out, float(cfg.time_step_duration), int(cfg.time_steps_total)


def weights(spec, box):
    """cell volumes (n) and per-axis face areas broadcast to the region, recomputed from the widths (metres)"""
    w = [np.asarray(ws[b[0]:b[1]]) * 1e-7 for ws, b in zip(widths_of(spec), box)]
    vol = w[0][:, None, None] * w[1][None, :, None] * w[2][None, None, :]
    ones = [np.ones_like(x) for x in w]
    area = []
    for a in range(3):
        f = [ones[b] if b == a else w[b] for b in range(3)]
        area.append(f[0][:, None, None] * f[1][None, :, None] * f[2][None, None, :])
    return vol, np.stack(area)


def inputs(grp, step):
    """random E, H, inv_eps, inv_mu for the group's region at accumulation step `step`"""
    n = [b[1] - b[0] for b in grp["box"]]
    r = np.random.default_rng(grp["np_seed"] + 7919 * step)
    E, H = r.normal(size=(3, *n)), r.normal(size=(3, *n))
    ie = r.uniform(0.2, 1.0, size=(grp.get("eps_c", 1), *n))
    mu_c = grp.get("mu_c", 0)
    im = float(r.uniform(0.3, 1.0)) if mu_c == 0 else r.uniform(0.3, 1.0, size=(mu_c, *n))
    return E, H, ie, im


def freqs_of(o):
    from fdtdx.constants import c as c0
    return [c0 / w for w in o["wavelengths"]]


def phase(o, t, dt, T):
    """exp(i w t dt) * static scale (rectangular window over all T recorded steps)"""
    scale = 2.0 / T if o["scaling"] == "continuous" else 1.0
    return [np.exp(1j * 2 * np.pi * f * t * dt) * scale for f in freqs_of(o)]


def face_of(arr, a, side, lead):
    ix = [slice(None)] * arr.ndim
    ix[lead + a] = slice(0, 1) if side == 0 else slice(-1, None)
    return arr[tuple(ix)]


# ---------------------------------------------------------------------- implementation: one group
def run_group(spec, g, dets, dt, T):
    """calls Detector.update on every member; returns per member a dict of numpy outputs + the model request lines"""
    j = J()
    jnp = j["jnp"]
    grp = spec["groups"][g]
    box = grp["box"]
    n = [b[1] - b[0] for b in box]
    out = []
    if grp["kind"] == "pwin":
        fwd, inv = dets[(g, 0)], dets[(g, 1)]
        on = [t for t in range(T) if bool(fwd._is_on_at_time_step_arr[t])]
        on_inv = [t for t in range(T) if bool(inv._is_on_at_time_step_arr[t])]
        state = fwd.init_state()
        for t in on:
            E, H, ie, im = inputs(grp, t)
            state = fwd.update(jnp.asarray(t, dtype=jnp.int32), jnp.asarray(E), jnp.asarray(H), state, jnp.asarray(ie), im)
        mid = np.asarray(state["phasor"])
        for t in reversed(on):
            E, H, ie, im = inputs(grp, t)
            state = inv.update(jnp.asarray(t, dtype=jnp.int32), jnp.asarray(E), jnp.asarray(H), state, jnp.asarray(ie), im)
        return [{"steps": [], "kind": "phasor", "final": {"phasor": mid}, "on": on},
                {"steps": [], "kind": "phasor", "final": {"phasor": np.asarray(state["phasor"])}, "on": on_inv}]
    for m, d in enumerate(grp["members"]):
        det = dets[(g, m)]
        o = d["opts"]
        mbox = d["box"]
        rel = tuple(slice(mb[0] - b[0], mb[1] - b[0]) for mb, b in zip(mbox, box))     # member region inside the group region
        state = det.init_state()
        rec = {"steps": [], "kind": d["kind"]}
        for s, t in enumerate(grp["steps"]):
            E, H, ie, im = inputs(grp, s)
            E, H, ie = E[(slice(None), *rel)], H[(slice(None), *rel)], ie[(slice(None), *rel)]
            imm = im if isinstance(im, float) else im[(slice(None), *rel)]
            before = {k: np.asarray(v) for k, v in state.items()}
            state = det.update(jnp.asarray(t, dtype=jnp.int32), jnp.asarray(E), jnp.asarray(H), state, jnp.asarray(ie),
                               imm if isinstance(imm, float) else jnp.asarray(imm))
            rec["steps"].append({"t": t, "E": E, "H": H, "ie": ie, "im": imm, "before": before,
                                 "after": {k: np.asarray(v) for k, v in state.items()}})
        rec["final"] = {k: np.asarray(v) for k, v in state.items()}
        if d["kind"] == "cphasor":
            rec["net"] = np.asarray(det.compute_net_flux(state))
        if d["kind"] == "pflux":
            rec["flux"] = np.asarray(det.compute_poynting_flux(state))
        out.append(rec)
    return out


def cx_blocks(z):
    """complex array (slots, *cells) -> floats: per slot re block then im block"""
    z = np.asarray(z)
    return np.concatenate([np.concatenate([z[q].real.ravel(), z[q].imag.ravel()]) for q in range(z.shape[0])])


def model_requests(spec, g, recs, dt, T):
    """(line, expected numpy vector, label) triples: one Detector.update (or post-processing) each"""
    from .common import f2h
    H2 = lambda xs: " ".join(f2h(x) for x in np.asarray(xs, dtype=np.float64).ravel())
    grp = spec["groups"][g]
    reqs = []
    for m, (d, rec) in enumerate(zip(grp["members"], recs)):
        o, k = d["opts"], d["kind"]
        n = [b[1] - b[0] for b in d["box"]]
        N = n[0] * n[1] * n[2]
        hd = f"{n[0]} {n[1]} {n[2]}"
        vol, area = weights(spec, d["box"])
        for st in rec["steps"]:
            t, E, H = st["t"], st["E"], st["H"]
            slot = t  # all T steps are recorded: time slot = time step
            if k == "field":
                mask = sum(1 << q for q, cn in enumerate(COMP) if cn in o["components"])
                line = f"field {hd} {int(o['reduce'])} {mask} {H2(vol)} {H2(E)} {H2(H)}"
                reqs.append((line, st["after"]["fields"][slot].ravel(), (g, m, "field")))
            elif k == "energy":
                ie3 = np.broadcast_to(st["ie"], (3, *n))
                im3 = np.broadcast_to(st["im"], (3, *n)) if not isinstance(st["im"], float) else np.full((3, *n), st["im"])
                line = f"energy {hd} {o['mode']} {H2(vol)} {H2(E)} {H2(H)} {H2(ie3)} {H2(im3)}"
                if o["mode"] == 2:
                    got = np.concatenate([st["after"][p][slot].ravel() for p in ("XY Plane", "XZ Plane", "YZ Plane")])
                else:
                    got = st["after"]["energy"][slot].ravel()
                reqs.append((line, got, (g, m, "energy")))
            elif k == "poynt":
                ax = o["fixed_axis"] if o["fixed_axis"] is not None else (n.index(1) if not o["keep_all"] else 0)
                line = f"poynt {hd} {int(o['direction'] == '-')} {int(o['reduce'])} {int(o['keep_all'])} {ax} {H2(area)} {H2(E)} {H2(H)}"
                reqs.append((line, st["after"]["poynting_flux"][slot].ravel(), (g, m, "poynt")))
            elif k == "closed":
                axes = o["axes"] if o["axes"] is not None else [a for a in range(3) if n[a] > 1]
                line = f"closed {hd} {int(o['orientation'] == 'inward')} {sum(1 << a for a in set(axes))} {H2(area)} {H2(E)} {H2(H)}"
                reqs.append((line, st["after"]["poynting_flux"][slot].ravel(), (g, m, "closed")))
            elif k == "phasor":
                mask = sum(1 << q for q, cn in enumerate(COMP) if cn in o["components"])
                ph = phase(o, t, dt, T)
                phs = " ".join(f2h(x) for p in ph for x in (p.real, p.imag))
                b = st["before"]["phasor"][0]
                nf, ns = b.shape[0], b.shape[1]
                if o["reduce"]:
                    sts = " ".join(f2h(x) for f in range(nf) for q in range(ns) for x in (b[f, q].real, b[f, q].imag))
                    a = st["after"]["phasor"][0]
                    got = np.asarray([x for f in range(nf) for q in range(ns) for x in (a[f, q].real, a[f, q].imag)])
                else:
                    sts = H2(cx_blocks(b.reshape((nf * ns, *n))))
                    got = cx_blocks(st["after"]["phasor"][0].reshape((nf * ns, *n)))
                line = f"phasor {hd} {int(o['reduce'])} {int(o['inverse'])} {mask} {nf} {H2(vol)} {H2(E)} {H2(H)} {phs} {sts}"
                reqs.append((line, got, (g, m, "phasor")))
            elif k == "cphasor":
                ph = phase(o, t, dt, T)
                axes = o["axes"] if o["axes"] is not None else [a for a in range(3) if n[a] > 1]
                for a in sorted(set(axes)):
                    for side, nm in ((0, "min"), (1, "max")):
                        for f in range(len(ph)):
                            b = st["before"][f"phasor_axis{a}_{nm}"][0][f]
                            af = st["after"][f"phasor_axis{a}_{nm}"][0][f]
                            line = (f"cface {hd} {int(o['inverse'])} {a} {side} {H2(E)} {H2(H)} {f2h(ph[f].real)} {f2h(ph[f].imag)} "
                                    f"{H2(cx_blocks(b))}")
                            reqs.append((line, cx_blocks(af), (g, m, "cface")))
        if k == "pflux":
            ax = o["fixed_axis"] if o["fixed_axis"] is not None else (n.index(1) if not o["keep_all"] else 0)
            for f in range(len(o["wavelengths"])):
                line = (f"pflux {hd} {int(o['direction'] == '-')} {int(o['keep_all'])} {int(o['scaling'] == 'continuous')} {ax} "
                        f"{H2(area)} {H2(cx_blocks(rec['final']['phasor'][0][f]))}")
                reqs.append((line, np.atleast_1d(rec["flux"][f]), (g, m, "pflux")))
        if k == "cphasor":
            axes = o["axes"] if o["axes"] is not None else [a for a in range(3) if n[a] > 1]
            nf = len(o["wavelengths"])
            for f in range(nf):
                parts = []
                for a in range(3):
                    pn = [1 if b == a else n[b] for b in range(3)]
                    for nm in ("min", "max"):
                        key = f"phasor_axis{a}_{nm}"
                        z = rec["final"][key][0][f] if key in rec["final"] else np.zeros((6, *pn), dtype=complex)
                        parts.append(cx_blocks(z))
                line = (f"cnet {hd} {int(o['orientation'] == 'inward')} {int(o['scaling'] == 'continuous')} "
                        f"{sum(1 << a for a in set(axes))} {H2(area)} {H2(np.concatenate(parts))}")
                reqs.append((line, np.asarray([rec["net"][f]]), (g, m, "cnet")))
    return reqs


# ------------------------------------------------------------- property identities inside one group
def close(a, b, tol=TOL):
    a, b = np.asarray(a), np.asarray(b)
    if a.shape != b.shape:
        return False
    s = max(1e-300, float(np.max(np.abs(b))) if b.size else 1.0, float(np.max(np.abs(a))) if a.size else 1.0)
    return bool(np.all(np.abs(a - b) <= tol * s))


def group_identities(spec, g, recs, dets):
    """the statements of the property evaluated on the implementation's outputs; returns a detail string or None"""
    grp = spec["groups"][g]
    mem = grp["members"]
    kind = grp["kind"]
    vol, area = weights(spec, grp["box"])
    last = len(grp["steps"]) - 1
    tl = grp["steps"][last]
    ix = lambda q: [i for i, c in enumerate(COMP) if c in q]
    # independent numpy evaluation of the SPATIAL record of the group's first member (what the reductions refer to)
    dt, T = spec["_dt"], spec["_T"]
    for s_i, st in enumerate(recs[0]["steps"]):
        E, H, t = st["E"], st["H"], st["t"]
        if kind == "field" and not close(st["after"]["fields"][t], np.concatenate([E, H])):
            return "spatial FieldDetector record is not the stack (Ex,Ey,Ez,Hx,Hy,Hz) of its inputs"
        if kind == "energy":
            want = (0.5 * E * E / st["ie"]).sum(axis=0) + (0.5 * H * H / st["im"] * np.ones_like(H)).sum(axis=0)
            if not close(st["after"]["energy"][t], want):
                return "spatial EnergyDetector record != 1/2 sum_c (eps_c E_c^2 + mu_c H_c^2)"
        if kind == "poynt" and not close(st["after"]["poynting_flux"][t], np.cross(E, H, axis=0)):
            return "spatial all-component Poynting record != E x H"
    if kind in ("phasor", "cphasor"):
        pm = 0 if kind == "phasor" else 2
        acc = 0.0
        for st in recs[pm]["steps"]:
            ph = np.asarray(phase(mem[pm]["opts"], st["t"], dt, T))
            acc = acc + np.concatenate([st["E"], st["H"]])[None] * ph[:, None, None, None, None]
        if not close(recs[pm]["final"]["phasor"][0], acc):
            return "spatial PhasorDetector state != sum over recorded steps of EH * exp(i w t) * scale"
    if kind == "field":
        S, R = recs[0]["final"]["fields"], recs[1]["final"]["fields"]
        for t in grp["steps"]:
            sel = S[t][ix(mem[1]["opts"]["components"])]
            want = (sel * vol).sum(axis=(1, 2, 3)) / vol.sum()
            if not close(R[t], want):
                return f"reduced FieldDetector {R[t]} != volume-weighted mean of the spatial record {want}"
    elif kind == "energy":
        S, R, P = recs[0]["final"]["energy"][tl], recs[1]["final"]["energy"][tl], recs[2]["final"]
        if not close(R, np.asarray([(S * vol).sum()])):
            return f"reduced EnergyDetector {R} != sum(energy density * cell volume) {(S * vol).sum()}"
        for nm, ax in (("XY Plane", 2), ("XZ Plane", 1), ("YZ Plane", 0)):
            if not close(P[nm][tl], S.mean(axis=ax)):
                return f"energy slice {nm} != mean of the spatial record over axis {ax}"
    elif kind == "poynt":
        by = {(m["opts"]["direction"], m["opts"]["reduce"], m["opts"]["keep_all"]): r["final"]["poynting_flux"][tl]
              for m, r in zip(mem, recs)}
        ax = grp["axis"]
        sp, sm = by[("+", False, True)], by[("-", False, True)]
        if not close(sm, -sp):
            return "spatial Poynting record with direction '-' is not the negative of direction '+'"
        if not close(by[("+", True, True)], (sp * area).sum(axis=(1, 2, 3))):
            return f"reduced all-component Poynting {by[('+', True, True)]} != area-weighted sum of the spatial flux {(sp * area).sum(axis=(1, 2, 3))}"
        if not close(by[("-", True, True)], -by[("+", True, True)]):
            return "reduced Poynting with direction '-' is not the negative of '+'"
        if not close(by[("+", False, False)], sp[ax]):
            return f"single-component spatial output != component {ax} of the all-component output"
        if not close(by[("+", True, False)], by[("+", True, True)][ax:ax + 1]):
            return f"single-component reduced output {by[('+', True, False)]} != component {ax} of the all-component output {by[('+', True, True)]}"
        if not close(by[("-", True, False)], -by[("+", True, False)]):
            return "single-component reduced '-' is not the negative of '+'"
    elif kind == "closed":
        n = [b[1] - b[0] for b in grp["box"]]
        active = [a for a in range(3) if n[a] > 1]
        face = {}                      # (axis, side) -> reading of the single-plane detector on that face (min: '-', max: '+')
        for m, r in zip(mem, recs):
            if m["kind"] == "poynt":
                a = m["opts"]["fixed_axis"]
                face[(a, 0 if m["opts"]["direction"] == "-" else 1)] = float(r["final"]["poynting_flux"][tl][0])
        st = recs[0]["steps"][last]
        S = np.cross(st["E"], st["H"], axis=0)
        for m, r in zip(mem, recs):
            if m["kind"] != "closed":
                continue
            axes = m["opts"]["axes"] if m["opts"]["axes"] is not None else active
            sgn_o = -1.0 if m["opts"]["orientation"] == "inward" else 1.0
            got = r["final"]["poynting_flux"][tl]
            by_faces = sgn_o * sum(face[(a, 0)] + face[(a, 1)] for a in axes if n[a] > 1)
            w = [S[a] * area[a] for a in range(3)]
            by_numpy = sgn_o * sum(float(np.take(w[a], -1, axis=a).sum() - np.take(w[a], 0, axis=a).sum()) for a in axes)
            scale = max(abs(face[k]) for k in face) if face else 1e-300
            if abs(float(got[0]) - by_faces) > TOL * max(scale, abs(by_faces)):
                return (f"closed-surface flux {got} (orientation={m['opts']['orientation']}, axes={m['opts']['axes']}, box sizes {n}) "
                        f"!= signed sum of its face detectors {by_faces}")
            if abs(float(got[0]) - by_numpy) > TOL * max(scale, abs(by_numpy)):
                return (f"closed-surface flux {got} (orientation={m['opts']['orientation']}, axes={m['opts']['axes']}, box sizes {n}) "
                        f"!= independently computed signed sum of face fluxes {by_numpy}")
    elif kind == "phasor":
        Sf, Rf, Si, Ri = (r["final"]["phasor"][0] for r in recs)
        sel = ix(mem[1]["opts"]["components"])
        want = (Sf[:, sel] * vol).sum(axis=(2, 3, 4)) / vol.sum()
        if not close(Rf, want):
            return f"reduced PhasorDetector {Rf.ravel()[:3]} != volume-weighted mean of the spatial phasors {want.ravel()[:3]}"
        if not close(Si, -Sf) or not close(Ri, -Rf):
            return "inverse-time PhasorDetector does not subtract what the forward one adds"
    elif kind == "pwin":
        mid, end = recs[0]["final"]["phasor"], recs[1]["final"]["phasor"]
        w = mem[0]["opts"]["window"]
        if recs[0]["on"] != recs[1]["on"]:
            return f"window={w}: forward detector records steps {recs[0]['on']}, the inverse-time one {recs[1]['on']}"
        amp = float(np.max(np.abs(mid)))
        if not amp > 1e-6:
            return f"window={w}: forward accumulation over steps {recs[0]['on']} left the state at zero"
        if float(np.max(np.abs(end))) > 1e-12 * amp:
            return (f"window={w}: accumulating steps {recs[0]['on']} forward and then the same steps with inverse=True does not restore "
                    f"the initial state: residual {float(np.max(np.abs(end))):.3e} of {amp:.3e}")
    elif kind == "cphasor":
        P = recs[2]["final"]["phasor"][0]               # (nf, 6, *n) spatial phasors of the same region
        o = mem[0]["opts"]
        n = [b[1] - b[0] for b in grp["box"]]
        axes = [a for a in range(3) if n[a] > 1]
        tot = np.zeros(P.shape[0])
        fl_face = {}
        mi = 3
        for a in axes:
            for side, nm in ((0, "min"), (1, "max")):
                fc = recs[0]["final"][f"phasor_axis{a}_{nm}"][0]
                if not close(fc, face_of(P, a, side, 2)):
                    return f"stored face (axis {a}, {nm}) != the PhasorDetector record on that face"
                pdet = dets[(g, mi)]
                fl = np.asarray(pdet.compute_poynting_flux({"phasor": J()["jnp"].asarray(fc[None])}))
                fl_face[(a, side)] = fl
                tot = tot + fl
                mi += 1
        if not close(recs[0]["net"], tot):
            return f"closed-surface phasor net flux {recs[0]['net']} != signed sum of the six face fluxes {tot}"
        if not close(recs[1]["net"], -recs[0]["net"]):
            return "inward / inverse-time closed-surface phasor flux inconsistent with the outward forward one"
        sign = -1.0 if mem[1]["opts"]["inverse"] else 1.0
        for key in recs[0]["final"]:
            if not close(recs[1]["final"][key], sign * recs[0]["final"][key]):
                return f"closed-surface phasor detector with inverse={mem[1]['opts']['inverse']}: stored face {key} is not {sign:+.0f} x the forward one"
        # every closed-surface phasor member (any axes subset / orientation): signed sum of the face fluxes, computed
        # from the face detectors' compute_poynting_flux AND independently with numpy from the spatial phasors
        half = 0.5 if o["scaling"] == "continuous" else 1.0
        Sph = np.real(np.cross(P[:, :3], np.conj(P[:, 3:]), axis=1))          # (nf, 3, *n)
        for m, r in zip(mem, recs):
            if m["kind"] != "cphasor":
                continue
            ax_m = m["opts"]["axes"] if m["opts"]["axes"] is not None else axes
            sgn_o = -1.0 if m["opts"]["orientation"] == "inward" else 1.0
            by_faces = sgn_o * sum((fl_face[(a, 0)] + fl_face[(a, 1)] for a in ax_m if n[a] > 1), np.zeros(P.shape[0]))
            by_numpy = np.zeros(P.shape[0])
            for a in ax_m:
                wgt = Sph[:, a] * area[a][None]
                by_numpy = by_numpy + np.take(wgt, -1, axis=a + 1).sum(axis=(1, 2)) - np.take(wgt, 0, axis=a + 1).sum(axis=(1, 2))
            by_numpy = sgn_o * half * by_numpy
            scale = max(float(np.max(np.abs(v))) for v in fl_face.values()) if fl_face else 1e-300
            for want, how in ((by_faces, "signed sum of its face detectors"), (by_numpy, "independently computed signed sum of face fluxes")):
                if np.any(np.abs(r["net"] - want) > TOL * max(scale, float(np.max(np.abs(want))))):
                    return (f"closed-surface phasor net flux {r['net']} (orientation={m['opts']['orientation']}, axes={m['opts']['axes']}, "
                            f"box sizes {n}) != {how} {want}")
    return None


# ----------------------------------------------------------------------------------- generator
def rand_box(rng, shape, min_sizes=(1, 1, 1), thin=None):
    box = []
    for a in range(3):
        if thin == a:
            sz = 1
        else:
            sz = rng.randint(max(1, min_sizes[a]), min(4, shape[a]))
            if rng.chance(0.25) and min_sizes[a] <= 1 and thin is None:
                sz = 1
        s = rng.randint(0, shape[a] - sz)
        box.append([s, s + sz])
    return box


def subset(rng):
    k = rng.randint(1, 5)
    return rng.shuffle(list(COMP))[:k]


def gen_group(rng, kind, shape, T, fixed=None):
    g = {"kind": kind, "np_seed": rng.np_seed(), "steps": [rng.randint(0, T - 1)]}
    wl = [round(rng.uniform(0.8, 2.0), 3) * 1e-6 for _ in range(rng.randint(1, 2))]
    scaling = rng.choice(["continuous", "pulse"])
    if kind == "field":
        g["box"] = rand_box(rng, shape)
        g["steps"] = sorted(set([rng.randint(0, T - 1), rng.randint(0, T - 1)]))
        g["members"] = [{"kind": "field", "opts": {"reduce": False, "components": list(COMP)}},
                        {"kind": "field", "opts": {"reduce": True, "components": subset(rng)}}]
    elif kind == "energy":
        g["box"] = rand_box(rng, shape)
        g["eps_c"], g["mu_c"] = rng.choice([1, 3]), rng.choice([0, 1, 3])
        g["members"] = [{"kind": "energy", "opts": {"mode": m}} for m in (0, 1, 2)]
    elif kind == "poynt":
        thin = rng.choice([None, 0, 1, 2, 2])
        g["box"] = rand_box(rng, shape, thin=thin)
        n = [b[1] - b[0] for b in g["box"]]
        auto = n.count(1) == 1 and rng.chance(0.6)
        ax = n.index(1) if auto else rng.randint(0, 2)
        g["axis"] = ax
        mk = lambda d, r, ka: {"kind": "poynt", "opts": {"direction": d, "reduce": r, "keep_all": ka,
                                                       "fixed_axis": None if (auto and not ka) else (ax if not ka else rng.choice([None, ax]))}}
        g["members"] = [mk("+", False, True), mk("-", False, True), mk("+", True, True), mk("-", True, True),
                        mk("+", False, False), mk("+", True, False), mk("-", True, False)]
    elif kind in ("closed", "cphasor"):
        g["box"] = [list(b) for b in fixed["box"]] if fixed else rand_box(rng, shape, thin=rng.choice([None, None, 0, 1, 2]))
        n = [b[1] - b[0] for b in g["box"]]
        active = [a for a in range(3) if n[a] > 1]
        sub = rng.choice([None, None, [a for a in range(3) if rng.chance(0.6)]])
        if kind == "closed":
            g["members"] = [{"kind": "closed", "opts": {"orientation": "outward", "axes": None}},
                            {"kind": "closed", "opts": {"orientation": "inward", "axes": sub}}]
        else:
            g["steps"] = sorted(set(rng.randint(0, T - 1) for _ in range(1 if fixed else 2)))
            base = {"wavelengths": wl[:1] if fixed else wl, "scaling": scaling}
            g["members"] = [{"kind": "cphasor", "opts": dict(base, orientation="outward", axes=None, inverse=False)},
                            {"kind": "cphasor", "opts": dict(base, orientation="inward", axes=None, inverse=rng.chance(0.5))},
                            {"kind": "phasor", "opts": dict(base, reduce=False, components=list(COMP), inverse=False)}]
        for a in active:
            for side in (0, 1):
                fb = [list(b) for b in g["box"]]
                fb[a] = [fb[a][0], fb[a][0] + 1] if side == 0 else [fb[a][1] - 1, fb[a][1]]
                if kind == "closed":
                    g["members"].append({"kind": "poynt", "box": fb, "opts": {"direction": "-" if side == 0 else "+", "reduce": True,
                                                                                "keep_all": False, "fixed_axis": a}})
                else:
                    g["members"].append({"kind": "pflux", "box": fb, "opts": dict(base, direction="-" if side == 0 else "+",
                                                                                    fixed_axis=a, keep_all=False)})
        # explicit `axes` subsets (appended after the faces): every one is checked against the face fluxes
        for sub_axes in (fixed["variants"] if fixed else []):
            orient = rng.choice(["outward", "inward"])
            if kind == "closed":
                g["members"].append({"kind": "closed", "opts": {"orientation": orient, "axes": list(sub_axes)}})
            else:
                g["members"].append({"kind": "cphasor", "opts": dict(base, orientation=orient, axes=list(sub_axes), inverse=False)})
    elif kind == "phasor":
        g["box"] = rand_box(rng, shape)
        g["steps"] = sorted(set(rng.randint(0, T - 1) for _ in range(2)))
        base = {"wavelengths": wl, "scaling": scaling}
        sub = subset(rng)
        g["members"] = [{"kind": "phasor", "opts": dict(base, reduce=False, components=list(COMP), inverse=False)},
                        {"kind": "phasor", "opts": dict(base, reduce=True, components=sub, inverse=False)},
                        {"kind": "phasor", "opts": dict(base, reduce=False, components=list(COMP), inverse=True)},
                        {"kind": "phasor", "opts": dict(base, reduce=True, components=sub, inverse=True)}]
    elif kind == "pwin":
        g["box"] = rand_box(rng, shape)
        base = {"wavelengths": wl[:1], "scaling": scaling, "reduce": rng.chance(0.3), "components": list(COMP), "window": fixed["window"]}
        g["members"] = [{"kind": "phasor", "opts": dict(base, inverse=False)}, {"kind": "phasor", "opts": dict(base, inverse=True)}]
    for m in g["members"]:
        m.setdefault("box", g["box"])
    return g


KINDS = ["field", "energy", "poynt", "closed", "phasor", "cphasor"]


def gen_scene(rng, grid, per_kind, kinds=KINDS):
    shape = [rng.randint(5, 6) for _ in range(3)]
    T = 4
    widths = [[round(rng.uniform(0.6, 1.7), 3) for _ in range(shape[a])] for a in range(3)] if grid == "nonuniform" else None
    battery = grid == "nonuniform"
    groups = [gen_group(rng, k, shape, T) for k in kinds for _ in range(per_kind)
              if not (battery and per_kind == 1 and k in ("closed", "cphasor"))]
    if battery:
        groups += battery_groups(rng, shape, T)
        # inverse-time phasor detectors with a window that is asymmetric under t -> T-1-t (all three kinds)
        groups += [gen_group(rng, "pwin", shape, T, fixed={"window": w}) for w in ("switch", "apod", "stride")]
    return {"shape": shape, "grid": grid, "widths": widths, "T": T, "groups": groups}


NON_PREFIX_AXES = [[1], [2], [0, 2], [1, 2]]


def battery_groups(rng, shape, T):
    """always present on a non-uniform grid: closed-surface detectors (time domain and phasor) whose active axes are NOT a
    prefix of (0,1,2): a 3-D box with every non-prefix explicit `axes` subset, a box one cell thin along x, one thin along y"""
    def box(sizes):
        out = []
        for a in range(3):
            s0 = rng.randint(0, shape[a] - sizes[a])
            out.append([s0, s0 + sizes[a]])
        return out
    b3, bx, by = box([2, 3, 2]), box([1, 2, 3]), box([3, 1, 2])
    out = []
    for kind in ("closed", "cphasor"):
        out.append(gen_group(rng, kind, shape, T, fixed={"box": b3, "variants": NON_PREFIX_AXES}))
        out.append(gen_group(rng, kind, shape, T, fixed={"box": bx, "variants": []}))
        out.append(gen_group(rng, kind, shape, T, fixed={"box": by, "variants": [[2, 0, 1]] if kind == "closed" else []}))
    return out


def eval_scene(ctx, spec, with_model=True):
    """returns list of (group index, detail) property failures; records K comparisons in ctx when with_model"""
    from .common import h2fs
    dets, dt, T = build(spec)
    spec["_dt"], spec["_T"] = dt, T
    fails = []
    lines, expect, labels = [], [], []
    for g, grp in enumerate(spec["groups"]):
        recs = run_group(spec, g, dets, dt, T)
        ctx.impl_property_evals += 1
        d = group_identities(spec, g, recs, dets)
        if d:
            fails.append((g, d))
        if with_model and grp["kind"] == "pwin":
            ctx.case(nontrivial=("pwin", spec["grid"], g), op="phasor-forward-then-inverse", window=grp["members"][0]["opts"]["window"])
        if with_model:
            for line, got, lab in model_requests(spec, g, recs, dt, T):
                lines.append(line)
                expect.append(got)
                labels.append(lab)
    if with_model:
        reps = ctx.driver.ask_many(lines)
        for rep, got, lab, line in zip(reps, expect, labels, lines):
            g, m, op = lab
            grp = spec["groups"][g]
            mem = grp["members"][m]
            n = [b[1] - b[0] for b in mem["box"]]
            ctx.case(sample={"op": op, "grid": spec["grid"], "box": mem["box"], "opts": mem["opts"], "impl_first": float(np.ravel(got)[0])}
                     if len(ctx.samples) < 6 and m == 1 else None,
                     nontrivial=(spec["grid"], g, m, line[:40]), op=op, grid=spec["grid"], singleton_axes=n.count(1),
                     **({"reduce": mem["opts"].get("reduce")} if "reduce" in mem["opts"] else {}))
            if rep in ("error", "bad-op"):
                ctx.mismatch(op, one_group(spec, g), {"model": rep})
                continue
            ctx.expect_close(op, one_group(spec, g), np.asarray(got, dtype=np.float64).ravel(), h2fs(rep), tol=TOL, floor=1e-300)
    return fails


def one_group(spec, g):
    s = {k: v for k, v in spec.items() if not k.startswith("_")}
    s["groups"] = [spec["groups"][g]]
    return s


def run(ctx):
    per = ctx.scale(1, 4)
    scenes = [("nonuniform", per), ("uniform", per), ("direct", 1)]
    if ctx.thorough:
        scenes = [("nonuniform", per), ("uniform", per), ("nonuniform", per), ("direct", 2)] * 3
    for grid, pk in scenes:
        kinds = KINDS
        if not ctx.thorough:      # quick: the non-uniform scene carries the closed-surface battery; keep the other two lean
            kinds = ["field", "energy", "poynt", "closed", "cphasor"] if grid == "direct" else (
                ["field", "energy", "poynt", "closed", "phasor"] if grid == "uniform" else KINDS)
        spec = gen_scene(ctx.rng, grid, pk, kinds)
        fails = eval_scene(ctx, spec)
        if fails:
            g, d = fails[0]
            ctx.violation(one_group(spec, g), d)
            return


# ------------------------------------------------------------------------------------------- S
def property_fails(ctx, spec):
    try:
        fails = eval_scene(ctx, spec, with_model=False)
    except Exception as e:
        return f"implementation raised {type(e).__name__}: {str(e)[:300]}"
    return fails[0][1] if fails else None


def search(ctx, hints):
    seen = set()
    for h in hints:
        if isinstance(h, dict) and "groups" in h:
            key = str(h["groups"])[:200]
            if key in seen or len(seen) >= 10:
                continue
            seen.add(key)
            d = property_fails(ctx, h)
            if d:
                ctx.violation(h, d)
                return
    for i in range(ctx.scale(6, 20)):
        for grid in ("nonuniform", "uniform", "direct"):
            spec = gen_scene(ctx.rng.fork(), grid, 1)
            try:
                dets, dt, T = build(spec)
                spec["_dt"], spec["_T"] = dt, T
            except Exception as e:
                ctx.violation(spec, f"implementation raised {type(e).__name__}: {str(e)[:300]}")
                return
            for g in range(len(spec["groups"])):
                ctx.impl_property_evals += 1
                try:
                    d = group_identities(spec, g, run_group(spec, g, dets, dt, T), dets)
                except Exception as e:
                    d = f"implementation raised {type(e).__name__}: {str(e)[:300]}"
                if d:
                    ctx.violation(one_group(spec, g), d)
                    return


def replay(ctx, inp):
    return property_fails(ctx, inp)
