"""Shared adapters between the real Yee time step (fdtdx.fdtd.forward/backward on containers built by
place_objects) and the shared Lean model FdtdxModel/Yee.lean (+ YeeIO request encoding).

Only this module (and the per-property harness files) touch fdtdx internals."""
import numpy as np

from .common import f2h

FACES = ["min_x", "max_x", "min_y", "max_y", "min_z", "max_z"]
_J = None


def J():
    """lazy import of jax/fdtdx in float64 mode"""
    global _J
    if _J is None:
        import jax
        jax.config.update("jax_enable_x64", True)
        import jax.numpy as jnp
        import fdtdx
        from fdtdx.fdtd.forward import forward
        from fdtdx.fdtd.backward import backward
        from fdtdx.core.physics.curl import curl_E, curl_H
        from fdtdx.fdtd.update import pad_fields_for_boundaries
        from fdtdx import constants
        _J = dict(jax=jax, jnp=jnp, fdtdx=fdtdx, forward=forward, backward=backward, curl_E=curl_E, curl_H=curl_H,
                  pad=pad_fields_for_boundaries, eta0=float(constants.eta0), c0=float(constants.c))
    return _J


class Scene:
    pass


def build(shape, faces, widths=None, spacing=50e-9, complex_fields=None, bloch_vector=(0.0, 0.0, 0.0),
          pml_thickness=2, extra_objects=(), extra_constraints=(), time=1e-15, gradient="reversible",
          courant_factor=0.99, symmetry=(0, 0, 0), dtype="float64", extra_fn=None, origin=(0.0, 0.0, 0.0)):
    """place a volume of `shape` cells with the given face kinds
    (none | periodic | bloch | pec | pmc | pml); `widths` = per-axis cell-width lists for a RectilinearGrid"""
    j = J()
    fdtdx, jnp, jax = j["fdtdx"], j["jnp"], j["jax"]
    if widths is None:
        grid = fdtdx.UniformGrid(spacing=spacing)
    else:
        edges = [o + np.concatenate([[0.0], np.cumsum(np.asarray(w, dtype=np.float64))]) for w, o in zip(widths, origin)]  # origin: lower corner
        grid = fdtdx.RectilinearGrid(x_edges=jnp.asarray(edges[0]), y_edges=jnp.asarray(edges[1]), z_edges=jnp.asarray(edges[2]))
    gc = None
    if gradient == "reversible":
        gc = fdtdx.GradientConfig(method="reversible", recorder=fdtdx.Recorder(modules=[]))
    cfg = fdtdx.SimulationConfig(time=time, grid=grid, dtype=jnp.float64 if dtype == "float64" else jnp.float32, backend="cpu",
                                 use_complex_fields=complex_fields, gradient_config=gc, courant_factor=courant_factor,
                                 symmetry=tuple(symmetry))
    vol = fdtdx.SimulationVolume(partial_grid_shape=tuple(shape))
    kw = {}
    for k in FACES:
        kk = k.replace("_", "")
        if faces.get(k, "none") != "none":
            kw[f"boundary_type_{kk}"] = faces[k]
        kw[f"thickness_grid_{kk}"] = pml_thickness
    bc = fdtdx.BoundaryConfig(bloch_vector=tuple(bloch_vector), **kw)
    bd, cons = fdtdx.boundary_objects_from_config(bc, vol)
    objs, cs = [vol], []
    for (k, b), c in zip(bd.items(), cons):
        if faces.get(k, "none") != "none":
            objs.append(b)
            cs.append(c)
    objs += list(extra_objects)
    cs += list(extra_constraints)
    if extra_fn is not None:
        eo, ec = extra_fn(vol)
        objs += list(eo)
        cs += list(ec)
    objects, arrays, params, config, info = fdtdx.place_objects(object_list=objs, config=cfg, constraints=cs,
                                                                 key=jax.random.PRNGKey(0))
    s = Scene()
    s.objects, s.arrays, s.params, s.config = objects, arrays, params, config
    s.shape, s.faces, s.widths = tuple(shape), dict(faces), widths
    s.bloch_vector = tuple(bloch_vector)
    s.volume = vol
    return s


def with_state(scene, E=None, H=None, inv_eps=None, inv_mu=None, sig_e=None, sig_h=None):
    """overwrite fields / material arrays of the placed container (values are numpy arrays)"""
    jnp = J()["jnp"]
    a = scene.arrays
    cdt = a.fields.E.dtype
    if E is not None:
        a = a.aset("fields->E", jnp.asarray(E, dtype=cdt))
    if H is not None:
        a = a.aset("fields->H", jnp.asarray(H, dtype=cdt))
    if inv_eps is not None:
        a = a.aset("inv_permittivities", jnp.asarray(inv_eps, dtype=jnp.float64))
    if inv_mu is not None:
        a = a.aset("inv_permeabilities", jnp.asarray(inv_mu, dtype=jnp.float64))
    if sig_e is not None:
        a = a.aset("electric_conductivity", jnp.asarray(sig_e, dtype=jnp.float64))
    if sig_h is not None:
        a = a.aset("magnetic_conductivity", jnp.asarray(sig_h, dtype=jnp.float64))
    return a


def impl_forward(scene, arrays, t=0, n=1, record_detectors=False, record_boundaries=False, simulate_boundaries=True):
    j = J()
    jnp, jax = j["jnp"], j["jax"]
    st = (jnp.asarray(t, dtype=jnp.int32), arrays)
    for _ in range(n):
        st = j["forward"](st, scene.config, scene.objects, key=jax.random.PRNGKey(0), record_detectors=record_detectors,
                          record_boundaries=record_boundaries, simulate_boundaries=simulate_boundaries)
    return st


def impl_backward(scene, state, n=1, record_detectors=False, reset_fields=False):
    j = J()
    jax = j["jax"]
    st = state
    for _ in range(n):
        st = j["backward"](st, scene.config, scene.objects, key=jax.random.PRNGKey(0), record_detectors=record_detectors,
                           reset_fields=reset_fields)
    return st


# ------------------------------------------------------------------------------- request encoding
def declared_nonuniform(scene):
    """True when the scene's grid is graded.  Decided from the DECLARED widths when there are any (a grid that the
    code misclassifies as uniform must not drag the model and the energy oracle along), else from the config."""
    w = getattr(scene, "widths", None)
    if w is not None and all(len(w[a]) == scene.shape[a] for a in range(3)):
        w0 = float(w[0][0])
        if any(abs(float(x) - w0) > 1e-3 * abs(w0) for ax in w for x in ax):
            return True
    return bool(scene.config.has_nonuniform_grid)


def declared_widths(scene, ax):
    w = getattr(scene, "widths", None)
    if w is not None and all(len(w[a]) == scene.shape[a] for a in range(3)) and declared_nonuniform(scene):
        return np.asarray(w[ax], dtype=np.float64)
    return np.asarray(scene.config.resolved_grid.cell_widths(ax), dtype=np.float64)


def axis_info(scene, axis):
    """(wrap, pp, pm, lo_kind, hi_kind): halo rule of one axis read from the placed boundary objects"""
    lo, hi = scene.faces.get(FACES[2 * axis], "none"), scene.faces.get(FACES[2 * axis + 1], "none")
    wrap = lo in ("periodic", "bloch") or hi in ("periodic", "bloch")
    pp, pm = 1.0 + 0j, 1.0 + 0j
    for b in scene.objects.boundary_objects:
        if type(b).__name__ == "BlochBoundary" and b.axis == axis and b.needs_complex_fields:
            sp = float(scene.config.resolved_grid.min_spacing) if scene.config.has_nonuniform_grid else scene.config.uniform_spacing()
            ph = complex(np.asarray(b.get_bloch_phase(scene.objects.volume.grid_shape, sp)))
            if b.direction == "-":
                pm = np.conj(ph)
            else:
                pp = ph
    return wrap, pp, pm, lo, hi


def _axis_tokens(scene, axis, is_complex):
    wrap, pp, pm, lo, hi = axis_info(scene, axis)

    def sc(z):
        return [f2h(z.real), f2h(z.imag)] if is_complex else [f2h(z.real)]
    flags = [lo == "pec", hi == "pec", lo == "pmc", hi == "pmc"]
    return ["1" if wrap else "0"] + sc(pp) + sc(pm) + ["1" if f else "0" for f in flags]


def _vals(a, is_complex, n3):
    a = np.asarray(a)
    if a.shape != n3:
        a = np.broadcast_to(a, n3)
    flat = a.reshape(-1)
    if is_complex:
        out = []
        for z in flat:
            out.append(f2h(np.real(z)))
            out.append(f2h(np.imag(z)))
        return out
    return [f2h(x) for x in np.real(flat)]


def request(scene, op, E, H, inv_eps, inv_mu, sig_e=None, sig_h=None, src=None, nsteps=1, is_complex=False):
    """one protocol line for YeeIO.handleYee; arrays are numpy, materials broadcastable to (3,nx,ny,nz)"""
    j = J()
    nx, ny, nz = scene.shape
    n3 = (3, nx, ny, nz)
    t = [op, "c" if is_complex else "r", str(nx), str(ny), str(nz)]
    for ax in range(3):
        t += _axis_tokens(scene, ax, is_complex)
    cfg = scene.config
    if declared_nonuniform(scene):
        ref = j["c0"] * float(cfg.time_step_duration) / float(cfg.courant_number)
        t += ["n", f2h(ref)]
        for ax in range(3):
            t += [f2h(x) for x in declared_widths(scene, ax)]
    else:
        t += ["u"]
    t += [f2h(float(cfg.courant_number)), f2h(j["eta0"])]
    t += _vals(inv_eps, is_complex, n3)
    t += _vals(inv_mu, is_complex, n3)
    for s in (sig_e, sig_h):
        if s is None:
            t += ["0"]
        else:
            t += ["1"] + _vals(s, False, n3)
    if src is None:
        t += ["0"]
    else:
        t += ["1"] + _vals(src[0], is_complex, n3) + _vals(src[1], is_complex, n3)
    t += [str(nsteps)]
    t += _vals(E, is_complex, n3) + _vals(H, is_complex, n3)
    return " ".join(t)


def decode_fields(reply, shape, is_complex=False):
    from .common import h2f
    nx, ny, nz = shape
    toks = reply.split()
    vals = np.array([h2f(x) for x in toks], dtype=np.float64)
    if is_complex:
        vals = vals[0::2] + 1j * vals[1::2]
    n = 3 * nx * ny * nz
    if vals.size != 2 * n:
        raise ValueError(f"model reply has {vals.size} scalars, expected {2 * n}: {reply[:80]}")
    return vals[:n].reshape(3, nx, ny, nz), vals[n:].reshape(3, nx, ny, nz)


# ------------------------------------------------------------------- independent numpy energy oracle
def np_widths(scene):
    """primal widths w and dual widths d per axis (d_0 = w_0), in units of the reference spacing"""
    cfg = scene.config
    out = []
    for ax in range(3):
        n = scene.shape[ax]
        if declared_nonuniform(scene):
            w = declared_widths(scene, ax)
        else:
            w = np.ones(n)
        wp = np.concatenate([w[:1], w[:-1]])
        out.append((w, 0.5 * (w + wp)))
    return out


def np_curl_E(scene, E):
    """forward-difference curl with the halo of the scene (numpy re-implementation, oracle side); returns raw
    finite differences divided by the primal widths (in units where reference spacing = 1 on uniform grids)"""
    wd = np_widths(scene)
    if not declared_nonuniform(scene):
        sc = [np.ones(n) for n in scene.shape]
    else:
        j = J()
        ref = j["c0"] * float(scene.config.time_step_duration) / float(scene.config.courant_number)
        sc = [ref / wd[a][0] for a in range(3)]
    def nxt(f, ax):
        wrap, pp, pm, lo, hi = axis_info(scene, ax)
        g = np.roll(f, -1, axis=ax)
        idx = [slice(None)] * 3
        idx[ax] = -1
        if not wrap:
            g[tuple(idx)] = 0
        elif pp != 1.0:
            g = g.astype(np.complex128)
            g[tuple(idx)] = g[tuple(idx)] * pp
        return g
    def d(f, ax):
        shp = [1, 1, 1]
        shp[ax] = -1
        return (nxt(f, ax) - f) * sc[ax].reshape(shp)
    Ex, Ey, Ez = E
    return np.stack([d(Ez, 1) - d(Ey, 2), d(Ex, 2) - d(Ez, 0), d(Ey, 0) - d(Ex, 1)])


def np_energy(scene, E, H, inv_eps, inv_mu):
    """Q = Σ wE ε|E|² + Σ wH μ|H|² + c Σ wH Re(conj(H)·curlE(E))  (real fields: plain products)"""
    wd = np_widths(scene)
    (wx, dx), (wy, dy), (wz, dz) = wd
    def vol(a, b, c):
        return a[:, None, None] * b[None, :, None] * c[None, None, :]
    wE = np.stack([vol(wx, dy, dz), vol(dx, wy, dz), vol(dx, dy, wz)])
    wH = np.stack([vol(dx, wy, wz), vol(wx, dy, wz), vol(wx, wy, dz)])
    n3 = (3,) + tuple(scene.shape)
    eps = 1.0 / np.broadcast_to(np.asarray(inv_eps, dtype=np.float64), n3)
    mu = 1.0 / np.broadcast_to(np.asarray(inv_mu, dtype=np.float64), n3)
    c = float(scene.config.courant_number)
    cu = np_curl_E(scene, E)
    q = np.sum(wE * eps * np.abs(E) ** 2) + np.sum(wH * mu * np.abs(H) ** 2) + c * np.sum(wH * np.real(np.conj(H) * cu))
    return float(q)


def wall_project(scene, E, H):
    """zero the tangential components on PEC (E) / PMC (H) wall layers so that a random state satisfies the walls"""
    E, H = np.array(E), np.array(H)
    for ax in range(3):
        for side, k in ((0, FACES[2 * ax]), (1, FACES[2 * ax + 1])):
            kind = scene.faces.get(k, "none")
            if kind not in ("pec", "pmc"):
                continue
            idx = [slice(None)] * 3
            idx[ax] = 0 if side == 0 else scene.shape[ax] - 1
            for comp in range(3):
                if comp != ax:
                    (E if kind == "pec" else H)[(comp,) + tuple(idx)] = 0
    return E, H
