"""Request encoding for the any-tier Yee model (FdtdxModel/YeeAniso.lean, ops `afwd` / `abwd` of YeeAnisoIO.lean):
material arrays keep the leading component count of the ArrayContainer (1 / 3 / 9, or a Python scalar for inv_mu)."""
import numpy as np

from .common import f2h
from . import yee_api as Y


def _tens(a, shape, allow_scalar=False, none_token=None):
    nx, ny, nz = shape
    if a is None:
        if none_token is None:
            raise ValueError("material array missing")
        return [none_token]
    a = np.asarray(a, dtype=np.float64)
    if a.ndim == 0:
        if not allow_scalar:
            raise ValueError("scalar only allowed for inv_mu")
        return ["0", f2h(float(a))]
    if a.ndim != 4 or a.shape[0] not in (1, 3, 9) or a.shape[1:] != (nx, ny, nz):
        raise ValueError(f"bad material array shape {a.shape}")
    return [str(a.shape[0])] + [f2h(x) for x in a.reshape(-1)]


def request_aniso(scene, op, E, H, inv_eps, inv_mu, sig_e=None, sig_h=None, src=None, nsteps=1, is_complex=False):
    """one protocol line for YeeAnisoIO.handleAniso (op = afwd | abwd)"""
    j = Y.J()
    nx, ny, nz = scene.shape
    n3 = (3, nx, ny, nz)
    t = [op, "c" if is_complex else "r", str(nx), str(ny), str(nz)]
    for ax in range(3):
        t += Y._axis_tokens(scene, ax, is_complex)
    cfg = scene.config
    if cfg.has_nonuniform_grid:
        ref = j["c0"] * float(cfg.time_step_duration) / float(cfg.courant_number)
        t += ["n", f2h(ref)]
        for ax in range(3):
            t += [f2h(x) for x in np.asarray(cfg.resolved_grid.cell_widths(ax), dtype=np.float64)]
    else:
        t += ["u"]
    t += [f2h(float(cfg.courant_number)), f2h(j["eta0"])]
    t += _tens(inv_eps, scene.shape)
    t += _tens(inv_mu, scene.shape, allow_scalar=True)
    t += _tens(sig_e, scene.shape, none_token="n")
    t += _tens(sig_h, scene.shape, none_token="n")
    if src is None:
        t += ["0"]
    else:
        t += ["1"] + Y._vals(src[0], is_complex, n3) + Y._vals(src[1], is_complex, n3)
    t += [str(nsteps)]
    t += Y._vals(E, is_complex, n3) + Y._vals(H, is_complex, n3)
    return " ".join(t)


def spd_tensor(r, shape, amp=0.3, shift=0.5, nonsym=0.0):
    """(9, nx, ny, nz): per cell A Aᵀ + shift·I (symmetric positive definite), optionally plus a non-symmetric part"""
    nx, ny, nz = shape
    A = r.uniform(-amp, amp, (3, 3, nx, ny, nz))
    T = np.einsum("ik...,jk...->ij...", A, A) + shift * np.eye(3)[:, :, None, None, None]
    if nonsym:
        T = T + r.uniform(-nonsym, nonsym, (3, 3, nx, ny, nz))
    return T.reshape(9, nx, ny, nz)
