"""Shared machinery of every check: PRNG, float bit patterns, Lean build/audit (T), the native model
driver (K), evidence, known findings, violation reporting.  See DESIGN.md §2."""
import hashlib
import json
import os
import re
import struct
import subprocess
import sys
import time

ROOT = os.path.dirname(os.path.dirname(os.path.abspath(__file__)))
LEAN = os.path.join(ROOT, "lean")
DRIVER = os.path.join(LEAN, ".lake", "build", "bin", "fdtdx_driver")
REPO = os.environ.get("FDTDX_REPO", "/repo")
ALLOWED_AXIOMS = {"propext", "Classical.choice", "Quot.sound"}
FORBIDDEN = ["sorry", "admit", "native_decide", "bv_decide", "implemented_by", "unsafe ", "maxHeartbeats 0",
             "ofReduceBool", "reduceBool"]
TRUSTED_BASE = [
    "Lean 4.33.0 kernel (thorough tier: re-checked by leanchecker)",
    "axioms: subset of {propext, Classical.choice, Quot.sound}; no sorry/admit/native_decide/bv_decide/axiom declarations (grep + #print axioms on every run)",
    "Mathlib v4.33.0 modules imported by the proof files",
    "hand-written model lean/FdtdxModel/*.lean tied to /repo/src only by the correspondence check (harness/*.py + lean/Driver.lean, compiled Lean on binary64)",
    "the reading of the property as Lean statements in lean/FdtdxProps/<id>.lean",
    "JAX/XLA/numpy semantics and IEEE rounding are modelled, not verified (theorems are over exact fields)",
]


# ------------------------------------------------------------------------------------------ PRNG
class Rng:
    """SplitMix64; every random choice of a run derives from VERIF_SEED through one of these."""

    def __init__(self, seed):
        # the seed is hashed first: with s0 = seed·γ the streams of consecutive seeds would be one-step shifts of each other
        z = (int(seed) + 0x1234567) & 0xFFFFFFFFFFFFFFFF
        z = ((z ^ (z >> 30)) * 0xBF58476D1CE4E5B9) & 0xFFFFFFFFFFFFFFFF
        z = ((z ^ (z >> 27)) * 0x94D049BB133111EB) & 0xFFFFFFFFFFFFFFFF
        self.s = (z ^ (z >> 31)) & 0xFFFFFFFFFFFFFFFF

    def u64(self):
        self.s = (self.s + 0x9E3779B97F4A7C15) & 0xFFFFFFFFFFFFFFFF
        z = self.s
        z = ((z ^ (z >> 30)) * 0xBF58476D1CE4E5B9) & 0xFFFFFFFFFFFFFFFF
        z = ((z ^ (z >> 27)) * 0x94D049BB133111EB) & 0xFFFFFFFFFFFFFFFF
        return z ^ (z >> 31)

    def randint(self, lo, hi):  # inclusive
        return lo + self.u64() % (hi - lo + 1)

    def choice(self, xs):
        return xs[self.u64() % len(xs)]

    def random(self):
        return (self.u64() >> 11) / float(1 << 53)

    def uniform(self, a, b):
        return a + (b - a) * self.random()

    def chance(self, p):
        return self.random() < p

    def shuffle(self, xs):
        xs = list(xs)
        for i in range(len(xs) - 1, 0, -1):
            j = self.u64() % (i + 1)
            xs[i], xs[j] = xs[j], xs[i]
        return xs

    def fork(self):
        return Rng(self.u64())

    def np_seed(self):
        return self.u64() % (2 ** 31)


# ---------------------------------------------------------------------------------- float <-> hex
def f2h(x):
    return "%016x" % struct.unpack("<Q", struct.pack("<d", float(x)))[0]


def h2f(s):
    return struct.unpack("<d", struct.pack("<Q", int(s, 16)))[0]


def fs2h(xs):
    return " ".join(f2h(x) for x in xs)


def h2fs(s):
    return [h2f(t) for t in s.split()]


def relerr(a, b, floor=1.0):
    """max |a-b| / max(floor, max|b|) over flat sequences"""
    import numpy as np
    a = np.asarray(a, dtype=np.complex128 if np.iscomplexobj(a) or np.iscomplexobj(b) else np.float64).ravel()
    b = np.asarray(b, dtype=a.dtype).ravel()
    if a.shape != b.shape:
        return float("inf")
    if a.size == 0:
        return 0.0
    if not (np.all(np.isfinite(a)) and np.all(np.isfinite(b))):
        same = np.array_equal(np.isnan(a), np.isnan(b)) and np.array_equal(a[np.isfinite(a)], b[np.isfinite(b)])
        return 0.0 if same else float("inf")
    scale = max(floor, float(np.max(np.abs(b))))
    return float(np.max(np.abs(a - b))) / scale


# ------------------------------------------------------------------------------------------ Lean
def run_cmd(cmd, cwd=None, timeout=3600, env=None):
    t0 = time.time()
    p = subprocess.run(cmd, cwd=cwd, shell=isinstance(cmd, str), stdout=subprocess.PIPE, stderr=subprocess.STDOUT,
                       text=True, timeout=timeout, env=env)
    return p.returncode, p.stdout, time.time() - t0


def strip_lean_comments(src):
    # remove nested block comments and line comments (string literals in our sources never contain "--" or "/-")
    out, i, depth = [], 0, 0
    while i < len(src):
        if src.startswith("/-", i):
            depth += 1
            i += 2
        elif depth and src.startswith("-/", i):
            depth -= 1
            i += 2
        elif depth:
            i += 1
        elif src.startswith("--", i):
            while i < len(src) and src[i] != "\n":
                i += 1
        else:
            out.append(src[i])
            i += 1
    return "".join(out)


def token_grep(files):
    """forbidden tokens outside comments; Mathlib imports inside model files; `axiom` declarations"""
    bad = []
    for f in files:
        code = strip_lean_comments(open(f).read())
        for tok in FORBIDDEN:
            if tok in code:
                bad.append(f"{os.path.relpath(f, ROOT)}: forbidden token '{tok.strip()}'")
        if re.search(r"^\s*axiom\s", code, re.M):
            bad.append(f"{os.path.relpath(f, ROOT)}: axiom declaration")
        if "/FdtdxModel/" in f and re.search(r"^\s*import\s+(Mathlib|Batteries|Aesop)", code, re.M):
            bad.append(f"{os.path.relpath(f, ROOT)}: model file imports Mathlib")
    return bad


def lean_sources():
    res = []
    for d in ("FdtdxModel", "FdtdxLemmas", "FdtdxProps"):
        p = os.path.join(LEAN, d)
        if os.path.isdir(p):
            for fn in sorted(os.listdir(p)):
                if fn.endswith(".lean"):
                    res.append(os.path.join(p, fn))
    res.append(os.path.join(LEAN, "Driver.lean"))
    return res


def lake_build(targets, clean_modules=None):
    """incremental build of the given targets; returns (ok, log, seconds)"""
    if clean_modules:
        for m in clean_modules:
            base = os.path.join(LEAN, ".lake", "build", "lib", "lean", *m.split("."))
            for ext in (".olean", ".ilean", ".trace", ".olean.hash", ".ilean.hash"):
                try:
                    os.remove(base + ext)
                except OSError:
                    pass
    rc, out, dt = run_cmd(["lake", "build"] + list(targets), cwd=LEAN)
    return rc == 0, out, dt


def axiom_audit(pid, modules, theorems):
    """`#print axioms` for each registered theorem; returns dict name -> (ok, axioms or error)"""
    tmpdir = os.path.join(LEAN, ".lake", "audit")
    os.makedirs(tmpdir, exist_ok=True)
    path = os.path.join(tmpdir, f"Audit_{pid}_{os.getpid()}.lean")
    with open(path, "w") as f:
        for m in modules:
            f.write(f"import {m}\n")
        for t in theorems:
            f.write(f"#print axioms {t}\n")
    rc, out, dt = run_cmd(["lake", "env", "lean", path], cwd=LEAN)
    os.remove(path)
    res = {}
    # join wrapped lines
    flat = re.sub(r"\n\s+", " ", out)
    for t in theorems:
        m = re.search(r"'" + re.escape(t) + r"' depends on axioms: \[([^\]]*)\]", flat)
        if m:
            ax = {a.strip() for a in m.group(1).split(",") if a.strip()}
            res[t] = (ax <= ALLOWED_AXIOMS, sorted(ax))
        elif re.search(r"'" + re.escape(t) + r"' does not depend on any axioms", flat):
            res[t] = (True, [])
        else:
            res[t] = (False, ["<not found or failed: " + out.strip()[-300:] + ">"])
    return res, out, dt


def leanchecker(modules):
    rc, out, dt = run_cmd(["lake", "env", "leanchecker"] + list(modules), cwd=LEAN, timeout=3000)
    return rc == 0, out, dt


class Driver:
    """persistent native model driver speaking the line protocol"""

    def __init__(self, pid):
        self.pid = pid
        self.p = None
        self.n = 0

    def start(self):
        if self.p is None:
            self.p = subprocess.Popen([DRIVER], stdin=subprocess.PIPE, stdout=subprocess.PIPE, text=True, bufsize=1)

    def ask(self, line):
        self.start()
        self.p.stdin.write(f"{self.pid} {line}\n")
        self.p.stdin.flush()
        self.n += 1
        out = self.p.stdout.readline()
        if out == "":
            raise RuntimeError("model driver died on: " + line[:200])
        return out.rstrip("\n")

    def ask_many(self, lines):
        """batch: one process run, returns replies"""
        inp = "".join(f"{self.pid} {l}\n" for l in lines)
        p = subprocess.run([DRIVER], input=inp, stdout=subprocess.PIPE, text=True)
        self.n += len(lines)
        outs = p.stdout.split("\n")
        if outs and outs[-1] == "":
            outs.pop()
        if len(outs) != len(lines):
            raise RuntimeError(f"model driver returned {len(outs)} replies for {len(lines)} requests")
        return outs

    def close(self):
        if self.p is not None:
            try:
                self.p.stdin.close()
                self.p.wait(timeout=5)
            except Exception:
                self.p.kill()
            self.p = None


# ------------------------------------------------------------------------------------ bookkeeping
def load_known():
    p = os.path.join(ROOT, "known_findings.json")
    if not os.path.exists(p):
        return {"findings": [], "fixed": []}
    return json.load(open(p))


def canon(obj):
    return json.dumps(obj, sort_keys=True, default=str)


class Ctx:
    """what a property module sees"""

    def __init__(self, pid, tier, seed):
        self.pid, self.tier, self.seed = pid, tier, seed
        self.rng = Rng(seed)
        self.thorough = tier == "thorough"
        self.driver = Driver(pid)
        self.evaluations = 0
        self.nontrivial = set()
        self.samples = []
        self.dist = {}
        self.mismatches = []      # K: model vs implementation
        self.violations = []      # property predicate false on the implementation (with input)
        self.impl_property_evals = 0
        self.notes = []
        self.t0 = time.time()
        self.exhaustive = False
        self.extra = {}

    def scale(self, quick, thorough):
        return thorough if self.thorough else quick

    def case(self, sample=None, nontrivial=None, **counts):
        """record one generated case; `nontrivial` is a hashable key when the case hits a non-default branch"""
        self.evaluations += 1
        if nontrivial is not None:
            self.nontrivial.add(canon(nontrivial))
        if sample is not None and len(self.samples) < 6:
            self.samples.append(sample)
        for k, v in counts.items():
            d = self.dist.setdefault(k, {})
            d[str(v)] = d.get(str(v), 0) + 1

    def mismatch(self, op, case, detail):
        self.mismatches.append({"op": op, "case": case, "detail": detail})

    def violation(self, case, detail, signature=None):
        self.violations.append({"input": case, "detail": detail, "signature": signature or ""})

    def expect_equal(self, op, case, impl, model):
        if impl != model:
            self.mismatch(op, case, {"impl": str(impl)[:400], "model": str(model)[:400]})
            return False
        return True

    def expect_close(self, op, case, impl, model, tol=1e-9, floor=1.0):
        e = relerr(model, impl, floor)
        if not (e <= tol):
            self.mismatch(op, case, {"relerr": e, "tol": tol})
            return False
        return True


def write_replay(pid, payload):
    os.makedirs(os.path.join(ROOT, "replays"), exist_ok=True)
    h = hashlib.sha1(canon(payload).encode()).hexdigest()[:10]
    path = os.path.join("replays", f"{pid}-{h}.json")
    json.dump(payload, open(os.path.join(ROOT, path), "w"), indent=1, default=str)
    return path


def write_evidence(pid, ev):
    # VERIF_EVIDENCE_DIR: development only (runs against a deliberately broken scratch tree must not
    # overwrite the evidence of /repo itself); registered commands never set it.
    d = os.environ.get("VERIF_EVIDENCE_DIR") or os.path.join(ROOT, "evidence")
    os.makedirs(d, exist_ok=True)
    json.dump(ev, open(os.path.join(d, f"{pid}.json"), "w"), indent=1, default=str)
