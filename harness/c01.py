"""C01 — discrete energy conservation / dissipation.  K: fdtdx.fdtd.forward.forward, curl_E, curl_H vs the shared
Yee model; property oracle: numpy energy functional evaluated on the implementation's own states."""
import numpy as np

from . import yee_api as Y

RULE = ("scenes generated from the seed: shape 1..5 (thorough 1..7) cells per axis incl. size-1 axes; per axis one of the face "
        "pairs none/none, periodic/periodic, pec/pec, pmc/pmc, pec/none, none/pmc, pec/pmc, pmc/pec, bloch/bloch (complex "
        "fields) and, for K only, inconsistent mixes periodic/pec, pmc/periodic; uniform or random non-uniform widths; "
        "inv_eps isotropic (1,..) or diagonal (3,..), inv_mu scalar/isotropic/diagonal, electric/magnetic conductivity "
        "none or random >= 0; random fields projected onto the walls (sometimes unprojected for K); 1..4 steps. K compares "
        "forward() after n steps and curl_E/curl_H alone with the model (1e-9). The property predicate (numpy oracle "
        "np_energy on the implementation's states: drift <= 1e-9 lossless, non-increasing with sigma_E >= 0) is evaluated "
        "on every closed consistent scene. non-trivial = a scene with at least one non-'none' face or non-uniform grid or "
        "diagonal material or conductivity.")

PAIRS_OK = [("none", "none"), ("periodic", "periodic"), ("pec", "pec"), ("pmc", "pmc"), ("pec", "none"), ("none", "pmc"),
            ("pec", "pmc"), ("pmc", "pec"), ("none", "pec"), ("pmc", "none")]
PAIRS_ODD = [("periodic", "pec"), ("pmc", "periodic"), ("periodic", "none")]


def gen_case(rng, thorough, force=None):
    c = {}
    mx = 7 if thorough else 5
    c["shape"] = [rng.randint(1, mx) for _ in range(3)]
    if rng.chance(0.3):
        c["shape"][rng.randint(0, 2)] = 1
    if c["shape"] == [1, 1, 1]:          # fdtdx cannot allocate a 1x1x1 volume (create_named_sharded_matrix needs a dim != 1)
        c["shape"][rng.randint(0, 2)] = 2
    if force and "shape" in force:
        c["shape"] = list(force["shape"])
    faces, consistent, bloch = {}, True, False
    for ax in range(3):
        r = rng.random()
        if r < 0.12:
            lo, hi = "bloch", "bloch"
            bloch = True
        elif r < 0.24:
            lo, hi = rng.choice(PAIRS_ODD)
            consistent = False
        else:
            lo, hi = rng.choice(PAIRS_OK)
        faces[Y.FACES[2 * ax]], faces[Y.FACES[2 * ax + 1]] = lo, hi
    c["faces"] = faces
    c["consistent"] = consistent
    c["bloch"] = bloch
    c["bloch_vector"] = [rng.uniform(-2e7, 2e7) if bloch else 0.0 for _ in range(3)]
    c["widths"] = None
    if rng.chance(0.45):
        c["widths"] = [[50e-9 * rng.uniform(0.5, 2.0) for _ in range(n)] for n in c["shape"]]
        # the lower corner of an explicit grid may sit anywhere (chip-frame coordinates): energy is translation invariant
        c["origin"] = [rng.choice([0.0, 0.0, 1e-3, -1e-3, 3e-5, -2.5e-4]) for _ in range(3)]
    c["eps_tier"] = rng.choice([1, 3])
    c["mu_tier"] = rng.choice([0, 1, 3])
    c["sig_e"] = rng.chance(0.35)
    c["sig_h"] = rng.chance(0.15)
    c["project"] = rng.chance(0.8)
    c["steps"] = rng.randint(1, 4)
    c["seed"] = rng.np_seed()
    if force:
        c.update(force)
    return c


def materialise(c):
    """numpy arrays of a case (deterministic from c['seed'])"""
    r = np.random.default_rng(c["seed"])
    nx, ny, nz = c["shape"]
    cplx = c["bloch"]
    def field():
        f = r.standard_normal((3, nx, ny, nz))
        if cplx:
            f = f + 1j * r.standard_normal((3, nx, ny, nz))
        return f
    E, H = field(), field()
    inv_eps = r.uniform(0.1, 1.0, (c["eps_tier"], nx, ny, nz))
    inv_mu = 1.0 if c["mu_tier"] == 0 else r.uniform(0.3, 1.0, (c["mu_tier"], nx, ny, nz))
    sig_e = r.uniform(0.0, 0.02, (c["eps_tier"], nx, ny, nz)) * (r.random((c["eps_tier"], nx, ny, nz)) < 0.7) if c["sig_e"] else None
    sig_h = r.uniform(0.0, 2e3, (max(c["mu_tier"], 1), nx, ny, nz)) if c["sig_h"] else None
    return E, H, inv_eps, inv_mu, sig_e, sig_h


def scene_of(c):
    return Y.build(c["shape"], c["faces"], widths=c["widths"], origin=tuple(c.get("origin") or (0.0, 0.0, 0.0)),
                   complex_fields=True if c["bloch"] else None,
                   bloch_vector=c["bloch_vector"])


def impl_states(c, sc=None):
    """E,H after 0..steps forward steps on the real code"""
    sc = sc or scene_of(c)
    E, H, inv_eps, inv_mu, sig_e, sig_h = materialise(c)
    if c["project"]:
        E, H = Y.wall_project(sc, E, H)
    arrays = Y.with_state(sc, E, H, inv_eps, None if c["mu_tier"] == 0 else inv_mu, sig_e, sig_h)
    states = [(np.asarray(E), np.asarray(H))]
    st = (Y.J()["jnp"].asarray(0, dtype=Y.J()["jnp"].int32), arrays)
    for _ in range(c["steps"]):
        st = Y.impl_forward(sc, st[1], t=int(st[0]), n=1)
        states.append((np.asarray(st[1].fields.E), np.asarray(st[1].fields.H)))
    return sc, states, (inv_eps, inv_mu, sig_e, sig_h)


def energy_verdict(c, sc, states, mats):
    """the property predicate on the implementation's own states; None = holds"""
    inv_eps, inv_mu, sig_e, sig_h = mats
    if not (c["consistent"] and c["project"]) or sig_h is not None:
        return None, False
    qs = [Y.np_energy(sc, E, H, inv_eps, inv_mu) for (E, H) in states]
    scale = max(abs(q) for q in qs) + 1e-300
    for n in range(1, len(qs)):
        if sig_e is None:
            if abs(qs[n] - qs[n - 1]) > 1e-9 * scale:
                return f"energy changed from {qs[n-1]!r} to {qs[n]!r} at step {n} (lossless closed domain)", True
        else:
            if qs[n] > qs[n - 1] + 1e-9 * scale:
                return f"energy increased from {qs[n-1]!r} to {qs[n]!r} at step {n} with sigma_E >= 0", True
    return None, True


def nontrivial(c):
    if any(v != "none" for v in c["faces"].values()) or c["widths"] or c["eps_tier"] == 3 or c["sig_e"] or c["mu_tier"]:
        return (tuple(c["shape"]), tuple(sorted(c["faces"].items())), bool(c["widths"]), c["eps_tier"], c["mu_tier"], c["sig_e"], c["sig_h"], c["seed"])
    return None


def one_case(ctx, c, sample=False):
    sc, states, mats = impl_states(c)
    inv_eps, inv_mu, sig_e, sig_h = mats
    E0, H0 = states[0]
    line = Y.request(sc, "fwd", E0, H0, inv_eps, inv_mu, sig_e, sig_h, None, c["steps"], is_complex=c["bloch"])
    mE, mH = Y.decode_fields(ctx.driver.ask(line), c["shape"], c["bloch"])
    face_kinds = sorted(set(c["faces"].values()))
    ctx.case(sample={k: c[k] for k in ("shape", "faces", "widths", "eps_tier", "mu_tier", "sig_e", "sig_h", "steps", "seed")} if sample else None,
             nontrivial=nontrivial(c), grid="nonuniform" if c["widths"] else "uniform", eps_tier=c["eps_tier"],
             mu_tier=c["mu_tier"], sig_e=c["sig_e"], sig_h=c["sig_h"], steps=c["steps"], bloch=c["bloch"],
             consistent=c["consistent"], size1_axis=1 in c["shape"], **{"face_" + k: True for k in face_kinds})
    iE, iH = states[-1]
    ctx.expect_close("forward", c, np.concatenate([iE.ravel(), iH.ravel()]), np.concatenate([mE.ravel(), mH.ravel()]))
    # curls alone (no PML in these scenes)
    j = Y.J()
    arrays = Y.with_state(sc, E0, H0)
    Epad = j["pad"](arrays.fields.E, sc.objects, sc.config)
    Hpad = j["pad"](arrays.fields.H, sc.objects, sc.config)
    cE, _ = j["curl_E"](sc.config, Epad, arrays.fields.psi_H, sc.objects, True)
    cH, _ = j["curl_H"](sc.config, Hpad, arrays.fields.psi_E, sc.objects, True)
    lE = Y.request(sc, "curlE", E0, H0, inv_eps, inv_mu, None, None, None, 1, is_complex=c["bloch"])
    lH = Y.request(sc, "curlH", E0, H0, inv_eps, inv_mu, None, None, None, 1, is_complex=c["bloch"])
    mcE, _ = Y.decode_fields(ctx.driver.ask(lE), c["shape"], c["bloch"])
    mcH, _ = Y.decode_fields(ctx.driver.ask(lH), c["shape"], c["bloch"])
    ctx.expect_close("curl_E", c, np.asarray(cE).ravel(), mcE.ravel())
    ctx.expect_close("curl_H", c, np.asarray(cH).ravel(), mcH.ravel())
    d, evaluated = energy_verdict(c, sc, states, mats)
    if evaluated:
        ctx.impl_property_evals += 1
    if d:
        ctx.violation(c, d)


FORCED = [
    dict(shape=[3, 4, 2], faces={"min_x": "periodic", "max_x": "periodic", "min_y": "pec", "max_y": "pmc", "min_z": "none", "max_z": "pec"}, consistent=True, bloch=False, bloch_vector=[0.0, 0.0, 0.0], project=True),
    dict(shape=[4, 1, 3], faces={k: "periodic" for k in Y.FACES}, consistent=True, bloch=False, bloch_vector=[0.0, 0.0, 0.0], project=True, sig_e=False, sig_h=False),
    dict(shape=[3, 3, 3], faces={"min_x": "bloch", "max_x": "bloch", "min_y": "periodic", "max_y": "periodic", "min_z": "pec", "max_z": "pec"}, consistent=True, bloch=True, bloch_vector=[1.3e7, 0.0, 0.0], project=True, sig_e=False, sig_h=False),
    dict(shape=[2, 5, 3], faces={k: "none" for k in Y.FACES}, consistent=True, bloch=False, bloch_vector=[0.0, 0.0, 0.0], project=True, sig_e=True, sig_h=False, widths=[[4e-8, 7e-8], [5e-8, 3e-8, 9e-8, 5e-8, 6e-8], [5e-8, 5e-8, 8e-8]], origin=[1e-3, -1e-3, 2e-3]),
]


def run(ctx):
    n = ctx.scale(26, 260)
    cases = [gen_case(ctx.rng, ctx.thorough, f) for f in FORCED]
    while len(cases) < n:
        cases.append(gen_case(ctx.rng, ctx.thorough))
    for i, c in enumerate(cases):
        one_case(ctx, c, sample=i in (0, 5))


def property_fails(c):
    sc, states, mats = impl_states(c)
    d, _ = energy_verdict(c, sc, states, mats)
    return d


def search(ctx, hints):
    tried = 0
    for h in hints:
        if isinstance(h, dict) and "shape" in h:
            for extra in ({}, {"project": True, "sig_h": False}):
                c = dict(h, **extra)
                if not c.get("consistent", True):
                    continue
                tried += 1
                ctx.impl_property_evals += 1
                d = property_fails(dict(c, steps=6))
                if d:
                    ctx.violation(dict(c, steps=6), d)
                    return
    budget = ctx.scale(60, 400)
    rng = ctx.rng.fork()
    # small scenes first
    for i in range(budget):
        c = gen_case(rng, False, dict(project=True, sig_h=False, steps=6))
        if not c["consistent"]:
            continue
        if i < budget // 2:
            c["shape"] = [min(s, 3) for s in c["shape"]]
            if c["widths"]:
                c["widths"] = [w[:s] for w, s in zip(c["widths"], c["shape"])]
        ctx.impl_property_evals += 1
        d = property_fails(c)
        if d:
            ctx.violation(c, d)
            return


def replay(ctx, inp):
    return property_fails(inp)
