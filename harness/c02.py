"""C02 — backward ∘ forward = identity.  K: fdtdx.fdtd.forward.forward / backward.backward (with real sources,
switches and temporal profiles) vs the shared Yee model fed with the probed additive source terms; property oracle:
round-trip error on the implementation itself."""
import numpy as np

from . import yee_api as Y

RULE = ("scenes from the seed: 3..5 (thorough 3..7) cells per axis, consistent face pairs (none/periodic/pec/pmc mixes, "
        "bloch pairs with complex fields), uniform or non-uniform grid, 0..2 sources out of UniformPlaneSource, "
        "GaussianPlaneSource, PointDipoleSource (electric/magnetic, axis-aligned or tilted by azimuth/elevation) on every axis/direction with SingleFrequency or "
        "GaussianPulse profile and a switch (default, start_after_periods, interval 2, fixed on-steps, always off), "
        "isotropic/diagonal inv_eps, scalar/iso/diagonal inv_mu, optional sigma_E and sigma_H, random wall-projected "
        "state, random step index t of a run of ~8 steps. K: (a) the additive source terms jE, jH are probed from "
        "update_E/update_H on zero fields, then forward() vs model fwd and backward() vs model bwd (1e-9), which also "
        "checks that the injected increment does not depend on the fields; (b) full-tensor tier (model YeeAniso, ops "
        "afwd/abwd): 4 forced + 6 forced lossless full-tensor scenes with an electric / magnetic dipole that is on at t and "
        "drives each field component in turn + generated scenes whose update_E and/or update_H takes the 9-component branch (full SPD "
        "or non-symmetric inv_eps / inv_mu, or a 9-component sigma next to a 1/3-component inverse tensor; the other "
        "field in any tier incl. scalar inv_mu), lossless or lossy (sigma of 1/3/9 components), uniform grid or "
        "stretched grid (spacing-weighted averages), zero/periodic/Bloch/PEC/PMC faces, 0..1 source when lossless: "
        "forward() vs afwd and backward() vs abwd at 1e-9. Property oracle on every diagonal-tier case and every "
        "LOSSLESS full-tensor case: |backward(forward(s)) - s| <= 1e-9 (lossy full tensors are outside the claim; "
        "see aniso_lossy_roundtrip_fails). non-trivial = has a source that is on at t, or conductivity, or a "
        "non-'none' face, or a full tensor.")

PAIRS_OK = [("none", "none"), ("periodic", "periodic"), ("pec", "pec"), ("pmc", "pmc"), ("pec", "none"), ("none", "pmc"),
            ("pec", "pmc"), ("pmc", "pec")]


def gen_case(rng, thorough, force=None):
    c = {}
    mx = 7 if thorough else 5
    c["shape"] = [rng.randint(3, mx) for _ in range(3)]
    if force and "shape" in force:
        c["shape"] = list(force["shape"])
    faces, bloch = {}, False
    for ax in range(3):
        if rng.chance(0.1):
            lo, hi = "bloch", "bloch"
            bloch = True
        else:
            lo, hi = rng.choice(PAIRS_OK)
        faces[Y.FACES[2 * ax]], faces[Y.FACES[2 * ax + 1]] = lo, hi
    c["faces"], c["bloch"] = faces, bloch
    c["bloch_vector"] = [rng.uniform(-2e7, 2e7) if bloch else 0.0 for _ in range(3)]
    c["widths"] = None
    if rng.chance(0.35):
        c["widths"] = [[50e-9 * rng.uniform(0.6, 1.6) for _ in range(n)] for n in c["shape"]]
    srcs = []
    for _ in range(rng.choice([0, 1, 1, 2])):
        kind = rng.choice(["uniform", "gauss", "dipole_e", "dipole_m"])
        s = {"kind": kind, "axis": rng.randint(0, 2), "direction": rng.choice(["+", "-"]),
             "profile": rng.choice(["cw", "pulse"]),
             "switch": rng.choice(["default", "default", "start", "interval", "fixed", "off"]),
             "amp": rng.uniform(0.5, 2.0), "pol": rng.randint(0, 2)}
        s["pos"] = [rng.randint(0, n - 1) for n in c["shape"]]
        if kind.startswith("dipole") and rng.chance(0.5):
            # tilted dipole: the injection takes the non-axis-aligned branch of PointDipoleSource.update_E/H
            s["tilt"] = [rng.uniform(10.0, 70.0) * rng.choice([-1, 1]), rng.uniform(10.0, 50.0) * rng.choice([-1, 1])]
        srcs.append(s)
    c["sources"] = srcs
    c["eps_tier"] = rng.choice([1, 3])
    c["mu_tier"] = rng.choice([0, 1, 3])
    c["sig_e"] = rng.chance(0.4)
    c["sig_h"] = rng.chance(0.3)
    c["t"] = rng.randint(0, 7)
    c["seed"] = rng.np_seed()
    if force:
        c.update(force)
    return c


def make_sources(c, vol):
    f = Y.J()["fdtdx"]
    objs, cons = [], []
    wl = 4.0e-7
    for i, s in enumerate(c["sources"]):
        wave = f.WaveCharacter(wavelength=wl)
        prof = f.SingleFrequencyProfile() if s["profile"] == "cw" else f.GaussianPulseProfile(
            spectral_width=f.WaveCharacter(wavelength=3 * wl), center_wave=wave)
        sw = {"default": f.OnOffSwitch(), "start": f.OnOffSwitch(start_time=3.0e-16),
              "interval": f.OnOffSwitch(interval=2), "fixed": f.OnOffSwitch(fixed_on_time_steps=[1, 2, 5, 6]),
              "off": f.OnOffSwitch(is_always_off=True)}[s["switch"]]
        ax = s["axis"]
        if s["kind"] in ("uniform", "gauss"):
            shape = [None, None, None]
            shape[ax] = 1
            pol = [0.0, 0.0, 0.0]
            pol[(ax + 1 + s["pol"] % 2) % 3] = 1.0
            kw = dict(partial_grid_shape=tuple(shape), wave_character=wave, direction=s["direction"],
                      fixed_E_polarization_vector=tuple(pol), temporal_profile=prof, switch=sw,
                      static_amplitude_factor=s["amp"], name=f"src{i}")
            o = f.UniformPlaneSource(**kw) if s["kind"] == "uniform" else f.GaussianPlaneSource(radius=1.2e-7, **kw)
            if c["widths"]:
                cons.append(o.place_at_center(vol, axes=(ax,)))
            else:
                cons.append(o.set_grid_coordinates(axes=ax, sides="-", coordinates=min(s["pos"][ax], c["shape"][ax] - 1)))
        else:
            o = f.PointDipoleSource(partial_grid_shape=(1, 1, 1), wave_character=wave, polarization=s["pol"],
                                    source_type="electric" if s["kind"] == "dipole_e" else "magnetic",
                                    temporal_profile=prof, switch=sw, static_amplitude_factor=s["amp"], name=f"src{i}",
                                    azimuth_angle=s.get("tilt", [0.0, 0.0])[0], elevation_angle=s.get("tilt", [0.0, 0.0])[1])
            if c["widths"]:
                cons.append(o.place_at_center(vol))
            else:
                cons.append(o.set_grid_coordinates(axes=(0, 1, 2), sides=("-", "-", "-"), coordinates=tuple(s["pos"])))
        objs.append(o)
    return objs, cons


def scene_of(c):
    j = Y.J()
    # time=1e-15 gives a run of about 10 (uniform 50 nm) to 17 (finest non-uniform) steps
    return Y.build(c["shape"], c["faces"], widths=c["widths"], complex_fields=True if c["bloch"] else None,
                   bloch_vector=c["bloch_vector"], extra_fn=lambda vol: make_sources(c, vol), time=1e-15)


def materialise(c):
    r = np.random.default_rng(c["seed"])
    nx, ny, nz = c["shape"]
    def field():
        f = r.standard_normal((3, nx, ny, nz))
        if c["bloch"]:
            f = f + 1j * r.standard_normal((3, nx, ny, nz))
        return f
    E, H = field(), field()
    inv_eps = r.uniform(0.1, 1.0, (c["eps_tier"], nx, ny, nz))
    inv_mu = 1.0 if c["mu_tier"] == 0 else r.uniform(0.3, 1.0, (c["mu_tier"], nx, ny, nz))
    sig_e = r.uniform(0.0, 0.02, (c["eps_tier"], nx, ny, nz)) if c["sig_e"] else None
    sig_h = r.uniform(0.0, 2e3, (max(c["mu_tier"], 1), nx, ny, nz)) if c["sig_h"] else None
    return E, H, inv_eps, inv_mu, sig_e, sig_h


def impl_roundtrip(c):
    """returns scene, (E0,H0), (E1,H1) after forward at step t, (E0',H0') after backward, mats, (jE,jH), on-flag"""
    j = Y.J()
    jnp = j["jnp"]
    from fdtdx.fdtd.update import update_E, update_H
    sc = scene_of(c)
    E, H, inv_eps, inv_mu, sig_e, sig_h = materialise(c)
    E, H = Y.wall_project(sc, E, H)
    arrays = Y.with_state(sc, E, H, inv_eps, None if c["mu_tier"] == 0 else inv_mu, sig_e, sig_h)
    t = min(c["t"], int(sc.config.time_steps_total) - 1)
    st1 = Y.impl_forward(sc, arrays, t=t, n=1)
    E1, H1 = np.asarray(st1[1].fields.E), np.asarray(st1[1].fields.H)
    st0 = Y.impl_backward(sc, st1, n=1)
    Eb, Hb = np.asarray(st0[1].fields.E), np.asarray(st0[1].fields.H)
    # probe the additive source terms on zero fields
    zero = Y.with_state(sc, np.zeros_like(E), np.zeros_like(H), inv_eps, None if c["mu_tier"] == 0 else inv_mu, sig_e, sig_h)
    tt = jnp.asarray(t, dtype=jnp.int32)
    jE = np.asarray(update_E(tt, zero, sc.objects, sc.config, True).fields.E)
    jH = np.asarray(update_H(tt, zero, sc.objects, sc.config, True).fields.H)
    on = bool(np.any(jE != 0) or np.any(jH != 0))
    return sc, (E, H), (E1, H1), (Eb, Hb), (inv_eps, inv_mu, sig_e, sig_h), (jE, jH), on, int(st0[0]) == t


def verdict(E, H, Eb, Hb):
    scale = max(1.0, float(np.max(np.abs(E))), float(np.max(np.abs(H))))
    err = max(float(np.max(np.abs(Eb - E))), float(np.max(np.abs(Hb - H))))
    if not err <= 1e-9 * scale:
        return f"backward(forward(s)) differs from s by {err:.3e} (scale {scale:.3g})"
    return None


def one_case(ctx, c, sample=False):
    sc, (E, H), (E1, H1), (Eb, Hb), mats, (jE, jH), on, t_ok = impl_roundtrip(c)
    inv_eps, inv_mu, sig_e, sig_h = mats
    cplx = c["bloch"]
    l1 = Y.request(sc, "fwd", E, H, inv_eps, inv_mu, sig_e, sig_h, (jE, jH), 1, is_complex=cplx)
    mE1, mH1 = Y.decode_fields(ctx.driver.ask(l1), c["shape"], cplx)
    l2 = Y.request(sc, "bwd", E1, H1, inv_eps, inv_mu, sig_e, sig_h, (jE, jH), 1, is_complex=cplx)
    mEb, mHb = Y.decode_fields(ctx.driver.ask(l2), c["shape"], cplx)
    nt = (tuple(c["shape"]), c["seed"]) if (on or c["sig_e"] or c["sig_h"] or any(v != "none" for v in c["faces"].values())) else None
    ctx.case(sample={k: c[k] for k in ("shape", "faces", "sources", "eps_tier", "mu_tier", "sig_e", "sig_h", "t", "seed")} if sample else None,
             nontrivial=nt, source_on=on, n_sources=len(c["sources"]), sig_e=c["sig_e"], sig_h=c["sig_h"], bloch=cplx,
             grid="nonuniform" if c["widths"] else "uniform",
             **{"src_" + s["kind"]: True for s in c["sources"]}, **{"sw_" + s["switch"]: True for s in c["sources"]})
    ctx.expect_close("forward+sources", c, np.concatenate([E1.ravel(), H1.ravel()]), np.concatenate([mE1.ravel(), mH1.ravel()]))
    ctx.expect_close("backward", c, np.concatenate([Eb.ravel(), Hb.ravel()]), np.concatenate([mEb.ravel(), mHb.ravel()]))
    ctx.expect_equal("time_step after backward", c, t_ok, True)
    ctx.impl_property_evals += 1
    d = verdict(E, H, Eb, Hb)
    if d:
        ctx.violation(c, d)


# ------------------------------------------------------------------ fully anisotropic (9-component) tier
ANISO_FORCED = [
    # lossless, uniform grid, periodic everywhere, full inv_eps and full inv_mu
    dict(shape=[4, 3, 4], faces={k: "periodic" for k in Y.FACES}, bloch=False, bloch_vector=[0.0, 0.0, 0.0], widths=None,
         eps_tier=9, mu_tier=9, sig_e_tier=None, sig_h_tier=None, sources=[]),
    # lossless, stretched grid (spacing-weighted averages), PEC / PMC / open faces, scalar inv_mu
    dict(shape=[3, 4, 4], faces={"min_x": "pec", "max_x": "pmc", "min_y": "none", "max_y": "pec", "min_z": "pmc", "max_z": "none"},
         bloch=False, bloch_vector=[0.0, 0.0, 0.0], widths="stretch", eps_tier=9, mu_tier=0, sig_e_tier=None, sig_h_tier=None, sources=[]),
    # lossy: full sigma_E (A has off-diagonal entries acting on averaged neighbours), Bloch axis + periodic axis
    dict(shape=[3, 4, 3], faces={"min_x": "bloch", "max_x": "bloch", "min_y": "periodic", "max_y": "periodic", "min_z": "none", "max_z": "none"},
         bloch=True, bloch_vector=[1.3e7, -0.7e7, 0.9e7], widths=None, eps_tier=9, mu_tier=3, sig_e_tier=9, sig_h_tier=None, sources=[]),
    # lossy: full sigma_H with a diagonal inv_mu and full inv_eps with diagonal sigma_E, stretched grid, periodic + wall mix
    dict(shape=[4, 3, 3], faces={"min_x": "periodic", "max_x": "periodic", "min_y": "pmc", "max_y": "none", "min_z": "pec", "max_z": "pec"},
         bloch=False, bloch_vector=[0.0, 0.0, 0.0], widths="stretch", eps_tier=9, mu_tier=3, sig_e_tier=3, sig_h_tier=9, sources=[]),
] + [
    # lossless full tensors with a source that is on at t and drives one given field component: the reverse sweep has to
    # remove the injected term from every component separately (twelve near-identical lines in update_E/H_reverse)
    dict(shape=[4, 3, 4], faces={k: "periodic" for k in Y.FACES}, bloch=False, bloch_vector=[0.0, 0.0, 0.0], widths=None,
         eps_tier=9, mu_tier=9, sig_e_tier=None, sig_h_tier=None, t=3,
         sources=[{"kind": kind, "axis": 0, "direction": "+", "profile": "cw", "switch": "default", "amp": 0.9 + 0.1 * pol, "pol": pol,
                   "pos": [1 + pol % 2, 1, 2]}])
    for kind in ("dipole_e", "dipole_m") for pol in (0, 1, 2)
]


def gen_aniso(rng, thorough, force=None):
    """a scene of the full-tensor branch of update_E and/or update_H (at least one of them)"""
    c = gen_case(rng, thorough, dict(sig_e=False, sig_h=False))
    if rng.chance(0.3):   # Bloch phase on one more axis: corner ghosts of the averaged arrays carry both multipliers
        ax = rng.randint(0, 2)
        c["faces"][Y.FACES[2 * ax]] = c["faces"][Y.FACES[2 * ax + 1]] = "bloch"
        c["bloch"] = True
    if c["bloch"]:
        c["bloch_vector"] = [rng.uniform(0.5e7, 2e7) * rng.choice([-1, 1]) for _ in range(3)]
    c["widths"] = "stretch" if rng.chance(0.5) else None
    if len(c["sources"]) > 1:
        c["sources"] = c["sources"][:1]
    which = rng.choice(["E", "E", "H", "EH", "EH"])
    lossy = rng.chance(0.5)
    c["eps_tier"] = 9 if ("E" in which and rng.chance(0.8)) else rng.choice([1, 3])
    c["sig_e_tier"] = None
    if "E" in which and c["eps_tier"] != 9:
        c["sig_e_tier"] = 9
    elif lossy and "E" in which:
        c["sig_e_tier"] = rng.choice([9, 9, 3, 1])
    elif lossy and rng.chance(0.5):
        c["sig_e_tier"] = rng.choice([1, 3])
    c["mu_tier"] = 9 if ("H" in which and rng.chance(0.8)) else rng.choice([0, 1, 3])
    c["sig_h_tier"] = None
    if "H" in which and c["mu_tier"] != 9:
        c["sig_h_tier"] = 9
    elif lossy and "H" in which:
        c["sig_h_tier"] = rng.choice([9, 9, 3, 1])
    elif lossy and rng.chance(0.5):
        c["sig_h_tier"] = rng.choice([1, 3])
    c["nonsym"] = rng.chance(0.25)
    if force:
        c.update(force)
    c["aniso"] = True
    if c["sig_e_tier"] is not None or c["sig_h_tier"] is not None:
        # sources only with lossless tensors: the probed term is the wall-projected one, which is all a lossless reverse
        # step reads (A = I); a lossy full-tensor reverse step averages the un-projected term of wall cells into neighbours
        c["sources"] = []
    if c["widths"] == "stretch":
        r = np.random.default_rng(c["seed"] + 17)
        c["widths"] = [[float(50e-9 * r.uniform(0.5, 2.0)) for _ in range(n)] for n in c["shape"]]
    c.pop("sig_e", None)
    c.pop("sig_h", None)
    return c


def aniso_materials(c):
    """(E, H, inv_eps, inv_mu, sig_e, sig_h): random state and material arrays with the leading component counts of the case"""
    from .yee_aniso_api import spd_tensor
    r = np.random.default_rng(c["seed"])
    nx, ny, nz = c["shape"]
    shp = (nx, ny, nz)
    cplx = bool(c.get("bloch"))

    def field():
        f = r.standard_normal((3, nx, ny, nz))
        if cplx:
            f = f + 1j * r.standard_normal((3, nx, ny, nz))
        return f
    E, H = field(), field()
    ns = 0.1 if c.get("nonsym") else 0.0

    def tens(tier, lo, hi, scale=1.0):
        if tier is None:
            return None
        if tier == 0:
            return float(r.uniform(lo, hi))
        if tier == 9:
            return scale * spd_tensor(r, shp, nonsym=ns)
        return scale * r.uniform(lo, hi, (tier, nx, ny, nz))
    inv_eps = tens(c["eps_tier"], 0.1, 1.0)
    inv_mu = tens(c["mu_tier"], 0.3, 1.0)
    # conductivities scaled so that the loss matrix f = c·η/2·inv·σ stays below ~0.5 (M1, M2 well conditioned)
    sig_e = tens(c.get("sig_e_tier"), 0.2, 1.0, scale=2e-3)
    sig_h = tens(c.get("sig_h_tier"), 0.2, 1.0, scale=4e2)
    return E, H, inv_eps, inv_mu, sig_e, sig_h


def aniso_impl(c):
    """forward then backward on the real code at step t; returns everything K and the oracle need"""
    j = Y.J()
    jnp = j["jnp"]
    from fdtdx.fdtd.update import update_E, update_H
    sc = scene_of(c)
    E, H, inv_eps, inv_mu, sig_e, sig_h = aniso_materials(c)
    E, H = Y.wall_project(sc, E, H)
    arrays = Y.with_state(sc, E, H, inv_eps, inv_mu, sig_e, sig_h)
    t = min(c.get("t", 0), int(sc.config.time_steps_total) - 1)
    st1 = Y.impl_forward(sc, arrays, t=t, n=1)
    E1, H1 = np.asarray(st1[1].fields.E), np.asarray(st1[1].fields.H)
    st0 = Y.impl_backward(sc, st1, n=1)
    Eb, Hb = np.asarray(st0[1].fields.E), np.asarray(st0[1].fields.H)
    src = None
    if c.get("sources"):
        zero = Y.with_state(sc, np.zeros_like(E), np.zeros_like(H), inv_eps, inv_mu, sig_e, sig_h)
        tt = jnp.asarray(t, dtype=jnp.int32)
        src = (np.asarray(update_E(tt, zero, sc.objects, sc.config, True).fields.E),
               np.asarray(update_H(tt, zero, sc.objects, sc.config, True).fields.H))
    return sc, (E, H), (E1, H1), (Eb, Hb), (inv_eps, inv_mu, sig_e, sig_h), src


def aniso_lossless(c):
    return c.get("sig_e_tier") is None and c.get("sig_h_tier") is None


def aniso_case(ctx, c, sample=False):
    """full-tensor tier: forward() / backward() of the real code vs the model (ops afwd / abwd), lossless and lossy;
    round-trip oracle on the implementation for the lossless cases (the property claims lossless tensors only)"""
    from .yee_aniso_api import request_aniso
    sc, (E, H), (E1, H1), (Eb, Hb), (inv_eps, inv_mu, sig_e, sig_h), src = aniso_impl(c)
    cplx = bool(c["bloch"])
    l1 = request_aniso(sc, "afwd", E, H, inv_eps, inv_mu, sig_e, sig_h, src, 1, is_complex=cplx)
    l2 = request_aniso(sc, "abwd", E1, H1, inv_eps, inv_mu, sig_e, sig_h, src, 1, is_complex=cplx)
    r1, r2 = ctx.driver.ask_many([l1, l2])
    mE1, mH1 = Y.decode_fields(r1, c["shape"], cplx)
    mEb, mHb = Y.decode_fields(r2, c["shape"], cplx)
    lossless = aniso_lossless(c)
    kinds = sorted(set(c["faces"].values()))
    ctx.case(sample={k: c[k] for k in ("shape", "faces", "eps_tier", "mu_tier", "sig_e_tier", "sig_h_tier", "seed")} if sample else None,
             nontrivial=("aniso", tuple(c["shape"]), c["seed"]), aniso=True,
             aniso_grid="nonuniform" if c["widths"] else "uniform", aniso_bloch=cplx, aniso_lossless=lossless,
             aniso_fullE=c["eps_tier"] == 9 or c.get("sig_e_tier") == 9, aniso_fullH=c["mu_tier"] == 9 or c.get("sig_h_tier") == 9,
             aniso_sigE9=c.get("sig_e_tier") == 9, aniso_sigH9=c.get("sig_h_tier") == 9, aniso_source=bool(c.get("sources")),
             **{"aniso_face_" + k: True for k in kinds})
    ctx.expect_close("aniso forward", c, np.concatenate([E1.ravel(), H1.ravel()]), np.concatenate([mE1.ravel(), mH1.ravel()]))
    ctx.expect_close("aniso backward", c, np.concatenate([Eb.ravel(), Hb.ravel()]), np.concatenate([mEb.ravel(), mHb.ravel()]))
    ctx.impl_property_evals += 1
    if lossless:
        d = verdict(E, H, Eb, Hb)
        if d:
            ctx.violation(c, d)
    else:
        d = mats_fails(c)
        if d:
            ctx.violation(dict(c, oracle="mats"), d)


def aniso_fails(c):
    """the property on the implementation: lossless full tensors round-trip exactly (lossy ones are outside the claim)"""
    if c.get("oracle") == "mats":
        return mats_fails(c)
    if c.get("oracle") == "lossy_local":
        return lossy_local_fails(c)
    if "eps_tier" not in c or "sig_e_tier" not in c:   # replay files written before the K extension
        c = dict(c, eps_tier=9, mu_tier=9 if c["seed"] % 2 == 0 else 0, sig_e_tier=None, sig_h_tier=None)
        c.setdefault("sources", [])
    if not aniso_lossless(c):
        return None
    sc, (E, H), _, (Eb, Hb), *_ = aniso_impl(c)
    return verdict(E, H, Eb, Hb)


def mats_fails(c):
    """cell-local inverse of the update matrices on the implementation (mechanism anchor
    compute_anisotropic_update_matrices_reverse; Lean: aniso_Arev_Afwd, aniso_Brev): A_rev·A = I, B_rev = A_rev·B"""
    j = Y.J()
    jnp = j["jnp"]
    from fdtdx.fdtd.misc import compute_anisotropic_update_matrices as fw, compute_anisotropic_update_matrices_reverse as rv
    from fdtdx.core.misc import expand_to_3x3
    _, _, inv_eps, inv_mu, sig_e, sig_h = aniso_materials(c)
    cn = 0.99 / np.sqrt(3.0)
    for name, inv, sig, eta in (("E", inv_eps, sig_e, j["eta0"]), ("H", inv_mu, sig_h, 1.0 / j["eta0"])):
        if sig is None:
            continue
        i3, s3 = expand_to_3x3(jnp.asarray(inv)), expand_to_3x3(jnp.asarray(sig))
        A, B = (np.asarray(x) for x in fw(i3, s3, cn, eta))
        Ar, Br = (np.asarray(x) for x in rv(i3, s3, cn, eta))
        A, B, Ar, Br = (np.broadcast_to(x, (3, 3) + tuple(c["shape"])) for x in (A, B, Ar, Br))
        e1 = np.max(np.abs(np.einsum("ij...,jk...->ik...", Ar, A) - np.eye(3)[:, :, None, None, None]))
        e2 = np.max(np.abs(np.einsum("ij...,jk...->ik...", Ar, B) - Br))
        if not (e1 <= 1e-9 and e2 <= 1e-9 * max(1.0, float(np.max(np.abs(Br))))):
            return f"update matrices of {name}: |A_rev A - I| = {e1:.3e}, |A_rev B - B_rev| = {e2:.3e}"
    return None


def lossy_local_fails(c):
    """lossy full tensors where the step is cell-local, so that the reverse step must undo it (Lean: aniso_lossy_cell_local):
    homogeneous medium on a fully periodic domain and
      inv_axis = None   spatially constant E and H (every neighbour average returns the value itself, the curls vanish), or
      inv_axis = a      fields varying along axis a only and tensors coupling only the two OTHER components: every average
                        the non-zero off-diagonal entries use shifts along the invariant axes only, hence is the identity"""
    a = c.get("inv_axis")
    c = dict(c, faces={k: "periodic" for k in Y.FACES}, bloch=False, bloch_vector=[0.0, 0.0, 0.0], sources=[])
    sc = scene_of(c)
    _, _, inv_eps, inv_mu, sig_e, sig_h = aniso_materials(c)

    def homog(t):
        if t is None or np.ndim(t) == 0:
            return t
        t = np.broadcast_to(t[:, :1, :1, :1], t.shape).copy()
        if a is not None and t.shape[0] == 9:
            t = t.reshape((3, 3) + t.shape[1:])
            for b in range(3):
                if b != a:
                    t[a, b] = 0.0
                    t[b, a] = 0.0
            t = t.reshape((9,) + t.shape[2:])
        return t
    r = np.random.default_rng(c["seed"] + 5)
    shp = (3,) + tuple(c["shape"])
    if a is None:
        E = np.broadcast_to(r.standard_normal(3)[:, None, None, None], shp).copy()
        H = np.broadcast_to(r.standard_normal(3)[:, None, None, None], shp).copy()
    else:
        bs = [3, 1, 1, 1]
        bs[a + 1] = c["shape"][a]
        E = np.broadcast_to(r.standard_normal(bs), shp).copy()
        H = np.broadcast_to(r.standard_normal(bs), shp).copy()
    arrays = Y.with_state(sc, E, H, homog(inv_eps), homog(inv_mu), homog(sig_e), homog(sig_h))
    st1 = Y.impl_forward(sc, arrays, t=0, n=1)
    st0 = Y.impl_backward(sc, st1, n=1)
    return verdict(E, H, np.asarray(st0[1].fields.E), np.asarray(st0[1].fields.H))


FORCED = [
    dict(shape=[4, 4, 4], faces={k: "periodic" for k in Y.FACES}, bloch=False, bloch_vector=[0.0, 0.0, 0.0],
         sources=[{"kind": "uniform", "axis": 2, "direction": "+", "profile": "pulse", "switch": "default", "amp": 1.3, "pol": 0, "pos": [1, 1, 1]}], t=2),
    dict(shape=[4, 3, 4], faces={"min_x": "pec", "max_x": "pmc", "min_y": "none", "max_y": "none", "min_z": "periodic", "max_z": "periodic"},
         bloch=False, bloch_vector=[0.0, 0.0, 0.0], sig_e=True, sig_h=True,
         sources=[{"kind": "dipole_e", "axis": 0, "direction": "+", "profile": "cw", "switch": "interval", "amp": 0.7, "pol": 1, "pos": [2, 1, 2]},
                  {"kind": "dipole_m", "axis": 0, "direction": "-", "profile": "pulse", "switch": "fixed", "amp": 1.1, "pol": 2, "pos": [1, 1, 1]}], t=5),
    # tilted magnetic and electric dipoles that are on at t (non-axis-aligned injection branch and its `inverse` sign)
    dict(shape=[4, 4, 3], faces={k: "periodic" for k in Y.FACES}, bloch=False, bloch_vector=[0.0, 0.0, 0.0], widths=None,
         sources=[{"kind": "dipole_m", "axis": 0, "direction": "+", "profile": "cw", "switch": "default", "amp": 1.2, "pol": 0, "pos": [1, 2, 1],
                   "tilt": [35.0, -20.0]},
                  {"kind": "dipole_e", "axis": 0, "direction": "+", "profile": "cw", "switch": "default", "amp": 0.8, "pol": 2, "pos": [2, 1, 1],
                   "tilt": [-50.0, 25.0]}], t=3),
]


def run(ctx):
    n = ctx.scale(11, 150)
    cases = [gen_case(ctx.rng, ctx.thorough, f) for f in FORCED]
    while len(cases) < n:
        cases.append(gen_case(ctx.rng, ctx.thorough))
    for i, c in enumerate(cases):
        one_case(ctx, c, sample=i in (0, 1))
    acases = [gen_aniso(ctx.rng, ctx.thorough, f) for f in ANISO_FORCED]
    while len(acases) < ctx.scale(13, 46):
        acases.append(gen_aniso(ctx.rng, ctx.thorough))
    for i, c in enumerate(acases):
        aniso_case(ctx, c, sample=i == 2)


def property_fails(c):
    if c.get("aniso"):
        return aniso_fails(c)
    sc, (E, H), _, (Eb, Hb), *_ = impl_roundtrip(c)
    return verdict(E, H, Eb, Hb)


def search(ctx, hints):
    for h in hints:
        if isinstance(h, dict) and "shape" in h:
            variants = [h]
            if h.get("aniso") and not aniso_lossless(h):
                # lossy full tensors: the claim is the cell-local inverse (constant state) and the lossless variant of the scene
                variants = [dict(h, oracle="mats")] + [dict(h, oracle="lossy_local", inv_axis=a) for a in (None, 0, 1, 2)] + [
                            dict(h, sig_e_tier=None, sig_h_tier=None, eps_tier=9 if h.get("sig_e_tier") == 9 else h["eps_tier"],
                                 mu_tier=9 if h.get("sig_h_tier") == 9 else h["mu_tier"])]
            for v in variants:
                ctx.impl_property_evals += 1
                d = property_fails(v)
                if d:
                    ctx.violation(v, d)
                    return
    rng = ctx.rng.fork()
    for i in range(ctx.scale(40, 300)):
        c = gen_case(rng, False)
        if i % 2 == 0:
            c["shape"] = [3, 3, 3]
            c["widths"] = None
            for s in c["sources"]:
                s["pos"] = [min(p, 2) for p in s["pos"]]
        ctx.impl_property_evals += 1
        d = property_fails(c)
        if d:
            ctx.violation(c, d)
            return
    for f in ANISO_FORCED:
        if f["sources"]:
            ctx.impl_property_evals += 1
            c = gen_aniso(rng, False, f)
            d = aniso_fails(c)
            if d:
                ctx.violation(c, d)
                return
    for i in range(ctx.scale(6, 40)):
        c = gen_aniso(rng, False, dict(sources=[], sig_e_tier=None, sig_h_tier=None))
        if c["eps_tier"] != 9 and c["mu_tier"] != 9:
            c["eps_tier"] = 9
        if i % 2 == 0:
            c["shape"] = [3, 3, 3]
            if c["widths"]:
                c["widths"] = [w[:3] for w in c["widths"]]
        ctx.impl_property_evals += 1
        d = aniso_fails(c)
        if d:
            ctx.violation(c, d)
            return


def replay(ctx, inp):
    return property_fails(inp)
