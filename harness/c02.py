"""C02 — backward ∘ forward = identity.  K: fdtdx.fdtd.forward.forward / backward.backward (with real sources,
switches and temporal profiles) vs the shared Yee model fed with the probed additive source terms; property oracle:
round-trip error on the implementation itself."""
import numpy as np

from . import yee_api as Y

RULE = ("scenes from the seed: 3..5 (thorough 3..7) cells per axis, consistent face pairs (none/periodic/pec/pmc mixes, "
        "bloch pairs with complex fields), uniform or non-uniform grid, 0..2 sources out of UniformPlaneSource, "
        "GaussianPlaneSource, PointDipoleSource (electric/magnetic) on every axis/direction with SingleFrequency or "
        "GaussianPulse profile and a switch (default, start_after_periods, interval 2, fixed on-steps, always off), "
        "isotropic/diagonal inv_eps, scalar/iso/diagonal inv_mu, optional sigma_E and sigma_H, random wall-projected "
        "state, random step index t of a run of ~8 steps. K: (a) the additive source terms jE, jH are probed from "
        "update_E/update_H on zero fields, then forward() vs model fwd and backward() vs model bwd (1e-9), which also "
        "checks that the injected increment does not depend on the fields; (b) full-tensor (9-component) lossless "
        "materials: implementation-only round trip. Property oracle on every case: |backward(forward(s)) - s| <= 1e-9. "
        "non-trivial = has a source that is on at t, or conductivity, or a non-'none' face.")

PAIRS_OK = [("none", "none"), ("periodic", "periodic"), ("pec", "pec"), ("pmc", "pmc"), ("pec", "none"), ("none", "pmc"),
            ("pec", "pmc"), ("pmc", "pec")]


def gen_case(rng, thorough, force=None):
    c = {}
    mx = 7 if thorough else 5
    c["shape"] = [rng.randint(3, mx) for _ in range(3)]
    if force and "shape" in force:
        c["shape"] = list(force["shape"])
    faces, bloch = {}, False
    for ax in range(3):
        if rng.chance(0.1):
            lo, hi = "bloch", "bloch"
            bloch = True
        else:
            lo, hi = rng.choice(PAIRS_OK)
        faces[Y.FACES[2 * ax]], faces[Y.FACES[2 * ax + 1]] = lo, hi
    c["faces"], c["bloch"] = faces, bloch
    c["bloch_vector"] = [rng.uniform(-2e7, 2e7) if bloch else 0.0 for _ in range(3)]
    c["widths"] = None
    if rng.chance(0.35):
        c["widths"] = [[50e-9 * rng.uniform(0.6, 1.6) for _ in range(n)] for n in c["shape"]]
    srcs = []
    for _ in range(rng.choice([0, 1, 1, 2])):
        kind = rng.choice(["uniform", "gauss", "dipole_e", "dipole_m"])
        s = {"kind": kind, "axis": rng.randint(0, 2), "direction": rng.choice(["+", "-"]),
             "profile": rng.choice(["cw", "pulse"]),
             "switch": rng.choice(["default", "default", "start", "interval", "fixed", "off"]),
             "amp": rng.uniform(0.5, 2.0), "pol": rng.randint(0, 2)}
        s["pos"] = [rng.randint(0, n - 1) for n in c["shape"]]
        srcs.append(s)
    c["sources"] = srcs
    c["eps_tier"] = rng.choice([1, 3])
    c["mu_tier"] = rng.choice([0, 1, 3])
    c["sig_e"] = rng.chance(0.4)
    c["sig_h"] = rng.chance(0.3)
    c["t"] = rng.randint(0, 7)
    c["seed"] = rng.np_seed()
    if force:
        c.update(force)
    return c


def make_sources(c, vol):
    f = Y.J()["fdtdx"]
    objs, cons = [], []
    wl = 4.0e-7
    for i, s in enumerate(c["sources"]):
        wave = f.WaveCharacter(wavelength=wl)
        prof = f.SingleFrequencyProfile() if s["profile"] == "cw" else f.GaussianPulseProfile(
            spectral_width=f.WaveCharacter(wavelength=3 * wl), center_wave=wave)
        sw = {"default": f.OnOffSwitch(), "start": f.OnOffSwitch(start_time=3.0e-16),
              "interval": f.OnOffSwitch(interval=2), "fixed": f.OnOffSwitch(fixed_on_time_steps=[1, 2, 5, 6]),
              "off": f.OnOffSwitch(is_always_off=True)}[s["switch"]]
        ax = s["axis"]
        if s["kind"] in ("uniform", "gauss"):
            shape = [None, None, None]
            shape[ax] = 1
            pol = [0.0, 0.0, 0.0]
            pol[(ax + 1 + s["pol"] % 2) % 3] = 1.0
            kw = dict(partial_grid_shape=tuple(shape), wave_character=wave, direction=s["direction"],
                      fixed_E_polarization_vector=tuple(pol), temporal_profile=prof, switch=sw,
                      static_amplitude_factor=s["amp"], name=f"src{i}")
            o = f.UniformPlaneSource(**kw) if s["kind"] == "uniform" else f.GaussianPlaneSource(radius=1.2e-7, **kw)
            if c["widths"]:
                cons.append(o.place_at_center(vol, axes=(ax,)))
            else:
                cons.append(o.set_grid_coordinates(axes=ax, sides="-", coordinates=min(s["pos"][ax], c["shape"][ax] - 1)))
        else:
            o = f.PointDipoleSource(partial_grid_shape=(1, 1, 1), wave_character=wave, polarization=s["pol"],
                                    source_type="electric" if s["kind"] == "dipole_e" else "magnetic",
                                    temporal_profile=prof, switch=sw, static_amplitude_factor=s["amp"], name=f"src{i}")
            if c["widths"]:
                cons.append(o.place_at_center(vol))
            else:
                cons.append(o.set_grid_coordinates(axes=(0, 1, 2), sides=("-", "-", "-"), coordinates=tuple(s["pos"])))
        objs.append(o)
    return objs, cons


def scene_of(c):
    j = Y.J()
    # time=1e-15 gives a run of about 10 (uniform 50 nm) to 17 (finest non-uniform) steps
    return Y.build(c["shape"], c["faces"], widths=c["widths"], complex_fields=True if c["bloch"] else None,
                   bloch_vector=c["bloch_vector"], extra_fn=lambda vol: make_sources(c, vol), time=1e-15)


def materialise(c):
    r = np.random.default_rng(c["seed"])
    nx, ny, nz = c["shape"]
    def field():
        f = r.standard_normal((3, nx, ny, nz))
        if c["bloch"]:
            f = f + 1j * r.standard_normal((3, nx, ny, nz))
        return f
    E, H = field(), field()
    inv_eps = r.uniform(0.1, 1.0, (c["eps_tier"], nx, ny, nz))
    inv_mu = 1.0 if c["mu_tier"] == 0 else r.uniform(0.3, 1.0, (c["mu_tier"], nx, ny, nz))
    sig_e = r.uniform(0.0, 0.02, (c["eps_tier"], nx, ny, nz)) if c["sig_e"] else None
    sig_h = r.uniform(0.0, 2e3, (max(c["mu_tier"], 1), nx, ny, nz)) if c["sig_h"] else None
    return E, H, inv_eps, inv_mu, sig_e, sig_h


def impl_roundtrip(c):
    """returns scene, (E0,H0), (E1,H1) after forward at step t, (E0',H0') after backward, mats, (jE,jH), on-flag"""
    j = Y.J()
    jnp = j["jnp"]
    from fdtdx.fdtd.update import update_E, update_H
    sc = scene_of(c)
    E, H, inv_eps, inv_mu, sig_e, sig_h = materialise(c)
    E, H = Y.wall_project(sc, E, H)
    arrays = Y.with_state(sc, E, H, inv_eps, None if c["mu_tier"] == 0 else inv_mu, sig_e, sig_h)
    t = min(c["t"], int(sc.config.time_steps_total) - 1)
    st1 = Y.impl_forward(sc, arrays, t=t, n=1)
    E1, H1 = np.asarray(st1[1].fields.E), np.asarray(st1[1].fields.H)
    st0 = Y.impl_backward(sc, st1, n=1)
    Eb, Hb = np.asarray(st0[1].fields.E), np.asarray(st0[1].fields.H)
    # probe the additive source terms on zero fields
    zero = Y.with_state(sc, np.zeros_like(E), np.zeros_like(H), inv_eps, None if c["mu_tier"] == 0 else inv_mu, sig_e, sig_h)
    tt = jnp.asarray(t, dtype=jnp.int32)
    jE = np.asarray(update_E(tt, zero, sc.objects, sc.config, True).fields.E)
    jH = np.asarray(update_H(tt, zero, sc.objects, sc.config, True).fields.H)
    on = bool(np.any(jE != 0) or np.any(jH != 0))
    return sc, (E, H), (E1, H1), (Eb, Hb), (inv_eps, inv_mu, sig_e, sig_h), (jE, jH), on, int(st0[0]) == t


def verdict(E, H, Eb, Hb):
    scale = max(1.0, float(np.max(np.abs(E))), float(np.max(np.abs(H))))
    err = max(float(np.max(np.abs(Eb - E))), float(np.max(np.abs(Hb - H))))
    if not err <= 1e-9 * scale:
        return f"backward(forward(s)) differs from s by {err:.3e} (scale {scale:.3g})"
    return None


def one_case(ctx, c, sample=False):
    sc, (E, H), (E1, H1), (Eb, Hb), mats, (jE, jH), on, t_ok = impl_roundtrip(c)
    inv_eps, inv_mu, sig_e, sig_h = mats
    cplx = c["bloch"]
    l1 = Y.request(sc, "fwd", E, H, inv_eps, inv_mu, sig_e, sig_h, (jE, jH), 1, is_complex=cplx)
    mE1, mH1 = Y.decode_fields(ctx.driver.ask(l1), c["shape"], cplx)
    l2 = Y.request(sc, "bwd", E1, H1, inv_eps, inv_mu, sig_e, sig_h, (jE, jH), 1, is_complex=cplx)
    mEb, mHb = Y.decode_fields(ctx.driver.ask(l2), c["shape"], cplx)
    nt = (tuple(c["shape"]), c["seed"]) if (on or c["sig_e"] or c["sig_h"] or any(v != "none" for v in c["faces"].values())) else None
    ctx.case(sample={k: c[k] for k in ("shape", "faces", "sources", "eps_tier", "mu_tier", "sig_e", "sig_h", "t", "seed")} if sample else None,
             nontrivial=nt, source_on=on, n_sources=len(c["sources"]), sig_e=c["sig_e"], sig_h=c["sig_h"], bloch=cplx,
             grid="nonuniform" if c["widths"] else "uniform",
             **{"src_" + s["kind"]: True for s in c["sources"]}, **{"sw_" + s["switch"]: True for s in c["sources"]})
    ctx.expect_close("forward+sources", c, np.concatenate([E1.ravel(), H1.ravel()]), np.concatenate([mE1.ravel(), mH1.ravel()]))
    ctx.expect_close("backward", c, np.concatenate([Eb.ravel(), Hb.ravel()]), np.concatenate([mEb.ravel(), mHb.ravel()]))
    ctx.expect_equal("time_step after backward", c, t_ok, True)
    ctx.impl_property_evals += 1
    d = verdict(E, H, Eb, Hb)
    if d:
        ctx.violation(c, d)


def aniso_case(ctx, rng):
    """fully anisotropic lossless tensors: implementation-side round trip only (no theorem, no model)"""
    j = Y.J()
    c = gen_case(rng, False, dict(sources=[], sig_e=False, sig_h=False))
    if rng.chance(0.4):   # Bloch phase on one axis: the halo of the averaged curl must carry the phase too
        ax = rng.randint(0, 2)
        c["faces"][Y.FACES[2 * ax]] = c["faces"][Y.FACES[2 * ax + 1]] = "bloch"
        c["bloch"] = True
        c["bloch_vector"] = [rng.uniform(0.5e7, 2e7) * rng.choice([-1, 1]) for _ in range(3)]
    if c["bloch"]:
        c["widths"] = None
    elif c["widths"] is None and rng.chance(0.6):   # the averaging stencils are spacing-weighted only on stretched grids
        c["widths"] = [[50e-9 * rng.uniform(0.5, 2.0) for _ in range(n)] for n in c["shape"]]
    c["aniso"] = True
    d = aniso_fails(c)
    ctx.case(nontrivial=("aniso", c["seed"]), aniso=True, aniso_grid="nonuniform" if c["widths"] else "uniform", aniso_bloch=c["bloch"])
    ctx.impl_property_evals += 1
    if d:
        ctx.violation(c, d)


def aniso_fails(c):
    cplx = bool(c.get("bloch"))
    sc = Y.build(c["shape"], c["faces"], widths=c.get("widths"), complex_fields=True if cplx else None,
                 bloch_vector=c.get("bloch_vector", (0.0, 0.0, 0.0)))
    r = np.random.default_rng(c["seed"])
    nx, ny, nz = c["shape"]
    E, H = r.standard_normal((3, nx, ny, nz)), r.standard_normal((3, nx, ny, nz))
    if cplx:
        E = E + 1j * r.standard_normal((3, nx, ny, nz))
        H = H + 1j * r.standard_normal((3, nx, ny, nz))
    E, H = Y.wall_project(sc, E, H)
    # symmetric positive definite inverse-permittivity tensor per cell: A Aᵀ + 0.5 I, flattened row-major to 9 components
    A = r.uniform(-0.3, 0.3, (3, 3, nx, ny, nz))
    T = np.einsum("ik...,jk...->ij...", A, A) + 0.5 * np.eye(3)[:, :, None, None, None]
    inv_eps = T.reshape(9, nx, ny, nz)
    inv_mu = None
    if c["seed"] % 2 == 0:   # every other case: full permeability tensor as well
        B = r.uniform(-0.3, 0.3, (3, 3, nx, ny, nz))
        inv_mu = (np.einsum("ik...,jk...->ij...", B, B) + 0.5 * np.eye(3)[:, :, None, None, None]).reshape(9, nx, ny, nz)
    arrays = Y.with_state(sc, E, H, inv_eps, inv_mu)
    st1 = Y.impl_forward(sc, arrays, t=0, n=1)
    st0 = Y.impl_backward(sc, st1, n=1)
    return verdict(E, H, np.asarray(st0[1].fields.E), np.asarray(st0[1].fields.H))


FORCED = [
    dict(shape=[4, 4, 4], faces={k: "periodic" for k in Y.FACES}, bloch=False, bloch_vector=[0.0, 0.0, 0.0],
         sources=[{"kind": "uniform", "axis": 2, "direction": "+", "profile": "pulse", "switch": "default", "amp": 1.3, "pol": 0, "pos": [1, 1, 1]}], t=2),
    dict(shape=[4, 3, 4], faces={"min_x": "pec", "max_x": "pmc", "min_y": "none", "max_y": "none", "min_z": "periodic", "max_z": "periodic"},
         bloch=False, bloch_vector=[0.0, 0.0, 0.0], sig_e=True, sig_h=True,
         sources=[{"kind": "dipole_e", "axis": 0, "direction": "+", "profile": "cw", "switch": "interval", "amp": 0.7, "pol": 1, "pos": [2, 1, 2]},
                  {"kind": "dipole_m", "axis": 0, "direction": "-", "profile": "pulse", "switch": "fixed", "amp": 1.1, "pol": 2, "pos": [1, 1, 1]}], t=5),
]


def run(ctx):
    n = ctx.scale(10, 150)
    cases = [gen_case(ctx.rng, ctx.thorough, f) for f in FORCED]
    while len(cases) < n:
        cases.append(gen_case(ctx.rng, ctx.thorough))
    for i, c in enumerate(cases):
        one_case(ctx, c, sample=i in (0, 1))
    for _ in range(ctx.scale(5, 40)):
        aniso_case(ctx, ctx.rng)


def property_fails(c):
    if c.get("aniso"):
        return aniso_fails(c)
    sc, (E, H), _, (Eb, Hb), *_ = impl_roundtrip(c)
    return verdict(E, H, Eb, Hb)


def search(ctx, hints):
    for h in hints:
        if isinstance(h, dict) and "shape" in h:
            ctx.impl_property_evals += 1
            d = property_fails(h)
            if d:
                ctx.violation(h, d)
                return
    rng = ctx.rng.fork()
    for i in range(ctx.scale(40, 300)):
        c = gen_case(rng, False)
        if i % 2 == 0:
            c["shape"] = [3, 3, 3]
            c["widths"] = None
            for s in c["sources"]:
                s["pos"] = [min(p, 2) for p in s["pos"]]
        ctx.impl_property_evals += 1
        d = property_fails(c)
        if d:
            ctx.violation(c, d)
            return
    for i in range(ctx.scale(4, 30)):
        c = gen_case(rng, False, dict(sources=[], sig_e=False, sig_h=False, aniso=True))
        if c["bloch"]:
            c["widths"] = None
        elif c["widths"] is None and i % 2 == 0:
            c["widths"] = [[50e-9 * rng.uniform(0.5, 2.0) for _ in range(n)] for n in c["shape"]]
        d = aniso_fails(c)
        if d:
            ctx.violation(c, d)
            return


def replay(ctx, inp):
    return property_fails(inp)
