"""C38 — equivalent grid descriptions (UniformGrid / explicit RectilinearGrid / QuasiUniformGrid) vs lean/FdtdxModel/C38.lean"""
import numpy as np

RULE = ("K: (a) UniformGrid.resolve, RectilinearGrid.uniform(center=..) and QuasiUniformGrid.resolve for random "
        "centres, spacings (incl. <= 0) and cell counts -1..9 (odd, zero, negative) per axis: resolved edges compared with "
        "the model (1e-15) and with each other (bit-exact), error kinds exactly; (b) _resolve_grid_from_volume with the "
        "volume given as lengths n*h, (n+1/2)*h (round-half-even ties), perturbed lengths, under policy centres 0 / multiples "
        "/ non-multiples of the spacing / negative / far away: resolved shape and edges of both policies vs round(L/h), vs "
        "RectilinearGrid.uniform(shape, h, center) and vs the model; (c) _metric_scale / _backward_edge_average on resolved equal-width grids (flagged uniform, and with the "
        "flag forced off so that the general formula runs) and on stretched grids vs model (1e-12); time_step_duration vs "
        "the C37 model; (d) THE PROPERTY: place_objects + run_fdtd of a tiny random scene (even/odd shapes 4..8, per-axis "
        "boundary pairs from periodic / PEC-PMC / PML / mixed; source cycling through uniform plane, tilted Gaussian plane, "
        "dipole, Gaussian plane, tilted uniform plane; dielectric block, Field + Energy + "
        "PoyntingFlux + Phasor detectors, volume by lengths or by cell counts, random grid centre) under the descriptions "
        "uniform policy, explicit grid with the same edges, explicit grid written lower-corner style (edges 0,h,2h..), "
        "explicit grid with a far translated origin (either sign), quasi-uniform policy: final "
        "E/H and every detector record agree with the uniform-policy run to 1e-9 of the record's scale. "
        "non-trivial = error branch, tie, forced-general branch, or a scene with a non-periodic face.")

_J = None
EPS8 = 8.0 * float(np.finfo(np.float64).eps)
TOL = 1e-4


def J():
    global _J
    if _J is None:
        import warnings
        warnings.filterwarnings("ignore")
        import jax
        jax.config.update("jax_enable_x64", True)
        import jax.numpy as jnp
        import fdtdx
        from fdtdx import constants
        from fdtdx.core.grid import QuasiUniformGrid, RectilinearGrid, UniformGrid
        from fdtdx.core.physics import curl
        from fdtdx.fdtd import initialization as init
        _J = dict(jax=jax, jnp=jnp, fdtdx=fdtdx, RG=RectilinearGrid, UG=UniformGrid, QG=QuasiUniformGrid, curl=curl,
                  init=init, c=float(constants.c))
    return _J


class Deferred:
    """collect model requests, answer them in ONE batch (the native driver only flushes at exit), then compare"""

    def __init__(self, ctx):
        self.ctx, self.lines, self.todo = ctx, [], []

    def ask(self, line, fn):
        self.lines.append(line)
        self.todo.append(fn)

    def flush(self):
        if self.lines:
            for rep, fn in zip(self.ctx.driver.ask_many(self.lines), self.todo):
                fn(rep)
        self.lines, self.todo = [], []


def err_kind(ex):
    m = str(ex)
    for pat, k in [("spacing must be positive", "err-spacing"), ("spacing dx must be positive", "err-spacing"),
                   ("spacing dy must be positive", "err-spacing"), ("spacing dz must be positive", "err-spacing"),
                   ("shape entries must be positive", "err-shape"), ("even cell count", "err-odd"),
                   ("at least two", "invalid"), ("strictly increasing", "invalid"), ("does not match", "err-mismatch")]:
        if pat in m:
            return k
    return "err-unknown:" + m[:100]


# ------------------------------------------------------------------------------ (a) resolution
def impl_resolve(kind, center, h, n, axis):
    """resolve with the probed count on `axis`, 2 cells elsewhere; returns edges of `axis` or an error kind"""
    j = J()
    shape = [2, 2, 2]
    shape[axis] = n
    c3 = [0.0, 0.0, 0.0]
    c3[axis] = center
    try:
        if kind == "uniform":
            g = j["UG"](spacing=h, center=tuple(c3)).resolve(tuple(shape))
        elif kind == "rect":
            g = j["RG"].uniform(tuple(shape), h, center=tuple(c3))
        else:
            d = [2.0 * abs(h) if h != 0 else 1.0, 3.0 * abs(h) if h != 0 else 1.0, 5.0 * abs(h) if h != 0 else 1.0]
            d[axis] = h
            g = j["QG"](dx=d[0], dy=d[1], dz=d[2], center=tuple(c3)).resolve(tuple(shape))
    except ValueError as ex:
        return err_kind(ex)
    return [float(x) for x in np.asarray(g.edges(axis))]


def run_resolution(ctx):
    from .common import f2h, h2fs
    rng = ctx.rng
    cases = []
    for i in range(ctx.scale(60, 400)):
        h = rng.choice([1.0, 0.5, 0.1, 25e-9, 1.23456789e-8, 0.37, rng.uniform(0.01, 3.0)])
        if rng.chance(0.08):
            h = rng.choice([0.0, -1.0])
        center = rng.choice([0.0, 0.0, rng.uniform(-5, 5) * abs(h if h else 1.0), 1e-6])
        n = rng.randint(-1, 9)
        cases.append((center, h, n, rng.randint(0, 2)))
    lines = []
    for (center, h, n, axis) in cases:
        lines.append(f"resolve uniform {f2h(center)} {f2h(h)} {n}")
        lines.append(f"resolve quasi {f2h(center)} {f2h(h)} {n}")
    reps = ctx.driver.ask_many(lines)
    for k, (center, h, n, axis) in enumerate(cases):
        mu, mq = reps[2 * k], reps[2 * k + 1]
        case = {"op": "resolve", "center": center, "h": h, "n": n, "axis": axis}
        got = {kind: impl_resolve(kind, center, h, n, axis) for kind in ("uniform", "rect", "quasi")}
        nt = ("resolve", str(got["uniform"])[:12] if isinstance(got["uniform"], str) else "ok",
              str(got["quasi"])[:12] if isinstance(got["quasi"], str) else "ok", n)
        ctx.case(sample=dict(case, impl=got) if k == 3 else None, nontrivial=nt, op="resolve", n=n)
        for kind, rep in (("uniform", mu), ("rect", mu), ("quasi", mq)):
            g = got[kind]
            if isinstance(g, str) or rep.startswith("err") or rep in ("invalid", "bad-op"):
                ctx.expect_equal("resolve." + kind, case, g if isinstance(g, str) else "edges", rep)
            else:
                ctx.expect_close("resolve." + kind, case, g, h2fs(rep), tol=1e-15, floor=abs(h))
        # the property on this level: whenever two descriptions resolve, they resolve to the same edges
        ctx.impl_property_evals += 1
        ok = [g for g in got.values() if not isinstance(g, str)]
        if any(o != ok[0] for o in ok[1:]):
            ctx.violation(case, f"descriptions resolve to different edges: {str(got)[:300]}")
        if h > 0 and n > 0 and n % 2 == 0 and len(ok) != 3:
            ctx.violation(case, f"a valid description failed to resolve: {str(got)[:300]}")
        if h > 0 and n > 0 and n % 2 == 1 and (got["quasi"] != "err-odd" or len(ok) != 2):
            ctx.violation(case, f"odd count: expected quasi to reject and the others to resolve: {str(got)[:300]}")


# ------------------------------------------------------------------------- (b) volume -> shape
def impl_cells(kind, lengths, h, center=(0.0, 0.0, 0.0)):
    """_resolve_grid_from_volume for a volume declared by physical lengths; returns (shape, edges) or an error kind"""
    j = J()
    fd = j["fdtdx"]
    c = tuple(center)
    grid = j["UG"](spacing=h, center=c) if kind == "uniform" else j["QG"](dx=h, dy=h, dz=h, center=c)
    cfg = fd.SimulationConfig(time=1e-15, grid=grid, backend="cpu", dtype=j["jnp"].float64)
    vol = fd.SimulationVolume(partial_real_shape=tuple(lengths))
    try:
        cfg2 = j["init"]._resolve_grid_from_volume([vol], cfg)
    except ValueError as ex:
        return err_kind(ex)
    return [int(x) for x in cfg2.grid.shape], [[float(x) for x in np.asarray(cfg2.grid.edges(a))] for a in range(3)]


def cells_verdict(case):
    """property on this level: a volume declared by lengths L gets round(L/h) cells centred on the policy's centre under
    BOTH policies, i.e. exactly the explicit grid RectilinearGrid.uniform(shape, h, center)"""
    j = J()
    lengths, h, center = case["lengths"], case["h"], case.get("center", [0.0, 0.0, 0.0])
    py = [round(L / h) for L in lengths]
    try:
        ex = j["RG"].uniform(tuple(py), h, center=tuple(center))
        ex_edges = [[float(x) for x in np.asarray(ex.edges(a))] for a in range(3)]
    except ValueError:
        ex_edges = None
    gu = impl_cells("uniform", lengths, h, center)
    gq = impl_cells("quasi", lengths, h, center)
    if isinstance(gu, str):
        return None if ex_edges is None else f"uniform policy (center {center}) fails on lengths {lengths}: {gu}", gu, gq
    if gu[0] != py:
        return (f"volume lengths {lengths} at spacing {h}, policy centre {center}: uniform policy resolves {gu[0]} cells, "
                f"round(L/h) = {py} (the explicit grid with the same spacings has {py})"), gu, gq
    if ex_edges is not None and gu[1] != ex_edges:
        return f"uniform policy (center {center}) resolves other edges than the explicit grid with the same spacings", gu, gq
    if all(x % 2 == 0 for x in py):
        if isinstance(gq, str) or gq[0] != py or gq[1] != gu[1]:
            return (f"quasi-uniform policy (center {center}) resolves {gq if isinstance(gq, str) else gq[0]} for lengths "
                    f"{lengths}, uniform policy / explicit grid {py}"), gu, gq
    elif gq != "err-odd":
        return f"quasi-uniform policy accepted odd counts {py}: {str(gq)[:80]}", gu, gq
    return None, gu, gq


def run_cells(ctx):
    from .common import f2h, h2fs
    rng = ctx.rng
    dq = Deferred(ctx)
    for i in range(ctx.scale(30, 200)):
        h = rng.choice([1.0, 0.1, 25e-9, 5e-8, 0.37, 1.23456789e-8])
        ns = [rng.randint(1, 5) * 2 for _ in range(3)]
        lengths = []
        tags = []
        for n in ns:
            t = rng.choice(["exact", "exact", "tie", "up", "down", "odd"])
            L = {"exact": n * h, "tie": (n + 0.5) * h, "up": n * h * (1 + 3e-16), "down": n * h * (1 - 3e-16),
                 "odd": (n + 1) * h}[t]
            lengths.append(L)
            tags.append(t)
        # policy centre: zero, multiples of the spacing, non-multiples, negative, far away - must never change a count
        cmode = ["zero", "mult", "frac", "neg", "far", "mixed"][i % 6]
        center = [{"zero": 0.0, "mult": rng.randint(1, 4) * h, "frac": rng.uniform(0.6, 3.7) * h,
                   "neg": -rng.uniform(0.6, 5.3) * h, "far": rng.choice([-1, 1]) * 1e3 * h,
                   "mixed": rng.choice([0.0, 2 * h, -1.3 * h, 0.77 * h])}[cmode] for _ in range(3)]
        case = {"op": "cells", "lengths": lengths, "h": h, "center": center}
        verdict, gu, gq = cells_verdict(case)
        ctx.impl_property_evals += 1
        ctx.case(sample=dict(case, impl_uniform=gu if isinstance(gu, str) else gu[0]) if i in (1, 2) else None,
                 nontrivial=("cells", tuple(tags), cmode), op="cells", tag="/".join(sorted(set(tags))), center=cmode)
        if verdict:
            ctx.violation(case, verdict)
        for a in range(3):
            for kind, g in (("uniform", gu), ("quasi", gq)):
                def cmp(rep, kind=kind, g=g, a=a, case=case):
                    if isinstance(g, str) or rep.startswith("err") or rep in ("invalid", "bad-op"):
                        exp_err = g if isinstance(g, str) else "edges"
                        # a whole-grid error may stem from another axis: only compare when this axis is the culprit
                        if not (isinstance(g, str) and not rep.startswith("err") and rep not in ("invalid",)):
                            ctx.expect_equal("cells." + kind, dict(case, axis=a), exp_err, rep)
                    else:
                        ctx.expect_close("cells." + kind, dict(case, axis=a), g[1][a], h2fs(rep), tol=1e-15,
                                         floor=max(abs(case["h"]), abs(case["center"][a])))
                dq.ask(f"resolvelen {kind} {f2h(center[a])} {f2h(h)} {f2h(lengths[a])}", cmp)
    dq.flush()


# ----------------------------------------------------------------------- (c) metric factors, dt
def force_general(g):
    """a copy-like view of `g` whose uniformity verdict is off: exercises the general formulas on equal widths"""
    j = J()
    g2 = j["RG"](x_edges=g.x_edges, y_edges=g.y_edges, z_edges=g.z_edges)
    object.__setattr__(g2, "_is_uniform", False)
    object.__setattr__(g2, "_uniform_spacing", None)
    return g2


def run_metric(ctx):
    from .common import f2h, fs2h, h2f, h2fs
    j = J()
    fd, jnp, curl = j["fdtdx"], j["jnp"], j["curl"]
    rng = ctx.rng
    dq = Deferred(ctx)
    for i in range(ctx.scale(10, 60)):
        h = rng.choice([1.0, 0.1, 25e-9, 1.23456789e-8, 0.37])
        shape = tuple(rng.randint(1, 4) * 2 for _ in range(3))
        cf = rng.choice([0.99, 0.5, 1.0])
        kind = ["uniform", "quasi", "rect", "general", "stretched"][i % 5]
        if kind == "uniform":
            g = j["UG"](spacing=h).resolve(shape)
        elif kind == "quasi":
            g = j["QG"](dx=h, dy=h, dz=h).resolve(shape)
        elif kind == "rect":
            g = j["RG"].uniform(shape, h)
        elif kind == "general":
            g = force_general(j["UG"](spacing=h).resolve(shape))
        else:
            axes = []
            for a in range(3):
                w = [h * rng.uniform(0.5, 1.5) for _ in range(shape[a])]
                axes.append(jnp.asarray(np.concatenate([[0.0], np.cumsum(w)])))
            g = j["RG"](x_edges=axes[0], y_edges=axes[1], z_edges=axes[2])
        cfg = fd.SimulationConfig(time=1e-15, grid=g, backend="cpu", dtype=jnp.float64, courant_factor=cf)
        dt = float(cfg.time_step_duration)
        edges = [[float(x) for x in np.asarray(g.edges(a))] for a in range(3)]
        nonuni = bool(cfg.has_nonuniform_grid)
        case = {"op": "metric", "kind": kind, "h": h, "shape": list(shape), "cf": cf, "edges": edges}
        ctx.case(nontrivial=("metric", kind, shape), op="metric", kind=kind)
        # dt against the C37 model of cfl_time_step (for the forced branch the model's general value is compared below)
        if kind != "general":
            def cmp_grid(rep, case=case, nonuni=nonuni, dt=dt):
                t = rep.split()
                ctx.expect_equal("metric.uniform-flag", case, "0" if nonuni else "1", t[0])
                ctx.expect_close("metric.dt", case, [dt], [h2f(t[5])], tol=1e-13, floor=1e-300)
            dq.ask(f"grid {f2h(cf)} {f2h(j['c'])} {f2h(TOL)} {f2h(EPS8)} {len(edges[0])} {len(edges[1])} "
                   f"{fs2h(edges[0])} {fs2h(edges[1])} {fs2h(edges[2])}", cmp_grid)
        for a in range(3):
            for stencil in ("forward", "backward"):
                sc = curl._metric_scale(cfg, axis=a, shape=shape, stencil=stencil)
                got = [float(x) for x in np.asarray(sc).ravel()] if not isinstance(sc, float) else [sc] * shape[a]
                dq.ask(f"mscale {1 if nonuni else 0} {1 if stencil == 'backward' else 0} {f2h(cf)} "
                       f"{f2h(j['c'])} {f2h(dt)} {fs2h(edges[a])}",
                       lambda rep, c=dict(case, axis=a, stencil=stencil), got=got: ctx.expect_close(
                           "metric.scale", c, got, h2fs(rep), tol=1e-12))
                ctx.impl_property_evals += 1
                if kind != "stretched" and max(abs(x - 1.0) for x in got) > 1e-12:
                    ctx.violation(dict(case, axis=a, stencil=stencil),
                                  f"metric scale of an equal-width grid ({kind}) is not 1: {got[:4]}")
        # edge average
        a = rng.randint(0, 2)
        cur = np.asarray([[[rng.uniform(-1, 1) for _ in range(shape[2])] for _ in range(shape[1])] for _ in range(shape[0])])
        prev = np.asarray([[[rng.uniform(-1, 1) for _ in range(shape[2])] for _ in range(shape[1])] for _ in range(shape[0])])
        avg = np.asarray(curl._backward_edge_average(jnp.asarray(cur), jnp.asarray(prev), cfg, a))
        idx = tuple(rng.randint(0, s - 1) for s in shape)
        dq.ask(f"eavg {1 if nonuni else 0} {f2h(cur[idx])} {f2h(prev[idx])} {idx[a]} {fs2h(edges[a])}",
               lambda rep, c=dict(case, axis=a), v=float(avg[idx]): ctx.expect_close("metric.eavg", c, [v], [h2f(rep)], tol=1e-12))
        if kind != "stretched" and np.max(np.abs(avg - 0.5 * (cur + prev))) > 1e-12:
            ctx.violation(dict(case, axis=a), f"edge average on an equal-width grid ({kind}) is not the arithmetic mean")
    dq.flush()


# ------------------------------------------------------------------------- (d) run_fdtd scenes
PAIRS = {"periodic": ("periodic", "periodic"), "pecpmc": ("pec", "pmc"), "pmcpec": ("pmc", "pec"), "pml": ("pml", "pml"),
         "pecpml": ("pec", "pml"), "pmlpmc": ("pml", "pmc"), "pec": ("pec", "pec")}
DESCS = ["uniform", "rect", "rect_corner", "rect_shift", "quasi"]
SRC_CYCLE = ["plane", "gauss_tilt", "dipole", "gauss", "plane_tilt"]


def gen_scene(rng, small=False):
    shape = [rng.choice([4, 6] if small else [4, 6, 8]) for _ in range(3)]
    if not small and rng.chance(0.25):
        shape[rng.randint(0, 2)] = rng.choice([5, 7])
    bt = []
    for a in range(3):
        opts = ["periodic", "pecpmc", "pmcpec", "pec"] + (["pml", "pecpml", "pmlpmc"] if shape[a] >= 6 else [])
        bt.append("periodic" if small and a < 2 else rng.choice(opts))
    h = rng.choice([5e-8, 2.5e-8, 1.23456789e-8, 1e-7])
    return {"op": "scene", "shape": shape, "h": h, "bt": bt, "src": rng.choice(SRC_CYCLE),
            "tilt": [rng.choice([7.0, -12.0, 20.0]), rng.choice([5.0, -9.0, 0.0])],
            "axis": rng.randint(0, 2), "T": rng.randint(8, 14), "vol": rng.choice(["real", "real", "grid"]),
            # policy centre off the origin: multiples and non-multiples of the spacing, both signs, |c| > h/2 mostly
            "center": [rng.choice([0.0, rng.randint(1, 3) * h, -rng.uniform(0.6, 3.4) * h, rng.uniform(0.6, 3.4) * h])
                       for _ in range(3)],
            # origin of the translated explicit grid: far positive / negative, not a multiple of the spacing
            "shift": [rng.choice([-1, 1]) * rng.uniform(5, 40) * h for _ in range(3)], "eps": rng.choice([1.0, 2.25, 4.0]),
            "sigma": rng.choice([0.0, 0.0, 50.0])}


def build_grid(sc, desc):
    j = J()
    jnp = j["jnp"]
    h, shape, c = sc["h"], tuple(sc["shape"]), tuple(sc["center"])
    if desc == "uniform":
        return j["UG"](spacing=h, center=c)
    if desc == "quasi":
        return j["QG"](dx=h, dy=h, dz=h, center=c)
    if desc == "rect":
        return j["RG"].uniform(shape, h, center=c)
    if desc == "rect_corner":       # same mesh written lower-corner style: edges 0, h, 2h, ...
        e = [jnp.asarray(h * np.arange(shape[a] + 1)) for a in range(3)]
        return j["RG"](x_edges=e[0], y_edges=e[1], z_edges=e[2])
    if desc == "rect_shift":
        e = [jnp.asarray(sc["shift"][a] + h * np.arange(shape[a] + 1)) for a in range(3)]
        return j["RG"](x_edges=e[0], y_edges=e[1], z_edges=e[2])
    raise ValueError(desc)


def run_scene(sc, desc):
    """place + run the scene under one grid description; returns dict of numpy arrays, or an error string"""
    j = J()
    fd, jnp, jax = j["fdtdx"], j["jnp"], j["jax"]
    h, shape = sc["h"], sc["shape"]
    dt0 = fd.SimulationConfig(time=1e-15, grid=j["UG"](spacing=h), backend="cpu", dtype=jnp.float64).time_step_duration
    try:
        grid = build_grid(sc, desc)
        config = fd.SimulationConfig(time=(sc["T"] + 0.01) * dt0, grid=grid, backend="cpu", dtype=jnp.float64)
        objects, constraints = [], []
        if sc["vol"] == "real":
            volume = fd.SimulationVolume(partial_real_shape=tuple(n * h for n in shape))
        else:
            volume = fd.SimulationVolume(partial_grid_shape=tuple(shape))
        objects.append(volume)
        faces = ["min_x", "max_x", "min_y", "max_y", "min_z", "max_z"]
        ov = {}
        for a in range(3):
            lo, hi = PAIRS[sc["bt"][a]]
            ov[faces[2 * a]], ov[faces[2 * a + 1]] = lo, hi
        bcfg = fd.BoundaryConfig.from_uniform_bound(thickness=2, boundary_type="periodic", override_types=ov)
        bdict, clist = fd.boundary_objects_from_config(bcfg, volume)
        objects.extend(bdict.values())
        constraints.extend(clist)
        mat = fd.Material(permittivity=sc["eps"], electric_conductivity=sc["sigma"]) if sc["sigma"] else fd.Material(permittivity=sc["eps"])
        # block parity follows the axis parity: a centred even block on an odd axis is a placement TIE that binary64
        # round-off decides differently for different origins (see notes/C38.md) - not what this property is about
        block = fd.UniformMaterialObject(name="blk", partial_real_shape=tuple((2 + n % 2) * h for n in shape), material=mat)
        constraints.append(block.place_at_center(volume))
        objects.append(block)
        wc = fd.WaveCharacter(wavelength=12 * h)
        ax = sc["axis"]
        if sc["src"] != "dipole":
            pgs = [None, None, None]
            pgs[ax] = 1
            pol = [0, 0, 0]
            pol[(ax + 1) % 3] = 1
            kw = dict(name="src", partial_grid_shape=tuple(pgs), wave_character=wc, direction="+",
                      fixed_E_polarization_vector=tuple(pol))
            if sc["src"].endswith("_tilt"):
                kw.update(azimuth_angle=sc.get("tilt", [7.0, 5.0])[0], elevation_angle=sc.get("tilt", [7.0, 5.0])[1])
            if sc["src"].startswith("gauss"):
                source = fd.GaussianPlaneSource(radius=2.5 * h, **kw)
            else:
                source = fd.UniformPlaneSource(**kw)
            tr = tuple(a for a in range(3) if a != ax)
            constraints.append(source.same_size(volume, axes=tr))
            constraints.append(source.place_relative_to(volume, axes=(ax,), own_positions=(-1,), other_positions=(-1,),
                                                        grid_margins=(1,)))
        else:
            source = fd.PointDipoleSource(name="src", partial_grid_shape=(1, 1, 1), wave_character=wc, polarization=ax)
            constraints.append(source.place_relative_to(volume, axes=(0, 1, 2), own_positions=(-1, -1, -1),
                                                        other_positions=(-1, -1, -1), grid_margins=(1, 1, 1)))
        objects.append(source)
        det = fd.FieldDetector(name="fd", plot=False, reduce_volume=False)
        constraints += [det.same_size(volume), det.place_at_center(volume)]
        en = fd.EnergyDetector(name="en", plot=False)
        constraints += [en.same_size(volume), en.place_at_center(volume)]
        pgs = [None, None, None]
        pgs[ax] = 1
        pf = fd.PoyntingFluxDetector(name="pf", partial_grid_shape=tuple(pgs), direction="+", plot=False)
        tr = tuple(a for a in range(3) if a != ax)
        constraints.append(pf.same_size(volume, axes=tr))
        constraints.append(pf.place_relative_to(volume, axes=(ax,), own_positions=(1,), other_positions=(1,),
                                                grid_margins=(-1,)))
        ph = fd.PhasorDetector(name="ph", wave_characters=(wc,), plot=False, dtype=jnp.complex128)
        constraints += [ph.same_size(volume), ph.place_at_center(volume)]
        objects += [det, en, pf, ph]
        key = jax.random.PRNGKey(0)
        obj, arrays, params, config, _ = fd.place_objects(object_list=objects, config=config, constraints=constraints, key=key)
        arrays, obj, _ = fd.apply_params(arrays, obj, params, key)
        _, out = fd.run_fdtd(arrays=arrays, objects=obj, config=config, key=key, show_progress=False)
    except Exception as ex:  # noqa: BLE001 — any failure of one description is part of the verdict
        return "raised " + type(ex).__name__ + ": " + err_kind(ex)
    res = {"E": np.asarray(out.fields.E), "H": np.asarray(out.fields.H)}
    for n, st in out.detector_states.items():
        for k, v in st.items():
            res[f"{n}.{k}"] = np.asarray(v)
    res["_dt"] = float(config.time_step_duration)
    res["_T"] = int(config.time_steps_total)
    res["_edges"] = [[float(x) for x in np.asarray(config.grid.edges(a))] for a in range(3)]
    res["_uniform"] = bool(config.grid.is_uniform)
    return res


def scene_verdict(sc, results):
    """the property: every description that is valid for the scene gives the same records (1e-9 of the scale)"""
    ref = results["uniform"]
    if isinstance(ref, str):
        return f"uniform-policy description fails on a valid scene: {ref}"
    odd = any(n % 2 for n in sc["shape"])
    got_shape = [len(e) - 1 for e in ref["_edges"]]
    if got_shape != list(sc["shape"]):
        return (f"uniform policy (centre {sc['center']}, volume by {sc['vol']}) simulates {got_shape} cells, the declared "
                f"volume / equivalent explicit grid has {sc['shape']}")
    scale = max(float(np.max(np.abs(ref["fd.fields"]))), 1e-30)
    for d, r in results.items():
        if d == "uniform":
            continue
        if d == "quasi" and odd:
            if not (isinstance(r, str) and "err-odd" in r):
                return f"quasi-uniform policy accepted an odd cell count {sc['shape']}: {str(r)[:100]}"
            continue
        if isinstance(r, str):
            return f"description {d} fails on a scene the uniform policy simulates: {r}"
        if r["_T"] != ref["_T"] or abs(r["_dt"] - ref["_dt"]) > 1e-12 * ref["_dt"] or not r["_uniform"]:
            return f"description {d}: steps/dt/uniform = {r['_T']}, {r['_dt']!r}, {r['_uniform']} vs {ref['_T']}, {ref['_dt']!r}"
        if d == "rect_corner" and any(e[0] != 0.0 for e in r["_edges"]):
            return "lower-corner explicit grid did not keep its origin"
        if d in ("rect", "quasi") and r["_edges"] != ref["_edges"]:
            return f"description {d} resolves to different edges than the uniform policy"
        for k, v in ref.items():
            if k.startswith("_"):
                continue
            w = r[k]
            if v.shape != w.shape:
                return f"description {d}: record {k} has shape {w.shape} vs {v.shape}"
            fl = 1e-3 * (scale * scale if k.startswith(("en.", "pf.")) else scale)
            den = max(fl, float(np.max(np.abs(v))) if v.size else 0.0)
            err = float(np.max(np.abs(v.astype(np.complex128) - w.astype(np.complex128)))) / den if v.size else 0.0
            if not err <= 1e-9:
                return f"description {d}: record {k} differs from the uniform-policy run by {err:.3e} (relative to its scale)"
    if not scale > 1e-12:
        return None
    return None


def eval_scene(ctx, sc):
    results = {d: run_scene(sc, d) for d in DESCS}
    ctx.impl_property_evals += 1
    return results, scene_verdict(sc, results)


def run_scenes(ctx):
    from .common import f2h, fs2h, h2f
    j = J()
    n = ctx.scale(2, 12)
    scenes = [gen_scene(ctx.rng, small=(i == 0)) for i in range(n)]
    # the first scene always declares the volume by lengths under an off-origin centre (negative, non-multiple, multiple)
    h0 = scenes[0]["h"]
    scenes[0].update(vol="real", center=[2 * h0, -1.7 * h0, 0.9 * h0])
    # every run has plane sources: scene i uses SRC_CYCLE[i] (uniform untilted, Gaussian tilted, dipole, Gaussian, tilted)
    for i, sc in enumerate(scenes):
        sc["src"] = SRC_CYCLE[i % len(SRC_CYCLE)]
        if sc["src"] != "dipole":          # a plane source needs room along its axis and periodic/PML sides are fine
            sc["shape"][sc["axis"]] = max(sc["shape"][sc["axis"]], 6)
    dq = Deferred(ctx)
    for i, sc in enumerate(scenes):
        results, verdict = eval_scene(ctx, sc)
        nt = ("scene", tuple(sc["bt"]), tuple(sc["shape"]), sc["src"]) if any(b != "periodic" for b in sc["bt"]) or any(
            x % 2 for x in sc["shape"]) else None
        ref = results["uniform"]
        summary = {d: (r if isinstance(r, str) else {"T": r["_T"], "dt": r["_dt"], "maxE": float(np.max(np.abs(r["E"])))})
                   for d, r in results.items()}
        ctx.case(sample={"scene": sc, "runs": summary} if i < 2 else None, nontrivial=nt, op="scene",
                 bt="/".join(sc["bt"]), src=sc["src"], odd=any(x % 2 for x in sc["shape"]))
        if verdict:
            ctx.violation(sc, verdict)
        if not isinstance(ref, str):
            # resolved edges and dt of the simulated config against the model
            e = ref["_edges"]
            for a in range(3):
                dq.ask(f"resolve uniform {f2h(sc['center'][a])} {f2h(sc['h'])} {sc['shape'][a]}",
                       lambda rep, sc=sc, ea=e[a]: ctx.expect_close(
                           "scene.edges", sc, ea, [h2f(x) for x in rep.split()] if not rep.startswith("err") else [],
                           tol=1e-15, floor=sc["h"]))
            dq.ask(f"grid {f2h(0.99)} {f2h(j['c'])} {f2h(TOL)} {f2h(EPS8)} {len(e[0])} {len(e[1])} "
                   f"{fs2h(e[0])} {fs2h(e[1])} {fs2h(e[2])}",
                   lambda rep, sc=sc, dt=ref["_dt"]: ctx.expect_close("scene.dt", sc, [dt], [h2f(rep.split()[5])],
                                                                     tol=1e-13, floor=1e-300))
            if float(np.max(np.abs(ref["fd.fields"]))) == 0.0:
                ctx.notes.append("scene with identically zero fields (uninformative)")
    dq.flush()


def run(ctx):
    run_resolution(ctx)
    run_cells(ctx)
    run_metric(ctx)
    run_scenes(ctx)


# ------------------------------------------------------------------------------------------- S
def search(ctx, hints):
    for h in hints:
        if isinstance(h, dict) and h.get("op") == "scene":
            _, v = eval_scene(ctx, h)
            if v:
                ctx.violation(h, v)
                return
    rng = ctx.rng.fork()
    for h in hints:
        if isinstance(h, dict) and h.get("op") == "cells":
            v = cells_verdict(h)[0]
            if v:
                ctx.violation(h, v)
                return
    for hh in (1.0, 5e-8):                       # cheap level first: volume lengths under off-origin centres
        for c in ([0.0, 0.0, 0.0], [2 * hh, 0.0, 0.0], [0.0, -1.7 * hh, 0.0], [0.0, 0.0, 0.9 * hh], [1e3 * hh] * 3):
            case = {"op": "cells", "lengths": [4 * hh, 6 * hh, 8 * hh], "h": hh, "center": c}
            ctx.impl_property_evals += 1
            v = cells_verdict(case)[0]
            if v:
                ctx.violation(case, v)
                return
    # smallest scenes first
    base = {"op": "scene", "shape": [4, 4, 4], "h": 5e-8, "bt": ["periodic"] * 3, "src": "dipole", "axis": 2, "T": 8, "tilt": [7.0, 5.0],
            "vol": "real", "center": [0.0, 0.0, 0.0], "shift": [0.0, 0.0, 0.0], "eps": 1.0, "sigma": 0.0}
    cands = [base, dict(base, vol="grid"), dict(base, src="plane"), dict(base, shape=[4, 6, 4], center=[1e-8, 0.0, -2e-8]),
             dict(base, h=1.23456789e-8), dict(base, shape=[6, 6, 6], bt=["pml", "pecpmc", "periodic"], src="plane"),
             dict(base, shape=[4, 4, 6], src="gauss_tilt", shift=[7e-7, -9e-7, 1.1e-6]),
             dict(base, shape=[4, 4, 6], src="plane", shift=[-7e-7, 9e-7, -1.1e-6])]
    cands += [gen_scene(rng, small=(i < 3)) for i in range(ctx.scale(4, 10))]
    for sc in cands:
        _, v = eval_scene(ctx, sc)
        if v:
            ctx.violation(sc, v)
            return


def replay(ctx, inp):
    if inp.get("op") == "scene":
        return eval_scene(ctx, inp)[1]
    if inp.get("op") == "resolve":
        got = {k: impl_resolve(k, inp["center"], inp["h"], inp["n"], inp["axis"]) for k in ("uniform", "rect", "quasi")}
        ok = [g for g in got.values() if not isinstance(g, str)]
        if any(o != ok[0] for o in ok[1:]):
            return f"descriptions resolve to different edges: {str(got)[:300]}"
        h, n = inp["h"], inp["n"]
        if h > 0 and n > 0 and n % 2 == 0 and len(ok) != 3:
            return f"a valid description failed to resolve: {str(got)[:300]}"
        if h > 0 and n > 0 and n % 2 == 1 and (got["quasi"] != "err-odd" or len(ok) != 2):
            return f"odd count: expected quasi to reject and the others to resolve: {str(got)[:300]}"
        return None
    if inp.get("op") == "cells":
        return cells_verdict(inp)[0]
    if inp.get("op") == "metric":
        j = J()
        jnp = j["jnp"]
        g = j["RG"](x_edges=jnp.asarray(inp["edges"][0]), y_edges=jnp.asarray(inp["edges"][1]),
                    z_edges=jnp.asarray(inp["edges"][2]))
        if inp["kind"] == "general":
            g = force_general(g)
        cfg = j["fdtdx"].SimulationConfig(time=1e-15, grid=g, backend="cpu", dtype=jnp.float64, courant_factor=inp["cf"])
        for a in range(3):
            for st in ("forward", "backward"):
                sc = j["curl"]._metric_scale(cfg, axis=a, shape=tuple(inp["shape"]), stencil=st)
                v = np.asarray(sc).ravel()
                if inp["kind"] != "stretched" and np.max(np.abs(v - 1.0)) > 1e-12:
                    return f"metric scale of an equal-width grid is not 1 (axis {a}, {st}): {v[:4]}"
        return None
    return None
