"""C03 — the full backward pass reconstructs E and H outside the absorbing layers at every earlier step.

Oracle (this IS the property, evaluated on the real code): forward() step by step with record_boundaries=True and a
lossless recorder, then backward(reset_fields=True) step by step from the final state; E,H on all cells outside the
PML boxes must equal the stored forward state at EVERY intermediate step.  Also through run_fdtd + full_backward and
with a widening DtypeConversion recorder module.  K: single forward / backward steps (with interfaces restored from
the recording and the PML reset) and interface_slice / grid slices against FdtdxModel/Cpml.lean."""
import numpy as np

from . import cpml_api as P
from . import yee_api as Y
from .common import f2h

RULE = ("scenes from the seed: 6..8 (thorough 6..10) cells per axis; per axis a face pair out of pml/pml, pml/none, "
        "none/pml, pml/pec, pec/pml, pml/pmc, pmc/pml, periodic/periodic, pec/pec, pmc/pmc, pec/pmc, none/none with at "
        "least one PML face, PML thickness 1..3 per face independently (interior >= 2 cells), uniform or non-uniform "
        "grid, 0..1 source (electric/magnetic point dipole, uniform or Gaussian plane source; CW or Gaussian pulse; "
        "dipoles axis-aligned or tilted by azimuth/elevation angles; OnOffSwitch default / delayed start / interval 2 / fixed on-steps — the forced quick scene always has a TILTED magnetic "
        "dipole with a delayed-start switch, i.e. an H-injecting source on the non-default-switch path of the reverse "
        "updates) inside the interior, random initial fields in the interior (zero in the layers, wall-projected), random isotropic/"
        "diagonal inv_eps and scalar/diagonal inv_mu (lossless), T = 4..8 (thorough 4..25) steps, recorder "
        "Recorder(modules=[]) in float64; one extra float32 scene per run with a widening DtypeConversion(float64) "
        "module (tolerance 2e-5, float32 arithmetic). Oracle: max interior |backward^k(final) - forward state| <= 1e-9 "
        "at every k; once per run also run_fdtd (reversible) + full_backward to step 0. In the forced scene, in half of "
        "the random scenes and in the public-route case the trajectory is recorded TWICE into the same container (a first "
        "run with other initial fields resp. other materials, then ArrayContainer.reset(), which keeps the recording "
        "buffers) and the reverse sweep of the SECOND run is compared with the second run's forward states. K: forward() vs model pmlfwd and "
        "backward() vs model pmlbwd (recorded interfaces restored, PML boxes reset, sources probed from update_E/H on "
        "zero fields) on two steps per scene, all cells, 1e-9; grid_slice_tuple / interface_slice(_tuple) of every "
        "placed PML and of boundaries placed directly for every axis x direction x thickness 1..4 vs model iface. "
        "non-trivial = every case (all have a PML).")

PAIRS = [("pml", "pml"), ("pml", "pml"), ("pml", "pml"), ("pml", "pml"), ("pml", "none"), ("none", "pml"), ("pml", "pec"), ("pec", "pml"), ("pml", "pmc"),
         ("pmc", "pml"), ("periodic", "periodic"), ("pec", "pec"), ("pmc", "pmc"), ("pec", "pmc"), ("none", "none")]


def gen_case(rng, thorough, small=False):
    mx = 10 if thorough else 8
    while True:
        shape = [rng.randint(6, 6 if small else mx) for _ in range(3)]
        faces, spec = {}, {}
        for ax in range(3):
            lo, hi = rng.choice(PAIRS)
            faces[Y.FACES[2 * ax]], faces[Y.FACES[2 * ax + 1]] = lo, hi
            for side, kind in ((0, lo), (1, hi)):
                if kind == "pml":
                    spec[Y.FACES[2 * ax + side]] = rng.randint(1, 3)
        ok = bool(spec)
        for ax in range(3):
            if shape[ax] - spec.get(Y.FACES[2 * ax], 0) - spec.get(Y.FACES[2 * ax + 1], 0) < 2:
                ok = False
        nonuni = rng.chance(0.3)
        if nonuni:  # sources are placed at the physical centre there (index placement is not available): keep it interior
            for ax in range(3):
                m = shape[ax] // 2
                if spec.get(Y.FACES[2 * ax], 0) > m - 1 or shape[ax] - spec.get(Y.FACES[2 * ax + 1], 0) < m + 2:
                    ok = False
        if ok:
            break
    c = dict(shape=shape, faces=faces, spec=spec)
    c["widths"] = [[50e-9 * rng.uniform(0.8, 1.25) for _ in range(n)] for n in shape] if nonuni else None
    lo = [spec.get(Y.FACES[2 * a], 0) for a in range(3)]
    hi = [shape[a] - spec.get(Y.FACES[2 * a + 1], 0) - 1 for a in range(3)]
    # H-injecting kinds (plane sources, magnetic dipoles) and non-default switches are the majority: the reverse H update
    # has a separate code path for sources with a non-default OnOffSwitch (time argument t + 1/2)
    kind = rng.choice(["none", "dipole_e", "dipole_m", "plane", "gauss", "dipole_m", "plane"])
    c["source"] = None if kind == "none" else dict(kind=kind, pol=rng.randint(0, 2), axis=rng.randint(0, 2),
                                                   direction=rng.choice(["+", "-"]), amp=rng.uniform(0.5, 2.0),
                                                   pos=[rng.randint(lo[a], hi[a]) for a in range(3)],
                                                   switch=rng.choice(["default", "start", "interval", "fixed", "start"]),
                                                   profile=rng.choice(["cw", "cw", "pulse"]),
                                                   tilt=[rng.choice([0.0, 0.0, 30.0, -50.0, 75.0]),
                                                         rng.choice([0.0, 20.0, -35.0])])
    c["eps_tier"] = rng.choice([1, 3])
    c["mu_tier"] = rng.choice([0, 3])
    c["T"] = rng.randint(4, 25 if thorough else 8)
    c["recorder"] = "plain"
    c["twice"] = rng.chance(0.5)
    c["seed"] = rng.np_seed()
    return c


def make_source(c, vol):
    f = Y.J()["fdtdx"]
    s = c["source"]
    if s is None:
        return [], []
    wl = 4.0e-7
    wave = f.WaveCharacter(wavelength=wl)
    prof = f.SingleFrequencyProfile() if s.get("profile") == "cw" else f.GaussianPulseProfile(
        spectral_width=f.WaveCharacter(wavelength=2 * wl), center_wave=wave)
    dt = P.step_duration(c["widths"])
    sw = {"default": f.OnOffSwitch(), "start": f.OnOffSwitch(start_time=1.5 * dt), "interval": f.OnOffSwitch(interval=2),
          "fixed": f.OnOffSwitch(fixed_on_time_steps=[t for t in (1, 2, 4, 7, 8, 11) if t < c["T"]])}[s.get("switch", "default")]
    cons = []
    if s["kind"] in ("plane", "gauss"):
        ax = s["axis"]
        shp = [None, None, None]
        shp[ax] = 1
        pol = [0.0, 0.0, 0.0]
        pol[(ax + 1 + s["pol"] % 2) % 3] = 1.0
        kw = dict(partial_grid_shape=tuple(shp), wave_character=wave, direction=s["direction"],
                  fixed_E_polarization_vector=tuple(pol), temporal_profile=prof, switch=sw,
                  static_amplitude_factor=s["amp"], name="src")
        o = f.UniformPlaneSource(**kw) if s["kind"] == "plane" else f.GaussianPlaneSource(radius=1.2e-7, **kw)
        if c["widths"]:
            cons.append(o.place_at_center(vol, axes=(ax,)))
        else:
            cons.append(o.set_grid_coordinates(axes=ax, sides="-", coordinates=s["pos"][ax]))
    else:
        o = f.PointDipoleSource(partial_grid_shape=(1, 1, 1), wave_character=wave, polarization=s["pol"],
                                source_type="electric" if s["kind"] == "dipole_e" else "magnetic", temporal_profile=prof,
                                switch=sw, static_amplitude_factor=s["amp"], name="src",
                                azimuth_angle=float(s.get("tilt", [0.0, 0.0])[0]),
                                elevation_angle=float(s.get("tilt", [0.0, 0.0])[1]))
        if c["widths"]:
            cons.append(o.place_at_center(vol))
        else:
            cons.append(o.set_grid_coordinates(axes=(0, 1, 2), sides=("-", "-", "-"), coordinates=tuple(s["pos"])))
    return [o], cons


def scene_of(c):
    if c["recorder"] == "widen32":
        return scene_widen32(c)
    return P.build_steps(c["shape"], c["faces"], c["spec"], c["T"], widths=c["widths"], extra_fn=lambda vol: make_source(c, vol))


def scene_widen32(c):
    """float32 scene whose recorder has a widening (float32 -> float64, lossless) DtypeConversion module;
    yee_api.build fixes the recorder to modules=[], so the scene is placed here the same way"""
    j = Y.J()
    f, jnp, jax = j["fdtdx"], j["jnp"], j["jax"]
    from fdtdx.interfaces.modules import DtypeConversion
    gc = f.GradientConfig(method="reversible", recorder=f.Recorder(modules=[DtypeConversion(dtype=jnp.float64)]))
    dt = P.step_duration(c["widths"])
    cfg = f.SimulationConfig(time=(c["T"] + 0.01) * dt, grid=P.make_grid(c["widths"]), dtype=jnp.float32, backend="cpu",
                             gradient_config=gc)
    vol = f.SimulationVolume(partial_grid_shape=tuple(c["shape"]))
    objs, cons = [vol], []
    faces = {k: ("none" if k in c["spec"] else v) for k, v in c["faces"].items()}
    kwb = {}
    for k in Y.FACES:
        kk = k.replace("_", "")
        if faces.get(k, "none") != "none":
            kwb[f"boundary_type_{kk}"] = faces[k]
        kwb[f"thickness_grid_{kk}"] = 1
    bd, bcons = f.boundary_objects_from_config(f.BoundaryConfig(**kwb), vol)
    for (k, b), cc in zip(bd.items(), bcons):
        if faces.get(k, "none") != "none":
            objs.append(b)
            cons.append(cc)
    for o, cc in (P.make_pmls(vol, c["spec"]), make_source(c, vol)):
        objs += o
        cons += cc
    objects, arrays, params, config, info = f.place_objects(object_list=objs, config=cfg, constraints=cons,
                                                            key=jax.random.PRNGKey(0))
    s = Y.Scene()
    s.objects, s.arrays, s.params, s.config = objects, arrays, params, config
    s.shape, s.faces, s.widths = tuple(c["shape"]), dict(faces), c["widths"]
    s.bloch_vector = (0.0, 0.0, 0.0)
    s.volume = vol
    return s


def materialise(c, sc):
    r = np.random.default_rng(c["seed"])
    nx, ny, nz = c["shape"]
    inter = P.interior_mask(sc)
    E = r.standard_normal((3, nx, ny, nz)) * inter
    H = r.standard_normal((3, nx, ny, nz)) * inter
    E, H = Y.wall_project(sc, E, H)
    inv_eps = r.uniform(0.2, 1.0, (c["eps_tier"], nx, ny, nz))
    inv_mu = 1.0 if c["mu_tier"] == 0 else r.uniform(0.4, 1.0, (c["mu_tier"], nx, ny, nz))
    return E, H, inv_eps, inv_mu, inter


def fields(st):
    return np.asarray(st[1].fields.E, dtype=np.float64), np.asarray(st[1].fields.H, dtype=np.float64)


def sweep(c, keep=False):
    """forward trajectory with recording, then the reverse sweep; returns (worst interior error, scale, first bad step,
    data for K when keep)"""
    sc = scene_of(c)
    E, H, inv_eps, inv_mu, inter = materialise(c, sc)
    if c["recorder"] == "widen32":
        arrays = Y.with_state(sc, E, H)
        inv_eps, inv_mu = np.asarray(arrays.inv_permittivities), np.asarray(arrays.inv_permeabilities)
    else:
        arrays = Y.with_state(sc, E, H, inv_eps, None if c["mu_tier"] == 0 else inv_mu)
    T = int(sc.config.time_steps_total)
    j = Y.J()
    jnp, jax = j["jnp"], j["jax"]
    key = jax.random.PRNGKey(0)
    # forward()/backward() of the scene under jit (one compilation each per scene; in eager mode every step re-traces
    # the lax.cond of switched sources and compiles every op per shape, which dominated the wall time)
    fwd = jax.jit(lambda st: j["forward"](st, sc.config, sc.objects, key=key, record_detectors=False,
                                          record_boundaries=True, simulate_boundaries=True))
    bwd = jax.jit(lambda st: j["backward"](st, sc.config, sc.objects, key=key, record_detectors=False, reset_fields=True))
    if c.get("twice"):
        # a FIRST run (other initial fields) is recorded into the same container; ArrayContainer.reset() keeps the
        # recording buffers by default, so the second run below overwrites slots that are already written
        r1 = np.random.default_rng(c["seed"] + 1)
        E1, H1 = Y.wall_project(sc, 2.0 * r1.standard_normal(E.shape) * inter, 2.0 * r1.standard_normal(H.shape) * inter)
        a1 = arrays.aset("fields->E", jnp.asarray(E1, dtype=arrays.fields.E.dtype))
        a1 = a1.aset("fields->H", jnp.asarray(H1, dtype=arrays.fields.H.dtype))
        s1 = (jnp.asarray(0, dtype=jnp.int32), a1)
        for t in range(T):
            s1 = fwd(s1)
        a2 = s1[1].reset()
        a2 = a2.aset("fields->E", arrays.fields.E)
        arrays = a2.aset("fields->H", arrays.fields.H)
    st = (jnp.asarray(0, dtype=jnp.int32), arrays)
    traj, states = [fields(st)], [st] if keep else []
    for t in range(T):
        st = fwd(st)
        traj.append(fields(st))
        if keep:
            states.append(st)
    scale = max(1.0, max(float(np.abs(a).max()) for a, _ in traj), max(float(np.abs(b).max()) for _, b in traj))
    worst, bad, back = 0.0, None, {}
    for t in range(T, 0, -1):
        if keep:
            back[t] = st
        st = bwd(st)
        Eb, Hb = fields(st)
        e = max(float(np.abs((Eb - traj[t - 1][0]) * inter).max()), float(np.abs((Hb - traj[t - 1][1]) * inter).max()))
        if not np.isfinite(e):
            e = float("inf")
        if e > worst:
            worst, bad = e, t - 1
        if keep:
            back[(t, "out")] = st
    t_ok = int(st[0]) == 0
    return worst, scale, bad, t_ok, (sc, traj, states, back, (inv_eps, inv_mu), T)


def tol_of(c):
    return 2e-5 if c["recorder"] == "widen32" else 1e-9


def verdict(c, worst, scale, bad, t_ok):
    if not worst <= tol_of(c) * scale:
        return (f"reverse sweep differs from the forward run outside the absorbing layers by {worst:.3e} "
                f"(scale {scale:.3g}) at step {bad}")
    if not t_ok:
        return "time step after the reverse sweep is not 0"
    return None


def property_fails(c):
    if c.get("kind") == "full_backward":
        return full_backward_fails(c)
    worst, scale, bad, t_ok, _ = sweep(c)
    return verdict(c, worst, scale, bad, t_ok)


def full_backward_fails(c, strict=False):
    """the public route: run_fdtd (reversible gradient config; it resets the fields, so the run starts from zero and is
    driven by a CW source) then full_backward to an intermediate step k and to step 0, compared with the state that
    step-by-step forward() reaches at step k resp. with the zero initial state"""
    j = Y.J()
    f, jax, jnp = j["fdtdx"], j["jax"], j["jnp"]
    sc = scene_of(c)
    _, _, inv_eps, inv_mu, inter = materialise(c, sc)
    nx, ny, nz = c["shape"]
    z = np.zeros((3, nx, ny, nz))
    arrays = Y.with_state(sc, z, z, inv_eps, None if c["mu_tier"] == 0 else inv_mu)
    key = jax.random.PRNGKey(0)
    T = int(sc.config.time_steps_total)
    if c.get("twice"):
        # first run with OTHER materials; its container (recording buffers written) is handed to the second run —
        # reversible_fdtd resets fields and detector states but keeps the recording state
        r1 = np.random.default_rng(c["seed"] + 1)
        first = arrays.aset("inv_permittivities", jnp.asarray(r1.uniform(0.2, 1.0, np.asarray(arrays.inv_permittivities).shape)))
        st1 = f.run_fdtd(arrays=first, objects=sc.objects, config=sc.config, key=key, show_progress=False)
        arrays = st1[1].aset("inv_permittivities", arrays.inv_permittivities)
    st = f.run_fdtd(arrays=arrays, objects=sc.objects, config=sc.config, key=key, show_progress=False)
    if int(st[0]) != T:
        return f"run_fdtd stopped at step {int(st[0])}"
    ref = (jnp.asarray(0, dtype=jnp.int32), arrays.reset())
    k = T // 2
    ref = Y.impl_forward(sc, ref[1], t=0, n=k)
    Ek, Hk = fields(ref)
    Ef, Hf = fields(st)
    scale = max(float(np.abs(Ef).max()), float(np.abs(Hf).max()))
    if not scale > 1e-6:
        return None if not strict else f"vacuous scenario: the run produced no field (max {scale:.2e})"
    for target, (Et, Ht) in ((k, (Ek, Hk)), (0, (z, z)))[:c.get("targets", 2)]:
        s0 = f.full_backward(state=st, objects=sc.objects, config=sc.config, key=key, record_detectors=False,
                             reset_fields=True, start_time_step=target)
        Eb, Hb = fields(s0)
        e = max(float(np.abs((Eb - Et) * inter).max()), float(np.abs((Hb - Ht) * inter).max()))
        if not e <= 1e-9 * scale:
            return (f"full_backward(run_fdtd(.), start_time_step={target}) differs from the forward state outside the "
                    f"absorbing layers by {e:.3e} (scale {scale:.3g})")
        if int(s0[0]) != target:
            return f"full_backward did not stop at step {target}"
    return None


# ------------------------------------------------------------------------------------------------- K
def probe_sources(sc, mats, t):
    j = Y.J()
    jnp = j["jnp"]
    from fdtdx.fdtd.update import update_E, update_H
    nx, ny, nz = sc.shape
    z = np.zeros((3, nx, ny, nz))
    zero = Y.with_state(sc, z, z, mats[0], None if np.isscalar(mats[1]) else mats[1])
    tt = jnp.asarray(t, dtype=jnp.int32)
    jE = np.asarray(update_E(tt, zero, sc.objects, sc.config, True).fields.E)
    jH = np.asarray(update_H(tt, zero, sc.objects, sc.config, True).fields.H)
    return jE, jH


def k_steps(ctx, c, data):
    sc, traj, states, back, mats, T = data
    inv_eps, inv_mu = mats
    pmls = P.pml_list(sc)
    ts = sorted({T - 1, max(0, T // 2 - 1)})
    for t in ts:
        jE, jH = probe_sources(sc, mats, t)
        src = (jE, jH) if (np.any(jE != 0) or np.any(jH != 0)) else None
        # forward step t -> t+1
        f0, f1 = states[t][1].fields, states[t + 1][1].fields
        line = ["pmlfwd", "1"] + P.pmls_tokens(sc, f0.psi_E, f0.psi_H) + [P.yee_tail(sc, traj[t][0], traj[t][1], inv_eps, inv_mu, src)]
        case = dict(kind="k-forward", t=t, **c)
        try:
            (mE, mH), mps = P.decode(ctx.driver.ask(" ".join(line)), sc, 2, 4)
            ctx.expect_close("forward E,H", case, np.concatenate([traj[t + 1][0].ravel(), traj[t + 1][1].ravel()]),
                             np.concatenate([mE.ravel(), mH.ravel()]))
            ip = np.concatenate([np.asarray(a).ravel() for p in pmls for a in (*f1.psi_E[p.name], *f1.psi_H[p.name])])
            ctx.expect_close("forward psi", case, ip, np.concatenate([a.ravel() for p in pmls for a in mps[p.name]]))
        except ValueError as e:
            ctx.mismatch("forward", case, str(e))
        # backward step t+1 -> t : state before, recorded values = forward state at t+1, psi of the final state
        b_in, b_out = back[t + 1], back[(t + 1, "out")]
        Ei, Hi = fields(b_in)
        Eo, Ho = fields(b_out)
        fb = b_in[1].fields
        line = ["pmlbwd", "1", str(sc.shape[0]), str(sc.shape[1]), str(sc.shape[2])]
        line += [f2h(x) for x in traj[t + 1][0].ravel()] + [f2h(x) for x in traj[t + 1][1].ravel()]
        line += P.pmls_tokens(sc, fb.psi_E, fb.psi_H) + [P.yee_tail(sc, Ei, Hi, inv_eps, inv_mu, src)]
        case = dict(kind="k-backward", t=t, **c)
        try:
            (mE, mH), _ = P.decode(ctx.driver.ask(" ".join(line)), sc, 2, 0)
            ctx.expect_close("backward E,H", case, np.concatenate([Eo.ravel(), Ho.ravel()]), np.concatenate([mE.ravel(), mH.ravel()]))
        except ValueError as e:
            ctx.mismatch("backward", case, str(e))
        ctx.case(nontrivial=("k-step", t, c["seed"]), k_source_on=src is not None, k_step="last" if t == T - 1 else "middle")


def k_iface_scene(ctx, c, sc):
    for p in P.pml_list(sc):
        k_iface_one(ctx, c["shape"], p, "scene")


def k_iface_one(ctx, shape, p, label):
    th = int(p.thickness)
    rep = ctx.driver.ask(f"iface {shape[0]} {shape[1]} {shape[2]} {int(p.axis)} {'1' if p.direction == '+' else '0'} {th}")
    model = [int(x) for x in rep.split()] if rep != "bad-op" else []
    it = p.interface_slice_tuple()
    sl = p.interface_slice()
    impl = P.box_of(p) + [int(x) for pr in it for x in pr]
    impl_sl = [int(x) for s in sl for x in (s.start, s.stop)]
    case = dict(kind="iface", shape=list(shape), axis=int(p.axis), direction=p.direction, thickness=th, label=label)
    ctx.expect_equal("grid_slice_tuple + interface_slice_tuple", case, impl, model)
    ctx.expect_equal("interface_slice", case, impl_sl, model[6:])
    ctx.case(nontrivial=("iface", tuple(shape), int(p.axis), p.direction, th), iface_axis=int(p.axis), iface_dir=p.direction,
             iface_th=th, iface_from=label)
    # oracle: the interface layer is the innermost layer of the box
    ctx.impl_property_evals += 1
    b = P.box_of(p)
    a = int(p.axis)
    exp = list(b)
    if p.direction == "+":
        exp[2 * a + 1] = b[2 * a] + 1
    else:
        exp[2 * a] = b[2 * a + 1] - 1
    if impl[6:] != exp or impl_sl != exp:
        ctx.violation(case, f"interface slice {impl[6:]} / {impl_sl} is not the innermost layer {exp} of the box {b}")


def k_iface_direct(ctx, sc, shape):
    """boundaries placed directly (base-class placement only, no coefficient arrays) for every axis x direction x th"""
    j = Y.J()
    f, jax = j["fdtdx"], j["jax"]
    from fdtdx.objects.object import SimulationObject
    for axis in range(3):
        for d in ("-", "+"):
            for th in range(1, 5):
                if th > shape[axis]:
                    continue
                box = [(0, shape[0]), (0, shape[1]), (0, shape[2])]
                box[axis] = (shape[axis] - th, shape[axis]) if d == "+" else (0, th)
                shp = [None, None, None]
                shp[axis] = th
                q = f.PerfectlyMatchedLayer(axis=axis, partial_grid_shape=tuple(shp), direction=d, name="q")
                q = SimulationObject.place_on_grid(q, tuple(box), sc.config, jax.random.PRNGKey(0))
                k_iface_one(ctx, shape, q, "direct")


def one_case(ctx, c, sample=False, k=True):
    worst, scale, bad, t_ok, data = sweep(c, keep=k)
    ctx.impl_property_evals += 1
    d = verdict(c, worst, scale, bad, t_ok)
    npml = len(c["spec"])
    ctx.case(sample={kk: c.get(kk) for kk in ("shape", "faces", "spec", "source", "T", "recorder", "twice", "seed")} if sample else None,
             nontrivial=("sweep", c["seed"], c["recorder"]), recorded_twice=bool(c.get("twice")), n_pml_faces=npml, T=c["T"], recorder=c["recorder"],
             grid="nonuniform" if c["widths"] else "uniform", source=(c["source"] or {}).get("kind", "none"),
             tilted=bool(c["source"]) and c["source"]["kind"].startswith("dipole") and any(c["source"].get("tilt", [0, 0])),
             switch=(c["source"] or {}).get("switch", "-"),
             max_thickness=max(c["spec"].values()), has_periodic="periodic" in c["faces"].values(),
             has_wall=any(v in ("pec", "pmc") for v in c["faces"].values()))
    if d:
        ctx.violation(c, d)
    ctx.extra["worst_interior_error"] = max(ctx.extra.get("worst_interior_error", 0.0), worst / scale if c["recorder"] == "plain" else 0.0)
    if k:
        k_steps(ctx, c, data)
        k_iface_scene(ctx, c, data[0])
    return data[0]


FORCED = [
    # PML on all six faces with mixed thicknesses: every edge and corner overlap
    dict(shape=[8, 7, 7], faces={k: "pml" for k in Y.FACES},
         spec={"min_x": 2, "max_x": 3, "min_y": 1, "max_y": 2, "min_z": 3, "max_z": 1}, widths=None,
         source=dict(kind="dipole_m", pol=0, axis=0, direction="+", amp=1.3, pos=[3, 2, 4], switch="start", profile="cw",
                     tilt=[30.0, 20.0]),
         eps_tier=1, mu_tier=0, T=5, twice=True),
    dict(shape=[7, 6, 6], faces={"min_x": "pml", "max_x": "pml", "min_y": "periodic", "max_y": "periodic", "min_z": "pec", "max_z": "pml"},
         spec={"min_x": 2, "max_x": 1, "max_z": 3}, widths=None,
         source=dict(kind="plane", pol=1, axis=0, direction="-", amp=1.0, pos=[3, 2, 1], switch="interval", profile="cw"),
         eps_tier=3, mu_tier=3, T=6),
]


def run(ctx):
    n = ctx.scale(2, 14)
    cases = []
    for fc in (FORCED if ctx.thorough else FORCED[:1]):
        c = gen_case(ctx.rng, ctx.thorough)
        c.update(fc)
        cases.append(c)
    while len(cases) < n:
        cases.append(gen_case(ctx.rng, ctx.thorough))
    sc = None
    for i, c in enumerate(cases):
        sc = one_case(ctx, c, sample=i < 2)
    k_iface_direct(ctx, sc, cases[-1]["shape"])
    if ctx.thorough:
        k_iface_direct(ctx, sc, [5, 9, 4])
    # widening DtypeConversion recorder, float32 run (implementation-side oracle only)
    for _ in range(ctx.scale(1, 3)):
        c = gen_case(ctx.rng, False, small=True)
        c["recorder"], c["eps_tier"], c["mu_tier"] = "widen32", 1, 0
        c["widths"] = None   # float64 grid edges would promote the float32 fields (x64 is enabled process-wide)
        c["T"] = min(c["T"], 6)
        one_case(ctx, c, sample=True, k=False)
    # public route
    for _ in range(ctx.scale(1, 3)):
        c = gen_case(ctx.rng, False, small=True)
        c["kind"] = "full_backward"
        c["T"] = min(c["T"], 6)
        if c["source"] is None:
            c["source"] = dict(kind="dipole_e", pol=1, axis=0, direction="+", amp=1.0, pos=[0, 0, 0])
        # keep the source off the PEC/PMC wall layers (a tangential dipole there is zeroed: nothing would be radiated)
        lo = [max(1, c["spec"].get(Y.FACES[2 * a], 0)) for a in range(3)]
        hi = [min(c["shape"][a] - 2, c["shape"][a] - c["spec"].get(Y.FACES[2 * a + 1], 0) - 1) for a in range(3)]
        c["source"]["pos"] = [ctx.rng.randint(lo[a], max(lo[a], hi[a])) for a in range(3)]
        c["source"]["profile"] = "cw"
        c["twice"] = True
        c["targets"] = ctx.scale(1, 2)   # quick: only the intermediate step (each target is one more jit compilation)
        d = full_backward_fails(c, strict=True)
        ctx.impl_property_evals += 1
        vac = bool(d) and d.startswith("vacuous")
        ctx.case(nontrivial=None if vac else ("full_backward", c["seed"]), route="run_fdtd+full_backward", route_vacuous=vac)
        if d and not vac:
            ctx.violation(c, d)


def search(ctx, hints):
    for h in hints:
        if isinstance(h, dict) and "spec" in h:
            ctx.impl_property_evals += 1
            hh = {k: v for k, v in h.items() if k not in ("kind", "t")} if h.get("kind", "").startswith("k-") else h
            d = property_fails(hh)
            if d:
                ctx.violation(hh, d)
                return
    rng = ctx.rng.fork()
    for i in range(ctx.scale(12, 60)):
        c = gen_case(rng, False, small=(i % 2 == 0))
        if i % 2 == 0:
            c["T"] = min(c["T"], 5)
        ctx.impl_property_evals += 1
        d = property_fails(c)
        if d:
            ctx.violation(c, d)
            return


def replay(ctx, inp):
    return property_fails(inp)
