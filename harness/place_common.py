"""Shared by harness/c26.py and harness/c27.py: constraint-system generator, adapters to
fdtdx.resolve_object_constraints / place_objects, the model encoding (lean/FdtdxModel/C26.lean) and the
independent Python oracles of the two properties.

A system is a JSON-serialisable dict
  grid        {"kind": "uniform", "spacing": s}  |  {"kind": "custom", "edges": [[...], [...], [...]]}
  objects     [{"name", "vol", "gshape": [n|None]*3, "rshape": [x|None]*3, "rpos": [x|None]*3}, ...]   id = list index
  constraints [{"t": "G"|"R"|"P"|"S"|"X", ...}, ...]
  max_iter    int
Object ids (= index in `objects`) are stable under the permutations `obj_order` / `con_order`.
"""
import itertools
import math

import numpy as np

from .common import f2h

_J = None


def J():
    global _J
    if _J is None:
        import jax
        jax.config.update("jax_enable_x64", True)
        import fdtdx
        from fdtdx.config import SimulationConfig
        from fdtdx.core.grid import RectilinearGrid, UniformGrid
        from fdtdx.fdtd import initialization as ini
        from fdtdx.materials import Material
        from fdtdx.objects import object as ob
        from fdtdx.objects.static_material.static import SimulationVolume, UniformMaterialObject
        _J = dict(fdtdx=fdtdx, SimulationConfig=SimulationConfig, RectilinearGrid=RectilinearGrid, UniformGrid=UniformGrid,
                  ini=ini, Material=Material, ob=ob, SimulationVolume=SimulationVolume,
                  UniformMaterialObject=UniformMaterialObject, mat=Material(permittivity=2.0))
    return _J


# ------------------------------------------------------------------------------------ implementation side
def build(sys):
    """fdtdx objects / constraints / config of a system (cached on the dict)"""
    if "_built" in sys:
        return sys["_built"]
    j = J()
    ob = j["ob"]
    objs = []
    for o in sys["objects"]:
        kw = dict(name=o["name"], partial_grid_shape=tuple(o["gshape"]), partial_real_shape=tuple(o["rshape"]),
                  partial_real_position=tuple(o["rpos"]))
        if o["vol"]:
            objs.append(j["SimulationVolume"](**kw))
        else:
            objs.append(j["UniformMaterialObject"](material=j["mat"], **kw))
    names = [o["name"] for o in sys["objects"]]

    def nm(i):
        return None if i is None else (names[i] if isinstance(i, int) and 0 <= i < len(names) else str(i))

    cons = []
    for c in sys["constraints"]:
        t = c["t"]
        sd = lambda ss: tuple("+" if s else "-" for s in ss)
        if t == "G":
            cons.append(ob.GridCoordinateConstraint(object=nm(c["o"]), axes=tuple(c["axes"]), sides=sd(c["sides"]),
                                                    coordinates=tuple(c["coords"])))
        elif t == "R":
            cons.append(ob.RealCoordinateConstraint(object=nm(c["o"]), axes=tuple(c["axes"]), sides=sd(c["sides"]),
                                                    coordinates=tuple(c["coords"])))
        elif t == "P":
            cons.append(ob.PositionConstraint(object=nm(c["o"]), other_object=nm(c["other"]), axes=tuple(c["axes"]),
                                              object_positions=tuple(c["own"]), other_object_positions=tuple(c["otherpos"]),
                                              margins=tuple(c["margins"]), grid_margins=tuple(c["gmargins"])))
        elif t == "S":
            cons.append(ob.SizeConstraint(object=nm(c["o"]), other_object=nm(c["other"]), axes=tuple(c["axes"]),
                                          other_axes=tuple(c["other_axes"]), proportions=tuple(c["props"]),
                                          offsets=tuple(c["offsets"]), grid_offsets=tuple(c["goffsets"])))
        elif t == "X":
            cons.append(ob.SizeExtensionConstraint(object=nm(c["o"]), other_object=nm(c["other"]), axis=c["axis"],
                                                   direction="+" if c["dir"] else "-", other_position=c["opos"],
                                                   offset=c["offset"], grid_offset=c["goffset"]))
        else:
            raise ValueError(t)
    g = sys["grid"]
    if g["kind"] == "uniform":
        grid = j["UniformGrid"](spacing=g["spacing"], center=tuple(g.get("center", (0, 0, 0))))
    else:
        import jax.numpy as jnp
        grid = j["RectilinearGrid"].custom(*[jnp.asarray(e, dtype=jnp.float64) for e in g["edges"]])
    cfg = j["SimulationConfig"](grid=grid, time=100e-15)
    sys["_built"] = (objs, cons, cfg)
    return sys["_built"]


def grid_info(sys):
    """edges / is_uniform / uniform spacing of the realised grid (None when the code cannot realise it)"""
    if "_grid" in sys:
        return sys["_grid"]
    j = J()
    objs, cons, cfg = build(sys)
    try:
        cfg2 = j["ini"]._resolve_grid_from_volume(objs, cfg)
        grid = cfg2.grid
        edges = [[float(x) for x in np.asarray(grid.edges(a), dtype=np.float64)] for a in range(3)]
        uni = bool(grid.is_uniform)
        h = float(cfg2.uniform_spacing()) if uni else 0.0
        sys["_grid"] = dict(edges=edges, uniform=uni, h=h)
    except Exception:
        sys["_grid"] = None
    return sys["_grid"]


def declared_edges(sys):
    """the physical edge coordinates the USER declared, computed without looking at the resolved grid:
    explicit edges, or for a UniformGrid policy  edge_i = centre_a - n_a*h/2 + i*h  (the documented centre-origin
    convention; n_a from the volume's declared shape).  None when the declaration is incomplete."""
    g = sys["grid"]
    if g["kind"] != "uniform":
        return [list(map(float, e)) for e in g["edges"]]
    vols = [o for o in sys["objects"] if o["vol"]]
    if len(vols) != 1:
        return None
    h = g["spacing"]
    c = g.get("center", (0.0, 0.0, 0.0))
    res = []
    for a in range(3):
        n = vols[0]["gshape"][a]
        if n is None:
            if vols[0]["rshape"][a] is None:
                return None
            n = round(vols[0]["rshape"][a] / h)
        if n <= 0:
            return None
        res.append([c[a] - n * h / 2.0 + i * h for i in range(n + 1)])
    return res


def run_impl(sys, obj_order=None, con_order=None):
    """fdtdx.resolve_object_constraints on the (permuted) system, canonical outcome"""
    j = J()
    objs, cons, cfg = build(sys)
    oo = list(range(len(objs))) if obj_order is None else obj_order
    co = list(range(len(cons))) if con_order is None else con_order
    names = [o["name"] for o in sys["objects"]]
    try:
        slices, errors = j["fdtdx"].resolve_object_constraints([objs[i] for i in oo], [cons[k] for k in co], cfg,
                                                             max_iter=sys.get("max_iter", 1000))
    except Exception as e:  # noqa: BLE001 - the class is the observation
        return {"kind": "raised", "cls": type(e).__name__}
    idx = {}
    for i in oo:
        idx.setdefault(names[i], i)
    return {"kind": "done",
            "errs": sorted({idx[n] for n, m in errors.items() if m}),
            "slices": {idx[n]: [[s[0], s[1]] for s in sl] for n, sl in slices.items()}}


def ok(out):
    return out["kind"] == "done" and not out["errs"]


def run_place_objects(sys, obj_order=None, con_order=None):
    """fdtdx.place_objects: ('ok', {id: slices}) or ('raised', cls)"""
    j = J()
    objs, cons, cfg = build(sys)
    oo = list(range(len(objs))) if obj_order is None else obj_order
    co = list(range(len(cons))) if con_order is None else con_order
    names = [o["name"] for o in sys["objects"]]
    try:
        oc, arrays, params, cfg2, info = j["fdtdx"].place_objects([objs[i] for i in oo], cfg, [cons[k] for k in co])
    except Exception as e:  # noqa: BLE001
        return ("raised", type(e).__name__)
    return ("ok", {names.index(o.name): [[a, b] for (a, b) in o.grid_slice_tuple] for o in oc.objects})


# ------------------------------------------------------------------------------------------- model side
def _of(x):
    return "N" if x is None else f2h(x)


def _oi(x):
    return "N" if x is None else str(int(x))


def encode(sys, obj_order=None, con_order=None, op="solve"):
    gi = grid_info(sys)
    oo = list(range(len(sys["objects"]))) if obj_order is None else obj_order
    co = list(range(len(sys["constraints"]))) if con_order is None else con_order
    t = [op, str(sys.get("max_iter", 1000)), "1" if gi["uniform"] else "0", f2h(gi["h"])]
    for e in gi["edges"]:
        t += ["E", str(len(e))] + [f2h(x) for x in e]
    t += ["O", str(len(oo))]
    ids = {}
    for i, o in enumerate(sys["objects"]):
        ids.setdefault(o["name"], i)           # duplicate names share one id, as in the code's dicts
    for i in oo:
        o = sys["objects"][i]
        t += [str(ids[o["name"]]), "1" if o["vol"] else "0"] + [_oi(x) for x in o["gshape"]] + [_of(x) for x in o["rshape"]] \
            + [_of(x) for x in o["rpos"]]
    t += ["C", str(len(co))]
    for k in co:
        c = sys["constraints"][k]
        ty = c["t"]
        if ty == "G":
            t += ["G", str(c["o"]), str(len(c["axes"]))]
            for a, s, x in zip(c["axes"], c["sides"], c["coords"]):
                t += [str(a), "1" if s else "0", str(int(x))]
        elif ty == "R":
            t += ["R", str(c["o"]), str(len(c["axes"]))]
            for a, s, x in zip(c["axes"], c["sides"], c["coords"]):
                t += [str(a), "1" if s else "0", f2h(x)]
        elif ty == "P":
            t += ["P", str(c["o"]), str(c["other"]), str(len(c["axes"]))]
            for a, p, q, m, gm in zip(c["axes"], c["own"], c["otherpos"], c["margins"], c["gmargins"]):
                t += [str(a), f2h(p), f2h(q), _of(m), _oi(gm)]
        elif ty == "S":
            t += ["S", str(c["o"]), str(c["other"]), str(len(c["axes"]))]
            for a, oa, p, of, go in zip(c["axes"], c["other_axes"], c["props"], c["offsets"], c["goffsets"]):
                t += [str(a), str(oa), f2h(p), _of(of), _oi(go)]
        elif ty == "X":
            t += ["X", str(c["o"]), "N" if c["other"] is None else str(c["other"]), str(c["axis"]), "1" if c["dir"] else "0",
                  f2h(c["opos"]), _of(c["offset"]), _oi(c["goffset"])]
    return " ".join(t)


def parse_reply(rep):
    if rep == "raised":
        return {"kind": "raised"}
    if not rep.startswith("done |"):
        raise RuntimeError("model reply: " + rep[:200])
    _, errs, sl = rep.split("|")
    out = {"kind": "done", "errs": sorted({int(x) for x in errs.split()}), "slices": {}}
    for part in sl.split(";"):
        f = part.split()
        if f:
            v = [None if x == "N" else int(x) for x in f[1:]]
            out["slices"].setdefault(int(f[0]), [[v[0], v[1]], [v[2], v[3]], [v[4], v[5]]])
    return out


def same_outcome(impl, model):
    """complete comparison (error class only for raised)"""
    if impl["kind"] != model["kind"]:
        return False
    if impl["kind"] == "raised":
        return True
    return impl["errs"] == model["errs"] and impl["slices"] == model["slices"]


def strip(sys):
    return {k: v for k, v in sys.items() if not k.startswith("_")}


# ------------------------------------------------------------------------- C26 oracle (independent of the model)
def _nearest_ok(vals, got_idx, target, scale):
    """vals[got_idx] is a closest element of vals to target"""
    if not (0 <= got_idx < len(vals)):
        return False
    d = abs(vals[got_idx] - target)
    return d <= min(abs(v - target) for v in vals) + 1e-9 * scale


def c26_violations(sys, out):
    """the property statement evaluated on resolved slices of a successful placement; list of strings"""
    if not ok(out):
        return []
    gi = grid_info(sys)
    # physical coordinates are taken from the DECLARED grid (centre/spacing/shape), never read back from the grid the
    # implementation resolved: a misplaced resolved grid must show up as violated real-coordinate constraints
    E = declared_edges(sys) or gi["edges"]
    sl = out["slices"]
    objs = sys["objects"]
    bad = []
    if [len(e) for e in E] != [len(e) for e in gi["edges"]]:
        return [f"the resolved grid has {[len(e) - 1 for e in gi['edges']]} cells, declared {[len(e) - 1 for e in E]}"]
    vol = next(i for i, o in enumerate(objs) if o["vol"])
    scale = max(abs(E[a][-1] - E[a][0]) for a in range(3))
    h = gi["h"]
    for i in sl:
        for a in range(3):
            if sl[i][a][0] is None or sl[i][a][1] is None:
                return [f"object {i} axis {a} unresolved in a successful placement"]

    def anchor(a, lo, hi, p):
        return E[a][lo] + 0.5 * (p + 1.0) * (E[a][hi] - E[a][lo])

    def inside(a, lo, hi):
        return 0 <= lo <= len(E[a]) - 1 and 0 <= hi <= len(E[a]) - 1

    def size_ok(a, length, got):
        e = E[a]
        if gi["uniform"]:
            return _nearest_ok(e, got, e[0] + length, scale)
        end = e[0] + length
        if 0 <= got < len(e) and abs(end - e[got]) < 1e-6 * min(min(np.diff(x)) for x in E) and _nearest_ok(e, got, end, scale):
            return True
        need = next((k for k in range(len(e)) if e[k] >= end), len(e))     # upper snap: enough cells to cover
        return got == min(need, len(e) - 1)

    touched = set()
    for i, o in enumerate(objs):
        for a in range(3):
            lo, hi = sl[i][a]
            vlo, vhi = sl[vol][a]
            if i != vol and not (vlo <= lo and hi <= vhi and lo < hi):
                bad.append(f"object {i} axis {a}: slice {(lo, hi)} not a positive interval inside the volume {(vlo, vhi)}")
            if o["gshape"][a] is not None:
                touched.add((i, a))
                if hi - lo != o["gshape"][a]:
                    bad.append(f"object {i} axis {a}: size {hi - lo} != partial_grid_shape {o['gshape'][a]}")
            elif o["rshape"][a] is not None:
                touched.add((i, a))
                if not size_ok(a, o["rshape"][a], hi - lo):
                    bad.append(f"object {i} axis {a}: size {hi - lo} is not the snapped partial_real_shape {o['rshape'][a]}")
            if o["rpos"][a] is not None:
                touched.add((i, a))
                s = hi - lo
                cands = [0.5 * (E[a][l] + E[a][l + s]) for l in range(0, len(E[a]) - s)]
                want = o["rpos"][a] + 0.5 * (E[a][0] + E[a][-1])
                if not _nearest_ok(cands, lo, want, scale):
                    bad.append(f"object {i} axis {a}: slice {(lo, hi)} is not the interval centred nearest to partial_real_position")
    for k, c in enumerate(sys["constraints"]):
        t = c["t"]
        i = c["o"]
        if t == "G":
            for a, s, x in zip(c["axes"], c["sides"], c["coords"]):
                touched.add((i, a))
                if sl[i][a][1 if s else 0] != x:
                    bad.append(f"constraint {k} (grid coordinate): object {i} axis {a} side {'+' if s else '-'} is {sl[i][a][1 if s else 0]}, not {x}")
        elif t == "R":
            for a, s, x in zip(c["axes"], c["sides"], c["coords"]):
                touched.add((i, a))
                if not _nearest_ok(E[a], sl[i][a][1 if s else 0], x, scale):
                    bad.append(f"constraint {k} (real coordinate): object {i} axis {a} bound {sl[i][a][1 if s else 0]} is not the edge nearest to {x}")
        elif t == "P":
            for a, p, q, m, gm in zip(c["axes"], c["own"], c["otherpos"], c["margins"], c["gmargins"]):
                touched.add((i, a))
                lo, hi = sl[i][a]
                olo, ohi = sl[c["other"]][a]
                if not (inside(a, lo, hi) and inside(a, olo, ohi)):
                    bad.append(f"constraint {k} (position): slices outside the grid")
                    continue
                want = anchor(a, olo, ohi, q) + (m or 0.0) + ((gm or 0) * h if gm else 0.0)
                s = hi - lo
                cands = [anchor(a, l, l + s, p) for l in range(0, len(E[a]) - s)]
                if not _nearest_ok(cands, lo, want, scale):
                    bad.append(f"constraint {k} (position): object {i} axis {a} at {(lo, hi)}: anchor {anchor(a, lo, hi, p)} is not "
                               f"the nearest achievable to {want} (other at {(olo, ohi)})")
        elif t == "S":
            for a, oa, p, of, go in zip(c["axes"], c["other_axes"], c["props"], c["offsets"], c["goffsets"]):
                touched.add((i, a))
                lo, hi = sl[i][a]
                olo, ohi = sl[c["other"]][oa]
                if not inside(oa, olo, ohi):
                    bad.append(f"constraint {k} (size): other slice outside the grid")
                    continue
                length = (E[oa][ohi] - E[oa][olo]) * p + (of or 0.0) + ((go or 0) * h if go else 0.0)
                if not size_ok(a, length, hi - lo):
                    bad.append(f"constraint {k} (size): object {i} axis {a} has {hi - lo} cells, length wanted {length}")
        elif t == "X":
            a = c["axis"]
            touched.add((i, a))
            got = sl[i][a][1 if c["dir"] else 0]
            if c["other"] is None:
                if got != sl[vol][a][1 if c["dir"] else 0]:
                    bad.append(f"constraint {k} (extension to the boundary): object {i} axis {a} bound {got} != volume bound")
            else:
                olo, ohi = sl[c["other"]][a]
                if not inside(a, olo, ohi):
                    bad.append(f"constraint {k} (extension): other slice outside the grid")
                    continue
                want = anchor(a, olo, ohi, c["opos"]) + (c["offset"] or 0.0) + ((c["goffset"] or 0) * h if c["goffset"] else 0.0)
                if not _nearest_ok(E[a], got, want, scale):
                    bad.append(f"constraint {k} (extension): object {i} axis {a} bound {got} is not the edge nearest to {want}")
    for i in range(len(objs)):
        for a in range(3):
            if (i, a) not in touched and i != vol and sl[i][a] != sl[vol][a]:
                bad.append(f"object {i} axis {a} is unconstrained but spans {sl[i][a]}, volume is {sl[vol][a]}")
    return bad


# ----------------------------------------------------------------------- C27 oracle (independent of the model)
def orders(sys, rng, max_perm_cons=4, n_random=6, n_obj_orders=2):
    """(obj_order, con_order) pairs: all constraint permutations when there are few, random ones otherwise"""
    no, nc = len(sys["objects"]), len(sys["constraints"])
    ident_o, ident_c = list(range(no)), list(range(nc))
    res = []
    if nc <= max_perm_cons:
        cps = [list(p) for p in itertools.permutations(range(nc))]
    else:
        cps = [ident_c, ident_c[::-1]] + [rng.shuffle(ident_c) for _ in range(n_random)]
    ops = [ident_o, ident_o[::-1]] + [rng.shuffle(ident_o) for _ in range(max(0, n_obj_orders - 1))]
    for ci, cp in enumerate(cps):
        res.append((ident_o, cp))
        res.append((ops[1 + ci % (len(ops) - 1)], cp))
    seen, uniq = set(), []
    for o, c in res:
        key = (tuple(o), tuple(c))
        if key not in seen:
            seen.add(key)
            uniq.append((o, c))
    return uniq


def c27_disagreement(outs):
    """first pair of orders whose results disagree: (detail, order_a, order_b) or None"""
    (o0, c0), base = outs[0]
    for (oo, co), out in outs[1:]:
        if ok(out) != ok(base):
            a, b = ((o0, c0), (oo, co)) if ok(base) else ((oo, co), (o0, c0))
            return (f"placement succeeds with object order {list(a[0])} / constraint order {list(a[1])} but fails with "
                    f"{list(b[0])} / {list(b[1])}", a, b)
        if ok(base) and out["slices"] != base["slices"]:
            return (f"slices differ between orders {(o0, c0)} and {(oo, co)}: {base['slices']} vs {out['slices']}",
                    (o0, c0), (oo, co))
    return None


def c27_violation(sys, outs):
    """outs: list of ((obj_order, con_order), outcome).  The property: success and slices agree."""
    d = c27_disagreement(outs)
    return d[0] if d else None


def shrink_pair(sys, order_a, order_b, fails_pair, budget=200):
    """shrink a system on which two orders disagree, keeping the relative order of what remains.
    The system is first rewritten in order A; order B becomes a permutation relative to it."""
    oa, ca = list(order_a[0]), list(order_a[1])
    ob, cb = list(order_b[0]), list(order_b[1])
    cur = materialize(sys, oa, ca)
    orel = [oa.index(i) for i in ob]
    crel = [ca.index(k) for k in cb]

    def drop(perm, j):
        return [x - 1 if x > j else x for x in perm if x != j]

    if not fails_pair(cur, orel, crel):
        return None
    progress = True
    while progress and budget > 0:
        progress = False
        for k in range(len(cur["constraints"]) - 1, -1, -1):
            cand = json_copy(cur)
            cand["constraints"].pop(k)
            c2 = drop(crel, k)
            budget -= 1
            if fails_pair(cand, orel, c2):
                cur, crel, progress = cand, c2, True
        for i in range(len(cur["objects"]) - 1, -1, -1):
            cand = _drop_object(cur, i)
            if cand is None:
                continue
            o2 = drop(orel, i)
            budget -= 1
            if fails_pair(cand, o2, crel):
                cur, orel, progress = cand, o2, True
    ident = (list(range(len(cur["objects"]))), list(range(len(cur["constraints"]))))
    return json_copy(cur), [ident, (orel, crel)]          # without the caches


# ------------------------------------------------------------------------------------------------ generator
POS = [-1.0, 1.0, 0.0, -1.0, 1.0, 0.5, -0.5]


def _pick_slice(rng, n):
    if n == 1 or rng.chance(0.12):
        return (0, n)
    lo = rng.randint(0, n - 1)
    hi = rng.randint(lo + 1, n)
    return (lo, hi)


def gen_system(rng, big=False):
    """structured generator: pick a target slice per object and axis, then describe it through a random mix of
    static shapes / positions and the five constraint kinds, then perturb (redundant, conflicting, missing,
    malformed pieces).  Returns (system, tags)."""
    tags = {}
    nonuni = rng.chance(0.22)
    shape = [rng.choice([1, 2, 3, 4, 5, 6, 7, 8] if not big else [1, 3, 5, 8, 9, 12]) for _ in range(3)]
    if max(shape) < 3:
        shape[rng.randint(0, 2)] = rng.randint(3, 8)
    explicit_uniform = (not nonuni) and rng.chance(0.12)      # an explicit RectilinearGrid with equal widths
    if nonuni or explicit_uniform:
        unit = rng.choice([1.0, 0.25, 2.5e-8])
        edges = []
        for a in range(3):
            w = [unit * (rng.choice([0.5, 1.0, 1.0, 1.5, 2.0]) if nonuni else 1.0) for _ in range(shape[a])]
            tot = sum(w)
            x0 = -tot / 2 if rng.chance(0.7) else 0.0
            e = [x0]
            for x in w:
                e.append(e[-1] + x)
            edges.append(e)
        if nonuni and all(abs((e[k + 1] - e[k]) - (edges[0][1] - edges[0][0])) < 1e-3 * unit for e in edges for k in range(len(e) - 1)):
            edges[0][-1] += 0.5 * unit
        grid = {"kind": "custom", "edges": edges}
        sp = unit
    else:
        sp = rng.choice([1.0, 1.0, 0.5, 0.1, 2.5e-8])
        grid = {"kind": "uniform", "spacing": sp}
        cen = [0.0, 0.0, 0.0]
        if rng.chance(0.45):        # non-zero, pairwise different centre components, both signs, no multiples of the spacing
            cen = [sp * x for x in rng.shuffle([0.3, -1.7, 2.45, -0.55, 3.2, -2.35, 1.15])[:3]]
            grid["center"] = cen
            tags["centre"] = "shifted"
        edges = [[cen[a] + (k - shape[a] / 2) * sp for k in range(shape[a] + 1)] for a in range(3)]
    tags["grid"] = "nonuniform" if nonuni else ("explicit_uniform" if explicit_uniform else "uniform")
    n_other = rng.choice([0, 1, 1, 2, 2, 3, 3, 4, 5, 7] if not big else [2, 3, 4, 5, 6, 7, 7])
    tags["objects"] = n_other + 1
    vol = {"name": "vol", "vol": True, "gshape": list(shape), "rshape": [None] * 3, "rpos": [None] * 3}
    objs = [vol]
    cons = []
    if not nonuni and not explicit_uniform and rng.chance(0.2):
        a = rng.randint(0, 2)
        vol["gshape"][a] = None
        vol["rshape"][a] = shape[a] * sp
        tags["vol_real_shape"] = 1
    elif (nonuni or explicit_uniform) and rng.chance(0.35):
        # the volume declares no shape on one axis; its upper bound comes from a constraint (or from nowhere)
        a = rng.randint(0, 2)
        vol["gshape"][a] = None
        r = rng.random()
        if r < 0.45:
            cons.append({"t": "R", "o": 0, "axes": [a], "sides": [True], "coords": [edges[a][-1]]})
        elif r < 0.8 and explicit_uniform:
            cons.append({"t": "G", "o": 0, "axes": [a], "sides": [True], "coords": [shape[a]]})
        else:
            tags["vol_bound_missing"] = 1          # never settles: every pass "extends" to an unknown volume size
        tags["vol_bound_from_constraint"] = 1
    target = [[(0, shape[a]) for a in range(3)]]
    for i in range(1, n_other + 1):
        objs.append({"name": f"obj{i}", "vol": False, "gshape": [None] * 3, "rshape": [None] * 3, "rpos": [None] * 3})
        target.append([_pick_slice(rng, shape[a]) for a in range(3)])

    def ext_of(a, lo, hi):
        return edges[a][hi] - edges[a][lo]

    def anchor(a, lo, hi, p):
        return edges[a][lo] + 0.5 * (p + 1.0) * (edges[a][hi] - edges[a][lo])

    def jitter():
        r = rng.random()
        if r < 0.55:
            return 0.0
        if r < 0.8:
            return rng.uniform(-0.4, 0.4) * sp * 0.5
        if r < 0.9:
            return 0.5 * sp * rng.choice([1, -1]) * 0.5          # towards a tie on coarse grids
        return rng.uniform(-1.6, 1.6) * sp

    def other_for(i):
        if i > 1 and rng.chance(0.75):
            return rng.randint(1, i - 1) if rng.chance(0.7) else 0
        if rng.chance(0.12) and n_other >= 2:
            return rng.choice([k for k in range(1, n_other + 1) if k != i])      # may create a cycle
        return 0

    def give_size(i, a, s):
        """describe the size of (i, a); returns a tag"""
        lo, hi = target[i][a]
        r = rng.random()
        if r < 0.5:
            objs[i]["gshape"][a] = s
            return "gshape"
        if r < 0.75:
            objs[i]["rshape"][a] = ext_of(a, lo, hi) + (jitter() if rng.chance(0.3) else 0.0)
            return "rshape"
        t = other_for(i)
        oa = a if rng.chance(0.8) else rng.randint(0, 2)
        olo, ohi = target[t][oa]
        prop = rng.choice([1.0, 1.0, 0.5, 2.0, 0.25])
        off = ext_of(a, lo, hi) - ext_of(oa, olo, ohi) * prop
        go = None
        if not nonuni and rng.chance(0.4):
            go = int(round(off / sp))
            off = off - go * sp if rng.chance(0.5) else 0.0
        cons.append({"t": "S", "o": i, "other": t, "axes": [a], "other_axes": [oa], "props": [prop],
                     "offsets": [off if abs(off) > 0 or rng.chance(0.7) else None], "goffsets": [go if go is not None else (0 if rng.chance(0.7) else None)]})
        return "sizecon"

    def coord_con(i, a, side, idx):
        if nonuni or rng.chance(0.4):
            cons.append({"t": "R", "o": i, "axes": [a], "sides": [side], "coords": [edges[a][idx] + jitter()]})
            return "real"
        cons.append({"t": "G", "o": i, "axes": [a], "sides": [side], "coords": [idx]})
        return "gridc"

    def ext_con(i, a, side, idx):
        if (idx == (shape[a] if side else 0)) and rng.chance(0.7):
            cons.append({"t": "X", "o": i, "other": None, "axis": a, "dir": side, "opos": -1.0 if side else 1.0,
                         "offset": 0.0, "goffset": 0})
            return "ext_boundary"
        t = other_for(i)
        olo, ohi = target[t][a]
        q = rng.choice([-1.0, 1.0, 0.0]) if rng.chance(0.5) else (-1.0 if side else 1.0)
        off = edges[a][idx] - anchor(a, olo, ohi, q) + jitter()
        go = 0
        if not nonuni and rng.chance(0.4):
            go = int(round(off / sp))
            off = off - go * sp
        cons.append({"t": "X", "o": i, "other": t, "axis": a, "dir": side, "opos": q, "offset": off, "goffset": go})
        return "ext_object"

    modes = ["free", "size_only", "coord_one", "coord_both", "pos", "pos", "ext_one", "ext_both", "rpos", "coord_ext"]
    for i in range(1, n_other + 1):
        for a in range(3):
            lo, hi = target[i][a]
            s = hi - lo
            m = rng.choice(modes)
            if m == "free":
                tg = "free"
            elif m == "size_only":
                tg = "size_only:" + give_size(i, a, s)
            elif m == "coord_one":
                tg = "coord_one:" + give_size(i, a, s) + ":" + (coord_con(i, a, True, hi) if rng.chance(0.5) else coord_con(i, a, False, lo))
            elif m == "coord_both":
                tg = "coord_both:" + coord_con(i, a, False, lo) + ":" + coord_con(i, a, True, hi)
                if rng.chance(0.25):
                    tg += ":" + give_size(i, a, s)                      # redundant size
            elif m == "pos":
                t = other_for(i)
                olo, ohi = target[t][a]
                p, q = rng.choice(POS), rng.choice(POS)
                mar = anchor(a, lo, hi, p) - anchor(a, olo, ohi, q) + jitter()
                gm = 0
                if not nonuni and rng.chance(0.4):
                    gm = int(round(mar / sp))
                    mar = mar - gm * sp
                cons.append({"t": "P", "o": i, "other": t, "axes": [a], "own": [p], "otherpos": [q],
                             "margins": [mar if (mar != 0 or rng.chance(0.8)) else None], "gmargins": [gm if (gm or rng.chance(0.8)) else None]})
                tg = "pos:" + give_size(i, a, s)
            elif m == "ext_one":
                side = rng.chance(0.5)
                tg = "ext_one:" + give_size(i, a, s) + ":" + ext_con(i, a, side, hi if side else lo)
            elif m == "ext_both":
                tg = "ext_both:" + ext_con(i, a, False, lo) + ":" + ext_con(i, a, True, hi)
            elif m == "coord_ext":
                side = rng.chance(0.5)
                tg = "coord_ext:" + coord_con(i, a, not side, lo if side else hi) + ":" + ext_con(i, a, side, hi if side else lo)
            else:
                c = 0.5 * (edges[a][lo] + edges[a][hi]) - 0.5 * (edges[a][0] + edges[a][-1])
                objs[i]["rpos"][a] = c + (jitter() if rng.chance(0.3) else 0.0)
                tg = "rpos:" + give_size(i, a, s)
                if rng.chance(0.3):
                    tg += ":" + (coord_con(i, a, True, hi) if rng.chance(0.5) else ext_con(i, a, False, lo))   # redundant bound
                if rng.chance(0.2):
                    tg += ":" + coord_con(i, a, False, lo)
            tags.setdefault("modes", []).append(tg.split(":")[0])
            for part in tg.split(":")[1:]:
                tags.setdefault("pieces", []).append(part)

    # merge single-axis constraints of the same kind/object/other into multi-axis ones
    if rng.chance(0.6):
        merged, used = [], set()
        for k, c in enumerate(cons):
            if k in used:
                continue
            if c["t"] in "GRPS":
                for k2 in range(k + 1, len(cons)):
                    d = cons[k2]
                    if k2 not in used and d["t"] == c["t"] and d["o"] == c["o"] and d.get("other") == c.get("other") and rng.chance(0.7):
                        if c["t"] in "PS" and d["axes"][0] in c["axes"]:
                            continue
                        for key in c:
                            if isinstance(c[key], list):
                                c[key] = c[key] + d[key]
                        used.add(k2)
            merged.append(c)
        cons = merged
    cons = rng.shuffle(cons)

    # perturbations
    pert = "none"
    r = rng.random()
    det = [(i, a) for i in range(1, n_other + 1) for a in range(3)]
    if r < 0.14 and det:                                  # conflicting / redundant extra grid or real coordinate
        i, a = rng.choice(det)
        side = rng.chance(0.5)
        v = target[i][a][1 if side else 0] + rng.choice([0, 0, 1, -1, 2])
        if nonuni:
            cons.append({"t": "R", "o": i, "axes": [a], "sides": [side], "coords": [edges[a][max(0, min(shape[a], v))]]})
        else:
            cons.append({"t": "G", "o": i, "axes": [a], "sides": [side], "coords": [v]})
        pert = "extra_coord"
    elif r < 0.24 and n_other >= 2:                       # extra position constraint between two objects (late check)
        i = rng.randint(1, n_other)
        t = rng.choice([k for k in range(0, n_other + 1) if k != i])
        a = rng.randint(0, 2)
        p, q = rng.choice(POS), rng.choice(POS)
        lo, hi = target[i][a]
        olo, ohi = target[t][a]
        mar = anchor(a, lo, hi, p) - anchor(a, olo, ohi, q) + (0.0 if rng.chance(0.5) else rng.choice([1, -1, 2]) * sp)
        cons.insert(rng.randint(0, len(cons)), {"t": "P", "o": i, "other": t, "axes": [a], "own": [p], "otherpos": [q],
                                                "margins": [mar], "gmargins": [0]})
        pert = "extra_position"
    elif r < 0.30 and cons:
        cons.pop(rng.randint(0, len(cons) - 1))
        pert = "dropped_constraint"
    elif r < 0.34 and n_other >= 1:                       # extra size information
        i = rng.randint(1, n_other)
        a = rng.randint(0, 2)
        s = target[i][a][1] - target[i][a][0] + rng.choice([0, 0, 1, -1])
        if objs[i]["gshape"][a] is None:
            objs[i]["gshape"][a] = s
        pert = "extra_size"
    elif r < 0.38 and n_other >= 1:                       # degenerate numbers
        i = rng.randint(1, n_other)
        a = rng.randint(0, 2)
        k = rng.randint(0, 4)
        if k == 0:
            objs[i]["gshape"][a] = rng.choice([0, -1, shape[a] + 1, shape[a] + 3])
        elif k == 1:
            objs[i]["rshape"][a] = rng.choice([-1.0, 0.0, 100.0]) * sp
            objs[i]["gshape"][a] = None
        elif k == 2 and not nonuni:
            cons.append({"t": "G", "o": i, "axes": [a], "sides": [rng.chance(0.5)], "coords": [rng.choice([-1, -3, shape[a] + 1, shape[a] + 5])]})
        elif k == 3:
            cons.append({"t": "R", "o": i, "axes": [a], "sides": [rng.chance(0.5)], "coords": [rng.choice([-1e3, 1e3]) * sp]})
        else:
            objs[i]["rpos"][a] = rng.choice([-50.0, 50.0, 0.0]) * sp
        pert = "degenerate"
    elif r < 0.41:                                        # malformed systems: the checks at the top
        k = rng.randint(0, 3)
        if k == 0 and n_other >= 1:
            objs[rng.randint(1, n_other)]["name"] = rng.choice([o["name"] for o in objs])
            if len({o["name"] for o in objs}) == len(objs):
                objs[-1]["name"] = objs[0]["name"]
        elif k == 1 and n_other >= 1:
            objs[rng.randint(1, n_other)]["vol"] = True
            objs[-1]["gshape"] = [x if x is not None else 1 for x in objs[-1]["gshape"]]
        elif k == 2 and cons:
            c = rng.choice(cons)
            c["o" if c.get("other") is None or rng.chance(0.5) else "other"] = len(objs) + 3
        else:
            if n_other >= 1:
                cons.append({"t": "X", "o": 1, "other": len(objs) + 1, "axis": 0, "dir": True, "opos": -1.0, "offset": 0.0, "goffset": 0})
            else:
                cons.append({"t": "G", "o": 5, "axes": [0], "sides": [True], "coords": [1]})
        pert = "malformed"
    elif r < 0.45 and nonuni and n_other >= 1:            # index-space offsets on a stretched grid
        i = rng.randint(1, n_other)
        a = rng.randint(0, 2)
        k = rng.randint(0, 2)
        if k == 0:
            cons.append({"t": "G", "o": i, "axes": [a], "sides": [True], "coords": [target[i][a][1]]})
        elif k == 1:
            cons.append({"t": "X", "o": i, "other": 0, "axis": a, "dir": True, "opos": 1.0, "offset": 0.0, "goffset": rng.choice([1, -1])})
        else:
            cons.append({"t": "P", "o": i, "other": 0, "axes": [a], "own": [0.0], "otherpos": [0.0], "margins": [0.0], "gmargins": [1]})
        pert = "index_offsets_nonuniform"
    tags["perturbation"] = pert
    max_iter = 1000
    if rng.chance(0.07):
        max_iter = rng.randint(0, 3)
        tags["small_max_iter"] = 1
    elif tags.get("vol_bound_missing"):
        max_iter = rng.randint(4, 40)              # keep the non-terminating case cheap
    sys = {"grid": grid, "objects": objs, "constraints": cons, "max_iter": max_iter}
    tags["constraints"] = len(cons)
    return sys, tags


# witnesses of the two defects of the pinned tree (found in this round); every check replays them first
def witness_early_exit(x=5):
    """[A rel B, grid B, grid A]: everything is resolved in the first pass, the position constraint never checked"""
    o = lambda n, v=False, g=(2, 2, 2): {"name": n, "vol": v, "gshape": list(g), "rshape": [None] * 3, "rpos": [None] * 3}
    full = lambda i, x0: {"t": "G", "o": i, "axes": [0, 0, 1, 1, 2, 2], "sides": [False, True] * 3, "coords": [x0, x0 + 2, 0, 2, 0, 2]}
    return {"grid": {"kind": "uniform", "spacing": 1.0},
            "objects": [o("vol", True, (8, 8, 8)), o("A"), o("B")],
            "constraints": [{"t": "P", "o": 1, "other": 2, "axes": [0], "own": [-1.0], "otherpos": [1.0], "margins": [0.0], "gmargins": [0]},
                            full(2, 1), full(1, x)],
            "max_iter": 1000}


def witness_real_position_skip():
    """partial_real_position of A is never compared with bounds that constraints set in one pass"""
    o = lambda n, v=False, g=(2, 2, 2): {"name": n, "vol": v, "gshape": list(g), "rshape": [None] * 3, "rpos": [None] * 3}
    full = lambda i, x0: {"t": "G", "o": i, "axes": [0, 0, 1, 1, 2, 2], "sides": [False, True] * 3, "coords": [x0, x0 + 2, 0, 2, 0, 2]}
    A = o("A", g=(None, 2, 2))
    A["rpos"] = [-2.0, None, None]
    return {"grid": {"kind": "uniform", "spacing": 1.0},
            "objects": [o("vol", True, (8, 8, 8)), A, o("B"), o("C")],
            "constraints": [full(3, 5), full(2, 0),
                            {"t": "S", "o": 1, "other": 2, "axes": [0], "other_axes": [0], "props": [1.0], "offsets": [0.0], "goffsets": [0]},
                            {"t": "G", "o": 1, "axes": [0, 1, 1, 2, 2], "sides": [False, False, True, False, True], "coords": [3, 0, 2, 0, 2]},
                            {"t": "X", "o": 1, "other": 3, "axis": 0, "dir": True, "opos": -1.0, "offset": 0.0, "goffset": 0}],
            "max_iter": 1000}


def witness_multiaxis_size():
    """seed C27i: a multi-axis SizeConstraint of which one axis is already known statically (so only the OTHER axis makes
    progress in the pass), the object centred on its reference along the constrained axis, the reference placed by a
    constraint listed later; every position of the pre-given axis inside the constraint's axis list"""
    out = []
    for axes, given in (((0, 1), 1), ((0, 1), 0), ((1, 0), 0), ((2, 0), 0), ((1, 2), 2), ((0, 1, 2), 2), ((0, 1, 2), 1)):
        bshape = (6, 8, 4)
        ag = [None, None, None]
        ag[given] = bshape[given]
        free = [a for a in axes if a != given]
        o = lambda n, v=False, g=(2, 2, 2): {"name": n, "vol": v, "gshape": list(g), "rshape": [None] * 3, "rpos": [None] * 3}
        P = lambda i, j, ax: {"t": "P", "o": i, "other": j, "axes": list(ax), "own": [0.0] * len(ax), "otherpos": [0.0] * len(ax),
                              "margins": [0.0] * len(ax), "gmargins": [0] * len(ax)}
        out.append({"grid": {"kind": "uniform", "spacing": 1.0},
                    "objects": [o("vol", True, (20, 20, 20)), o("B", g=bshape), o("A", g=ag)],
                    "constraints": [P(2, 1, free),
                                    {"t": "S", "o": 2, "other": 1, "axes": list(axes), "other_axes": list(axes),
                                     "props": [1.0] * len(axes), "offsets": [0.0] * len(axes), "goffsets": [0] * len(axes)},
                                    P(1, 0, (0, 1, 2))],
                    "max_iter": 1000})
    return out


def witness_volume_bound():
    """extend_to(None) is visited before the constraint that gives the volume its upper bound"""
    o = lambda n, v=False, g=(2, 2, 2): {"name": n, "vol": v, "gshape": list(g), "rshape": [None] * 3, "rpos": [None] * 3}
    e = [float(k) - 4.0 for k in range(9)]
    return {"grid": {"kind": "custom", "edges": [e, e, e]},
            "objects": [o("vol", True, (None, 8, 8)), o("A", g=(None, 2, 2))],
            "constraints": [{"t": "X", "o": 1, "other": None, "axis": 0, "dir": True, "opos": -1.0, "offset": 0.0, "goffset": 0},
                            {"t": "G", "o": 0, "axes": [0], "sides": [True], "coords": [8]},
                            {"t": "G", "o": 1, "axes": [0], "sides": [False], "coords": [3]}],
            "max_iter": 1000}


def staggered_system(rng=None, depth=1, n_axes=2, delayed_first=True, dependents=1, da=0, free_dep=False):
    """multi-axis PositionConstraint whose axes become resolvable in DIFFERENT passes.

    A is placed relative to the volume by ONE PositionConstraint over `n_axes` axes; its size on the delayed axis
    `da` comes from a SizeConstraint on C1, which is positioned by a later constraint (and, for depth 2-3, gets its
    own size on `da` from C2, ... — a chain), so axis `da` of A's constraint resolves `depth+1` passes after its
    other axes.  `dependents` objects D are placed relative to A on axis `da` (lower side on A's upper side) and are
    otherwise left to the extension-to-infinity step.  The constraints are LISTED in reverse dependency order
    (dependents first, every consumer before its producer), which maximises the number of passes: the identity
    order is the adversarial one."""
    pick = (lambda xs: rng.choice(xs)) if rng is not None else (lambda xs: xs[0])
    N = pick([10, 9, 12])
    o = lambda n, v, g: {"name": n, "vol": v, "gshape": list(g), "rshape": [None] * 3, "rpos": [None] * 3}
    objs = [o("vol", True, (N, N, N))]
    cons_rev = []                                    # in dependency order; reversed at the end
    others = [a for a in range(3) if a != da]
    # chain C_depth ... C_1 : C_k's size on `da` comes from C_{k+1}; the last one is static
    chain_ids = []
    for k in range(depth, 0, -1):
        g = [pick([2, 3]), pick([2, 3]), pick([2, 3])]
        if k < depth:
            g[da] = None
        objs.append(o(f"C{k}", False, g))
        cid = len(objs) - 1
        axes = [da] + ([others[0]] if pick([True, False]) else [])
        if len(axes) == 2 and pick([True, False]):
            axes = axes[::-1]
        pc = {"t": "P", "o": cid, "other": 0, "axes": axes, "own": [-1.0] * len(axes), "otherpos": [-1.0] * len(axes),
              "margins": [0.0] * len(axes), "gmargins": [pick([0, 1])] * len(axes)}
        if k < depth:
            cons_rev.append({"t": "S", "o": cid, "other": chain_ids[-1], "axes": [da], "other_axes": [da], "props": [1.0],
                             "offsets": [0.0], "goffsets": [pick([0, 1])]})
        cons_rev.append(pc)
        chain_ids.append(cid)
    c1 = chain_ids[-1]
    # A
    gA = [2, 2, 2]
    gA[da] = None
    objs.append(o("A", False, gA))
    aid = len(objs) - 1
    cons_rev.append({"t": "S", "o": aid, "other": c1, "axes": [da], "other_axes": [da], "props": [1.0], "offsets": [0.0],
                     "goffsets": [0]})
    axesA = ([da] + others[: n_axes - 1]) if delayed_first else (others[: n_axes - 1][:1] + [da] + others[: n_axes - 1][1:])
    if not delayed_first and n_axes == 2:
        axesA = [da, others[0]]                       # the delayed axis must not be the LAST one
    cons_rev.append({"t": "P", "o": aid, "other": 0, "axes": axesA, "own": [-1.0] * len(axesA), "otherpos": [-1.0] * len(axesA),
                     "margins": [0.0] * len(axesA), "gmargins": [pick([1, 2])] * len(axesA)})
    # dependents
    for j in range(dependents):
        gD = [1, 1, 1]
        if free_dep:
            gD[others[j % 2]] = None                  # a free axis: spans the volume
        objs.append(o(f"D{j}", False, gD))
        did = len(objs) - 1
        cons_rev.append({"t": "P", "o": did, "other": aid, "axes": [da], "own": [-1.0], "otherpos": [1.0],
                         "margins": [0.0], "gmargins": [j]})
    return {"grid": {"kind": "uniform", "spacing": pick([1.0, 0.5])}, "objects": objs, "constraints": cons_rev[::-1],
            "max_iter": 1000}


def staggered_systems(rng, n_random=6):
    """fixed core (depth 1: four constraints, every permutation is tried by C27) + random variants (depth 1-3)"""
    out = []
    for da in (0, 2):
        for n_axes in (2, 3):
            out.append(staggered_system(None, depth=1, n_axes=n_axes, delayed_first=True, dependents=1, da=da))
    out.append(staggered_system(None, depth=1, n_axes=3, delayed_first=False, dependents=1, da=1))
    out.append(staggered_system(None, depth=2, n_axes=2, delayed_first=True, dependents=1, da=0, free_dep=True))
    for _ in range(n_random):
        out.append(staggered_system(rng, depth=rng.choice([1, 1, 2, 2, 3]), n_axes=rng.choice([2, 3]),
                                    delayed_first=rng.chance(0.6), dependents=rng.choice([1, 1, 2]), da=rng.randint(0, 2),
                                    free_dep=rng.chance(0.4)))
    return out


def centred_systems():
    """UniformGrid policies with a shifted centre (components non-zero, pairwise different, both signs, not multiples
    of the spacing) and real-coordinate constraints on EVERY axis, given at declared edge coordinates:
    edge_i = centre_a - n_a*h/2 + i*h."""
    out = []
    for h, cen, shape in ((1.0, (0.3, -1.7, 2.45), (6, 5, 7)), (0.5, (-0.275, 1.6, -1.175), (4, 8, 6)),
                          (2.5e-8, (8e-9, -4.25e-8, 6.125e-8), (5, 5, 5))):
        e = [[cen[a] - shape[a] * h / 2.0 + i * h for i in range(shape[a] + 1)] for a in range(3)]
        o = lambda n, v, g: {"name": n, "vol": v, "gshape": list(g), "rshape": [None] * 3, "rpos": [None] * 3}
        objs = [o("vol", True, shape), o("A", False, (None, None, None)), o("B", False, (2, 1, 2))]
        cons = [{"t": "R", "o": 1, "axes": [0, 1, 2], "sides": [False, False, False], "coords": [e[0][1], e[1][2], e[2][1]]},
                {"t": "R", "o": 1, "axes": [2, 1, 0], "sides": [True, True, True],
                 "coords": [e[2][shape[2] - 1], e[1][4], e[0][3]]},
                {"t": "R", "o": 2, "axes": [2], "sides": [True], "coords": [e[2][4] + 0.2 * h]},
                {"t": "R", "o": 2, "axes": [0, 1], "sides": [False, True], "coords": [e[0][2] - 0.3 * h, e[1][3]]}]
        out.append({"grid": {"kind": "uniform", "spacing": h, "center": list(cen)}, "objects": objs, "constraints": cons,
                    "max_iter": 1000})
    return out


def small_systems():
    """systematic small family for the failing-input search: two objects A, B on one axis, every triple of
    pieces out of {grid coords of A, grid coords of B, A relative to B, B relative to A, sizes}"""
    o = lambda n, v=False, g=(2, 2, 2): {"name": n, "vol": v, "gshape": list(g), "rshape": [None] * 3, "rpos": [None] * 3}
    out = []
    for xa in (1, 3, 5):
        for xb in (1, 4):
            for own, oth in ((-1.0, 1.0), (1.0, -1.0), (0.0, 0.0)):
                s = witness_early_exit(xa)
                s["constraints"][0]["own"], s["constraints"][0]["otherpos"] = [own], [oth]
                s["constraints"][1]["coords"][0:2] = [xb, xb + 2]
                out.append(s)
    for rp in (-2.0, 0.0, 1.0):
        s = witness_real_position_skip()
        s["objects"][1]["rpos"][0] = rp
        out.append(s)
    for x in (3, 0):
        s = witness_volume_bound()
        s["constraints"][2]["coords"] = [x]
        out.append(s)
    return out


# ------------------------------------------------------------------------------------------------ shrinking
def materialize(sys, oo=None, co=None):
    """the permuted system as a system of its own (identity orders), ids renumbered"""
    no, nc = len(sys["objects"]), len(sys["constraints"])
    oo = list(range(no)) if oo is None else list(oo)
    co = list(range(nc)) if co is None else list(co)
    new_id = {old: k for k, old in enumerate(oo)}
    objs = [json_copy(sys["objects"][i]) for i in oo]
    cons = []
    for k in co:
        c = json_copy(sys["constraints"][k])
        c["o"] = new_id.get(c["o"], c["o"])
        if c.get("other") is not None:
            c["other"] = new_id.get(c["other"], c["other"])
        cons.append(c)
    return {"grid": json_copy(sys["grid"]), "objects": objs, "constraints": cons, "max_iter": sys.get("max_iter", 1000)}


def json_copy(x):
    import json
    if isinstance(x, dict):
        x = {k: v for k, v in x.items() if not str(k).startswith("_")}      # drop the caches (_built, _grid)
    return json.loads(json.dumps(x))


def _drop_object(sys, i):
    """remove object i when nothing refers to it"""
    if sys["objects"][i]["vol"]:
        return None
    for c in sys["constraints"]:
        if c["o"] == i or c.get("other") == i:
            return None
    s = json_copy(strip(sys))
    s["objects"].pop(i)
    for c in s["constraints"]:
        if c["o"] > i:
            c["o"] -= 1
        if c.get("other") is not None and c["other"] > i:
            c["other"] -= 1
    return s


def shrink(sys, fails, budget=300):
    """greedy: drop constraints, then unreferenced objects, while `fails(sys)` keeps returning a detail"""
    cur = json_copy(strip(sys))
    detail = fails(cur)
    if not detail:
        return None, None
    progress = True
    while progress and budget > 0:
        progress = False
        for k in range(len(cur["constraints"]) - 1, -1, -1):
            cand = json_copy(cur)
            cand["constraints"].pop(k)
            budget -= 1
            d = fails(cand)
            if d:
                cur, detail, progress = cand, d, True
        for i in range(len(cur["objects"]) - 1, -1, -1):
            cand = _drop_object(cur, i)
            if cand is None:
                continue
            budget -= 1
            d = fails(cand)
            if d:
                cur, detail, progress = cand, d, True
    return json_copy(cur), detail          # without the caches
