"""C21 — design symmetry transforms vs lean/FdtdxModel/C21.lean"""
import itertools

import numpy as np

RULE = ("K: every transform/option combination (Horizontal/Vertical/Point/Diagonal 2D and 3D; min_min_to_max_max in "
        "{True, False}; mirror_axis in {x, y}; diagonal_plane in {xy, xz, yz}) on random binary64 arrays; 2-D transforms with "
        "the singleton axis in EVERY position (square and non-square where allowed, also shapes with two or three singleton "
        "axes for the non-transposing ones), 3-D transforms on boxes with all sides 1..5 (the transposed pair square); "
        "__call__ on the initialised and on the bare transform, one or two keys, AND multi-entry dicts (2-3 entries) whose arrays "
        "differ in shape and singleton-axis position within one call (every entry: shape kept, bit-exact vs the model applied "
        "per entry, equal to the single-array call, reflection oracle); output compared BIT-EXACTLY with the model "
        "(both sides compute (v + v[sigma]) / 2 in binary64 in the same order). Error stream: unknown mirror_axis / "
        "diagonal_plane, 2-D transform without singleton axis, transposition of a non-square pair (neither side 1), "
        "init_module's 2-D shape check. Property oracle (numpy reflections written independently of the implementation and "
        "of the model) on every real output y = T(v): reflect(y) == y exactly, T(y) == y exactly, T(s) == s exactly for "
        "symmetric s, mean(y) == mean(v) to 1e-13; also on float32 inputs. "
        "non-trivial = every case except 1x1x1 arrays; key = (transform, options, shape).")

_J = None
KINDS2D = ["horizontal2d", "vertical2d", "point2d", "diagonal2d"]


def J():
    global _J
    if _J is None:
        import jax
        jax.config.update("jax_enable_x64", True)
        import jax.numpy as jnp
        import fdtdx
        from fdtdx.config import SimulationConfig
        from fdtdx.core.grid import UniformGrid
        from fdtdx.materials import Material
        cfg = SimulationConfig(time=100e-15, grid=UniformGrid(spacing=500e-9), backend="cpu", dtype=jnp.float64)
        mats = {"Air": Material(permittivity=1.0), "Si": Material(permittivity=11.7)}
        _J = dict(jax=jax, jnp=jnp, fdtdx=fdtdx, cfg=cfg, mats=mats)
    return _J


def configs():
    """(name, opt, mm) of every transform/option combination"""
    out = [("horizontal2d", "-", True), ("vertical2d", "-", True), ("point2d", "-", True),
           ("diagonal2d", "-", True), ("diagonal2d", "-", False),
           ("horizontal3d", "x", True), ("horizontal3d", "y", True), ("vertical3d", "-", True), ("point3d", "-", True)]
    out += [("diagonal3d", p, mm) for p in ("xy", "xz", "yz") for mm in (True, False)]
    return out


# ----------------------------------------------------------------------------- implementation side
def build(name, opt, mm):
    f = J()["fdtdx"]
    if name == "horizontal2d":
        return f.HorizontalSymmetry2D()
    if name == "vertical2d":
        return f.VerticalSymmetry2D()
    if name == "point2d":
        return f.PointSymmetry2D()
    if name == "diagonal2d":
        return f.DiagonalSymmetry2D(min_min_to_max_max=mm)
    if name == "horizontal3d":
        return f.HorizontalSymmetry3D(mirror_axis=opt)
    if name == "vertical3d":
        return f.VerticalSymmetry3D()
    if name == "point3d":
        return f.PointSymmetry3D()
    if name == "diagonal3d":
        return f.DiagonalSymmetry3D(diagonal_plane=opt, min_min_to_max_max=mm)
    raise ValueError(name)


def impl(name, opt, mm, v, init=False, keys=("p",), dtype="float64"):
    """real transform on array v (numpy, 3-D); returns numpy array or the string 'error' / 'error-init'"""
    j = J()
    jnp = j["jnp"]
    t = build(name, opt, mm)
    if init:
        try:
            t = t.init_module(config=j["cfg"], materials=j["mats"], matrix_voxel_grid_shape=tuple(v.shape),
                              single_voxel_size=(1e-6, 1e-6, 1e-6), output_shape={k: tuple(v.shape) for k in keys})
        except Exception:
            return "error-init"
    dt = jnp.float64 if dtype == "float64" else jnp.float32
    try:
        out = t({k: jnp.asarray(v, dtype=dt) for k in keys})
    except Exception:
        return "error"
    arrs = [np.asarray(out[k]) for k in keys]
    for a in arrs:
        if a.shape != v.shape:
            return "error"           # silent broadcasting changed the shape
        if not np.array_equal(a, arrs[0], equal_nan=True):
            raise AssertionError("keys disagree")
    return arrs[0]


def impl_dict(name, opt, mm, arrays, init=False, dtype="float64"):
    """ONE __call__ on a dict whose entries may have different shapes / singleton-axis positions;
    returns {key: numpy array} (shapes as returned, unchecked) or 'error' / 'error-init'"""
    j = J()
    jnp = j["jnp"]
    t = build(name, opt, mm)
    if init:
        try:
            first = next(iter(arrays.values()))
            t = t.init_module(config=j["cfg"], materials=j["mats"], matrix_voxel_grid_shape=tuple(first.shape),
                              single_voxel_size=(1e-6, 1e-6, 1e-6), output_shape={k: tuple(a.shape) for k, a in arrays.items()})
        except Exception:
            return "error-init"
    dt = jnp.float64 if dtype == "float64" else jnp.float32
    try:
        out = t({k: jnp.asarray(a, dtype=dt) for k, a in arrays.items()})
    except Exception:
        return "error"
    if list(out.keys()) != list(arrays.keys()):
        return "error"
    return {k: np.asarray(out[k]) for k in arrays}


def prop_dict(name, opt, mm, arrays, out=None):
    """the property for a multi-entry call: every entry keeps its shape, satisfies the single-array property and
    equals what the transform returns for that entry alone"""
    arrays = {k: np.asarray(a, dtype=np.float64) for k, a in arrays.items()}
    if out is None:
        out = impl_dict(name, opt, mm, arrays)
    tag = f"{name}(opt={opt}, min_min_to_max_max={mm}) dict shapes={[a.shape for a in arrays.values()]}"
    if isinstance(out, str):
        return f"multi-entry call raised: {tag}"
    for k, v in arrays.items():
        y = out[k]
        if y.shape != v.shape:
            return f"entry '{k}' changed shape {v.shape} -> {y.shape} in a multi-entry call: {tag}"
        d = prop(name, opt, mm, v, y)
        if d:
            return f"entry '{k}': {d} (multi-entry call: {tag})"
        alone = impl(name, opt, mm, v)
        if isinstance(alone, str) or not np.array_equal(alone, y):
            return f"entry '{k}' differs from the single-array call: {tag}"
    return None


# ------------------------------------------------------------------------ property oracle (numpy)
def acting_axes(name, shape):
    """the two axes a 2-D transform acts on: all but the first singleton axis"""
    v = list(shape).index(1)
    return [a for a in range(3) if a != v]


def reflect(name, opt, mm, a):
    """the geometric operation the transform must make the design invariant under (independent reading)"""
    if name in KINDS2D:
        p, q = acting_axes(name, a.shape)
        if name == "horizontal2d":
            return np.flip(a, p)
        if name == "vertical2d":
            return np.flip(a, q)
        if name == "point2d":
            return np.flip(a, (p, q))
        r = np.swapaxes(a, p, q)
        return r if mm else np.flip(r, (p, q))
    if name == "horizontal3d":
        return np.flip(a, {"x": 0, "y": 1}[opt])
    if name == "vertical3d":
        return np.flip(a, 2)
    if name == "point3d":
        return np.flip(a, (0, 1, 2))
    p, q = {"xy": (0, 1), "xz": (0, 2), "yz": (1, 2)}[opt]
    r = np.swapaxes(a, p, q)
    return r if mm else np.flip(r, (p, q))


def prop(name, opt, mm, v, y=None, dtype="float64"):
    """property statement on the implementation; v numpy 3-D array of a valid shape"""
    v = np.asarray(v, dtype=np.float64 if dtype == "float64" else np.float32)
    if y is None:
        y = impl(name, opt, mm, v, dtype=dtype)
    if isinstance(y, str):
        return f"{name}{(opt, mm)} raised / changed shape on valid shape {v.shape}"
    tag = f"{name}(opt={opt}, min_min_to_max_max={mm}) shape={v.shape} {dtype}"
    r = reflect(name, opt, mm, y)
    if r.shape != y.shape or not np.array_equal(r, y):
        k = np.argwhere(r != y)[0].tolist() if r.shape == y.shape else None
        return f"output not invariant under its reflection at {k}: {tag}"
    y2 = impl(name, opt, mm, y, dtype=dtype)
    if isinstance(y2, str) or not np.array_equal(y2, y):
        return f"not idempotent: {tag}"
    s = (v + reflect(name, opt, mm, v)) / 2
    s = (s + reflect(name, opt, mm, s)) / 2
    if np.array_equal(reflect(name, opt, mm, s), s):          # s is symmetric (exactly)
        ys = impl(name, opt, mm, s, dtype=dtype)
        if isinstance(ys, str) or not np.array_equal(ys, s):
            return f"symmetric input changed: {tag}"
    # relative to the input scale (a few ulp per summand), never an absolute tolerance: tiny designs count too
    tol = (4e-16 if dtype == "float64" else 2.4e-7) * (v.size + 4)
    with np.errstate(over="ignore"):
        dm = abs(float(np.mean(y / np.max(np.abs(v)), dtype=np.float64)) - float(np.mean(v / np.max(np.abs(v)), dtype=np.float64))) \
            if np.max(np.abs(v)) > 0 else float(np.max(np.abs(y)))
    if dm > tol:
        return f"mean changed from {float(np.mean(v))!r} to {float(np.mean(y))!r}: {tag}"
    return None


# --------------------------------------------------------------------------------- generators
def shapes_for(rng, name, opt, quick=True):
    """valid shapes for a transform: a small structured set (each distinct shape costs XLA compilations)"""
    n, m = rng.randint(2, 5), rng.randint(2, 6)
    if m == n:
        m += 1
    if name in KINDS2D:
        out = []
        for pos in range(3):
            for dims in ([n, n], [n, m]):
                if name == "diagonal2d" and dims[0] != dims[1]:
                    continue
                s = list(dims)
                s.insert(pos, 1)
                out.append(tuple(s))
        if name != "diagonal2d":
            out += [(1, 1, n), (1, m, 1), (n, 1, 1)]
        out.append((1, 1, 1))
        return out
    k = rng.randint(1, 4)
    if name == "diagonal3d":
        p, q = {"xy": (0, 1), "xz": (0, 2), "yz": (1, 2)}[opt]
        out = []
        for side, other in ((n, k), (m, 1), (1, n), (n, n)):
            s = [other] * 3
            s[p] = s[q] = side
            out.append(tuple(s))
        return out
    return [(n, m, k), (m, k, n), (n, n, n), (1, n, m), (n, 1, 1), (1, 1, 1)]


def mixed_shapes(rng, name, opt):
    """2-3 valid shapes for ONE call that differ in size and (2-D classes) in the position of the singleton axis"""
    a, b, c = rng.randint(2, 4), rng.randint(5, 6), rng.randint(2, 6)
    if name in KINDS2D:
        dims = [(a, a), (b, b), (c, c)] if name == "diagonal2d" else [(a, b), (b, c), (c, a + 1)]
        out = []
        for pos, d in zip(rng.shuffle([0, 1, 2]), dims):
            s = list(d)
            s.insert(pos, 1)
            out.append(tuple(s))
    elif name == "diagonal3d":
        p, q = {"xy": (0, 1), "xz": (0, 2), "yz": (1, 2)}[opt]
        out = []
        for side, other in ((a, b), (b, 1), (c, a)):
            s = [other] * 3
            s[p] = s[q] = side
            out.append(tuple(s))
    else:
        out = [(a, b, c), (b, 1, a), (1, c, b)]
    out = rng.shuffle(out)
    return out[:rng.randint(2, 3)]


VALUE_KINDS = ["random", "int", "nearsym", "tiny", "huge", "nearsym-tiny"]
NEAR_EXPS = [7, 3, 12, 9, 5, 10, 6, 8, 4, 11]


def rand_array(rng, shape, special=False, kind=None, cfg=None, k=0):
    """values of a test array.  random: U(-2,2); int: small integers (all averages exact);
    nearsym: EXACTLY symmetric under the transform's own mirror map, then perturbed entry-wise by a relative 1e-3 …
    1e-12 (an implementation that decides 'already symmetric' with a tolerance returns it unchanged: not invariant);
    tiny: all magnitudes 1e-9 … 1e-30 (below any absolute tolerance); huge: 1e30 … 1e300; nearsym-tiny: both."""
    n = int(np.prod(shape))
    kind = kind or ("int" if special else "random")
    if kind == "int":
        vals = [float(rng.randint(-8, 8)) for _ in range(n)]
        return np.asarray(vals, dtype=np.float64).reshape(shape)
    v = np.asarray([rng.uniform(-2, 2) for _ in range(n)], dtype=np.float64).reshape(shape)
    if kind in ("nearsym", "nearsym-tiny") and cfg is not None:
        name, opt, mm = cfg
        s = (v + reflect(name, opt, mm, v)) / 2
        s = (s + reflect(name, opt, mm, s)) / 2
        delta = 10.0 ** -NEAR_EXPS[k % len(NEAR_EXPS)]
        pert = np.asarray([rng.uniform(-1, 1) for _ in range(n)], dtype=np.float64).reshape(shape)
        v = s * (1 + delta * pert)
    if kind in ("tiny", "nearsym-tiny"):
        v = v * 10.0 ** -rng.randint(9, 30)
    if kind == "huge":
        v = v * 10.0 ** rng.choice([30, 100, 250, 300])
    return v


def model_line(name, opt, mm, v):
    from .common import f2h
    s = v.shape
    return f"sym {name} {opt} {1 if mm else 0} {s[0]} {s[1]} {s[2]} " + " ".join(f2h(x) for x in v.ravel())


# ------------------------------------------------------------------------------------------- K
def run(ctx):
    from .common import h2fs, f2h
    rng = ctx.rng
    lines, cbs = [], []
    reps = ctx.scale(1, 6)
    ci = 0
    for (name, opt, mm) in configs():
        for rep_i in range(reps):
            for shape in shapes_for(rng, name, opt):
                vkind = VALUE_KINDS[ci % len(VALUE_KINDS)]
                ok_shape = valid_shape(name, opt, shape)
                v = rand_array(rng, shape, kind=vkind if ok_shape else "random", cfg=(name, opt, mm), k=ci // len(VALUE_KINDS))
                init = ci % 2 == 0
                keys = ("p",) if ci % 3 else ("p", "q")
                y = impl(name, opt, mm, v, init=init, keys=keys)
                case = {"name": name, "opt": opt, "mm": mm, "v": v.tolist()}
                expect_init_error = name in KINDS2D and sum(1 for s in shape if s != 1) != 2
                if init and expect_init_error:
                    ctx.case(op="init-rejects", transform=name)
                    ctx.expect_equal("init-2d-check", {"name": name, "shape": shape}, y if isinstance(y, str) else "ok", "error-init")
                    y = impl(name, opt, mm, v, init=False, keys=keys)
                ctx.case(sample={**case, "impl": y.tolist()} if ci in (4, 31) else None,
                         nontrivial=(name, opt, mm, shape) if shape != (1, 1, 1) else None, op="sym", transform=name, values=vkind,
                         option=f"{opt}/{mm}", singleton_axes=sum(1 for s in shape if s == 1),
                         first_singleton=(list(shape).index(1) if 1 in shape else "none"), initialised=init, keys=len(keys))

                def cb(rep, case=case, y=y):
                    if isinstance(y, str) or rep in ("error", "bad-op"):
                        ctx.expect_equal("sym", case, y if isinstance(y, str) else "values", rep)
                    else:
                        ctx.expect_equal("sym", case, " ".join(f2h(x) for x in y.ravel()), rep)
                lines.append(model_line(name, opt, mm, v))
                cbs.append(cb)
                if not isinstance(y, str):
                    ctx.impl_property_evals += 1
                    d = prop(name, opt, mm, v, y)
                    if d:
                        ctx.violation(case, d)
                    if ci % 4 == 1 and vkind != "huge":
                        ctx.impl_property_evals += 1
                        ctx.case(op="float32-oracle", transform=name)
                        d = prop(name, opt, mm, v, None, dtype="float32")
                        if d:
                            ctx.violation({**case, "dtype": "float32"}, d)
                ci += 1
    # multi-entry dicts mixing shapes and singleton-axis positions in ONE call: every entry must come back with its
    # own shape, equal to the model applied per entry, and pass the reflection oracle
    for (name, opt, mm) in configs():
        for rep_i in range(ctx.scale(2, 8)):
            shapes = mixed_shapes(rng, name, opt)
            arrays = {k: rand_array(rng, sh, kind=VALUE_KINDS[(rep_i + j) % len(VALUE_KINDS)], cfg=(name, opt, mm), k=rep_i + j)
                      for j, (k, sh) in enumerate(zip(("a", "b", "c"), shapes))}
            init = rep_i % 2 == 0
            out = impl_dict(name, opt, mm, arrays, init=init)
            case = {"name": name, "opt": opt, "mm": mm, "dict": {k: a.tolist() for k, a in arrays.items()}}
            ctx.case(sample={**case, "impl_shapes": None if isinstance(out, str) else [list(o.shape) for o in out.values()]}
                     if (name, rep_i) == ("diagonal2d", 0) else None,
                     nontrivial=("dict", name, opt, mm, tuple(shapes)), op="mixed-dict", transform=name, entries=len(shapes),
                     singleton_positions="/".join(str(list(sh).index(1)) if 1 in sh else "-" for sh in shapes), initialised=init)
            for k, v in arrays.items():
                def cb(rep, case=case, k=k, v=v, out=out):
                    if isinstance(out, str):
                        ctx.expect_equal("mixed-dict", case, out, rep)
                    elif out[k].shape != v.shape:
                        ctx.mismatch("mixed-dict", case, {"entry": k, "impl_shape": list(out[k].shape), "expected_shape": list(v.shape)})
                    else:
                        ctx.expect_equal("mixed-dict", case, " ".join(f2h(x) for x in out[k].astype(np.float64).ravel()), rep)
                lines.append(model_line(name, opt, mm, v))
                cbs.append(cb)
            ctx.impl_property_evals += 1
            d = prop_dict(name, opt, mm, arrays, out)
            if d:
                ctx.violation(case, d)
    # error stream
    n = rng.randint(2, 4)
    errs = [("horizontal3d", "z", True, (n, n, n)), ("horizontal3d", "", True, (n, n, n)),
            ("diagonal3d", "zx", True, (n, n, n)), ("diagonal3d", "yx", False, (n, n, n)),
            ("diagonal3d", "xy", True, (n, n + 1, n)), ("diagonal3d", "xz", False, (n, 2, n + 2)),
            ("diagonal3d", "yz", True, (n, n, n + 1)), ("diagonal3d", "yz", True, (n + 1, n, n)),
            ("diagonal2d", "-", True, (1, n, n + 1)), ("diagonal2d", "-", False, (n + 1, 1, n)),
            ("diagonal2d", "-", True, (1, n, n)), ("diagonal2d", "-", False, (n, n, 1))]
    errs += [(k, "-", True, (n, n + 1, n)) for k in KINDS2D]
    for (name, opt, mm, shape) in errs:
        v = rand_array(rng, shape)
        y = impl(name, opt, mm, v)
        case = {"name": name, "opt": opt, "mm": mm, "v": v.tolist()}
        ctx.case(op="error-stream", nontrivial=("err", name, opt, mm, shape), transform=name, raised=isinstance(y, str))

        def cb(rep, case=case, y=y):
            if isinstance(y, str) or rep in ("error", "bad-op"):
                ctx.expect_equal("sym-error", case, y if isinstance(y, str) else "values", rep)
            else:
                ctx.expect_equal("sym", case, " ".join(f2h(x) for x in y.ravel()), rep)
        lines.append(model_line(name, opt if opt else "_", mm, v))
        cbs.append(cb)
    for cb, rep in zip(cbs, ctx.driver.ask_many(lines)):
        cb(rep)


# ------------------------------------------------------------------------------------------- S
def _eval(inp):
    if "dict" in inp:
        return prop_dict(inp["name"], inp["opt"], inp["mm"], {k: np.asarray(a, dtype=np.float64) for k, a in inp["dict"].items()})
    return prop(inp["name"], inp["opt"], inp["mm"], np.asarray(inp["v"], dtype=np.float64), dtype=inp.get("dtype", "float64"))


def valid_shape(name, opt, shape):
    if name in KINDS2D:
        if 1 not in shape:
            return False
        p, q = acting_axes(name, shape)
        return name != "diagonal2d" or shape[p] == shape[q]
    if name == "diagonal3d":
        p, q = {"xy": (0, 1), "xz": (0, 2), "yz": (1, 2)}[opt]
        return shape[p] == shape[q]
    return True


def search(ctx, hints):
    for h in hints:
        if isinstance(h, dict) and "dict" in h:
            ctx.impl_property_evals += 1
            d = _eval(h)
            if d:
                ctx.violation(h, d)
                return
    for h in hints:
        if isinstance(h, dict) and "v" in h and h.get("opt") in ("-", "x", "y", "xy", "xz", "yz"):
            v = np.asarray(h["v"])
            if v.ndim == 3 and valid_shape(h["name"], h["opt"], v.shape):
                ctx.impl_property_evals += 1
                d = _eval(h)
                if d:
                    ctx.violation(h, d)
                    return
    # all shapes with sides <= 3 (then <= 4), smallest first; entries are distinct small integers so that any
    # misplaced index shows
    for top in (2, 3, 4):
        shapes = sorted(itertools.product(range(1, top + 1), repeat=3), key=lambda s: (s[0] * s[1] * s[2], s))
        for shape in shapes:
            for (name, opt, mm) in configs():
                if not valid_shape(name, opt, shape):
                    continue
                v = (np.arange(int(np.prod(shape)), dtype=np.float64) ** 2 + 1).reshape(shape)
                inp = {"name": name, "opt": opt, "mm": mm, "v": v.tolist()}
                ctx.impl_property_evals += 1
                d = _eval(inp)
                if d:
                    ctx.violation(inp, d)
                    return


    # nearly symmetric, tiny and huge inputs for every transform, small shapes first
    rng = ctx.rng.fork()
    for top in (2, 3):
        for shape in sorted(itertools.product(range(1, top + 1), repeat=3), key=lambda s: (s[0] * s[1] * s[2], s)):
            for (name, opt, mm) in configs():
                if not valid_shape(name, opt, shape) or shape == (1, 1, 1):
                    continue
                for k, kind in enumerate(("nearsym", "tiny", "nearsym-tiny", "huge", "nearsym")):
                    v = rand_array(rng, shape, kind=kind, cfg=(name, opt, mm), k=k)
                    inp = {"name": name, "opt": opt, "mm": mm, "v": v.tolist()}
                    ctx.impl_property_evals += 1
                    d = _eval(inp)
                    if d:
                        ctx.violation(inp, d)
                        return
    # multi-entry calls mixing layouts, smallest shapes first
    for (name, opt, mm) in configs():
        for _ in range(4):
            shapes = mixed_shapes(rng, name, opt)
            arrays = {k: (np.arange(int(np.prod(sh)), dtype=np.float64) ** 2 + 1).reshape(sh) for k, sh in zip(("a", "b", "c"), shapes)}
            inp = {"name": name, "opt": opt, "mm": mm, "dict": {k: a.tolist() for k, a in arrays.items()}}
            ctx.impl_property_evals += 1
            d = _eval(inp)
            if d:
                ctx.violation(inp, d)
                return


def replay(ctx, inp):
    return _eval(inp)
