"""C30 — Recorder / LinearReconstructEveryK / DtypeConversion vs lean/FdtdxModel/C30.lean"""
import numpy as np

RULE = ("K: (a) index maps of LinearReconstructEveryK.init_shapes/time_to_array_index for EVERY (T,k,start) with "
        "T<=Tmax, k<=kmax, start<T (exhaustive; compared exactly with the model's saveSteps/arrIdx/timeToArrayIndex); "
        "(b) Recorder.compress over a whole run + Recorder.decompress at every t for sampled (T,k,start) and random "
        "binary64 histories, pipelines [EveryK] and [DtypeConversion, EveryK], compared with the model's decompress "
        "(tolerance 5e-7: JAX forms the interpolation factor int32/int32 in float32). non-trivial = start>0 or T<=k or "
        "T-1 not on the k-grid. Every other (b) case records into a state that already holds a previous run (reused container): the second recording must overwrite the first. The property predicate itself (independent Python oracle) is evaluated on every (b) case.")

_jax = None


def J():
    global _jax
    if _jax is None:
        import jax
        jax.config.update("jax_enable_x64", True)
        import jax.numpy as jnp
        from fdtdx.interfaces.recorder import Recorder
        from fdtdx.interfaces.time_filter import LinearReconstructEveryK
        from fdtdx.interfaces.modules import DtypeConversion
        _jax = dict(jax=jax, jnp=jnp, Recorder=Recorder, EveryK=LinearReconstructEveryK, Dtype=DtypeConversion)
    return _jax


# ----------------------------------------------------------------------------- implementation side
def impl_maps(T, k, s):
    j = J()
    jnp, jax = j["jnp"], j["jax"]
    tf = j["EveryK"](k=k, start_recording_after=s)
    tf, size, _, _ = tf.init_shapes({"f": jax.ShapeDtypeStruct((1,), jnp.float64)}, T)
    save = [int(x) for x in np.asarray(tf._save_time_steps)]
    idx = [int(x) for x in np.asarray(tf._time_to_arr_idx)]
    ttai = [int(x) for x in np.asarray(jax.vmap(tf.time_to_array_index)(jnp.arange(T, dtype=jnp.int32)))]
    return int(size), save, idx, ttai


def impl_run(T, k, s, vals, pipeline, rerun=False):
    """record vals[t] at step t through the real Recorder, decompress every t; with `rerun` the same recording state
    first receives a different history (a previous run on a reused container) that the second run must overwrite"""
    j = J()
    jnp, jax = j["jnp"], j["jax"]
    if pipeline == "everyk":
        mods, dt = [j["EveryK"](k=k, start_recording_after=s)], jnp.float64
    elif pipeline == "widen+everyk":      # float32 data widened to float64 for storage
        mods, dt = [j["Dtype"](dtype=jnp.float64), j["EveryK"](k=k, start_recording_after=s)], jnp.float32
    elif pipeline == "widen":
        mods, dt = [j["Dtype"](dtype=jnp.float64)], jnp.float32
    else:
        raise ValueError(pipeline)
    rec = j["Recorder"](modules=mods)
    rec, state = rec.init_state({"f": jax.ShapeDtypeStruct((2,), dt)}, max_time_steps=T, backend="cpu")
    key = jax.random.PRNGKey(0)
    comp = jax.jit(lambda st, v, t: rec.compress({"f": v}, st, t, key))
    dec = jax.jit(lambda st, t: rec.decompress(st, t, key)[0]["f"])
    if rerun:
        for t in range(T):
            w = 0.5 * vals[t] + 1.0
            state = comp(state, jnp.asarray([w, w], dtype=dt), jnp.asarray(t, dtype=jnp.int32))
    for t in range(T):
        state = comp(state, jnp.asarray([vals[t], vals[t]], dtype=dt), jnp.asarray(t, dtype=jnp.int32))
    return [float(dec(state, jnp.asarray(t, dtype=jnp.int32))[0]) for t in range(T)]


# ------------------------------------------------------------------------ property oracle (S, python)
def oracle(T, k, s, vals):
    """the property statement: recorded value at saved steps, linear interpolation between the enclosing saved steps"""
    saved = list(range(s, T, k))
    if saved[-1] != T - 1:
        saved.append(T - 1)
    out = {}
    for t in range(s, T):
        if t in saved:
            out[t] = vals[t]
        else:
            p = max(u for u in saved if u < t)
            n = min(u for u in saved if u > t)
            out[t] = vals[p] + (t - p) / (n - p) * (vals[n] - vals[p])
    return out


def impl_chain(T, k1, k2, vals):
    """two chained LinearReconstructEveryK filters (the Recorder API allows any sequence of modules)"""
    j = J()
    jnp, jax = j["jnp"], j["jax"]
    rec = j["Recorder"](modules=[j["EveryK"](k=k1), j["EveryK"](k=k2)])
    rec, state = rec.init_state({"f": jax.ShapeDtypeStruct((2,), jnp.float64)}, max_time_steps=T, backend="cpu")
    key = jax.random.PRNGKey(0)
    for t in range(T):
        state = rec.compress({"f": jnp.asarray([vals[t], vals[t]])}, state, jnp.asarray(t, dtype=jnp.int32), key)
    return [float(rec.decompress(state, jnp.asarray(t, dtype=jnp.int32), key)[0]["f"][0]) for t in range(T)]


def chain_fails(T, k1, k2, vals):
    """composition of the property's single-filter rule: the second filter reconstructs the latent series of the first"""
    s1 = list(range(0, T, k1))
    if s1[-1] != T - 1:
        s1.append(T - 1)
    latent = [vals[t] for t in s1]
    lat_rec = oracle(len(s1), k2, 0, latent)
    got = impl_chain(T, k1, k2, vals)
    scale = max(1.0, max(abs(x) for x in vals))
    for t in range(T):
        if t in s1:
            exp = lat_rec[s1.index(t)]
        else:
            p = max(u for u in s1 if u < t)
            n = min(u for u in s1 if u > t)
            a, b = lat_rec[s1.index(p)], lat_rec[s1.index(n)]
            exp = a + (t - p) / (n - p) * (b - a)
        if not abs(got[t] - exp) <= 2e-6 * scale:
            return f"chained EveryK({k1}) -> EveryK({k2}), T={T}: decompress({t}) = {got[t]!r}, composition of the interpolation rule gives {exp!r}"
    return None


def property_fails(T, k, s, vals, pipeline="everyk", got=None, rerun=False):
    if pipeline == "chain":
        return chain_fails(T, k, s, vals)       # here `s` carries the second filter's k
    v = [float(np.float32(x)) for x in vals] if pipeline != "everyk" else vals
    got = impl_run(T, k, s, v, pipeline, rerun) if got is None else got
    if pipeline == "widen":
        bad = [t for t in range(T) if got[t] != v[t]]
        return (f"widening round trip differs at steps {bad[:5]}" if bad else None)
    exp = oracle(T, k, s, v)
    scale = max(1.0, max(abs(x) for x in v))
    for t in range(s, T):
        tol = 0.0 if (t - s) % k == 0 or t == T - 1 else 5e-7 * scale
        if pipeline != "everyk":
            tol = max(tol, 1e-6 * scale) if tol else 0.0
        if not abs(got[t] - exp[t]) <= tol:
            return f"decompress({t}) = {got[t]!r}, property says {exp[t]!r} (T={T}, k={k}, start={s}, pipeline={pipeline})"
    return None


# ------------------------------------------------------------------------------------------- K
def nontrivial_key(T, k, s):
    return (T, k, s) if (s > 0 or T <= k or (T - 1 - s) % k != 0) else None


def run(ctx):
    from .common import f2h, h2f
    Tmax, kmax = ctx.scale((16, 4), (40, 8))
    # (a) exhaustive index maps
    cfgs = [(T, k, s) for T in range(1, Tmax + 1) for k in range(1, kmax + 1) for s in range(T)]
    replies = ctx.driver.ask_many([f"maps {T} {k} {s}" for (T, k, s) in cfgs])
    for (T, k, s), rep in zip(cfgs, replies):
        size, save, idx, ttai = impl_maps(T, k, s)
        impl = f"{size} | {' '.join(map(str, save))} | {' '.join(map(str, idx))} | {' '.join(map(str, ttai))}"
        ctx.case(sample={"op": "maps", "T": T, "k": k, "start": s, "reply": rep} if (T, k, s) == (7, 3, 2) else None,
                 nontrivial=nontrivial_key(T, k, s), op="maps", k=k)
        ctx.expect_equal("maps", {"T": T, "k": k, "s": s}, impl, rep)
    ctx.exhaustive = True
    ctx.extra["exhaustive_bounds"] = {"T_max": Tmax, "k_max": kmax, "all_starts": True}
    # (b) full pipeline on sampled configurations
    n = ctx.scale(36, 300)
    picks = [(4, 4, 0), (3, 5, 0), (12, 3, 2), (9, 2, 3)]      # corpus-like seeds: T<=k, late start
    while len(picks) < n:
        T = ctx.rng.randint(2, ctx.scale(14, 30))
        picks.append((T, ctx.rng.randint(1, kmax), ctx.rng.randint(0, T - 1)))
    for i, (T, k, s) in enumerate(picks):
        pipeline = ["everyk", "everyk", "widen+everyk"][i % 3]
        vals = [ctx.rng.uniform(-5, 5) for _ in range(T)]
        if pipeline != "everyk":
            vals = [float(np.float32(x)) for x in vals]
        rerun = i % 2 == 1          # every other case: the recording state already holds a previous run
        got = impl_run(T, k, s, vals, pipeline, rerun)
        reps = ctx.driver.ask_many([f"dec {T} {k} {s} {t} " + " ".join(f2h(v) for v in vals) for t in range(s, T)])
        model = [h2f(r) for r in reps]
        case = {"T": T, "k": k, "s": s, "vals": vals, "pipeline": pipeline, "rerun": rerun}
        ctx.case(sample={"op": "dec", **case, "impl": got[s:]} if i == 2 else None,
                 nontrivial=("dec",) + (T, k, s) if nontrivial_key(T, k, s) else None, op="dec", pipeline=pipeline, rerun=rerun)
        ctx.expect_close("dec", case, got[s:], model, tol=5e-7 if pipeline == "everyk" else 1e-6)
        ctx.impl_property_evals += 1
        d = property_fails(T, k, s, vals, pipeline, got, rerun)
        if d:
            ctx.violation(case, d)
    # two chained time filters (oracle only: composition of the single-filter rule); the last slot of the first
    # filter is off the second filter's grid in the forced cases
    chains = [(12, 2, 4), (13, 3, 3)]
    while len(chains) < ctx.scale(4, 24):
        T = ctx.rng.randint(6, ctx.scale(14, 24))
        chains.append((T, ctx.rng.randint(1, 4), ctx.rng.randint(2, 4)))
    for (T, k1, k2) in chains:
        vals = [ctx.rng.uniform(-5, 5) for _ in range(T)]
        case = {"T": T, "k": k1, "s": k2, "vals": vals, "pipeline": "chain"}
        ctx.case(nontrivial=("chain", T, k1, k2), op="chain")
        ctx.impl_property_evals += 1
        d = chain_fails(T, k1, k2, vals)
        if d:
            ctx.violation(case, d)
    # widening conversion alone: exact round trip
    for i in range(ctx.scale(3, 20)):
        T = ctx.rng.randint(2, 8)
        vals = [ctx.rng.uniform(-1e3, 1e3) * 10.0 ** ctx.rng.randint(-20, 20) for _ in range(T)]
        case = {"T": T, "k": 1, "s": 0, "vals": vals, "pipeline": "widen"}
        ctx.case(nontrivial=("widen", i), op="widen")
        ctx.impl_property_evals += 1
        d = property_fails(T, 1, 0, vals, "widen")
        if d:
            ctx.violation(case, d)


# ------------------------------------------------------------------------------------------- S
def search(ctx, hints):
    for h in hints:
        if isinstance(h, dict) and "vals" in h:
            d = property_fails(h["T"], h["k"], h["s"], h["vals"], h.get("pipeline", "everyk"), None, h.get("rerun", False))
            if d:
                ctx.violation(h, d)
                return
    # small configurations first (shrunk by construction): smallest failing (T,k,s) is reported
    cand = [(T, k, s) for T in range(2, 13) for k in range(1, 6) for s in range(T)]
    hinted = [(h["T"], h["k"], h["s"]) for h in hints if isinstance(h, dict) and "T" in h and "vals" not in h]
    for (T, k, s) in hinted[:40] + cand:
        vals = [float(u * u + 1) for u in range(T)]
        for pipeline, rerun in (("everyk", False), ("widen+everyk", False), ("everyk", True)):
            ctx.impl_property_evals += 1
            d = property_fails(T, k, s, vals, pipeline, None, rerun)
            if d:
                ctx.violation({"T": T, "k": k, "s": s, "vals": vals, "pipeline": pipeline, "rerun": rerun}, d)
                return


def replay(ctx, inp):
    return property_fails(inp["T"], inp["k"], inp["s"], inp["vals"], inp.get("pipeline", "everyk"), None, inp.get("rerun", False))
