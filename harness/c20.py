"""C20 — tanh / subpixel-smoothed projection vs lean/FdtdxModel/C20.lean"""
import math

import numpy as np

RULE = ("K: (a) fdtdx.TanhProjection.__call__ (and tanh_projection directly) for EVERY (beta, eta) of the grid "
        "beta in {0, 1e-290, 1e-8, 1e-3, 0.1, 1, 8, 64, 1e3, 1e6, 1e300, inf} x eta in {0, 0.05, 0.25, 0.5, 0.75, 1, random} "
        "on arrays mixing random values of [0,1] with the special points 0, 1, eta, eta +- 1 ulp, values outside [0,1]; "
        "3-D shapes, one or two keys, beta as Python float or jnp scalar; values compared with the model at 1e-9 "
        "(absolute on O(1) data; XLA's and libm's tanh differ by a few ulp, quotient is well conditioned because dividend and "
        "divisor carry only relative ulp errors); safe_beta/divisor/dividend compared through the formula on extra points. "
        "(b) fdtdx.SubpixelSmoothedProjection.__call__ on n x m designs (2..7 per axis), singleton axis in every position, "
        "voxel sizes 20 nm .. 1 um, fields = uniform / ramps / smooth waves / half-flat / nearly flat (gradient 1e-13, 1e-20, 1e-80: d/R overflows when raised to the 4th power) / random (cells with and without an interface, "
        "counted by an independent numpy mask), same beta/eta families; compared with the model at 1e-9 except cells whose "
        "interface distance is within 1e-9 relative of the smoothing radius (branch decision at round-off; counted). "
        "(a3) deterministic probe of tiny-amplitude designs (float32 1e-26..1e-13, binary64 1e-160..1e-146, threshold 0 or the "
        "amplitude, beta in {inf, 8}, all voxel sizes): gradients finite. (b') both classes called with multi-entry dicts whose arrays differ in shape and singleton-axis position in ONE call "
        "(shape kept, equal to the single-array call, model per entry). Error glue: no singleton axis, unequal voxel sizes, missing beta, axis shorter than 2. "
        "Property oracle on the implementation (independent of the model) for every case: range [0,1] on [0,1], monotone, "
        "fixes 0 and 1 (eta in (0,1)), beta=0 == clip exactly, beta=inf == step away from eta exactly, smoothed == plain in "
        "cells without interface, jax.grad w.r.t. x / beta / eta finite (binary64 and float32). "
        "non-trivial = beta in {0, inf} or eta in {0, 1} or a cell that needs smoothing.")

BETAS = [0.0, 1e-290, 1e-8, 1e-3, 0.1, 1.0, 8.0, 64.0, 1e3, 1e6, 1e300, math.inf]
ETAS = [0.0, 0.05, 0.25, 0.5, 0.75, 1.0]
C055 = 0.55
FLOOR64 = float(np.finfo(np.float64).tiny) * 2 ** 20      # norm_floor of smoothed_projection in binary64
SUBNORMAL_SIG = "beta-below-smallest-normal"
_J = None


def J():
    global _J
    if _J is None:
        import jax
        jax.config.update("jax_enable_x64", True)
        import jax.numpy as jnp
        from fdtdx.config import SimulationConfig
        from fdtdx.core.grid import UniformGrid
        from fdtdx.materials import Material
        import fdtdx
        from fdtdx.objects.device.parameters import projection as P
        cfg = SimulationConfig(time=100e-15, grid=UniformGrid(spacing=500e-9), backend="cpu", dtype=jnp.float64)
        mats = {"Air": Material(permittivity=1.0), "Si": Material(permittivity=11.7)}
        _J = dict(jax=jax, jnp=jnp, P=P, cfg=cfg, mats=mats, Tanh=fdtdx.TanhProjection,
                  Smooth=fdtdx.SubpixelSmoothedProjection)
    return _J


# ----------------------------------------------------------------------------- implementation side
_T = {}


def make(cls, eta, shape, voxel=(1e-6, 1e-6, 1e-6), keys=("p",)):
    j = J()
    key = (cls.__name__, eta, tuple(shape), tuple(voxel), tuple(keys))
    if key not in _T:
        t = cls(projection_midpoint=eta)
        _T[key] = t.init_module(config=j["cfg"], materials=j["mats"], matrix_voxel_grid_shape=tuple(shape),
                                single_voxel_size=tuple(voxel), output_shape={k: tuple(shape) for k in keys})
    return _T[key]


def impl_tanh(beta, eta, x3, beta_kind="float", keys=("p",)):
    """TanhProjection.__call__ on a 3-D array (all keys get the same array); returns flat list"""
    j = J()
    jnp = j["jnp"]
    t = make(j["Tanh"], eta, x3.shape, keys=keys)
    b = beta if beta_kind == "float" else jnp.asarray(beta, dtype=jnp.float64)
    out = t({k: jnp.asarray(x3, dtype=jnp.float64) for k in keys}, beta=b)
    arrs = [np.asarray(out[k], dtype=np.float64) for k in keys]
    for a in arrs[1:]:
        if not np.array_equal(a, arrs[0], equal_nan=True):
            raise AssertionError("keys disagree")
    if arrs[0].shape != x3.shape:
        raise AssertionError(f"shape changed {x3.shape} -> {arrs[0].shape}")
    return arrs[0]


def impl_smooth(beta, eta, x3, voxel):
    j = J()
    jnp = j["jnp"]
    t = make(j["Smooth"], eta, x3.shape, voxel=voxel)
    out = t({"p": jnp.asarray(x3, dtype=jnp.float64)}, beta=beta)["p"]
    out = np.asarray(out, dtype=np.float64)
    if out.shape != x3.shape:
        raise AssertionError(f"shape changed {x3.shape} -> {out.shape}")
    return out


def impl_dict(cls_name, beta, eta, arrays, voxel=(1e-6, 1e-6, 1e-6)):
    """ONE __call__ on a dict whose entries differ in shape / singleton-axis position; {key: numpy} or 'error'"""
    j = J()
    jnp = j["jnp"]
    first = next(iter(arrays.values()))
    t = j[cls_name](projection_midpoint=eta)
    t = t.init_module(config=j["cfg"], materials=j["mats"], matrix_voxel_grid_shape=tuple(first.shape),
                      single_voxel_size=tuple(voxel), output_shape={k: tuple(a.shape) for k, a in arrays.items()})
    try:
        out = t({k: jnp.asarray(a, dtype=jnp.float64) for k, a in arrays.items()}, beta=beta)
    except Exception:
        return "error"
    if list(out.keys()) != list(arrays.keys()):
        return "error"
    return {k: np.asarray(out[k], dtype=np.float64) for k in arrays}


def prop_dict(cls_name, beta, eta, arrays, voxel=(1e-6, 1e-6, 1e-6), out=None):
    """multi-entry call: every entry keeps its shape and equals the single-array call on that entry"""
    arrays = {k: np.asarray(a, dtype=np.float64) for k, a in arrays.items()}
    if out is None:
        out = impl_dict(cls_name, beta, eta, arrays, voxel)
    tag = f"{cls_name} beta={beta} eta={eta} dict shapes={[a.shape for a in arrays.values()]}"
    if isinstance(out, str):
        return f"multi-entry call raised: {tag}"
    for k, v in arrays.items():
        if out[k].shape != v.shape:
            return f"entry '{k}' changed shape {v.shape} -> {out[k].shape} in a multi-entry call: {tag}"
        alone = impl_tanh(beta, eta, v) if cls_name == "Tanh" else impl_smooth(beta, eta, v, voxel)
        if not np.array_equal(alone, out[k], equal_nan=True):
            return f"entry '{k}' differs from the single-array call: {tag}"
    return None


_GR = {}


def _grad_fn(which, dtype):
    """jitted gradient w.r.t. (array, beta, eta); one compilation per (function, dtype, shape)"""
    key = (which, dtype)
    if key not in _GR:
        j = J()
        jax, jnp, P = j["jax"], j["jnp"], j["P"]
        if which == "tanh":
            f = lambda x, b, e, res: jnp.sum(P.tanh_projection(x, b, e))
        else:
            f = lambda r, b, e, res: jnp.sum(P.smoothed_projection(r, b, e, res))
        _GR[key] = jax.jit(jax.grad(f, argnums=(0, 1, 2)))
    return _GR[key]


def moderate(beta):
    """betas for which the derivative w.r.t. beta / eta is also required finite: the formula's d/dbeta carries
    dividend/divisor**2 ~ 1/beta, which leaves binary64/float32 for absurdly small beta (1e-290) by overflow of
    an intermediate; the property's 'finite gradients' is read as: w.r.t. the design for every beta, w.r.t.
    beta/eta for beta in {0} u [1e-3, 1e6] u {inf}"""
    return beta == 0 or math.isinf(beta) or 1e-3 <= beta <= 1e6


def _check_grads(g, names, what, dtype, beta):
    for name, a in zip(names, g):
        if name != names[0] and not moderate(beta):
            continue
        a = np.asarray(a)
        if not np.all(np.isfinite(a)):
            return f"d/d{name} of {what} not finite ({dtype}): {a.ravel()[:6].tolist()}"
    return None


def f32_ok(beta):
    with np.errstate(all="ignore"):
        b32 = float(np.float32(beta))
    return beta == 0 or math.isinf(beta) or (1.2e-38 < abs(b32) and not math.isinf(b32))


def grads_finite_tanh(beta, eta, xs, dtype="float64"):
    jnp = J()["jnp"]
    dt = jnp.float64 if dtype == "float64" else jnp.float32
    if dtype == "float32" and not f32_ok(beta):
        return None          # beta not representable as a normal float32: not an input of the float32 path
    g = _grad_fn("tanh", dtype)(jnp.asarray(xs, dtype=dt), jnp.asarray(beta, dtype=dt), jnp.asarray(eta, dtype=dt), 1.0)
    return _check_grads(g, ("x", "beta", "eta"), "tanh_projection", dtype, beta)


def grads_finite_smooth(beta, eta, x2, res, dtype="float64"):
    jnp = J()["jnp"]
    dt = jnp.float64 if dtype == "float64" else jnp.float32
    if dtype == "float32" and not f32_ok(beta):
        return None
    g = _grad_fn("smooth", dtype)(jnp.asarray(x2, dtype=dt), jnp.asarray(beta, dtype=dt), jnp.asarray(eta, dtype=dt),
                                  jnp.asarray(res, dtype=dt))
    return _check_grads(g, ("rho", "beta", "eta"), "smoothed_projection", dtype, beta)


# ------------------------------------------------------------------------ property oracle (python)
SLACK = 1e-12


def prop_tanh(beta, eta, xs, y=None, grads=True):
    """the property statement for tanh_projection on the flat list xs (implementation only)"""
    xs = np.asarray(xs, dtype=np.float64)
    if y is None:
        y = impl_tanh(beta, eta, xs.reshape(-1, 1, 1)).ravel()
    if not np.all(np.isfinite(y)):
        return f"non-finite output for beta={beta}, eta={eta}: {y[~np.isfinite(y)][:3].tolist()}"
    inside = (xs >= 0) & (xs <= 1)
    if np.any(y[inside] < -SLACK) or np.any(y[inside] > 1 + SLACK):
        k = int(np.argmax(inside & ((y < -SLACK) | (y > 1 + SLACK))))
        return f"range: proj({xs[k]!r}) = {y[k]!r} outside [0,1] (beta={beta}, eta={eta})"
    o = np.argsort(xs, kind="stable")
    d = np.diff(y[o])
    if np.any(d < -SLACK):
        k = int(np.argmin(d))
        return f"not monotone: proj({xs[o][k]!r}) = {y[o][k]!r} > proj({xs[o][k + 1]!r}) = {y[o][k + 1]!r} (beta={beta}, eta={eta})"
    if 0 < eta < 1:
        for k in np.nonzero((xs == 0) | (xs == 1))[0]:
            if abs(y[k] - xs[k]) > SLACK:
                return f"endpoint: proj({xs[k]!r}) = {y[k]!r} (beta={beta}, eta={eta})"
    if beta == 0:
        if not np.array_equal(y, np.clip(xs, 0, 1)):
            k = int(np.argmax(y != np.clip(xs, 0, 1)))
            return f"beta=0 is not clipping: proj({xs[k]!r}) = {y[k]!r}"
    if math.isinf(beta):
        exp = (xs > eta).astype(np.float64)
        bad = (y != exp) & (xs != eta)
        if np.any(bad):
            k = int(np.argmax(bad))
            return f"beta=inf is not the step at eta={eta}: proj({xs[k]!r}) = {y[k]!r}"
    if grads:
        for dt in ("float64", "float32"):
            g = grads_finite_tanh(beta, eta, xs, dt)
            if g:
                return g + f" (beta={beta}, eta={eta})"
    return None


def np_mask(x2, eta, res):
    """independent numpy evaluation of `needs_smoothing` and of the margin |d|/R - 1"""
    dx = 1 / res
    R = 0.55 * dx
    g0, g1 = np.gradient(x2)
    h = (g0 / dx) ** 2 + (g1 / dx) ** 2
    nz = np.abs(h) > FLOOR64
    ne = np.where(nz, np.sqrt(np.where(nz, h, 1)), 1)
    d = (eta - x2) / ne
    return nz & (np.abs(d) < R), np.where(nz, np.abs(d) / R - 1, np.inf)


def prop_smooth(beta, eta, x3, voxel, y=None, grads=True):
    """smoothed == plain projection in cells without an interface; finite output; finite gradients"""
    j = J()
    x3 = np.asarray(x3, dtype=np.float64)
    if y is None:
        y = impl_smooth(beta, eta, x3, voxel)
    v = list(x3.shape).index(1)
    x2, y2 = np.squeeze(x3, v), np.squeeze(y, v)
    first = 0 if v != 0 else 1
    res = 1 / (voxel[first] / 1e-6)
    if not np.all(np.isfinite(y2)):
        return f"non-finite smoothed projection (beta={beta}, eta={eta})"
    needs, margin = np_mask(x2, eta, res)
    plain = np.asarray(j["P"].tanh_projection(j["jnp"].asarray(x2), beta, eta))
    sel = (~needs) & (np.abs(margin) > 1e-9)
    if np.any(y2[sel] != plain[sel]):
        k = np.argwhere(sel & (y2 != plain))[0]
        return (f"cell {k.tolist()} has no interface (|d|/R-1 = {margin[tuple(k)]:.3g}) but smoothed = {y2[tuple(k)]!r} "
                f"!= plain = {plain[tuple(k)]!r} (beta={beta}, eta={eta})")
    if grads:
        for dt in ("float64", "float32"):
            g = grads_finite_smooth(beta, eta, x2, res, dt)
            if g:
                return g + f" (beta={beta}, eta={eta}, voxel={voxel[first]})"
    return None


# --------------------------------------------------------------------------------- generators
def ulp_nbrs(x):
    """neighbours of the threshold; around 0 the smallest NORMAL numbers (XLA on CPU flushes subnormals)"""
    if x == 0:
        return [-2.3e-308, 2.3e-308]
    return [float(np.nextafter(x, -np.inf)), float(np.nextafter(x, np.inf))]


def gen_xs(rng, eta, n):
    xs = [0.0, 1.0, eta] + ulp_nbrs(eta) + [rng.uniform(0, 1) for _ in range(n)]
    xs += [rng.uniform(-0.5, 0.0), rng.uniform(1.0, 1.5), eta + rng.uniform(-1e-6, 1e-6)]
    return xs


def shape3(rng, k):
    """a 3-D shape with k entries, from a small set (every new shape costs one XLA compilation per eager op)"""
    cands = [(2, 3, k // 6), (k, 1, 1), (1, k // 4, 4), (k // 2, 2, 1)]
    return rng.choice([c for c in cands if c[0] * c[1] * c[2] == k])


def gen_field(rng, n, m, kind):
    i, jx = np.meshgrid(np.arange(n), np.arange(m), indexing="ij")
    if kind == "uniform":
        return np.full((n, m), rng.choice([0.0, 0.3, 0.5, 1.0]))
    if kind == "ramp":
        a, b = rng.uniform(-0.2, 0.2), rng.uniform(-0.2, 0.2)
        return np.clip(0.5 + a * (i - n / 2) + b * (jx - m / 2), 0, 1)
    if kind == "wave":
        return 0.5 + 0.45 * np.sin(rng.uniform(0.3, 1.5) * i + rng.uniform(0, 6)) * np.cos(rng.uniform(0.3, 1.5) * jx)
    if kind == "halfflat":          # flat region next to a slope: zero-norm cells beside interface cells
        f = np.full((n, m), 0.2)
        f[n // 2:, :] = 0.2 + 0.15 * (i[n // 2:, :] - n // 2 + 1)
        return np.clip(f, 0, 1)
    if kind == "nearflat":          # tiny non-zero gradients: no interface, but d/R is astronomically large
        # (d/R)**4 leaves float32 for amplitude 1e-20 and binary64 for 1e-80: the masked-out polynomial must not
        # poison the gradient
        base, amp = rng.choice([(0.3, 1e-13), (0.0, 1e-20), (0.0, 1e-80)])
        return base + amp * np.array([[rng.random() for _ in range(m)] for _ in range(n)])
    return np.array([[rng.random() for _ in range(m)] for _ in range(n)])


FIELD_KINDS = ["uniform", "ramp", "wave", "halfflat", "nearflat", "random"]
VOXELS = [20e-9, 50e-9, 3.3e-7, 1e-6]


def nontriv(beta, eta, extra=None):
    if beta == 0 or math.isinf(beta) or eta in (0.0, 1.0) or extra:
        return (repr(beta), repr(eta), extra)
    return None


# ------------------------------------------------------------------------------------------- K
class Batch:
    """model requests are collected and sent in one driver run (a driver start costs ~0.1 s)"""

    def __init__(self, ctx):
        self.ctx, self.lines, self.cbs = ctx, [], []

    def ask(self, line, cb):
        self.lines.append(line)
        self.cbs.append(cb)

    def flush(self):
        if self.lines:
            for cb, rep in zip(self.cbs, self.ctx.driver.ask_many(self.lines)):
                cb(rep)
        self.lines, self.cbs = [], []


def run(ctx):
    from .common import f2h, h2fs
    rng = ctx.rng
    B = Batch(ctx)
    # (a) tanh projection over the whole (beta, eta) grid
    npts = ctx.scale(16, 112)
    etas = ETAS + [rng.uniform(0.01, 0.99) for _ in range(ctx.scale(1, 6))]
    shapes = [(2, 3, (npts + 8) // 6), rng.choice([(npts + 8, 1, 1), (1, (npts + 8) // 4, 4), ((npts + 8) // 2, 2, 1)])]
    ci = 0
    for beta in BETAS:
        for eta in etas:
            xs = gen_xs(rng, eta, npts)
            xs = rng.shuffle(xs)
            shape = shapes[ci % 2]
            x3 = np.asarray(xs, dtype=np.float64).reshape(shape)
            kind = "float" if ci % 3 else "jnp"
            keys = ("p",) if ci % 4 else ("p", "q")
            y = impl_tanh(beta, eta, x3, kind, keys).ravel()
            case = {"op": "tanh", "beta": beta, "eta": eta, "xs": xs}
            ctx.case(sample={**case, "impl": y.tolist()} if ci in (3, 40) else None, nontrivial=nontriv(beta, eta),
                     op="tanh", beta=repr(beta), eta=("rand" if eta not in ETAS else repr(eta)), beta_arg=kind, keys=len(keys))

            def cb(rep, case=case, y=y):
                if rep in ("bad-op", "error"):
                    ctx.mismatch("tanh", case, {"model": rep})
                else:
                    ctx.expect_close("tanh", case, y, h2fs(rep), tol=1e-9)
            B.ask(f"tanh {f2h(beta)} {f2h(eta)} " + " ".join(f2h(x) for x in xs), cb)
            ctx.impl_property_evals += 1
            d = prop_tanh(beta, eta, xs, y, grads=(ci % ctx.scale(3, 1) == 0) or beta in (0.0, math.inf))
            if d:
                ctx.violation(case, d)
            ci += 1
    # (a') the guard quantities through the formula branch: dividend/divisor of the model must reproduce the
    # implementation's value, the divisor must be > 0 and safe_beta finite (finite beta > 0)
    P, jnp = J()["P"], J()["jnp"]
    for _ in range(ctx.scale(12, 120)):
        beta, eta, x = rng.choice(BETAS[1:-1]), rng.choice(etas), rng.uniform(0, 1)
        y = float(P.tanh_projection(jnp.asarray(x), beta, eta))
        case = {"op": "tanh", "beta": beta, "eta": eta, "xs": [x]}
        ctx.case(op="parts", beta=repr(beta))

        def cb(rep, case=case, y=y, beta=beta):
            sb, dv, dd = h2fs(rep)
            ctx.expect_close("parts", case, [y, beta], [dd / dv, sb], tol=1e-9)
            if not (dv > 0 and math.isfinite(sb)):
                ctx.mismatch("parts", case, {"divisor": dv, "safe_beta": sb})
        B.ask(f"parts {f2h(beta)} {f2h(eta)} {f2h(x)}", cb)
    for beta in (0.0, math.inf):
        ctx.case(op="parts", beta=repr(beta))
        B.ask(f"parts {f2h(beta)} {f2h(0.5)} {f2h(0.5)}",
              lambda rep, beta=beta: ctx.expect_equal("parts", {"op": "tanh", "beta": beta, "eta": 0.5, "xs": [0.5]}, 1.0, h2fs(rep)[0]))

    # (a'') betas below the smallest normal binary64 number: XLA flushes beta*eta to zero and the formula is 0/0
    for beta in (1e-310,):
        xs = [0.0, 0.3, 0.5, 1.0]
        y = impl_tanh(beta, 0.5, np.asarray(xs).reshape(4, 1, 1)).ravel()
        ctx.case(op="subnormal-beta")
        ctx.impl_property_evals += 1
        if not np.all(np.isfinite(y)):
            ctx.violation({"op": "tanh", "beta": beta, "eta": 0.5, "xs": xs},
                          f"tanh_projection returns {y.tolist()} for beta={beta} (0 < beta < 2.2e-308)", signature=SUBNORMAL_SIG)

    # (a3) designs whose whole variation is tiny (float32: 1e-26..1e-13, binary64: 1e-160..1e-146) with the threshold at
    # or next to 0: the squared gradient norm sits at the underflow threshold of the dtype. Before the repair
    # (norm_floor) the backward pass overflowed there (inf/NaN gradients at beta=inf). Deterministic, every run.
    base = np.array([[1.965977143249371, 6.073738027551667, 4.5056637457985, 0.8548545994479029],
                     [4.67809022323612, 9.744079365483317, 3.078785994784897, 2.942501723948847],
                     [1.7393373378864083, 0.4776031980890105, 7.869129054406456, 8.576987448441539],
                     [0.36636147291449035, 1.6989315448780295, 8.10477936338418, 1.223829527722996]])
    for dtype, exps in (("float32", [x / 2 for x in range(-52, -25)]), ("float64", list(range(-160, -145)))):
        for e in exps:
            for vox in VOXELS:
                res = 1 / (vox / 1e-6)
                for beta in (math.inf, 8.0):
                    for eta in (0.0, 10.0 ** e):
                        x2 = base * 10.0 ** e
                        ctx.case(op="tiny-amplitude", dtype=dtype, nontrivial=("tiny", dtype, e, vox, repr(beta), eta == 0))
                        ctx.impl_property_evals += 1
                        d = grads_finite_smooth(beta, eta, x2, res, dtype)
                        if d:
                            ctx.violation({"op": "smooth", "beta": beta, "eta": eta, "x3": np.expand_dims(x2, 2).tolist(),
                                           "voxel": [vox, vox, 1e-6]}, d + f" (beta={beta}, eta={eta}, voxel={vox}, amplitude 1e{e})")

    # (b) subpixel-smoothed projection
    n_cases = ctx.scale(60, 500)
    nms = [(2, 2), (7, 3)] + [(rng.randint(2, 7), rng.randint(2, 7)) for _ in range(ctx.scale(2, 10))]
    for ci in range(n_cases):
        beta = BETAS[ci % len(BETAS)] if ci < 2 * len(BETAS) else rng.choice(BETAS)
        eta = rng.choice(etas) if ci % 5 else rng.choice([0.0, 1.0, 0.5])
        n, m = nms[ci % len(nms)] if ci % 7 else rng.choice(nms)
        kind = FIELD_KINDS[ci % len(FIELD_KINDS)]
        x2 = gen_field(rng, n, m, kind)
        v = (ci // 2) % 3
        vox = rng.choice(VOXELS)
        voxel = [vox, vox, vox]
        voxel[v] = rng.choice(VOXELS)           # the vertical voxel size is free
        x3 = np.expand_dims(x2, v)
        first = 0 if v != 0 else 1
        res = 1 / (voxel[first] / 1e-6)
        y = impl_smooth(beta, eta, x3, voxel)
        needs, margin = np_mask(x2, eta, res)
        case = {"op": "smooth", "beta": beta, "eta": eta, "x3": x3.tolist(), "voxel": voxel}
        ctx.case(sample={**case, "impl": y.tolist()} if ci == 7 else None,
                 nontrivial=nontriv(beta, eta, ("smooth", ci) if needs.any() else None), op="smooth", field=kind,
                 vertical_axis=v, smooth_beta=repr(beta), cells_with_interface=int(needs.sum()) > 0,
                 cells_without_interface=int((~needs).sum()) > 0)
        ctx.extra["interface_cells"] = ctx.extra.get("interface_cells", 0) + int(needs.sum())
        ctx.extra["plain_cells"] = ctx.extra.get("plain_cells", 0) + int((~needs).sum())

        def cb(rep, case=case, y=y, v=v, margin=margin, n=n, m=m):
            if rep in ("bad-op", "error"):
                ctx.mismatch("smooth", case, {"model": rep})
            else:
                mod = np.asarray(h2fs(rep)).reshape(n, m)
                ok = np.abs(margin) > 1e-9
                ctx.extra["borderline_cells_skipped"] = ctx.extra.get("borderline_cells_skipped", 0) + int((~ok).sum())
                ctx.expect_close("smooth", case, np.squeeze(y, v)[ok], mod[ok], tol=1e-9)
        B.ask(f"smooth {n} {m} {f2h(beta)} {f2h(eta)} {f2h(res)} {f2h(C055)} {f2h(FLOOR64)} " + " ".join(f2h(t) for t in x2.ravel()), cb)
        ctx.impl_property_evals += 1
        d = prop_smooth(beta, eta, x3, voxel, y, grads=(ci % ctx.scale(2, 1) == 0))
        if d:
            ctx.violation(case, d)

    # (b') multi-entry dicts mixing shapes and singleton-axis positions in ONE call (both classes): every entry keeps its
    # shape, equals the single-array call, and is compared with the model entry by entry
    for ci in range(ctx.scale(6, 30)):
        cls_name = "Tanh" if ci % 2 == 0 else "Smooth"
        beta, eta = rng.choice(BETAS), rng.choice(etas)
        a, b, c = rng.randint(2, 4), rng.randint(5, 6), rng.randint(2, 6)
        dims = rng.shuffle([(a, b), (b, c), (c, a + 1)])
        shapes = []
        for pos, d in zip(rng.shuffle([0, 1, 2]), dims):
            sh = list(d)
            sh.insert(pos, 1)
            shapes.append(tuple(sh))
        if cls_name == "Tanh":
            shapes[0] = (a, b, c)                     # the plain projection also takes full 3-D arrays
        shapes = shapes[:rng.randint(2, 3)]
        arrays = {k: gen_field(rng, int(np.prod(sh)), 1, "random").reshape(sh) for k, sh in zip(("a", "b", "c"), shapes)}
        vox = rng.choice(VOXELS)
        voxel = [vox] * 3
        out = impl_dict(cls_name, beta, eta, arrays, voxel)
        case = {"op": "dict", "cls": cls_name, "beta": beta, "eta": eta, "voxel": voxel,
                "dict": {k: v.tolist() for k, v in arrays.items()}}
        ctx.case(nontrivial=("dict", ci), op="mixed-dict", cls=cls_name, entries=len(shapes),
                 singleton_positions="/".join(str(list(sh).index(1)) if 1 in sh else "-" for sh in shapes))
        for k, v in arrays.items():
            if isinstance(out, str) or out[k].shape != v.shape:
                ctx.mismatch("mixed-dict", case, {"entry": k, "impl": out if isinstance(out, str) else list(out[k].shape),
                                                  "expected_shape": list(v.shape)})
                continue
            if cls_name == "Tanh":
                line = f"tanh {f2h(beta)} {f2h(eta)} " + " ".join(f2h(x) for x in v.ravel())
                ok = np.ones(v.size, dtype=bool)
            else:
                vax = list(v.shape).index(1)
                x2 = np.squeeze(v, vax)
                res = 1 / (voxel[0] / 1e-6)
                line = f"smooth {x2.shape[0]} {x2.shape[1]} {f2h(beta)} {f2h(eta)} {f2h(res)} {f2h(C055)} {f2h(FLOOR64)} " + " ".join(f2h(t) for t in x2.ravel())
                ok = (np.abs(np_mask(x2, eta, res)[1]) > 1e-9).ravel()

            def cb(rep, case=case, y=out[k].ravel(), ok=ok):
                if rep in ("bad-op", "error"):
                    ctx.mismatch("mixed-dict", case, {"model": rep})
                else:
                    ctx.expect_close("mixed-dict", case, y[ok], np.asarray(h2fs(rep))[ok], tol=1e-9)
            B.ask(line, cb)
        ctx.impl_property_evals += 1
        d = prop_dict(cls_name, beta, eta, arrays, voxel, out)
        if d:
            ctx.violation(case, d)

    # (c) glue / error branches
    jx = J()
    for shape in [(3, 3, 3), (2, 3, 4), (1, 3, 4), (3, 1, 4), (3, 4, 1), (1, 1, 4), (1, 4, 1)]:
        try:
            vv = shape.index(1)
            impl = f"{vv} {0 if vv != 0 else 1} {2 if vv != 2 else 1}"
        except ValueError:
            impl = "error"
        x3 = np.full(shape, 0.4)
        try:
            impl_smooth(1.0, 0.5, x3, (1e-6, 1e-6, 1e-6))
            real = "ok"
        except Exception:
            real = "error"
        ctx.case(op="axes", nontrivial=("axes", shape))
        two_long = sum(1 for s in shape if s >= 2) == 2

        def cb(rep, shape=shape, impl=impl, real=real, two_long=two_long):
            ctx.expect_equal("axes", {"shape": shape}, impl, rep)
            ctx.expect_equal("axes-real", {"shape": shape}, real, "ok" if (rep != "error" and two_long) else "error")
        B.ask("axes %d %d %d" % shape, cb)
    # unequal voxel sizes in the two design axes -> exception; vertical size irrelevant
    for v in range(3):
        shape = [3, 3, 3]
        shape[v] = 1
        vox = [1e-6, 1e-6, 1e-6]
        second = 2 if v != 2 else 1
        vox[second] = 2e-6
        try:
            impl_smooth(1.0, 0.5, np.full(shape, 0.4), vox)
            real = "ok"
        except Exception:
            real = "error"
        ctx.case(op="voxel-mismatch", nontrivial=("voxel", v))
        ctx.expect_equal("voxel-mismatch", {"v": v}, real, "error")
    for cls in (jx["Tanh"], jx["Smooth"]):
        t = make(cls, 0.5, (3, 3, 1))
        try:
            t({"p": jx["jnp"].full((3, 3, 1), 0.4)})
            real = "ok"
        except Exception:
            real = "error"
        ctx.case(op="missing-beta")
        ctx.expect_equal("missing-beta", {"cls": cls.__name__}, real, "error")
    ctx.case(op="short-axis")
    B.ask(f"smooth 1 3 {f2h(1.0)} {f2h(0.5)} {f2h(1.0)} {f2h(C055)} {f2h(FLOOR64)} " + " ".join([f2h(0.4)] * 3),
          lambda rep: ctx.expect_equal("short-axis", {}, rep, "error"))
    B.flush()


# ------------------------------------------------------------------------------------------- S
def _eval(inp):
    if inp.get("op") == "dict":
        return prop_dict(inp["cls"], inp["beta"], inp["eta"], inp["dict"], inp["voxel"])
    if inp.get("op") == "smooth":
        return prop_smooth(inp["beta"], inp["eta"], np.asarray(inp["x3"], dtype=np.float64), inp["voxel"])
    return prop_tanh(inp["beta"], inp["eta"], inp["xs"])


def search(ctx, hints):
    for h in hints:
        if isinstance(h, dict) and h.get("op") in ("tanh", "smooth", "dict"):
            ctx.impl_property_evals += 1
            d = _eval(h)
            if d:
                ctx.violation(shrink(h, d), d)
                return
    rng = ctx.rng.fork()
    # smallest inputs first: few points per (beta, eta), then growing arrays / fields
    for npts in (0, 4, 32):
        for beta in BETAS:
            for eta in ETAS + [rng.uniform(0.01, 0.99)]:
                inp = {"op": "tanh", "beta": beta, "eta": eta, "xs": gen_xs(rng, eta, npts)}
                ctx.impl_property_evals += 1
                d = _eval(inp)
                if d:
                    ctx.violation(shrink(inp, d), d)
                    return
    for size in (2, 3, 5, 7):
        for beta in BETAS:
            for eta in (0.0, 0.3, 0.5, 1.0):
                for kind in FIELD_KINDS:
                    for v in range(3):
                        vox = rng.choice(VOXELS)
                        x3 = np.expand_dims(gen_field(rng, size, size, kind), v)
                        inp = {"op": "smooth", "beta": beta, "eta": eta, "x3": x3.tolist(), "voxel": [vox] * 3}
                        ctx.impl_property_evals += 1
                        d = _eval(inp)
                        if d:
                            ctx.violation(inp, d)
                            return


def shrink(inp, detail):
    """drop points of a failing tanh case while it keeps failing"""
    if inp.get("op") != "tanh":
        return inp
    xs = list(inp["xs"])
    i = 0
    while i < len(xs) and len(xs) > 1:
        t = xs[:i] + xs[i + 1:]
        if _eval({**inp, "xs": t}):
            xs = t
        else:
            i += 1
    return {**inp, "xs": xs}


def replay(ctx, inp):
    return _eval(inp)
