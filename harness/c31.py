"""C31 — export_json_str / import_from_json vs lean/FdtdxModel/C31.lean, and placement of re-imported setups"""
import dataclasses
import json
import warnings

from .common import f2h, h2f

RULE = ("K (values): random values of the serialisable fragment — None, bool, int, float (incl. inf), str, JAX and numpy dtypes, "
        "numpy/JAX arrays (0-d, 1-d, 2-d; float, int, bool), the four constraint dataclasses, TreeClass objects of fdtdx "
        "(WaveCharacter, OnOffSwitch, Material, UniformGrid, SimulationConfig, UniformMaterialObject, detectors, sources), dicts "
        "(random keys incl. look-alikes of the reserved keys, and the four reserved keys themselves = export error), lists and "
        "tuples, nested to depth 3 — converted to the model's AST by the harness; the JSON produced by export_json_str "
        "(json.loads of it, numbers type-tagged) is compared exactly with the model's exportJ, and the model's own "
        "importJ(exportJ v) = v is checked on every case. Independent oracle: import_from_json(export_json_str(v)) has the same "
        "AST as v. K (scenes): random placement setups (volume 8x7x6 or 6x6x9 cells; PML or periodic boundaries; 1-3 material "
        "boxes placed by position / size / size-extension / grid-coordinate constraints, isotropic or anisotropic; plane source "
        "with CW or Gaussian profile; energy / field / Poynting / phasor detectors), exported (export_json_str and JsonSetup.dumps) "
        "and re-imported; property oracle: original and re-imported setup are placed with place_objects and compared — object "
        "names, types, grid slices, and EVERY array leaf of the ArrayContainer (fields, material arrays, detector states, recording "
        "states) by dtype, shape and value, plus the resolved config. Every dtype of the exporter's own table (fdtdx.typing.JAX_DTYPES) "
        "is always generated bare, in lists, in Recorder(DtypeConversion), GradientConfig, SimulationConfig and a detector; quick "
        "scenes 0/1/2 carry a bfloat16 / float16 / float32 DtypeConversion recorder (PML boundaries) and detectors with those dtypes; "
        "dtype names are compared exactly. non-trivial = every case except bare scalars.")

_env = None


def E():
    global _env
    if _env is None:
        import jax
        import jax.numpy as jnp
        import numpy as np
        import fdtdx
        from fdtdx.conversion.json import JsonSetup, export_json_str, import_from_json
        from fdtdx.core.jax.pytrees import TreeClass
        from fdtdx.objects.boundaries.initialization import BoundaryConfig, boundary_objects_from_config
        from fdtdx.objects.object import GridCoordinateConstraint, PositionConstraint, SizeConstraint, SizeExtensionConstraint
        from fdtdx.typing import JAX_DTYPES
        _env = dict(jax=jax, jnp=jnp, np=np, fdtdx=fdtdx, JsonSetup=JsonSetup, export=export_json_str, imp=import_from_json,
                    TreeClass=TreeClass, BoundaryConfig=BoundaryConfig, bofc=boundary_objects_from_config, DT=JAX_DTYPES,
                    PC=PositionConstraint, SC=SizeConstraint, SEC=SizeExtensionConstraint, GCC=GridCoordinateConstraint)
    return _env


def hx(s):
    return "x" + s.encode("utf-8").hex()


class NotInFragment(Exception):
    pass


# ------------------------------------------------------------------------------------------ python value -> AST tokens
def is_dtype(v):
    e = E()
    np = e["np"]
    if isinstance(v, np.dtype):
        return True
    return isinstance(v, type) and any(v is d or v == d for d in e["DT"])


def raw_tokens(x):
    if isinstance(x, bool):
        return ["B1" if x else "B0"]
    if isinstance(x, int):
        return ["I", str(x)]
    if isinstance(x, float):
        return ["F", f2h(x)]
    if isinstance(x, list):
        out = ["L", str(len(x))]
        for y in x:
            out += raw_tokens(y)
        return out
    raise NotInFragment(type(x).__name__)


def ast(v):
    e = E()
    np = e["np"]
    if v is None:
        return ["N"]
    if isinstance(v, bool):
        return ["B1" if v else "B0"]
    if isinstance(v, int):
        return ["I", str(v)]
    if isinstance(v, float):
        return ["F", f2h(v)]
    if isinstance(v, str):
        return ["S", hx(v)]
    if isinstance(v, (np.ndarray, e["jax"].Array)):
        return ["R"] + raw_tokens(np.asarray(v).tolist())
    if is_dtype(v):
        return ["Y", hx("jax.numpy." + np.dtype(v).name)]
    if dataclasses.is_dataclass(v) and not isinstance(v, type) and hasattr(v, "__dict__"):
        its = [(k, x) for k, x in v.__dict__.items() if not k.startswith("_")]
        out = ["C", hx(type(v).__module__), hx(type(v).__name__), str(len(its))]
        for k, x in its:
            out += [hx(k)] + ast(x)
        return out
    if isinstance(v, e["TreeClass"]):
        fs = v.get_public_fields()
        out = ["O", hx(type(v).__module__), hx(type(v).__name__), str(len(fs))]
        for f in fs:
            out += [hx(f.name)] + ast(f.value)
        return out
    if isinstance(v, dict):
        out = ["D", str(len(v))]
        for k, x in v.items():
            if not isinstance(k, str):
                raise NotInFragment("non-str key")
            out += [hx(k)] + ast(x)
        return out
    if type(v) is list or type(v) is tuple:
        out = ["L" if type(v) is list else "T", str(len(v))]
        for x in v:
            out += ast(x)
        return out
    raise NotInFragment(type(v).__name__)


def ast_key(toks):
    """AST with object fields / dict entries sorted by key (json.dumps(sort_keys) reorders them)"""
    def rd(i):
        t = toks[i]
        if t in ("N", "B0", "B1"):
            return (t,), i + 1
        if t in ("I", "F", "S", "Y"):
            return (t, toks[i + 1]), i + 2
        if t == "R":
            x, i = rd(i + 1)
            return ("R", x), i
        if t in ("L", "T"):
            n, i = int(toks[i + 1]), i + 2
            xs = []
            for _ in range(n):
                x, i = rd(i)
                xs.append(x)
            return (t, tuple(xs)), i
        if t in ("C", "O", "D"):
            if t == "D":
                head, n, i = ("D",), int(toks[i + 1]), i + 2
            else:
                head, n, i = (t, toks[i + 1], toks[i + 2]), int(toks[i + 3]), i + 4
            kv = []
            for _ in range(n):
                k = toks[i]
                x, i = rd(i + 1)
                kv.append((k, x))
            return head + (tuple(sorted(kv)),), i
        raise ValueError(t)
    return rd(0)[0]


# --------------------------------------------------------------------------------------------- JSON canonical forms
def canon_json(x):
    """python structure from json.loads -> type-tagged canonical form"""
    if x is None:
        return ("n",)
    if isinstance(x, bool):
        return ("b", x)
    if isinstance(x, int):
        return ("i", x)
    if isinstance(x, float):
        return ("f", f2h(x))
    if isinstance(x, str):
        return ("s", x)
    if isinstance(x, list):
        return ("a", tuple(canon_json(y) for y in x))
    return ("o", tuple(sorted((k, canon_json(v)) for k, v in x.items())))


def canon_model(toks):
    def rd(i):
        t = toks[i]
        if t == "n":
            return ("n",), i + 1
        if t in ("b0", "b1"):
            return ("b", t == "b1"), i + 1
        if t == "i":
            return ("i", int(toks[i + 1])), i + 2
        if t == "f":
            return ("f", toks[i + 1]), i + 2
        if t == "s":
            return ("s", bytes.fromhex(toks[i + 1][1:]).decode()), i + 2
        if t == "a":
            n, i = int(toks[i + 1]), i + 2
            xs = []
            for _ in range(n):
                x, i = rd(i)
                xs.append(x)
            return ("a", tuple(xs)), i
        n, i = int(toks[i + 1]), i + 2
        kv = []
        for _ in range(n):
            k = bytes.fromhex(toks[i][1:]).decode()
            x, i = rd(i + 1)
            kv.append((k, x))
        return ("o", tuple(sorted(kv))), i
    return rd(0)[0]


# ------------------------------------------------------------------------------------------------ value generator
def build(d):
    """JSON-able description -> python value"""
    e = E()
    fx, np, jnp = e["fdtdx"], e["np"], e["jnp"]
    k = d[0]
    if k == "none":
        return None
    if k in ("bool", "int", "str"):
        return d[1]
    if k == "float":
        return float(d[1])
    if k == "dtype":
        return getattr(jnp, d[2]) if d[1] == "jnp" else (getattr(np, d[2]) if d[1] == "np" else np.dtype(d[2]))
    if k == "array":
        a = np.array(d[2], dtype=d[3])
        return jnp.asarray(a) if d[1] == "jax" else a
    if k == "list":
        return [build(x) for x in d[1]]
    if k == "tuple":
        return tuple(build(x) for x in d[1])
    if k == "dict":
        return {kk: build(x) for kk, x in d[1]}
    if k == "pos":
        return e["PC"](object=d[1], other_object=d[2], axes=tuple(d[3]), object_positions=tuple(d[4]), other_object_positions=tuple(d[5]),
                       margins=tuple(d[6]), grid_margins=tuple(d[7]))
    if k == "size":
        return e["SC"](object=d[1], other_object=d[2], axes=tuple(d[3]), other_axes=tuple(d[3]), proportions=tuple(d[4]),
                       offsets=tuple(d[5]), grid_offsets=tuple(d[6]))
    if k == "ext":
        return e["SEC"](object=d[1], other_object=d[2], axis=d[3], direction=d[4], other_position=d[5], offset=d[6], grid_offset=d[7])
    if k == "gcc":
        return e["GCC"](object=d[1], axes=tuple(d[2]), sides=tuple(d[3]), coordinates=tuple(d[4]))
    if k == "wave":
        return fx.WaveCharacter(**{d[1]: d[2]}, phase_shift=d[3])
    if k == "switch":
        return fx.OnOffSwitch(**d[1])
    if k == "material":
        with warnings.catch_warnings():
            warnings.simplefilter("ignore")
            return fx.Material(permittivity=tuple(d[1]) if isinstance(d[1], list) else d[1], electric_conductivity=d[2])
    if k == "grid":
        return fx.UniformGrid(spacing=d[1])
    if k == "config":
        return fx.SimulationConfig(time=d[1], grid=fx.UniformGrid(spacing=d[2]), dtype=build(d[3]), backend="cpu", courant_factor=d[4])
    if k == "recorder":
        from fdtdx.interfaces.modules import DtypeConversion
        from fdtdx.interfaces.time_filter import LinearReconstructEveryK
        mods = [DtypeConversion(dtype=getattr(jnp, n)) for n in d[1]]
        if d[2]:
            mods.append(LinearReconstructEveryK(k=d[2]))
        return fx.Recorder(modules=mods)
    if k == "gradcfg":
        return fx.GradientConfig(method="reversible", recorder=build(d[1]))
    if k == "gconfig":
        return fx.SimulationConfig(time=d[1], grid=fx.UniformGrid(spacing=d[2]), dtype=build(d[3]), backend="cpu",
                                   gradient_config=build(d[4]))
    if k == "dtdet":
        return fx.EnergyDetector(name=d[1], dtype=getattr(jnp, d[2]))
    if k == "box":
        return fx.UniformMaterialObject(partial_grid_shape=tuple(d[1]), material=build(d[2]), name=d[3])
    if k == "detector":
        return fx.EnergyDetector(name=d[1], switch=build(d[2]), as_slices=d[3])
    if k == "phasor":
        return fx.PhasorDetector(name=d[1], wave_characters=[build(w) for w in d[2]])
    if k == "source":
        prof = fx.SingleFrequencyProfile(num_startup_periods=d[3]) if d[2] == "cw" else fx.GaussianPulseProfile(
            spectral_width=fx.WaveCharacter(frequency=2e13), center_wave=fx.WaveCharacter(wavelength=1.5e-6))
        return fx.UniformPlaneSource(partial_grid_shape=(None, None, 1), fixed_E_polarization_vector=(1, 0, 0), direction=d[4],
                                     wave_character=build(d[1]), temporal_profile=prof, name=d[5])
    raise ValueError(k)


KEYS = ["a", "name", "value", "__value", "value__", "_x", "module", "__name", "k k", "", "dtype", "Z"]
RESERVED = ["__module__", "__name__", "__value__", "__dtype__"]


def gen_value(rng, depth):
    r = rng.randint(0, 25 if depth > 0 else 9)
    if r == 0:
        return ["none"]
    if r == 1:
        return ["bool", rng.chance(0.5)]
    if r in (2, 3):
        return ["int", rng.choice([0, 1, -7, 12345678901234, rng.randint(-99, 99)])]
    if r in (4, 5):
        return ["float", rng.choice([0.0, -0.0, 1.5, 1e-15, 2.998e8, float("inf"), rng.uniform(-3, 3), 0.1])]
    if r == 6:
        return ["str", rng.choice(["", "abc", "Cube", "__name__", "a\"b\\c", "ümlaut", "+", "-"])]
    if r == 7:
        return ["dtype", rng.choice(["jnp", "jnp", "np", "npdtype"]), rng.choice(["float32", "float64", "complex64", "int32", "float16"])]
    if r in (8, 9):
        kind = rng.choice(["float64", "float32", "int32", "bool"])
        shape = rng.choice([(), (3,), (2, 2), (0,), (1, 3)])
        import itertools
        n = 1
        for s in shape:
            n *= s
        flat = [rng.choice([0, 1, 2, -3]) if kind != "bool" else rng.chance(0.5) for _ in range(n)]
        if kind.startswith("float"):
            flat = [x + rng.choice([0.0, 0.5, 0.25]) for x in flat]

        def nest(fl, sh):
            if not sh:
                return fl[0]
            step = len(fl) // sh[0] if sh[0] else 0
            return [nest(fl[i * step:(i + 1) * step], sh[1:]) for i in range(sh[0])]
        return ["array", rng.choice(["np", "jax"]), nest(flat, shape) if shape != () else flat[0], kind]
    if r in (10, 11):
        return ["list", [gen_value(rng, depth - 1) for _ in range(rng.randint(0, 3))]]
    if r in (12, 13):
        return ["tuple", [gen_value(rng, depth - 1) for _ in range(rng.randint(0, 3))]]
    if r in (14, 15, 16):
        keys = rng.shuffle(KEYS)[:rng.randint(0, 3)]
        if rng.chance(0.15):
            keys.append(rng.choice(RESERVED))
        return ["dict", [[k, gen_value(rng, depth - 1)] for k in keys]]
    if r == 17:
        ax = rng.shuffle([0, 1, 2])[:rng.randint(1, 3)]
        n = len(ax)
        return ["pos", "A", "B", ax, [rng.choice([-1.0, 0.0, 1.0]) for _ in ax], [rng.choice([-1.0, 0.0, 0.5]) for _ in ax],
                [rng.choice([0.0, 1e-7]) for _ in ax], [rng.choice([0, 2, -1]) for _ in ax]]
    if r == 18:
        ax = rng.shuffle([0, 1, 2])[:rng.randint(1, 3)]
        return ["size", "A", "B", ax, [rng.choice([1.0, 0.5]) for _ in ax], [0.0 for _ in ax], [rng.choice([0, 1]) for _ in ax]]
    if r == 19:
        return ["ext", "A", rng.choice([None, "B"]), rng.randint(0, 2), rng.choice(["+", "-"]), rng.choice([-1.0, 1.0, 0.0]), 0.0, rng.choice([0, 1])]
    if r == 20:
        ax = rng.shuffle([0, 1, 2])[:rng.randint(1, 3)]
        return ["gcc", "A", ax, [rng.choice(["+", "-"]) for _ in ax], [rng.randint(0, 5) for _ in ax]]
    if r == 21:
        return ["wave", rng.choice(["wavelength", "frequency", "period"]), rng.choice([1.55e-6, 2e14, 5e-15]), rng.choice([0.0, 1.25])]
    if r == 22:
        return ["switch", rng.choice([{}, {"interval": 3}, {"start_after_periods": 2.0, "period": 5e-15}, {"fixed_on_time_steps": [1, 4, 5]}])]
    if r == 23:
        return ["material", rng.choice([2.25, [2.0, 2.5, 3.0], 1.0]), rng.choice([0.0, 0.3])]
    if r == 24:
        return ["config", rng.choice([1e-13, 2e-14]), rng.choice([5e-8, 1e-7]), ["dtype", rng.choice(["jnp", "np"]), rng.choice(["float32", "float64"])], rng.choice([0.99, 0.5])]
    return rng.choice([["box", [2, None, 3], ["material", 2.25, 0.0], "Cube"], ["detector", "Det", ["switch", {"interval": 2}], rng.chance(0.5)],
                       ["phasor", "Ph", [["wave", "wavelength", 1.55e-6, 0.0], ["wave", "frequency", 2e14, 0.5]]],
                       ["source", ["wave", "wavelength", 1.55e-6, 0.0], rng.choice(["cw", "gauss"]), 3, rng.choice(["+", "-"]), "src"]])


def has_reserved(d):
    if d[0] == "dict":
        return any(k in RESERVED for k, _ in d[1]) or any(has_reserved(x) for _, x in d[1])
    if d[0] in ("list", "tuple"):
        return any(has_reserved(x) for x in d[1])
    return False


def value_roundtrip(desc):
    """property on the implementation: import(export(v)) is v (same AST); returns (detail, exported string or None, ast tokens)"""
    e = E()
    v = {"root": build(desc)}
    toks = ast(v)
    try:
        s = e["export"](v)
    except (AssertionError, NotImplementedError):
        return (None if has_reserved(desc) else "export_json_str raised on a serialisable value"), None, toks
    if has_reserved(desc):
        return "export_json_str accepted a dict with a reserved key (it cannot be imported back)", s, toks
    try:
        back = e["imp"](s)
        btoks = ast(back)
    except Exception as ex:  # noqa: BLE001
        return f"import_from_json(export_json_str(v)) raised {type(ex).__name__}: {str(ex)[:120]}", s, toks
    if ast_key(btoks) != ast_key(toks):
        return "import_from_json(export_json_str(v)) differs from v", s, toks
    return None, s, toks


# --------------------------------------------------------------------------------------------------------- scenes
def gen_scene(rng, index=None):
    shape = rng.choice([[8, 7, 6], [6, 6, 9]])
    sc = {"shape": shape, "boundary": rng.choice(["pml", "pml", "periodic"]), "api": rng.choice(["export", "jsonsetup"]),
          "dtype": rng.choice([["jnp", "float32"], ["np", "float32"]]), "boxes": [], "source": None, "detectors": []}
    has_source = rng.chance(0.6)
    lo = 2 if sc["boundary"] == "pml" else 0
    for i in range(rng.randint(1, 3)):
        tmpl = rng.choice(["center", "coords", "same_size", "extend", "above"]) if i > 0 else rng.choice(["center", "coords", "same_size", "extend"])
        aniso = (not has_source) and rng.chance(0.5)
        mat = ["material", [2.0, 2.5, 3.0] if aniso else rng.choice([2.25, 4.0, 1.5]), rng.choice([0.0, 0.0, 0.2])]
        sc["boxes"].append({"name": f"box{i}", "tmpl": tmpl, "size": [rng.randint(1, 2) for _ in range(3)], "mat": mat,
                            "coords": [rng.randint(lo, shape[a] - lo - 2) for a in range(3)], "side": rng.choice(["+", "-"])})
    if has_source:
        sc["source"] = {"profile": rng.choice(["cw", "gauss"]), "direction": rng.choice(["+", "-"]), "z": rng.randint(lo, shape[2] - lo - 1),
                        "wave": rng.choice([["wavelength", 1.55e-6], ["frequency", 2e14], ["period", 5e-15]])}
    idx = rng.randint(0, 5) if index is None else index
    for j in range(max(1, rng.randint(0, 2))):
        sc["detectors"].append({"kind": rng.choice(["energy", "field", "poynting", "phasor"]), "name": f"det{j}",
                                "where": rng.choice(["volume", "plane"]), "z": rng.randint(lo, shape[2] - lo - 1),
                                "dtype": ["bfloat16", "float16", "float32"][(idx + j + 1) % 3]})
    # a recorder with a DtypeConversion in the gradient config: scene i uses bfloat16 / float16 / float32 in turn
    if idx % 3 != 2 or rng.chance(0.5):
        sc["grad"] = {"dtypes": [["bfloat16", "float16", "float32"][idx % 3]], "everyk": rng.choice([None, 2])}
        if sc["boundary"] != "pml":
            return dict(sc, boundary="pml", boxes=[dict(b, coords=[max(2, min(c, shape[a] - 4)) for a, c in enumerate(b["coords"])]) for b in sc["boxes"]],
                                                       source=(dict(sc["source"], z=max(2, min(sc["source"]["z"], shape[2] - 3))) if sc["source"] else None),
                                                       detectors=[dict(d, z=max(2, min(d["z"], shape[2] - 3))) for d in sc["detectors"]])
    return sc


def build_scene(sc):
    e = E()
    fx, jnp, np = e["fdtdx"], e["jnp"], e["np"]
    dt = getattr(jnp if sc["dtype"][0] == "jnp" else np, sc["dtype"][1])
    gc = None
    if sc.get("grad"):
        gc = build(["gradcfg", ["recorder", sc["grad"]["dtypes"], sc["grad"]["everyk"]]])
    cfg = fx.SimulationConfig(time=20e-15, grid=fx.UniformGrid(spacing=100e-9), dtype=dt, backend="cpu", gradient_config=gc)
    vol = fx.SimulationVolume(partial_grid_shape=tuple(sc["shape"]), material=fx.Material(permittivity=1.0), name="volume")
    objs, cons = [vol], []
    if sc["boundary"] == "pml":
        bc = e["BoundaryConfig"].from_uniform_bound(thickness=2, boundary_type="pml")
    else:
        bc = e["BoundaryConfig"].from_uniform_bound(boundary_type="periodic")
    bd, cl = e["bofc"](bc, vol)
    objs += list(bd.values())
    cons += cl
    prev = None
    for b in sc["boxes"]:
        t = b["tmpl"]
        shape = list(b["size"])
        if t == "same_size":
            shape[0] = None
        if t == "extend":
            shape[2] = None
        with warnings.catch_warnings():
            warnings.simplefilter("ignore")
            box = fx.UniformMaterialObject(partial_grid_shape=tuple(shape), material=build(b["mat"]), name=b["name"])
        objs.append(box)
        if t == "center" or (t == "above" and prev is None):
            cons.append(box.place_at_center(vol))
        elif t == "coords":
            cons.append(box.set_grid_coordinates(axes=(0, 1, 2), sides=("-", "-", "-"), coordinates=tuple(b["coords"])))
        elif t == "same_size":
            cons.append(box.same_size(vol, axes=(0,)))
            cons.append(box.place_at_center(vol))
        elif t == "extend":
            cons.append(box.place_relative_to(vol, axes=(0, 1), own_positions=(0, 0), other_positions=(0, 0)))
            cons.append(box.set_grid_coordinates(axes=(2,), sides=(b["side"],), coordinates=(b["coords"][2] + 1,)))
            cons.append(box.extend_to(None, axis=2, direction="+" if b["side"] == "-" else "-"))
        else:
            cons.append(box.place_relative_to(prev, axes=(0, 1), own_positions=(0, 0), other_positions=(0, 0)))
            cons.append(box.set_grid_coordinates(axes=(2,), sides=("-",), coordinates=(b["coords"][2],)))
        prev = box
    if sc["source"]:
        s = sc["source"]
        prof = fx.SingleFrequencyProfile(num_startup_periods=3) if s["profile"] == "cw" else fx.GaussianPulseProfile(
            spectral_width=fx.WaveCharacter(frequency=2e13), center_wave=fx.WaveCharacter(wavelength=1.5e-6))
        src = fx.UniformPlaneSource(partial_grid_shape=(None, None, 1), fixed_E_polarization_vector=(1, 0, 0), direction=s["direction"],
                                    wave_character=fx.WaveCharacter(**{s["wave"][0]: s["wave"][1]}), temporal_profile=prof, name="src")
        objs.append(src)
        cons.append(src.same_size(vol, axes=(0, 1)))
        cons.append(src.place_relative_to(vol, axes=(0, 1), own_positions=(0, 0), other_positions=(0, 0)))
        cons.append(src.set_grid_coordinates(axes=(2,), sides=("-",), coordinates=(s["z"],)))
    for d in sc["detectors"]:
        kw = dict(name=d["name"])
        if d["kind"] != "phasor" and d.get("dtype"):
            kw["dtype"] = getattr(jnp, d["dtype"])
        if d["kind"] == "energy":
            det = fx.EnergyDetector(switch=fx.OnOffSwitch(interval=2), **kw)
        elif d["kind"] == "field":
            det = fx.FieldDetector(**kw)
        elif d["kind"] == "poynting":
            det = fx.PoyntingFluxDetector(direction="+", **kw)
        else:
            det = fx.PhasorDetector(wave_characters=[fx.WaveCharacter(wavelength=1.55e-6)], **kw)
        objs.append(det)
        if d["where"] == "volume" and d["kind"] != "poynting":
            cons.extend(det.same_position_and_size(vol))
        else:
            det = det.aset("partial_grid_shape", (None, None, 1))
            objs[-1] = det
            cons.append(det.same_size(vol, axes=(0, 1)))
            cons.append(det.place_relative_to(vol, axes=(0, 1), own_positions=(0, 0), other_positions=(0, 0)))
            cons.append(det.set_grid_coordinates(axes=(2,), sides=("-",), coordinates=(d["z"],)))
    return cfg, objs, cons


def placed_summary(objs, cfg, cons):
    e = E()
    np = e["np"]
    with warnings.catch_warnings():
        warnings.simplefilter("ignore")
        o, a, p, c, info = e["fdtdx"].place_objects(objs, cfg, cons)
    out = {"objects": [(x.name, type(x).__name__, tuple(tuple(s) for s in x.grid_slice_tuple)) for x in o.objects]}
    leaves = {}
    for path, leaf in e["jax"].tree_util.tree_leaves_with_path(a):
        key = e["jax"].tree_util.keystr(path)
        if hasattr(leaf, "shape") and hasattr(leaf, "dtype"):
            leaves[key] = (str(leaf.dtype), tuple(leaf.shape), np.asarray(leaf.astype(e["jnp"].float32)) if "float" in str(leaf.dtype)
                           and str(leaf.dtype) not in ("float32", "float64") else np.asarray(leaf))
        else:
            leaves[key] = ("scalar", (), leaf)
    out["leaves"] = leaves
    out["config"] = ast_key(ast(c))
    return out


def scene_roundtrip(sc):
    """the property: the re-imported setup places like the original"""
    e = E()
    np = e["np"]
    cfg, objs, cons = build_scene(sc)
    toks = ast({"config": cfg, "object_list": objs, "constraints": cons})
    if sc["api"] == "jsonsetup" and sc["boundary"] == "pml":
        s = e["JsonSetup"](config=cfg, object_list=objs, constraints=cons).dumps()
        js = e["JsonSetup"].loads(s)
        cfg2, objs2, cons2 = js.config, js.object_list, js.constraints
    else:
        s = e["export"]({"config": cfg, "object_list": objs, "constraints": cons})
        d = e["imp"](s)
        cfg2, objs2, cons2 = d["config"], d["object_list"], d["constraints"]
    A = placed_summary(objs, cfg, cons)
    B = placed_summary(objs2, cfg2, cons2)
    if A["objects"] != B["objects"]:
        diff = [(x, y) for x, y in zip(A["objects"], B["objects"]) if x != y][:2]
        return f"placed objects differ after the JSON round trip: {diff or (len(A['objects']), len(B['objects']))}", s, toks
    if sorted(A["leaves"]) != sorted(B["leaves"]):
        only = sorted(set(A["leaves"]) ^ set(B["leaves"]))[:3]
        return f"array container has different entries after the JSON round trip: {only}", s, toks
    for key in sorted(A["leaves"]):
        (da, sa, va), (db, sb, vb) = A["leaves"][key], B["leaves"][key]
        if da != db:
            return f"array {key} has dtype {db} after the JSON round trip, {da} before", s, toks
        if sa != sb:
            return f"array {key} has shape {sb} after the JSON round trip, {sa} before", s, toks
        if not (np.array_equal(va, vb) if da != "scalar" else va == vb):
            return f"array {key} differs after the JSON round trip", s, toks
    if A["config"] != B["config"]:
        return "resolved config differs after the JSON round trip", s, toks
    return None, s, toks


# ------------------------------------------------------------------------------------------------------------- K
def run(ctx):
    e = E()
    rng = ctx.rng
    lines, post = [], []

    def add_value_case(desc, stream, i):
        case = {"stream": "value", "value": desc}
        try:
            d, s, toks = value_roundtrip(desc)
        except NotInFragment:
            return
        ctx.case(sample=case if i == 7 else None, nontrivial=None if desc[0] in ("none", "bool", "int", "float", "str") else (stream, i),
                 stream=stream, kind=desc[0], outcome="error" if s is None else "ok")
        ctx.impl_property_evals += 1
        if d:
            ctx.violation(case, d)
        lines.append("export " + " ".join(toks))
        post.append((case, s))

    for i in range(ctx.scale(250, 2500)):
        add_value_case(gen_value(rng, 3), "value", i)
    # the refutation witnesses of the pinned tree, always replayed
    for i, desc in enumerate([["dict", [["m", ["dict", [["__value__", ["dict", [["a", ["int", 1]]]]]]]]]],
                              ["dict", [["m", ["dict", [["__dtype__", ["str", "x"]]]]]]], ["dtype", "np", "float32"], ["dtype", "npdtype", "float64"]]):
        add_value_case(desc, "witness", i)

    # every dtype the exporter supports (its own table), bare and inside realistic setups — always
    names = [e["np"].dtype(d).name for d in e["DT"]]
    ctx.extra["dtype_table"] = names
    for i, n in enumerate(names):
        descs = [["dtype", "jnp", n], ["list", [["dtype", "jnp", n], ["dtype", "jnp", names[(i + 1) % len(names)]]]],
                 ["recorder", [n], 2 if i % 2 else None], ["gradcfg", ["recorder", [n, names[(i + 3) % len(names)]], None]],
                 ["gconfig", 1e-13, 5e-8, ["dtype", "jnp", "float32"], ["gradcfg", ["recorder", [n], 3]]],
                 ["dtdet", "Det", n]]
        if hasattr(e["np"], n):
            descs += [["dtype", "np", n], ["dtype", "npdtype", n]]
        if n.startswith(("float", "bfloat")) and not n.startswith("float8"):
            descs.append(["config", 1e-13, 5e-8, ["dtype", "jnp", n], 0.99])
        for j, desc in enumerate(descs):
            add_value_case(desc, "dtype-table", i * 16 + j)

    nsc = ctx.scale(3, 24)
    for i in range(nsc):
        sc = gen_scene(rng, i)
        case = {"stream": "scene", "scene": sc}
        d, s, toks = scene_roundtrip(sc)
        ctx.case(sample=case if i == 0 else None, nontrivial=("scene", i), stream="scene", boundary=sc["boundary"], api=sc["api"],
                 n_boxes=len(sc["boxes"]), source=(sc["source"] or {}).get("profile", "none"), n_detectors=len(sc["detectors"]),
                 tmpl="+".join(b["tmpl"] for b in sc["boxes"]), recorder_dtypes="+".join((sc.get("grad") or {}).get("dtypes", [])) or "none",
                 detector_dtypes="+".join(d.get("dtype", "float32") for d in sc["detectors"]) or "none")
        ctx.impl_property_evals += 1
        if d:
            ctx.violation(case, d)
        if sc["api"] == "export" or sc["boundary"] != "pml":
            lines.append("export " + " ".join(toks))
            post.append((case, s))

    reps = ctx.driver.ask_many(lines)
    for (case, s), rep in zip(post, reps):
        if s is None:
            ctx.expect_equal("export", case, "error", rep)
            continue
        if not rep.startswith("ok "):
            ctx.mismatch("export", case, {"impl": "ok", "model": rep[:80]})
            continue
        body, back = rep[3:].split(" | ")
        ctx.expect_equal("export-json", case, canon_json(json.loads(s)), canon_model(body.split()))
        ctx.expect_equal("model-roundtrip", case, "same", back.split(" ")[0])


# ------------------------------------------------------------------------------------------------------------- S
def replay(ctx, inp):
    if inp["stream"] == "value":
        try:
            return value_roundtrip(inp["value"])[0]
        except NotInFragment:
            return None
    return scene_roundtrip(inp["scene"])[0]


def search(ctx, hints):
    for h in hints:
        if isinstance(h, dict) and "stream" in h:
            d = replay(ctx, h)
            if d:
                ctx.violation(h, d)
                return
    rng = ctx.rng.fork()
    for depth in (0, 1, 1, 2, 3):
        for i in range(600):
            case = {"stream": "value", "value": gen_value(rng, depth)}
            ctx.impl_property_evals += 1
            d = replay(ctx, case)
            if d:
                ctx.violation(case, d)
                return
    for i in range(6):
        case = {"stream": "scene", "scene": gen_scene(rng)}
        d = replay(ctx, case)
        if d:
            ctx.violation(case, d)
            return
