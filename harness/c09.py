"""C09 — periodic and Bloch domains match their supercells.

Property oracle (on the real code): fdtdx.fdtd.forward.forward on an N-cell container and on the m*N-cell container
whose materials, fields (and cell widths) are the N-cell ones tiled, copy q along a Bloch axis multiplied by
exp(i k L)^q: after 1..4 steps the supercell state equals the tiled N-cell state.  K: both containers vs the shared
Yee model (real or complex binary64), and the ghost-cell phase read from the placed BlochBoundary vs exp(i k L)
computed independently."""
import numpy as np

from . import yee_api as Y

RULE = ("cases from the seed: base shape 1..4 cells per axis (<= 3 when three axes are tiled), tiling factors 1..3 per axis "
        "with at least one factor > 1, tiled axes periodic or Bloch (random k with k L in (-3,3), complex fields), other axes "
        "periodic / Bloch / pec / pmc / none / mixed pairs; uniform grid or non-uniform widths tiled (either seam-symmetric, "
        "w[0] = w[-1] on tiled axes, or general); isotropic/diagonal inv_eps, scalar/iso/diagonal inv_mu, optional sigma_E, "
        "sigma_H, all tiled; random (complex for Bloch) fields tiled with the per-copy phase; 1..4 steps. Oracle: "
        "forward^s(supercell) = tile(forward^s(base)) to 1e-9. K: forward^s of both containers vs model `fwd`; Bloch ghost "
        "phase of the placed boundaries vs exp(i k L). General non-uniform widths on a tiled axis are the known finding "
        "'seam dual width' (backward metric uses w[-1] := w[0] instead of wrapping). Every run also contains forced "
        "cases (K: both containers vs the any-tier model YeeAniso, op `afwd`; theorem C09_aniso_tile_steps) with a FULL 9-component symmetric positive definite inverse-permittivity tensor and with a full "
        "inverse-permeability tensor (off-diagonals non-zero, tiled) on a tiled Bloch axis with k != 0, uniform grid; the Bloch "
        "axis rotates over x/y/z with the seed. One more oracle-only case per run (thorough: 6): a block of a material with an "
        "ORIENTED Lorentz pole (off-diagonal ADE coupling tensor, built with fdtdx.LorentzPole(orientation=...) through "
        "place_objects) whose coupling coefficients differ across the periodic seam, two periodic axes + PEC on the third "
        "(x/y + PEC z or y/z + PEC x), random E, H and polarisation state, tiled 2x2; E, H and P compared. non-trivial = every case (m > 1).")

TOL = 1e-9
SIG = "C09-nonuniform-seam-dual-width"
OTHER = [("periodic", "periodic"), ("bloch", "bloch"), ("pec", "pec"), ("pmc", "pmc"), ("none", "none"), ("pec", "pmc"), ("none", "pec")]


def gen_case(rng, thorough, force=None):
    c = {}
    ntile = rng.choice([1, 1, 2, 2, 3])
    tiled = sorted(rng.shuffle([0, 1, 2])[:ntile])
    mx = 3 if ntile == 3 else (5 if thorough else 4)
    c["shape"] = [int(rng.randint(1, mx)) for _ in range(3)]
    if c["shape"] == [1, 1, 1]:
        # fdtdx cannot allocate a volume of one single cell (StopIteration in core/jax/sharding.py, with or without
        # periodic faces): not a statement of this property, so the base cell is never 1x1x1
        c["shape"][2] = 2
    c["m"] = [int(rng.choice([2, 3]) if ax in tiled else 1) for ax in range(3)]
    if ntile == 3 and not thorough:
        c["m"][rng.randint(0, 2)] = 2
    faces, bloch = {}, False
    for ax in range(3):
        if ax in tiled:
            kind = rng.choice(["periodic", "bloch"])
            lo, hi = kind, kind
        else:
            lo, hi = rng.choice(OTHER)
        bloch = bloch or lo == "bloch"
        faces[Y.FACES[2 * ax]], faces[Y.FACES[2 * ax + 1]] = lo, hi
    c["faces"], c["bloch"] = faces, bloch
    c["theta"] = [rng.uniform(-3.0, 3.0) if faces[Y.FACES[2 * ax]] == "bloch" else 0.0 for ax in range(3)]
    c["widths"], c["seam_symmetric"] = None, True
    r = rng.random()
    if r < 0.45:
        sym = r < 0.25
        ws = []
        for ax, n in enumerate(c["shape"]):
            w = [50e-9 * rng.uniform(0.6, 1.6) for _ in range(n)]
            if sym and n > 1:
                w[-1] = w[0]
            ws.append(w)
        c["widths"] = ws
        c["seam_symmetric"] = all(c["m"][ax] == 1 or ws[ax][0] == ws[ax][-1] for ax in range(3))
    c["eps_tier"] = rng.choice([1, 3])
    c["mu_tier"] = rng.choice([0, 1, 3])
    c["sig_e"] = rng.chance(0.3)
    c["sig_h"] = rng.chance(0.2)
    c["steps"] = int(rng.randint(1, 4))
    c["seed"] = rng.np_seed()
    if force:
        c.update(force)
        if c["widths"] is not None:
            c["seam_symmetric"] = all(c["m"][ax] == 1 or c["widths"][ax][0] == c["widths"][ax][-1] for ax in range(3))
    return c


def lengths(c):
    return [float(np.sum(c["widths"][ax])) if c["widths"] is not None else c["shape"][ax] * 50e-9 for ax in range(3)]


def kvec(c):
    """bloch_vector of the BoundaryConfig: k = theta / L on Bloch axes; on PERIODIC axes an optional leftover component
    (`leftover`), which periodic faces must ignore"""
    L = lengths(c)
    lo = c.get("leftover") or [0.0, 0.0, 0.0]
    return [c["theta"][ax] / L[ax] if c["theta"][ax] != 0.0 else float(lo[ax]) for ax in range(3)]


def phases(c):
    """per-axis phase exp(i k L) of one base period, computed independently of the implementation (Bloch axes only)"""
    L = lengths(c)
    return [np.exp(1j * c["theta"][ax]) if c["theta"][ax] != 0.0 else 1.0 for ax in range(3)]


def tile(c, A, with_phase):
    """tile a (comp, nx, ny, nz) array m times per axis; copy q along axis ax is multiplied by phase[ax]**q"""
    A = np.asarray(A)
    out = np.tile(A, (1,) + tuple(c["m"]))
    if with_phase:
        ph = phases(c)
        for ax in range(3):
            if c["m"][ax] > 1 and ph[ax] != 1.0:
                q = np.repeat(np.arange(c["m"][ax]), c["shape"][ax])
                shp = [1, 1, 1, 1]
                shp[ax + 1] = q.size
                out = out * (ph[ax] ** q).reshape(shp)
    return out


def scenes(c):
    k = kvec(c)
    cplx = True if c["bloch"] else None
    base = Y.build(c["shape"], c["faces"], widths=c["widths"], complex_fields=cplx, bloch_vector=k)
    mshape = [n * m for n, m in zip(c["shape"], c["m"])]
    mw = None if c["widths"] is None else [list(w) * m for w, m in zip(c["widths"], c["m"])]
    sup = Y.build(mshape, c["faces"], widths=mw, complex_fields=cplx, bloch_vector=k)
    return base, sup


def materialise(c):
    r = np.random.default_rng(c["seed"])
    nx, ny, nz = c["shape"]

    def field():
        f = r.standard_normal((3, nx, ny, nz))
        if c["bloch"]:
            f = f + 1j * r.standard_normal((3, nx, ny, nz))
        return f
    E, H = field(), field()
    def spd_tensor():
        # symmetric positive definite 3x3 per cell, off-diagonals non-zero: A A^T + 0.5 I, row-major 9 components
        A = r.uniform(-0.4, 0.4, (3, 3, nx, ny, nz))
        T = np.einsum("ik...,jk...->ij...", A, A) + 0.5 * np.eye(3)[:, :, None, None, None]
        return T.reshape(9, nx, ny, nz)
    inv_eps = spd_tensor() if c["eps_tier"] == 9 else r.uniform(0.2, 1.0, (c["eps_tier"], nx, ny, nz))
    inv_mu = 1.0 if c["mu_tier"] == 0 else (spd_tensor() if c["mu_tier"] == 9 else r.uniform(0.3, 1.0, (c["mu_tier"], nx, ny, nz)))
    sig_e = r.uniform(0.0, 0.02, (c["eps_tier"], nx, ny, nz)) if c["sig_e"] else None
    sig_h = r.uniform(0.0, 2e3, (max(c["mu_tier"], 1), nx, ny, nz)) if c["sig_h"] else None
    return E, H, inv_eps, inv_mu, sig_e, sig_h


def impl_pair(c, base=None, sup=None):
    """states after c['steps'] forward steps on both containers (+ everything the model comparison needs)"""
    if base is None:
        base, sup = scenes(c)
    E, H, inv_eps, inv_mu, sig_e, sig_h = materialise(c)
    t = lambda A, ph=False: None if A is None else tile(c, A, ph)
    mats_b = (inv_eps, inv_mu, sig_e, sig_h)
    mats_s = (t(inv_eps), inv_mu if c["mu_tier"] == 0 else t(inv_mu), t(sig_e), t(sig_h))
    Es, Hs = tile(c, E, True), tile(c, H, True)
    out = {}
    for nm, sc, (e0, h0), mats in (("base", base, (E, H), mats_b), ("super", sup, (Es, Hs), mats_s)):
        arr = Y.with_state(sc, e0, h0, mats[0], None if c["mu_tier"] == 0 else mats[1], mats[2], mats[3])
        st = Y.impl_forward(sc, arr, t=0, n=c["steps"])
        out[nm] = dict(scene=sc, E0=e0, H0=h0, mats=mats, E=np.asarray(st[1].fields.E), H=np.asarray(st[1].fields.H))
    return out


def verdict(c, out):
    for nm in ("E", "H"):
        ref = tile(c, out["base"][nm], True)
        got = out["super"][nm]
        scale = max(1.0, float(np.max(np.abs(ref))))
        e = float(np.max(np.abs(got - ref))) / scale if got.shape == ref.shape else float("inf")
        if not e <= TOL:
            return f"{nm} of the {c['m']}-fold supercell after {c['steps']} step(s) differs from the tiled base-cell {nm} by {e:.3e}"
    return None


# ------------------------------------------------------------ oriented-pole dispersive material (oracle only)
def oriented_forced(seed, k=0):
    """base cell with a block of a material carrying an ORIENTED Lorentz pole (off-diagonal ADE coupling, 9-component
    tier), placed so that the coupling coefficients differ across the periodic seam; two periodic axes + PEC on the third
    (x/y periodic + PEC z, or y/z periodic + PEC x: the wrap flags of x and z differ), uniform grid"""
    v = (seed + k) % 2
    if v == 0:
        shape, m, walls = [3, 2, 4], [2, 2, 1], 2
        block = {"pos": [0, 0, 1], "size": [1 + (seed // 2 + k) % 2, 1, 2]}
    else:
        shape, m, walls = [4, 2, 3], [1, 2, 2], 0
        block = {"pos": [1, 0, 0], "size": [2, 1, 1 + (seed // 2 + k) % 2]}
    faces = {}
    for ax in range(3):
        faces[Y.FACES[2 * ax]] = faces[Y.FACES[2 * ax + 1]] = "pec" if ax == walls else "periodic"
    block.update(kind="lorentz", w0=5.0e15, gamma=2.0e14, de=2.0, eps_inf=2.2,
                 orientation=[[1.0, 0.7, 0.5], [0.4, 1.0, -0.8], [1.0, -1.0, 0.3]][(seed + k) % 3])
    return dict(mode="oriented", shape=shape, m=m, faces=faces, block=block, steps=3, seed=1000 + 17 * seed + k)


def oriented_pair(c):
    from . import c10 as L
    j = Y.J()
    f, jnp = j["fdtdx"], j["jnp"]
    extra = lambda vol: L.dispersive_block(f, vol, c["block"])
    mshape = [n * m for n, m in zip(c["shape"], c["m"])]
    base = Y.build(c["shape"], c["faces"], gradient=None, extra_fn=extra)
    sup = Y.build(mshape, c["faces"], gradient=None, extra_fn=extra)
    r = np.random.default_rng(c["seed"])
    n3 = (3,) + tuple(c["shape"])
    ab = base.arrays
    if ab.dispersive_c3 is None or ab.dispersive_c3.shape[1] != 9:
        raise RuntimeError("oriented-pole material did not allocate the 9-component coupling tier")
    npoles = ab.dispersive_c3.shape[0]
    E, H = r.standard_normal(n3), r.standard_normal(n3)
    P1, P0 = 0.1 * r.standard_normal((npoles,) + n3), 0.1 * r.standard_normal((npoles,) + n3)
    # polarisation only where the material is
    mask = (np.asarray(ab.dispersive_c3) != 0).any(axis=1, keepdims=True)
    P1, P0 = P1 * mask, P0 * mask
    tl = lambda A, lead: np.tile(np.asarray(A), (1,) * lead + tuple(c["m"]))
    out = {}
    for nm, sc, t_ in (("base", base, False), ("super", sup, True)):
        a = sc.arrays
        g = (lambda A, lead: tl(A, lead)) if t_ else (lambda A, lead: np.asarray(A))
        a = a.aset("inv_permittivities", jnp.asarray(g(ab.inv_permittivities, 1)))
        for nmc in ("dispersive_c1", "dispersive_c2", "dispersive_c3"):
            a = a.aset(nmc, jnp.asarray(g(getattr(ab, nmc), 2)))
        a = a.aset("fields->E", jnp.asarray(g(E, 1)))
        a = a.aset("fields->H", jnp.asarray(g(H, 1)))
        a = a.aset("fields->dispersive_P_curr", jnp.asarray(g(P1, 2)))
        a = a.aset("fields->dispersive_P_prev", jnp.asarray(g(P0, 2)))
        st = Y.impl_forward(sc, a, t=0, n=c["steps"])
        out[nm] = {"E": np.asarray(st[1].fields.E), "H": np.asarray(st[1].fields.H), "P": np.asarray(st[1].fields.dispersive_P_curr)}
    out["c3_varies_across_seam"] = bool(any(
        c["m"][ax] > 1 and np.any(np.take(np.asarray(ab.dispersive_c3), 0, axis=ax + 2) != np.take(np.asarray(ab.dispersive_c3), -1, axis=ax + 2))
        for ax in range(3)))
    out["offdiag"] = bool(np.any(np.asarray(ab.dispersive_c3)[:, [1, 2, 3, 5, 6, 7]] != 0))
    return out


def oriented_verdict(c, out):
    for nm, lead in (("E", 1), ("H", 1), ("P", 2)):
        ref = np.tile(out["base"][nm], (1,) * lead + tuple(c["m"]))
        got = out["super"][nm]
        scale = max(1.0, float(np.max(np.abs(ref))))
        e = float(np.max(np.abs(got - ref))) / scale if got.shape == ref.shape else float("inf")
        if not e <= TOL:
            return (f"oriented-pole dispersive cell: {nm} of the {c['m']}-fold supercell after {c['steps']} step(s) differs from the tiled "
                    f"base-cell {nm} by {e:.3e}")
    return None


def one_oriented_case(ctx, c):
    out = oriented_pair(c)
    d = oriented_verdict(c, out)
    ctx.impl_property_evals += 1
    ctx.case(nontrivial=("oriented", tuple(c["shape"]), c["seed"]) if out["c3_varies_across_seam"] and out["offdiag"] else None,
             mode="oriented-pole", coupling_varies_across_seam=out["c3_varies_across_seam"], offdiag_coupling=out["offdiag"],
             walls_axis="xyz"[[ax for ax in range(3) if c["faces"][Y.FACES[2 * ax]] == "pec"][0]])
    if d:
        ctx.violation(c, d)


def known_class(c):
    return c["widths"] is not None and not c["seam_symmetric"]


def one_case(ctx, c, sample=False):
    base, sup = scenes(c)
    out = impl_pair(c, base, sup)
    cplx = c["bloch"]
    aniso = c["eps_tier"] == 9 or c["mu_tier"] == 9      # full tensors: any-tier model YeeAniso (op afwd)
    for nm in ("base", "super"):
        o = out[nm]
        sc = o["scene"]
        if aniso:
            from .yee_aniso_api import request_aniso
            line = request_aniso(sc, "afwd", o["E0"], o["H0"], o["mats"][0], o["mats"][1], o["mats"][2], o["mats"][3], None, c["steps"], is_complex=cplx)
        else:
            line = Y.request(sc, "fwd", o["E0"], o["H0"], o["mats"][0], o["mats"][1], o["mats"][2], o["mats"][3], None, c["steps"], is_complex=cplx)
        mE, mH = Y.decode_fields(ctx.driver.ask(line), sc.shape, cplx)
        ctx.expect_close(f"forward ({nm} cell)", c, np.concatenate([o["E"].ravel(), o["H"].ravel()]), np.concatenate([mE.ravel(), mH.ravel()]))
    # ghost-cell phase convention: base boundary exp(i k L), supercell boundary exp(i k m L)
    ph = phases(c)
    for ax in range(3):
        if c["faces"][Y.FACES[2 * ax]] == "bloch" and c["theta"][ax] != 0.0:
            for sc, expo in ((base, 1), (sup, c["m"][ax])):
                _, pp, pm, _, _ = Y.axis_info(sc, ax)
                ctx.expect_close("bloch ghost phase", c, np.array([pp, pm]), np.array([ph[ax] ** expo, np.conj(ph[ax] ** expo)]))
    d = verdict(c, out)
    ctx.impl_property_evals += 1
    kinds = sorted(set(c["faces"].values()))
    ctx.case(sample={k: c[k] for k in ("shape", "m", "faces", "theta", "widths", "steps", "seed")} if sample else None,
             nontrivial=(tuple(c["shape"]), tuple(c["m"]), c["seed"]), n_tiled_axes=sum(1 for m in c["m"] if m > 1), bloch=cplx,
             grid="uniform" if c["widths"] is None else ("nonuniform-seam-symmetric" if c["seam_symmetric"] else "nonuniform-general"),
             steps=c["steps"], eps_tier=c["eps_tier"], mu_tier=c["mu_tier"], sig_e=c["sig_e"], sig_h=c["sig_h"],
             size1_axis=1 in c["shape"], factor3=3 in c["m"], full_tensor=("eps" if c["eps_tier"] == 9 else "mu" if c["mu_tier"] == 9 else "no"),
             bloch_tiled_axes="".join("xyz"[ax] for ax in range(3) if c["m"][ax] > 1 and c["theta"][ax] != 0.0), **{"face_" + k: True for k in kinds})
    if d:
        ctx.violation(c, d, signature=SIG if known_class(c) else None)
    elif known_class(c):
        ctx.notes.append("a general non-uniform tiled case satisfied the supercell identity (finding not reproduced on it)")


PER = {k: "periodic" for k in Y.FACES}
FORCED = [
    dict(shape=[3, 2, 4], m=[2, 1, 1], faces=dict(PER), bloch=False, theta=[0.0, 0.0, 0.0], widths=None, steps=3,
         leftover=[1.1e7, 0.0, -0.7e7]),      # periodic faces must ignore a leftover bloch_vector in the BoundaryConfig
    dict(shape=[2, 3, 2], m=[1, 3, 2], faces={"min_x": "pec", "max_x": "pmc", "min_y": "bloch", "max_y": "bloch", "min_z": "periodic", "max_z": "periodic"},
         bloch=True, theta=[0.0, 1.7, 0.0], widths=None, steps=2, sig_e=True),
    dict(shape=[3, 3, 2], m=[2, 1, 2], faces={"min_x": "bloch", "max_x": "bloch", "min_y": "none", "max_y": "none", "min_z": "bloch", "max_z": "bloch"},
         bloch=True, theta=[-2.2, 0.0, 0.9], steps=2,
         widths=[[4e-8, 7e-8, 4e-8], [5e-8, 3e-8, 9e-8], [6e-8, 6e-8]]),
    dict(shape=[3, 2, 2], m=[2, 1, 1], faces=dict(PER), bloch=False, theta=[0.0, 0.0, 0.0], steps=2,
         widths=[[4e-8, 6e-8, 8e-8], [5e-8, 5e-8], [5e-8, 7e-8]]),
]


def aniso_forced(seed, which, k):
    """full 9-component tensor (eps or mu) on a tiled Bloch axis with k != 0; the Bloch axis rotates with the seed"""
    ax = (seed + k) % 3
    other = [(ax + 1) % 3, (ax + 2) % 3]
    faces, theta, m, shape = {}, [0.0, 0.0, 0.0], [1, 1, 1], [3, 3, 3]
    kinds = {ax: "bloch", other[0]: "periodic" if k % 2 == 0 else "bloch", other[1]: "none" if k % 2 == 0 else "periodic"}
    for a in range(3):
        faces[Y.FACES[2 * a]] = faces[Y.FACES[2 * a + 1]] = kinds[a]
    theta[ax] = 1.9 if which == "eps" else -2.3
    m[ax] = 2 + (seed + k) % 2
    if kinds[other[0]] == "bloch":
        theta[other[0]] = 0.8
        m[other[0]] = 2
        shape[other[0]] = 2
    return dict(shape=shape, m=m, faces=faces, bloch=True, theta=theta, widths=None, seam_symmetric=True, steps=2,
                eps_tier=9 if which == "eps" else 3, mu_tier=9 if which == "mu" else 1, sig_e=False, sig_h=False)


def run(ctx):
    n = ctx.scale(7, 56)
    cases = [gen_case(ctx.rng, ctx.thorough, f) for f in FORCED]
    cases += [gen_case(ctx.rng, ctx.thorough, aniso_forced(ctx.seed, "eps", 0)), gen_case(ctx.rng, ctx.thorough, aniso_forced(ctx.seed, "mu", 1))]
    if ctx.thorough:
        for k in range(2, 8):
            cases.append(gen_case(ctx.rng, True, aniso_forced(ctx.seed, "eps" if k % 2 == 0 else "mu", k)))
    while len(cases) < n:
        cases.append(gen_case(ctx.rng, ctx.thorough))
    for i, c in enumerate(cases):
        one_case(ctx, c, sample=i in (1, 2))
    for k in range(ctx.scale(1, 6)):
        one_oriented_case(ctx, oriented_forced(ctx.seed, k))


def property_fails(c):
    if c.get("mode") == "oriented":
        return oriented_verdict(c, oriented_pair(c))
    return verdict(c, impl_pair(c))


def search(ctx, hints):
    for h in hints:
        if isinstance(h, dict) and "shape" in h and (h.get("mode") == "oriented" or not known_class(h)):
            ctx.impl_property_evals += 1
            d = property_fails(h)
            if d:
                ctx.violation(h, d)
                return
    rng = ctx.rng.fork()
    for k in range(4):
        c = oriented_forced(ctx.seed, k)
        ctx.impl_property_evals += 1
        d = property_fails(c)
        if d:
            ctx.violation(c, d)
            return
    for k in range(6):
        c = gen_case(rng, False, aniso_forced(ctx.seed, "eps" if k % 2 == 0 else "mu", k))
        ctx.impl_property_evals += 1
        d = property_fails(c)
        if d:
            ctx.violation(c, d)
            return
    for i in range(ctx.scale(24, 120)):
        c = gen_case(rng, False)
        if known_class(c):
            continue
        if i < 10:
            # smallest inputs first: one tiled axis, factor 2, tiny base cell, one step
            c["shape"] = [min(s, 2) for s in c["shape"]]
            if c["widths"] is not None:
                c["widths"] = [w[:s] if len(w[:s]) < 2 else w[:s - 1] + [w[0]] for w, s in zip(c["widths"], c["shape"])]
            c["steps"] = 1
        ctx.impl_property_evals += 1
        d = property_fails(c)
        if d:
            ctx.violation(c, d)
            return


def replay(ctx, inp):
    return property_fails(inp)
