"""C05 — forward results independent of the gradient strategy; reversible slice partition.
K + S against lean/FdtdxModel/C05.lean.  Also hosts the tiny-scene builder shared with C06 / C07."""
import json

import numpy as np

RULE = ("K: (a) `_reversible_slice_boundaries(T,k)` for EVERY 1<=k<=T<=Tmax (40 quick / 200 thorough) plus k>T and "
        "T=0 samples, compared exactly with the model's half-to-even boundaries; the partition predicate (first 0, last T, "
        "strictly increasing) is evaluated on the implementation's own output. (b) `fdtdx.run_fdtd` on generated tiny "
        "scenes (3-8 cells per axis; periodic / PEC / PMC / PML faces; dipole or plane source with a random on/off "
        "switch; field + energy detectors with random switches; a material block that always carries a magnetic conductivity "
        "in one scene and an electric conductivity in another; an accumulating PhasorDetector in every scene; start container "
        "fresh, dirty (random content) or - always once, with all strategies - USED (the arrays returned by a previous recorded "
        "run of the same configuration)) under gradient_config "
        "None, checkpointed(n) for random n, reversible(c) for c in {0, random, T-1} and the rejected c=T, and "
        "stopping_condition+gradient: final step count, the sequence of step indices handed to `forward` (traced), the "
        "arguments of `_reversible_slice_boundaries`, and the `max_steps` of every while loop are compared exactly with "
        "the model; final E/H, all detector states and the material / conductivity arrays of the RETURNED container (which must "
        "still be present) of every strategy are compared with the no-gradient run (plain forward calls, no jax.grad; 1e-9, "
        "binary64) - that comparison is the property itself, evaluated on the implementation. non-trivial = a strategy "
        "other than None, or k not dividing T / a half-way boundary.")

_J = None
LOG = []          # step indices handed to `forward`
SPY = {"bounds": [], "max_steps": []}


def J(x64=True):
    """import jax/fdtdx once; install the tracing wrappers on fdtdx.fdtd.fdtd (harness process only)"""
    global _J
    if _J is not None:
        if _J["x64"] != x64:
            raise RuntimeError("one float mode per process")
        return _J
    import jax
    if x64:
        jax.config.update("jax_enable_x64", True)
    import jax.numpy as jnp
    import fdtdx
    import fdtdx.fdtd.fdtd as F
    import types

    orig_forward = F.forward

    def traced_forward(state, **kw):
        jax.debug.callback(lambda t: LOG.append(int(t)), state[0], ordered=True)
        return orig_forward(state, **kw)

    orig_bounds = F._reversible_slice_boundaries

    def spy_bounds(T, k):
        r = orig_bounds(T, k)
        SPY["bounds"].append((int(T), int(k), [int(x) for x in r]))
        return r

    orig_eqxi = F.eqxi

    def spy_while(*a, **kw):
        SPY["max_steps"].append(kw.get("max_steps"))
        return orig_eqxi.while_loop(*a, **kw)

    F.forward = traced_forward
    F._reversible_slice_boundaries = spy_bounds
    F.eqxi = types.SimpleNamespace(while_loop=spy_while)
    _J = dict(jax=jax, jnp=jnp, fdtdx=fdtdx, F=F, x64=x64, orig_bounds=orig_bounds,
              dtype=jnp.float64 if x64 else jnp.float32)
    return _J


# ------------------------------------------------------------------------------------ scene builder
def grad_of(j, g):
    fdtdx = j["fdtdx"]
    if g is None or g["method"] == "none":
        return None
    if g["method"] == "checkpointed":
        return fdtdx.GradientConfig(method="checkpointed", num_checkpoints=g["n"])
    if g["method"] == "reversible":
        return fdtdx.GradientConfig(method="reversible", recorder=fdtdx.Recorder(modules=[]),
                                    num_checkpoints_reversible=g["c"])
    raise ValueError(g)


def switch_of(j, sw):
    fdtdx = j["fdtdx"]
    if not sw:
        return fdtdx.OnOffSwitch()
    return fdtdx.OnOffSwitch(**sw)


def build(sc, grad=None, x64=True):
    """place a tiny scene.  sc (JSON): shape, T, bound, src, dets [{kind, switch, reduce}], src_switch, spp, eps"""
    j = J(x64)
    fdtdx, jax, jnp, DT = j["fdtdx"], j["jax"], j["jnp"], j["dtype"]
    spacing = 50e-9
    T = sc["T"]
    cfg0 = fdtdx.SimulationConfig(time=1e-15, grid=fdtdx.UniformGrid(spacing=spacing), backend="cpu", dtype=DT)
    dt = cfg0.time_step_duration
    cfg = fdtdx.SimulationConfig(time=(T + 0.01) * dt, grid=fdtdx.UniformGrid(spacing=spacing), backend="cpu", dtype=DT,
                                 gradient_config=grad_of(j, grad))
    if cfg.time_steps_total != T:
        raise RuntimeError(f"scene builder: time_steps_total={cfg.time_steps_total}, wanted {T}")
    shape = sc["shape"]
    vol = fdtdx.SimulationVolume(partial_real_shape=tuple(s * spacing for s in shape))
    objs, cons = [vol], []
    b = sc.get("bound", "periodic")
    if b == "pml":
        bcfg = fdtdx.BoundaryConfig.from_uniform_bound(thickness=sc.get("pml_thickness", 1), boundary_type="pml")
    else:
        bcfg = fdtdx.BoundaryConfig.from_uniform_bound(boundary_type=b)
    bd, c = fdtdx.boundary_objects_from_config(bcfg, vol)
    objs += list(bd.values())
    cons += c
    spp = sc.get("spp", 8.0)
    wave = fdtdx.WaveCharacter(period=spp * dt)
    ssw = switch_of(j, sc.get("src_switch"))
    if sc.get("src", "dipole") == "dipole":
        s = fdtdx.PointDipoleSource(name="src", partial_grid_shape=(1, 1, 1), wave_character=wave,
                                    polarization=sc.get("pol", 2), switch=ssw, amplitude=sc.get("amp", 1.0))
    else:
        s = fdtdx.UniformPlaneSource(name="src", partial_grid_shape=(None, None, 1), wave_character=wave, direction="+",
                                     fixed_E_polarization_vector=(1, 0, 0), switch=ssw)
    cons.append(s.place_at_center(vol))
    objs.append(s)
    if sc.get("eps") or sc.get("sigma_e") or sc.get("sigma_m") or sc.get("disp"):
        extra = {}
        if sc.get("disp"):          # dispersive (ADE) block: FieldState then carries dispersive_P_curr / dispersive_P_prev
            dsp = sc["disp"]
            if dsp["kind"] == "lorentz":
                pole = fdtdx.LorentzPole(resonance_frequency=dsp.get("w0", 2e15), damping=dsp.get("gamma", 1e13),
                                         delta_epsilon=dsp.get("deps", 1.5))
            else:
                pole = fdtdx.DrudePole(plasma_frequency=dsp.get("wp", 2e15), damping=dsp.get("gamma", 1e14))
            extra["dispersion"] = fdtdx.DispersionModel(poles=(pole,))
        blk = fdtdx.UniformMaterialObject(name="blk", partial_grid_shape=tuple(sc.get("blk_shape", (2, 2, 2))),
                                          material=fdtdx.Material(permittivity=sc.get("eps") or 1.0,
                                                                  electric_conductivity=sc.get("sigma_e") or 0.0,
                                                                  magnetic_conductivity=sc.get("sigma_m") or 0.0, **extra))
        cons.append(blk.place_relative_to(vol, axes=(0, 1, 2), own_positions=(-1, -1, -1), other_positions=(-1, -1, -1),
                                          grid_margins=(1,) * 3))
        objs.append(blk)
    for i, d in enumerate(sc.get("dets", [])):
        sw = switch_of(j, d.get("switch"))
        if d["kind"] == "field":
            det = fdtdx.FieldDetector(name=f"d{i}_field", partial_grid_shape=(2, 2, 2), dtype=DT, plot=False,
                                      reduce_volume=bool(d.get("reduce", False)), switch=sw)
            cons.append(det.place_at_center(vol))
        elif d["kind"] == "energy":
            det = fdtdx.EnergyDetector(name=f"d{i}_energy", dtype=DT, plot=False, reduce_volume=True, switch=sw)
            cons += det.same_position_and_size(vol)
        elif d["kind"] == "poynting":
            det = fdtdx.PoyntingFluxDetector(name=f"d{i}_poynting", partial_grid_shape=(None, None, 1), dtype=DT,
                                             plot=False, direction="+", switch=sw)
            cons.append(det.place_at_center(vol))
        elif d["kind"] == "phasor":          # accumulates state + new sample: whatever reset leaves behind is carried on
            det = fdtdx.PhasorDetector(name=f"d{i}_phasor", partial_grid_shape=(2, 2, 2), wave_characters=[wave], plot=False,
                                       reduce_volume=bool(d.get("reduce", False)), switch=sw)
            cons.append(det.place_at_center(vol))
        else:
            raise ValueError(d)
        objs.append(det)
    key = jax.random.PRNGKey(0)
    o, a, p, cfg, _ = fdtdx.place_objects(object_list=objs, config=cfg, constraints=cons, key=key)
    a, o, _ = fdtdx.apply_params(a, o, p, key)
    return o, a, cfg


def dirty(j, arrays, seed):
    """a container as left behind by some earlier use: random fields (incl. PML auxiliaries) and detector states"""
    jax, jnp = j["jax"], j["jnp"]
    rs = np.random.RandomState(seed)

    def noise(x):
        return jnp.asarray(rs.standard_normal(x.shape), dtype=x.dtype) if hasattr(x, "shape") else x

    arrays = arrays.aset("fields", jax.tree.map(noise, arrays.fields))
    ds = {k: {k2: noise(v2) for k2, v2 in v.items()} for k, v in arrays.detector_states.items()}
    return arrays.aset("detector_states", ds)


def container_leaves(arrays):
    """EVERY leaf of the ArrayContainer pytree, generically (no attribute name list): list of (group, key, leaf) with group in
    {'fields', 'det', 'rec', 'mat'}.  Keys are the pytree paths; auto-generated object names inside dict keys (PML objects)
    are replaced by a running index so that two placements of the same scene give the same keys."""
    import jax
    out, counters = [], {}
    for path, leaf in jax.tree_util.tree_leaves_with_path(arrays):
        names = [getattr(p, "name", None) or getattr(p, "key", None) or getattr(p, "idx", None) for p in path]
        top = str(names[0])
        if top == "fields":
            attr = str(names[1])
            n = counters.get(attr, 0)
            counters[attr] = n + 1
            key = attr if len(names) == 2 else f"{attr}#{n}"
            out.append(("fields", key, leaf))
        elif top == "detector_states":
            out.append(("det", ":".join(str(x) for x in names[1:]), leaf))
        elif top == "recording_state":
            out.append(("rec", jax.tree_util.keystr(path[1:]), leaf))
        else:
            out.append(("mat", jax.tree_util.keystr(path).lstrip("."), leaf))
    return out


def snapshot(ts, arrays):
    """(final step, flat dict of numpy arrays): every FieldState leaf (E, H, PML auxiliaries psi_*, dispersive polarisation
    dispersive_P_curr / dispersive_P_prev, ...), every detector state, every material / coefficient leaf"""
    out = {}
    for group, key, v in container_leaves(arrays):
        if group == "fields":
            out[key if key in ("E", "H") else "fld:" + key] = np.asarray(v)
        elif group == "det":
            out["det:" + key] = np.asarray(v)
        elif group == "mat":
            # the returned container must keep the material / conductivity / coefficient arrays.
            # a scalar inv_permeabilities is a Python float before the first jitted step and a 0-d array after it:
            # both are the same output (false alarm of C07 thorough seed 41: halt at step 0 vs the un-stepped state)
            if hasattr(v, "shape") or isinstance(v, (int, float)):
                out["mat:" + key] = np.asarray(v, dtype=float) if isinstance(v, (int, float)) else np.asarray(v)
    return int(ts), out


def snap_diff(a, b, tol):
    """largest relative deviation between two snapshots (scaled per array); returns (ok, text)"""
    from .common import relerr
    if sorted(a) != sorted(b):
        return False, f"different outputs {sorted(a)} vs {sorted(b)}"
    worst, name = 0.0, sorted(a)[0] if a else None
    for k in sorted(a):
        scale = float(np.max(np.abs(b[k]))) if b[k].size else 0.0
        e = relerr(a[k], b[k], floor=scale if scale > 0 else 1.0)
        if e > worst:
            worst, name = e, k
    return worst <= tol, f"max relative deviation {worst:.3e} at {name}"


def run_impl(sc, grad, x64=True, start="fresh", stopping=None):
    """run_fdtd on the scene under `grad`; returns (final step, snapshot, step log, spies)"""
    j = J(x64)
    jax, fdtdx = j["jax"], j["fdtdx"]
    o, a, cfg = build(sc, grad, x64)
    if start == "used":          # an already-used container: the arrays returned by a previous recorded run of this scene
        _, a = fdtdx.run_fdtd(a, o, cfg, jax.random.PRNGKey(2), stopping_condition=stopping, show_progress=False)
        jax.block_until_ready(a.fields.E)
        jax.effects_barrier()
    elif start != "fresh":
        a = dirty(j, a, int(start))
    del LOG[:]
    SPY["bounds"], SPY["max_steps"] = [], []
    ts, out = fdtdx.run_fdtd(a, o, cfg, jax.random.PRNGKey(2), stopping_condition=stopping, show_progress=False)
    jax.block_until_ready(out.fields.E)
    jax.effects_barrier()
    t, snap = snapshot(ts, out)
    return t, snap, list(LOG), {"bounds": list(SPY["bounds"]), "max_steps": list(SPY["max_steps"])}


# ------------------------------------------------------------------------------------ generators
# (an always-off *detector* makes Detector.update raise a shape error in the pinned tree - outside this property,
#  so detectors are never always-off here; sources may be)
SWITCHES = [None, {"interval": 2}, {"interval": 3}, "fixed", "window", {"is_always_off": True}]


def gen_switch(rng, T, allow_off=False):
    s = rng.choice(SWITCHES if allow_off else SWITCHES[:-1])
    if s == "fixed":
        on = sorted(set(rng.randint(0, T - 1) for _ in range(rng.randint(1, max(1, T // 2)))))
        return {"fixed_on_time_steps": on}
    if s == "window":
        return {"fixed_on_time_steps": list(range(rng.randint(0, T // 2), rng.randint(T // 2 + 1, T)))}
    return s


def gen_scene(rng, Tmax, i):
    bound = ["periodic", "pec", "pml", "pmc", "periodic"][i % 5]
    lo = 5 if bound == "pml" else 3
    hi = 6
    shape = [rng.randint(lo, hi) for _ in range(3)]
    T = rng.randint(3, Tmax)
    dets = [{"kind": "field", "switch": gen_switch(rng, T), "reduce": rng.chance(0.3)},
            {"kind": "energy", "switch": gen_switch(rng, T)}]
    # an accumulating detector (state + sample): its output shows whatever a strategy failed to zero on entry
    dets.append({"kind": "phasor", "switch": gen_switch(rng, T), "reduce": rng.chance(0.5)})
    if rng.chance(0.4):
        dets.append({"kind": "poynting", "switch": gen_switch(rng, T)})
    return {"shape": shape, "T": T, "bound": bound, "src": rng.choice(["dipole", "dipole", "plane"]),
            "pol": rng.randint(0, 2), "src_switch": gen_switch(rng, T), "dets": dets,
            "spp": float(rng.choice([4.0, 6.5, 9.0])), "eps": rng.choice([None, 2.25, 4.0])}


def gen_strategies(rng, T, thorough=False):
    """checkpointed(n) for one n; reversible(c) for c = 0, one interior count and (small T, or thorough) c = T-1.
    Every slice is its own traced while loop, so tracing time grows with c: quick keeps c <= 4."""
    cs = [rng.randint(1, min(T - 1, 3))]
    if thorough or rng.chance(0.4):
        cs.append(0)
    if T <= 5 or (thorough and T <= 14):
        cs.append(T - 1)
    out = [{"method": "checkpointed", "n": rng.choice([1, 2, T, T + 3, rng.randint(1, T)])}]
    out += [{"method": "reversible", "c": c} for c in sorted(set(cs))]
    return out


def model_line(T, g, pre, sc=0):
    m = {"none": ("none", 0), "checkpointed": ("ckpt", g.get("n", 0)), "reversible": ("rev", g.get("c", 0))}[g["method"]]
    return f"run {T} {m[0]} {m[1]} {pre} {sc}"


# ------------------------------------------------------------------------------------ property oracle
def partition_fails(T, k, b=None):
    """the property's second sentence evaluated on the implementation's own output"""
    j = J()
    b = [int(x) for x in j["orig_bounds"](T, k)] if b is None else b
    if len(b) != k + 1:
        return f"_reversible_slice_boundaries({T},{k}) has {len(b)} entries, expected {k + 1}: {b}"
    if b[0] != 0 or b[-1] != T:
        return f"_reversible_slice_boundaries({T},{k}) = {b} does not run from 0 to {T}"
    if any(b[i + 1] <= b[i] for i in range(k)):
        return f"_reversible_slice_boundaries({T},{k}) = {b} is not strictly increasing (empty slice)"
    return None


def strategy_fails(sc, g, start="fresh", ref=None, tol=1e-9):
    """run_fdtd under g vs the no-gradient run of the same scene: step count, fields, detector states"""
    if ref is None:
        t0, s0, _, _ = run_impl(sc, {"method": "none"}, start=start)
    else:
        t0, s0 = ref
    t1, s1, log, _ = run_impl(sc, g, start=start)
    T = sc["T"]
    if t0 != T:
        return f"no-gradient run ended at step {t0}, total step count is {T}"
    if t1 != T:
        return f"{json.dumps(g)} ended at step {t1}, total step count is {T}"
    ok, txt = snap_diff(s1, s0, tol)
    if not ok:
        return f"{json.dumps(g)} differs from the no-gradient run: {txt} (T={T}, start={start})"
    return None


# ------------------------------------------------------------------------------------------- K
def check_run(ctx, sc, g, start, ref, idx):
    """one (scene, strategy): model vs implementation on step count / step log / spies, then the property"""
    T = sc["T"]
    pre = 0 if start == "fresh" else 3
    case = {"kind": "run", "scene": sc, "grad": g, "start": start}
    rep = ctx.driver.ask_many([model_line(T, g, pre)])[0]
    t, snap, log, spy = run_impl(sc, g, start=start)
    impl = f"{t} | {' '.join(map(str, log))}"
    half = g["method"] == "reversible" and g["c"] > 0 and any((2 * i * T) % (g["c"] + 1) == 0 and (i * T) % (g["c"] + 1) != 0
                                                            for i in range(g["c"] + 2))
    ctx.case(sample={"op": "run", **case, "model": rep} if idx == 1 else None,
             nontrivial=("run", json.dumps(sc, sort_keys=True), json.dumps(g, sort_keys=True), start),
             op="run_fdtd", method=g["method"], bound=sc["bound"], start=start if start in ("fresh", "used") else "dirty",
             src=sc["src"], halfway_boundary=half,
             conductivity="magnetic" if sc.get("sigma_m") else "electric" if sc.get("sigma_e") else "none")
    ctx.expect_equal("run", case, impl, rep)
    if g["method"] == "reversible":
        b = ctx.driver.ask_many([f"bounds {T} {g['c'] + 1}"])[0]
        want = f"{T} {g['c'] + 1} | {b}"
        got = " ; ".join(f"{x[0]} {x[1]} | {' '.join(map(str, x[2]))}" for x in spy["bounds"])
        ctx.expect_equal("reversible_fdtd->_reversible_slice_boundaries", case, got, want)
        bl = [int(x) for x in b.split()]
        ctx.expect_equal("while_loop.max_steps", case, [int(m) for m in spy["max_steps"]],
                         [bl[i + 1] - bl[i] for i in range(len(bl) - 1)])
    else:
        ctx.expect_equal("while_loop.max_steps", case, [int(m) for m in spy["max_steps"]], [T])
    ctx.impl_property_evals += 1
    if g["method"] == "none":
        if t != T:
            ctx.violation(case, f"no-gradient run ended at step {t}, total step count is {T}")
        return (t, snap)
    if t != T:
        ctx.violation(case, f"{json.dumps(g)} ended at step {t}, total step count is {T}")
    else:
        ok, txt = snap_diff(snap, ref[1], 1e-9)
        if not ok:
            ctx.violation(case, f"{json.dumps(g)} differs from the no-gradient run: {txt} (T={T}, start={start})")
    return (t, snap)


def check_rejected(ctx, sc, g, stopping=False):
    """inputs run_fdtd rejects: the model must say error, the implementation must raise"""
    j = J()
    case = {"kind": "rejected", "scene": sc, "grad": g, "stopping": stopping}
    rep = ctx.driver.ask_many([model_line(sc["T"], g, 0, 1 if stopping else 0)])[0]
    try:
        from fdtdx.fdtd.stop_conditions import TimeStepCondition
        stop = TimeStepCondition() if stopping else None
        run_impl(sc, g, stopping=stop)
        impl = "ok"
    except NotImplementedError:
        impl = "error NotImplementedError"
    except Exception as e:
        impl = "error num_checkpoints_reversible" if "num_checkpoints_reversible" in str(e) else "error " + type(e).__name__
    ctx.case(nontrivial=("rejected", json.dumps(g, sort_keys=True), stopping), op="rejected", method=g["method"])
    ctx.expect_equal("run_fdtd-rejects", case, impl, rep)


def run(ctx):
    import time
    tm = {"before_K_s": round(time.time() - ctx.t0, 1)}
    t1 = time.time()
    j = J()
    tm["import_s"] = round(time.time() - t1, 1)
    t1 = time.time()
    ctx.extra["timing"] = tm
    # (a) exhaustive slice boundaries
    Tmax = ctx.scale(40, 200)
    cfgs = [(T, k) for T in range(1, Tmax + 1) for k in range(1, T + 1)]
    cfgs += [(0, 1), (0, 2), (1, 2), (2, 3), (5, 9), (3, 7)]                      # T = 0 and k > T (weak case)
    for _ in range(ctx.scale(20, 200)):                                           # larger runs, sampled
        T = ctx.rng.randint(Tmax + 1, 5000)
        cfgs.append((T, ctx.rng.randint(1, T)))
    replies = ctx.driver.ask_many([f"bounds {T} {k}" for (T, k) in cfgs])
    for (T, k), rep in zip(cfgs, replies):
        b = [int(x) for x in j["orig_bounds"](T, k)]
        half = any((2 * i * T) % k == 0 and (i * T) % k != 0 for i in range(k + 1))
        ctx.case(sample={"op": "bounds", "T": T, "k": k, "model": rep} if (T, k) == (10, 4) else None,
                 nontrivial=("b", T, k) if (T % k != 0) else None, op="bounds", halfway_boundary=half,
                 k_le_T=k <= T)
        ctx.expect_equal("bounds", {"kind": "bounds", "T": T, "k": k}, " ".join(map(str, b)), rep)
        if 1 <= k <= T:
            ctx.impl_property_evals += 1
            d = partition_fails(T, k, b)
            if d:
                ctx.violation({"kind": "bounds", "T": T, "k": k}, d)
    ctx.exhaustive = True
    ctx.extra["exhaustive_bounds"] = {"T_max": Tmax, "all_k": True}
    tm["bounds_s"] = round(time.time() - t1, 1)
    # (b) run_fdtd under every strategy
    n_scenes = ctx.scale(3, 16)
    idx = 0
    used_done = False
    for i in range(n_scenes):
        tm[f"scene{i}_at_s"] = round(time.time() - t1, 1)
        # one short run per quick pass, so that c = T-1 (all slices of length 1) is affordable
        sc = gen_scene(ctx.rng.fork(), 5 if (i == 1 and not ctx.thorough) else ctx.scale(12, 24), i + ctx.seed)
        # lossy media: always one scene with a magnetic-conductivity block and one with an electric-conductivity block
        # (the conductivity arrays are not differentiable inputs; every strategy has to carry them into its step function)
        if i % 3 == 0:
            sc["sigma_m"] = float(ctx.rng.choice([1e9, 3e9]))
        elif i % 3 == 1:
            sc["sigma_e"] = float(ctx.rng.choice([1e5, 3e4]))
        # start container: the first non-PML scene (all strategies run there) starts from a USED container (arrays returned by
        # a previous recorded run of the same configuration); the others alternate dirty (random content) / fresh
        if not used_done and sc["bound"] != "pml":
            start, used_done = "used", True
        else:
            start = str(ctx.rng.randint(1, 10 ** 6)) if i % 2 == 1 else "fresh"
        ref = check_run(ctx, sc, {"method": "none"}, start, None, idx)
        strategies = gen_strategies(ctx.rng, sc["T"], ctx.thorough)
        if sc["bound"] == "pml" and not ctx.thorough:      # PML scenes trace slowly: quick keeps the one strategy whose
            strategies = [g for g in strategies if g["method"] == "reversible"][:1]   # step function differs (recording)
        for g in strategies:
            idx += 1
            check_run(ctx, sc, g, start, ref, idx)
        if i == 0:
            check_rejected(ctx, sc, {"method": "reversible", "c": sc["T"]})
            check_rejected(ctx, sc, {"method": "checkpointed", "n": 2}, stopping=True)
            if ctx.thorough:
                check_rejected(ctx, sc, {"method": "reversible", "c": 0}, stopping=True)


# ------------------------------------------------------------------------------------------- S
def search(ctx, hints):
    for h in hints:
        if not isinstance(h, dict):
            continue
        d = replay(ctx, h)
        ctx.impl_property_evals += 1
        if d:
            ctx.violation(h, d)
            return
    # partition: smallest (T, k) first
    for T in range(1, 121):
        for k in range(1, T + 1):
            ctx.impl_property_evals += 1
            d = partition_fails(T, k)
            if d:
                ctx.violation({"kind": "bounds", "T": T, "k": k}, d)
                return
    # strategies: smallest scenes / step counts first, every checkpoint count
    for T in (2, 3, 4, 5, 7, 10):
        for bound, lossy in (("periodic", {"sigma_m": 1e9}), ("pec", {"sigma_e": 1e5}), ("periodic", {})):
            sc = {"shape": [3, 3, 4], "T": T, "bound": bound, "src": "dipole", "pol": 2, "src_switch": None,
                  "dets": [{"kind": "field", "switch": None}, {"kind": "energy", "switch": {"interval": 2}},
                           {"kind": "phasor", "switch": None}],
                  "spp": 4.0, "eps": None, **lossy}
            for start in ("fresh", "used", "17"):
                t0, s0, _, _ = run_impl(sc, {"method": "none"}, start=start)
                strategies = [{"method": "reversible", "c": c} for c in range(0, T)]
                strategies += [{"method": "checkpointed", "n": n} for n in (1, 2, T)]
                for g in strategies:
                    ctx.impl_property_evals += 1
                    d = strategy_fails(sc, g, start, ref=(t0, s0))
                    if d:
                        ctx.violation({"kind": "run", "scene": sc, "grad": g, "start": start}, d)
                        return


def replay(ctx, inp):
    if inp.get("kind") == "bounds":
        if not (1 <= inp["k"] <= inp["T"]):
            return None
        return partition_fails(inp["T"], inp["k"])
    if inp.get("kind") == "run":
        return strategy_fails(inp["scene"], inp["grad"], inp.get("start", "fresh"))
    return None
