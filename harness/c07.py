"""C07 — stopping conditions stop where documented.  K + S against lean/FdtdxModel/C07.lean.
Runs in float32 WITHOUT jax_enable_x64 (DetectorConvergenceCondition's dynamic_slice mixes int32/int64 under x64)."""
import json

import numpy as np

from . import c05 as base

RULE = ("K (float32): (a) setup defaults: EnergyThresholdCondition().setup min_steps = round(T*0.1) for EVERY T <= 400 "
        "(thorough 4000) vs the model's half-to-even T/10; rejected set-ups (threshold <= 0 / < 0, prev_periods < 1, window "
        "longer than T, min_steps below the window) vs the model's error kinds. (b) per generated tiny scene (4-6 cells per "
        "axis, PML or periodic faces, T 16-30, dipole source, volume-reduced Field or Energy detector): a plain run is "
        "executed step by step; its energy trace E(0..T) and detector readings are the model's input. For 10 (thorough 40) (threshold, "
        "min_steps, max_steps) triples per condition kind - thresholds taken from the gaps of the run's own energy / "
        "spectra-distance values so that every halt reason occurs (threshold, min_steps wait, max_steps, T, never), min/max "
        "in {None, 0, random, > T}, max < min - the implementation's own `__call__` is evaluated on every state of the plain "
        "run and the first reported stop is compared exactly with the model's predicted halt step (and max/min after setup); "
        "for a subset the real `fdtdx.run_fdtd(stopping_condition=...)` is executed: halt step vs model, traced step "
        "sequence, and the property itself on the implementation (halt = first reported stop, <= max_steps, <= T, >= "
        "min_steps unless max/T come first, final fields and detector states = plain run of that many steps at 1e-5; for energy conditions also halt step = first stop of the DECLARED condition - explicit min/max as passed, incl. min_steps=0 - on the plain run's energies, seed C07h). "
        "non-trivial = a triple whose halt step is not T.")

_np32 = np.float32


def J():
    return base.J(x64=False)


def conds():
    from fdtdx.fdtd.stop_conditions import (DetectorConvergenceCondition, EnergyThresholdCondition,
                                            TimeStepCondition)
    return TimeStepCondition, EnergyThresholdCondition, DetectorConvergenceCondition


class Plain:
    """a scene, its plain run executed one step per call, the states/energies/readings along it"""

    def __init__(self, sc):
        j = J()
        jax, jnp, fdtdx = j["jax"], j["jnp"], j["fdtdx"]
        from fdtdx.core.physics.metrics import compute_energy
        from fdtdx.fdtd.fdtd import custom_fdtd_forward
        self.sc, self.j, self.T = sc, j, sc["T"]
        self.o, self.a, self.cfg = base.build(sc, None, x64=False)
        self.key = jax.random.PRNGKey(2)
        o, cfg, key = self.o, self.cfg, self.key
        f = jax.jit(lambda arr, s, e: custom_fdtd_forward(arr, o, cfg, key, False, True, s, e, show_progress=False))
        en = jax.jit(lambda arr: jnp.sum(compute_energy(arr.fields.E, arr.fields.H, arr.inv_permittivities,
                                                        arr.inv_permeabilities)))
        i32 = lambda x: jnp.asarray(x, dtype=jnp.int32)
        st = (i32(0), self.a.reset())
        self.states, self.E = [st], [float(en(st[1]))]
        for t in range(self.T):
            st = f(st[1], i32(t), i32(t + 1))
            self.states.append(st)
            self.E.append(float(en(st[1])))
        self.det_name = [k for k in self.states[-1][1].detector_states][0]
        r = next(iter(self.states[-1][1].detector_states[self.det_name].values()))
        self.readings = [float(x) for x in np.asarray(r)[:, 0]]
        self.dt = cfg.time_step_duration

    def make(self, spec):
        Time, Energy, Det = conds()
        fdtdx = self.j["fdtdx"]
        if spec["type"] == "time":
            return Time()
        if spec["type"] == "energy":
            return Energy(threshold=spec["thr"], min_steps=spec["min"], max_steps=spec["max"])
        return Det(detector_name=self.det_name, wave_character=fdtdx.WaveCharacter(period=spec["mult"] * self.dt),
                   prev_periods=spec["p"], threshold=spec["thr"], min_steps=spec["min"], max_steps=spec["max"])

    def setup(self, spec):
        """(condition after setup) or ('error', kind)"""
        try:
            return self.make(spec).setup(self.states[0], self.cfg, self.o)
        except ValueError as e:
            return ("error", err_kind(str(e)))

    def reports(self, cond):
        """the implementation's own __call__ on every state of the plain run: True = continue"""
        jax = self.j["jax"]
        f = jax.jit(lambda st: cond(st, self.cfg, self.o))          # one compilation per condition, T+1 cheap calls
        return [bool(f(self.states[t])) for t in range(self.T + 1)]

    def run(self, spec):
        """the real run_fdtd with the stopping condition: (halt step, snapshot, step log)"""
        jax, fdtdx = self.j["jax"], self.j["fdtdx"]
        del base.LOG[:]
        ts, out = fdtdx.run_fdtd(self.a, self.o, self.cfg, self.key, stopping_condition=self.make(spec),
                                 show_progress=False)
        jax.block_until_ready(out.fields.E)
        jax.effects_barrier()
        t, snap = base.snapshot(ts, out)
        return t, snap, list(base.LOG)


def err_kind(msg):
    for pat, kind in (("Energy threshold must be positive", "threshold"), ("Minimum steps must be non-negative", "min_steps"),
                      ("Number of samples over which", "window"), ("prev_periods must be", "prev_periods"),
                      ("threshold must be non-negative", "threshold"), ("min_steps must be larger", "min_steps")):
        if pat in msg:
            return "ValueError " + kind
    return "ValueError ?" + msg[:60]


def first_stop(reports, T):
    for t in range(T):
        if not reports[t]:
            return t
    return T


def rhe(x):
    """Python round of a non-tie multiple"""
    return int(round(x))


# ------------------------------------------------------------------------------------ numpy oracle of the distance
def distances(readings, T, spp, p):
    """spectra distance D(t) for t = (p+1)spp .. T in binary64 (independent of the Lean model) and the magnitude scale"""
    r = np.asarray(readings, dtype=np.float64)
    out, scale = {}, 0.0
    for t in range((p + 1) * spp, T + 1):
        ref = r[t - (p + 1) * spp: t - spp].reshape(p, spp).mean(axis=0)
        last = r[t - spp: t]
        a, b = np.abs(np.fft.rfft(ref, n=spp)), np.abs(np.fft.rfft(last, n=spp))
        out[t] = float(np.linalg.norm(a - b))
        scale = max(scale, float(a.max()), float(b.max()))
    return out, scale


def gap_thresholds(values, margin):
    """thresholds lying in gaps of the sorted values, at least `margin` away from every value"""
    vs = sorted(set(values))
    out = []
    for lo, hi in zip(vs[:-1], vs[1:]):
        if hi - lo > 4 * margin:
            out.append(0.5 * (lo + hi))
    return out


# ------------------------------------------------------------------------------------ generators
def gen_minmax(rng, T, lo_min=0, peak=None):
    mn = rng.choice([None, lo_min, rng.randint(lo_min, T), rng.randint(lo_min, T), T + 3])
    if peak is not None and rng.chance(0.5):
        mn = min(T, max(lo_min, peak + rng.randint(0, 2)))      # start checking after the energy peak: threshold halts
    mx = rng.choice([None, rng.randint(1, T), rng.randint(1, T), rng.randint(1, T), T + 5, 0])
    return mn, mx


def gen_energy_specs(rng, P, n):
    E = P.E
    big = max(abs(x) for x in E) or 1.0
    thr = gap_thresholds(E, 1e-3 * big) or [0.5 * big]
    # the first four are always executed through run_fdtd: loop bound T with the condition still saying continue,
    # max_steps < min_steps, max_steps halt, defaults with an immediately met threshold
    specs = [{"type": "energy", "thr": 1e30, "min": P.T + 3, "max": P.T + 5},
             {"type": "energy", "thr": 1e30, "min": P.T // 2, "max": P.T // 3},
             {"type": "energy", "thr": 1e-30, "min": 2, "max": P.T // 2},
             {"type": "energy", "thr": 1e30, "min": None, "max": None},
             {"type": "energy", "thr": 1e-30, "min": None, "max": None}]
    specs.insert(2, {"type": "energy", "thr": 1e30, "min": 0, "max": None})      # explicit 0 is not "unset" (seed C07h)
    peak = int(np.argmax(E))
    late = gap_thresholds(E[peak:], 1e-3 * big) or thr
    while len(specs) < n:
        mn, mx = gen_minmax(rng, P.T, peak=peak)
        if rng.chance(0.5):
            mx = rng.choice([None, P.T + 5, mx])
        specs.append({"type": "energy", "thr": float(rng.choice((late if rng.chance(0.6) else thr) + [1e30, 1e-30])),
                      "min": mn, "max": mx})
    return specs[:n]


def gen_det_specs(rng, P, n):
    T = P.T
    specs = []
    combos = [(m, p) for m in (3.0, 3.4, 4.0, 4.6, 5.0) for p in (1, 2, 3) if (p + 1) * rhe(m) <= T]
    # the as-found defect class first: max_steps below T with a threshold that is never met
    m0, p0 = combos[0]
    specs.append({"type": "det", "mult": m0, "p": p0, "thr": 0.0, "min": None, "max": T // 2})
    specs.append({"type": "det", "mult": m0, "p": p0, "thr": 0.0, "min": None, "max": T + 5})      # only the loop bound halts it
    specs.append({"type": "det", "mult": m0, "p": p0, "thr": 0.0, "min": T // 2 + 3, "max": T // 2})
    specs.append({"type": "det", "mult": m0, "p": p0, "thr": 1e30, "min": None, "max": None})
    while len(specs) < n:
        m, p = rng.choice(combos)
        spp = rhe(m)
        D, scale = distances(P.readings, T, spp, p)
        thr = gap_thresholds(list(D.values()), 1e-4 * max(scale, 1e-30)) + [0.0, 1e30]
        mn, mx = gen_minmax(rng, T, lo_min=(p + 1) * spp)
        if rng.chance(0.5):
            mx = rng.choice([None, T + 5, mx])
        specs.append({"type": "det", "mult": m, "p": p, "thr": float(rng.choice(thr)), "min": mn, "max": mx})
    return specs[:n]


def gen_scene(rng, i):
    T = rng.randint(16, 30)
    det = "field" if i % 2 == 0 else "energy"
    return {"shape": [rng.randint(4, 6) for _ in range(3)], "T": T, "bound": rng.choice(["pml", "periodic", "pml"]),
            "src": "dipole", "pol": 0, "src_switch": rng.choice([None, {"fixed_on_time_steps": list(range(0, T // 3))},
                                                                 {"fixed_on_time_steps": list(range(0, T // 3))}]),
            "dets": [{"kind": det, "switch": None, "reduce": True}], "spp": float(rng.choice([4.0, 6.0, 9.0])),
            "eps": rng.choice([None, 2.25]), "amp": 1.0 if det == "field" else 1e12}


# ------------------------------------------------------------------------------------ model lines
def opt(x):
    return "-" if x is None else str(int(x))


def model_line(P, spec, asfound=False):
    from .common import f2h
    T = P.T
    if spec["type"] == "time":
        return f"time {T}"
    if spec["type"] == "energy":
        return f"energy {T} {f2h(spec['thr'])} {opt(spec['min'])} {opt(spec['max'])} " + " ".join(f2h(x) for x in P.E)
    op = "detasfound" if asfound else "det"
    return (f"{op} {T} {rhe(spec['mult'])} {spec['p']} {f2h(spec['thr'])} {opt(spec['min'])} {opt(spec['max'])} "
            + " ".join(f2h(x) for x in P.readings))


# ------------------------------------------------------------------------------------ property oracle
def stop_fails(P, spec, ran=None):
    """the property on the implementation for one (scene, condition): returns a detail string or None"""
    c = P.setup(spec)
    if isinstance(c, tuple):
        return None                         # rejected set-up: nothing runs
    T = P.T
    t, snap, log = P.run(spec) if ran is None else ran
    rep = P.reports(c)
    first = first_stop(rep, T)
    name = {"time": "TimeStepCondition", "energy": "EnergyThresholdCondition", "det": "DetectorConvergenceCondition"}[spec["type"]]
    mx = getattr(c, "max_steps", T)
    mn = getattr(c, "min_steps", 0)
    desc = f"{name}(threshold={spec.get('thr')}, min_steps={mn}, max_steps={mx}) on T={T}"
    if t > T:
        return f"{desc}: halted at step {t}, after the configured total step count"
    if t > mx:
        return f"{desc}: halted at step {t}, later than its max_steps"
    if t != first:
        return f"{desc}: halted at step {t} but the condition first reports stop at step {first}"
    if t < min(mn, mx, T):
        return f"{desc}: halted at step {t}, before min_steps"
    if spec["type"] == "energy":
        # the DECLARED condition (seed C07h: setup() silently replaced an explicit min_steps=0, and every bound read back
        # from the set-up object followed it): explicit min/max as passed, documented defaults round(0.1*T) / T otherwise
        mn_d = spec["min"] if spec["min"] is not None else int(round(0.1 * T))
        mx_d = spec["max"] if spec["max"] is not None else T
        want = next((k for k in range(T) if k >= mx_d or (k >= mn_d and P.E[k] < spec["thr"])), T)
        if t != want:
            return (f"{desc}: halted at step {t}; the declared condition (min_steps={spec['min']}, max_steps={spec['max']}, "
                    f"energies of the plain run) first reports stop at step {want}")
    if log != list(range(t)):
        return f"{desc}: executed steps {log}, expected 0..{t - 1}"
    t0, s0 = base.snapshot(*P.states[t])
    ok, txt = base.snap_diff(snap, s0, 1e-5)
    if not ok:
        return f"{desc}: state at the halt step {t} differs from the plain run of {t} steps: {txt}"
    return None


# ------------------------------------------------------------------------------------------- K
def halt_reason(stop, T, mx, mn):
    if stop == T:
        return "T"
    if stop == mx:
        return "max_steps"
    if stop == mn:
        return "at min_steps"
    return "threshold, after min_steps"


def k_spec(ctx, P, spec, full, idx):
    case = {"kind": "stop", "scene": P.sc, "cond": spec}
    rep = ctx.driver.ask_many([model_line(P, spec)])[0]
    c = P.setup(spec)
    if isinstance(c, tuple):
        ctx.case(nontrivial=("err", idx), op=spec["type"], halt="rejected")
        ctx.expect_equal("setup-rejects", case, "error " + c[1], rep)
        return
    T = P.T
    if spec["type"] == "det":
        ctx.expect_equal("setup._spp", case, int(c._spp), rhe(spec["mult"]))
    reports = P.reports(c)
    first = first_stop(reports, T)
    mx, mn = (int(c.max_steps), int(c.min_steps)) if spec["type"] != "time" else (T, 0)
    impl = f"{first}" if spec["type"] == "time" else f"{mx} {mn} {first}"
    ctx.case(sample={"op": spec["type"], "cond": spec, "T": T, "model": rep, "impl": impl} if idx in (1, 5) else None,
             nontrivial=("stop", idx, json.dumps(spec, sort_keys=True)) if first != T else None, op=spec["type"],
             halt=halt_reason(first, T, mx, mn), observed="run_fdtd" if full else "__call__ on plain-run states",
             detector=P.sc["dets"][0]["kind"], bound=P.sc["bound"])
    ctx.expect_equal("__call__ first stop", case, impl, rep)
    if full:
        ran = P.run(spec)
        impl_run = f"{ran[0]}" if spec["type"] == "time" else f"{mx} {mn} {ran[0]}"
        ctx.expect_equal("run_fdtd halt step", case, impl_run, rep)
        ctx.impl_property_evals += 1
        d = stop_fails(P, spec, ran)
        if d:
            ctx.violation(case, d)


def k_setup(ctx):
    """(a) defaults and rejected set-ups, no scene needed"""
    j = J()
    fdtdx = j["fdtdx"]
    Time, Energy, Det = conds()
    Tmax = ctx.scale(400, 4000)
    cfg0 = fdtdx.SimulationConfig(time=1e-15, grid=fdtdx.UniformGrid(spacing=50e-9), backend="cpu")
    dt = cfg0.time_step_duration
    reps = ctx.driver.ask_many([f"tenth {T}" for T in range(0, Tmax + 1)])
    for T, rep in zip(range(0, Tmax + 1), reps):
        cfg = fdtdx.SimulationConfig(time=(T + 0.01) * dt, grid=fdtdx.UniformGrid(spacing=50e-9), backend="cpu")
        if cfg.time_steps_total != T:
            raise RuntimeError("config builder")
        c = Energy().setup(None, cfg, None)
        ctx.case(nontrivial=("tenth", T) if T % 10 == 5 else None, op="setup-default", tie=(T % 10 == 5))
        ctx.expect_equal("EnergyThresholdCondition.setup defaults", {"kind": "tenth", "T": T},
                         f"{c.min_steps} {c.max_steps}", f"{rep} {T}")


def run(ctx):
    J()
    k_setup(ctx)
    n_scenes = ctx.scale(2, 6)
    idx = 0
    for i in range(n_scenes):
        sc = gen_scene(ctx.rng.fork(), i + ctx.seed)
        P = Plain(sc)
        n_cheap, n_full = ctx.scale(10, 40), ctx.scale(4, 8)
        k_spec(ctx, P, {"type": "time"}, i == 0, idx)
        for kind, gen in (("energy", gen_energy_specs), ("det", gen_det_specs)):
            specs = gen(ctx.rng, P, n_cheap)
            for k, spec in enumerate(specs):
                idx += 1
                k_spec(ctx, P, spec, k < n_full, idx)
        # rejected set-ups
        T = P.T
        for spec in ({"type": "energy", "thr": 0.0, "min": None, "max": None}, {"type": "energy", "thr": -1.0, "min": 3, "max": None},
                     {"type": "det", "mult": 4.0, "p": 0, "thr": 1.0, "min": None, "max": None},
                     {"type": "det", "mult": 4.0, "p": 1, "thr": -1.0, "min": None, "max": None},
                     {"type": "det", "mult": 4.0, "p": 2, "thr": 1.0, "min": 11, "max": None},
                     {"type": "det", "mult": 9.0, "p": 4, "thr": 1.0, "min": None, "max": None}):
            idx += 1
            k_spec(ctx, P, spec, False, idx)


# ------------------------------------------------------------------------------------------- S
def search(ctx, hints):
    seen = set()
    for h in hints:
        if isinstance(h, dict) and h.get("kind") == "stop":
            key = json.dumps(h, sort_keys=True)
            if key in seen:
                continue
            seen.add(key)
            ctx.impl_property_evals += 1
            d = replay(ctx, h)
            if d:
                ctx.violation(h, d)
                return
            if len(seen) >= 12:
                break
    rng = base_rng(1)
    for i in range(3):
        sc = gen_scene(rng.fork(), i)
        sc["T"] = 16 + 4 * i
        sc["src_switch"] = None
        P = Plain(sc)
        specs = [{"type": "time"}] + gen_det_specs(rng, P, 14) + gen_energy_specs(rng, P, 14)
        for spec in specs:
            ctx.impl_property_evals += 1
            d = stop_fails(P, spec)
            if d:
                ctx.violation({"kind": "stop", "scene": sc, "cond": spec}, d)
                return


def base_rng(seed):
    from .common import Rng
    return Rng(seed)


def replay(ctx, inp):
    if inp.get("kind") != "stop":
        return None
    return stop_fails(Plain(inp["scene"]), inp["cond"])
