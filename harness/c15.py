"""C15 — detector co-location: update_detector_states / interpolate_fields / pad_fields_with_symmetry_mirror
vs lean/FdtdxModel/C15.lean and vs an independent numpy co-location oracle."""
import itertools

import numpy as np

RULE = ("K: scenes built with the real place_objects (reduced shape 3..6 per axis plus thin axes of 1..2 cells; per-axis boundary "
        "pairs periodic/periodic, pec/pmc, pml/pml, pmc/pec, periodic/pml (mixed), pml/periodic; config.symmetry entries in "
        "{-1,0,+1}, every symmetric scene with an electric plane on x or y (alternating); UniformGrid, explicit uniform RectilinearGrid, non-uniform RectilinearGrid with random widths); in every "
        "scene one FieldDetector per contact class (low face / interior / high face per axis = 27 classes where the axis "
        "length allows, plus full-span and single-cell boxes), exact_interpolation True and False, random component subsets, "
        "one inverse detector; random binary64 E, H, H_prev. Observed: (a) jitted update_detector_states (forward and inverse "
        "call) -> the recorded slot of every FieldDetector, compared with the model's `rec` (interior/edge dispatch included); "
        "(b) pad_fields_with_symmetry_mirror and interpolate_fields on the whole domain vs the model's `pad` / `full`. "
        "The property predicate (independent numpy oracle: sequential halo fill + tensor-product linear interpolation in "
        "physical coordinates driven by the Yee offset table) is evaluated on every detector; untouched slots must stay zero "
        "and detectors of the other time direction must not change. tol 1e-12. non-trivial = box touches a face, "
        "non-uniform grid, symmetry axis or wrap axis.")

TOL = 1e-12
PAIRS = [("periodic", "periodic"), ("pec", "pmc"), ("pml", "pml"), ("pmc", "pec"), ("periodic", "pml"), ("pml", "periodic")]
COMP = ("Ex", "Ey", "Ez", "Hx", "Hy", "Hz")
_J = None


def J():
    global _J
    if _J is None:
        import jax
        jax.config.update("jax_enable_x64", True)
        import jax.numpy as jnp
        import fdtdx
        from fdtdx.core.grid import RectilinearGrid, UniformGrid
        from fdtdx.core.physics.curl import interpolate_fields
        from fdtdx.fdtd.initialization import place_objects
        from fdtdx.fdtd.update import pad_fields_with_symmetry_mirror, update_detector_states
        from fdtdx.objects.object import RealCoordinateConstraint
        from loguru import logger
        logger.remove()
        _J = dict(jax=jax, jnp=jnp, fdtdx=fdtdx, RectilinearGrid=RectilinearGrid, UniformGrid=UniformGrid,
                  interpolate_fields=interpolate_fields, place_objects=place_objects,
                  pad=pad_fields_with_symmetry_mirror, uds=update_detector_states, RC=RealCoordinateConstraint)
    return _J


# ------------------------------------------------------------------------------------ scene spec
def full_widths(spec):
    """cell widths of the UNREDUCED domain (mirror image in front on symmetric axes), metres"""
    out = []
    for a in range(3):
        w = list(spec["widths"][a]) if spec["widths"] else [1.0] * spec["shape"][a]
        out.append(([x for x in reversed(w)] + w) if spec["sym"][a] != 0 else w)
    return [[x * 1e-7 for x in w] for w in out]


def wrap_flags(spec):
    return [spec["kinds"][a][1] == "periodic" or (spec["sym"][a] == 0 and spec["kinds"][a][0] == "periodic") for a in range(3)]


def fields_of(spec):
    r = np.random.default_rng(spec["np_seed"])
    sh = (3, *spec["shape"])
    return r.normal(size=sh), r.normal(size=sh), r.normal(size=sh)


def build(spec):
    """place the scene with the real code; returns (objects, arrays, config, name->detector spec)"""
    j = J()
    fdtdx, jnp = j["fdtdx"], j["jnp"]
    fw = full_widths(spec)
    edges = [np.concatenate([[0.0], np.cumsum(w)]) for w in fw]
    if spec["grid"] == "uniform":
        grid = j["UniformGrid"](spacing=1e-7)
    else:
        grid = j["RectilinearGrid"](x_edges=jnp.asarray(edges[0]), y_edges=jnp.asarray(edges[1]), z_edges=jnp.asarray(edges[2]))
    dt = fdtdx.SimulationConfig(time=1e-15, grid=grid, backend="cpu", dtype=jnp.float64).time_step_duration
    cfg = fdtdx.SimulationConfig(time=(spec["T"] + 0.01) * dt, grid=grid, backend="cpu", dtype=jnp.float64,
                                 symmetry=tuple(spec["sym"]))
    full_shape = tuple(len(w) for w in fw)
    vol = fdtdx.SimulationVolume(partial_grid_shape=full_shape)
    names = ["minx", "maxx", "miny", "maxy", "minz", "maxz"]
    kw = {}
    for a in range(3):
        for s in range(2):
            kw["boundary_type_" + names[2 * a + s]] = spec["kinds"][a][s]
            kw["thickness_grid_" + names[2 * a + s]] = 1
    bd, cons = fdtdx.boundary_objects_from_config(fdtdx.BoundaryConfig(**kw), vol)
    objs = [vol] + list(bd.values())
    cons = list(cons)
    dets = {}
    for i, d in enumerate(spec["dets"]):
        name = f"det{i}"
        extra = {}
        if d.get("components"):
            extra["components"] = tuple(d["components"])
        obj = fdtdx.FieldDetector(name=name, dtype=jnp.float64, exact_interpolation=bool(d["exact"]),
                                  inverse=bool(d.get("inverse", False)), plot=False, **extra)
        off = [spec["shape"][a] if spec["sym"][a] != 0 else 0 for a in range(3)]
        lo = [d["box"][a][0] + off[a] for a in range(3)]
        hi = [d["box"][a][1] + off[a] for a in range(3)]
        if spec["grid"] == "nonuniform":
            RC = j["RC"]
            cons.append(RC(object=name, axes=(0, 1, 2), sides=("-", "-", "-"), coordinates=tuple(float(edges[a][lo[a]]) for a in range(3))))
            cons.append(RC(object=name, axes=(0, 1, 2), sides=("+", "+", "+"), coordinates=tuple(float(edges[a][hi[a]]) for a in range(3))))
        else:
            cons.append(obj.set_grid_coordinates(axes=(0, 1, 2), sides=("-", "-", "-"), coordinates=tuple(lo)))
            cons.append(obj.set_grid_coordinates(axes=(0, 1, 2), sides=("+", "+", "+"), coordinates=tuple(hi)))
        objs.append(obj)
        dets[name] = d
    oc, arrays, _, cfg, _ = j["place_objects"](objs, cfg, cons)
    return oc, arrays, cfg, dets


def impl_scene(spec):
    """run the real code on the scene: records of every detector (forward and inverse call), padded arrays, full interpolation"""
    j = J()
    jax, jnp = j["jax"], j["jnp"]
    oc, arrays, cfg, dets = build(spec)
    if tuple(oc.volume.grid_shape) != tuple(spec["shape"]):
        raise RuntimeError(f"placed volume shape {oc.volume.grid_shape} != requested reduced shape {spec['shape']}")
    E, H, Hp = (jnp.asarray(x) for x in fields_of(spec))
    arrays = arrays.aset("fields", arrays.fields.aset("E", E).aset("H", H))
    t = jnp.asarray(spec["t"], dtype=jnp.int32)
    res = {"boxes": {}, "states": {}}
    for inverse in (False, True):
        f = jax.jit(lambda ts, arr, hp, inv=inverse: j["uds"](ts, arr, oc, cfg, hp, inv).detector_states)
        out = f(t, arrays, Hp)
        res["states"][inverse] = {k: np.asarray(v["fields"]) for k, v in out.items()}
    for d in oc.detectors:
        res["boxes"][d.name] = [list(x) for x in d.grid_slice_tuple]
    res["padE"] = np.asarray(j["pad"](E, oc, cfg, "E"))
    res["padH"] = np.asarray(j["pad"](H, oc, cfg, "H"))
    fe, fh = j["interpolate_fields"](j["pad"](E, oc, cfg, "E"), j["pad"]((Hp + H) / 2, oc, cfg, "H"), config=cfg)
    res["full"] = np.concatenate([np.asarray(fe).ravel(), np.asarray(fh).ravel()])
    res["nonuniform_flag"] = bool(cfg.has_nonuniform_grid)
    return res


# ------------------------------------------------------------------ independent numpy oracle (property)
YEE = {"E": [(1, 0, 0), (0, 1, 0), (0, 0, 1)], "H": [(0, 1, 1), (1, 0, 1), (1, 1, 0)]}   # half-cell offsets of each component


def oracle_halo(f, ft, spec):
    """domain array (3,n) -> (3,n+2): zero, periodic wrap, or parity mirror on an electric symmetry plane"""
    n = spec["shape"]
    wrap = wrap_flags(spec)
    out = np.zeros((3, n[0] + 2, n[1] + 2, n[2] + 2))
    out[:, 1:-1, 1:-1, 1:-1] = f
    for a in range(3):
        ax = a + 1
        lo, hi = [slice(None)] * 4, [slice(None)] * 4
        lo[ax], hi[ax] = 0, n[a] + 1
        first, last = [slice(None)] * 4, [slice(None)] * 4
        first[ax], last[ax] = 1, n[a]
        if wrap[a]:
            out[tuple(hi)] = out[tuple(first)]
        if spec["sym"][a] == -1:
            # electric plane on the node row of index 0: components with a node ON the plane are odd and pair i <-> -i,
            # the others are even and pair i <-> -i-1
            for c in range(3):
                on_plane = YEE[ft][c][a] == 0
                src = [slice(None)] * 3
                src[a] = 2 if on_plane else 1
                dst = [slice(None)] * 3
                dst[a] = 0
                out[(c, *dst)] = (-1.0 if on_plane else 1.0) * out[(c, *src)]
        elif wrap[a] and spec["sym"][a] == 0:
            out[tuple(lo)] = out[tuple(last)]
    return out


def oracle_colocate(ext, ft, widths):
    """ext (3,n+2) -> (3,n): linear interpolation of every component from its Yee position onto the E_z node (0,0,1/2)"""
    target = (0, 0, 1)
    n = [ext.shape[1] - 2, ext.shape[2] - 2, ext.shape[3] - 2]
    res = []
    for c in range(3):
        v = ext[c]
        for a in range(3):
            w = np.asarray(widths[a])
            cur = np.take(v, range(1, n[a] + 1), axis=a)
            if YEE[ft][c][a] == 1 and target[a] == 0:      # sample at the cell centre, target on the lower edge
                prev = np.take(v, range(0, n[a]), axis=a)
                d_cur = 0.5 * w
                d_prev = 0.5 * np.concatenate([w[:1], w[:-1]])   # the cell behind cell 0 is taken as wide as cell 0
                shp = [1, 1, 1]
                shp[a] = n[a]
                d_cur, d_prev = d_cur.reshape(shp), d_prev.reshape(shp)
                v = (cur * d_prev + prev * d_cur) / (d_cur + d_prev)
            elif YEE[ft][c][a] == 0 and target[a] == 1:    # sample on the lower edge, target at the cell centre
                nxt = np.take(v, range(2, n[a] + 2), axis=a)
                v = 0.5 * (cur + nxt)
            else:
                v = cur
        res.append(v)
    return np.stack(res)


def oracle_full(spec):
    E, H, Hp = fields_of(spec)
    w = [spec["widths"][a] if spec["widths"] else [1.0] * spec["shape"][a] for a in range(3)]
    fe = oracle_colocate(oracle_halo(E, "E", spec), "E", w)
    fh = oracle_colocate(oracle_halo(0.5 * (H + Hp), "H", spec), "H", w)
    return fe, fh


def oracle_record(spec, d, full=None):
    """what the property says detector d records at the active step: (n_components, *box)"""
    E, H, _ = fields_of(spec)
    fe, fh = full if full is not None else oracle_full(spec)
    if not d["exact"]:
        fe, fh = E, H
    sl = tuple(slice(s, e) for s, e in d["box"])
    six = np.concatenate([fe[(slice(None), *sl)], fh[(slice(None), *sl)]])
    comps = d.get("components") or COMP
    return six[[i for i, cn in enumerate(COMP) if cn in comps]]


def check_scene(spec, res):
    """property predicate on the implementation results; returns (detail, index of the failing detector) or None"""
    full = oracle_full(spec)
    for i, d in enumerate(spec["dets"]):
        name = f"det{i}"
        if res["boxes"].get(name) != [list(x) for x in d["box"]]:
            return f"{name}: placed at {res['boxes'].get(name)} instead of {d['box']}", i
        inv = bool(d.get("inverse", False))
        st = res["states"][inv][name]
        exp = oracle_record(spec, d, full)
        got = st[spec["t"]]
        if got.shape != exp.shape:
            return f"{name}: record shape {got.shape}, property says {exp.shape}", i
        err = float(np.max(np.abs(got - exp))) / max(1.0, float(np.max(np.abs(exp))))
        if not err <= TOL:
            w = np.unravel_index(int(np.argmax(np.abs(got - exp))), exp.shape)
            return (f"{name} box={d['box']} exact={d['exact']} components={d.get('components')}: recorded {got[w]!r} at "
                    f"(component,i,j,k)={tuple(int(x) for x in w)}, co-location oracle says {exp[w]!r} (rel.err {err:.3e})"), i
        other = np.delete(st, spec["t"], axis=0)
        if other.size and np.any(other != 0):
            return f"{name}: a time slot other than the active one was written", i
        if np.any(res["states"][not inv][name] != 0):
            return f"{name}: changed by the update of the other time direction (inverse={not inv})", i
    return None


def property_fails(spec):
    try:
        res = impl_scene(spec)
    except Exception as e:  # the implementation refuses / crashes on a valid scene
        return f"implementation raised {type(e).__name__}: {str(e)[:300]}", None
    return check_scene(spec, res)


# ----------------------------------------------------------------------------------- generator
def classes_of(n):
    """contact classes available on an axis of n cells: name -> list of (s,e)"""
    out = {"low": [(0, e) for e in range(1, n)], "high": [(s, n) for s in range(1, n)], "both": [(0, n)]}
    out["int"] = [(s, e) for s in range(1, n - 1) for e in range(s + 1, n)]
    return {k: v for k, v in out.items() if v}


def gen_scene(rng, i, small=False):
    grid = ["uniform", "nonuniform", "nonuniform", "rect-uniform"][i % 4]
    sym = [0, 0, 0]
    if i % 3 == 1:
        for a in range(3):
            sym[a] = rng.choice([-1, -1, 0, 1])
        # the co-location stencil reads the low halo along x and y only: every symmetric scene has an ELECTRIC plane on x or y
        # (alternating), so detectors touching it record H (and E) through the mirror halo
        sym[(i // 3) % 2] = -1
    kinds = [list(rng.choice(PAIRS)) for _ in range(3)]
    if i % 5 == 0:
        kinds[rng.randint(0, 2)] = ["periodic", "periodic"]
    hi_n = 4 if small else 6
    shape = [rng.randint(3, hi_n) for _ in range(3)]
    if i % 4 == 3:
        shape[rng.randint(0, 2)] = rng.randint(1, 2)       # a thin axis: only face contacts exist
    widths = None
    if grid == "nonuniform":
        widths = [[round(rng.uniform(0.6, 1.7), 3) for _ in range(shape[a])] for a in range(3)]
    dets = []
    cls = [classes_of(n) for n in shape]
    combos = list(itertools.product(*[sorted(c.keys()) for c in cls]))
    three = [c for c in combos if "both" not in c]
    both = [c for c in combos if "both" in c]
    chosen = three + rng.shuffle(both)[: (2 if small else 5)]
    if small:
        chosen = rng.shuffle(chosen)[:6]
    for combo in chosen:
        box = [list(rng.choice(cls[a][combo[a]])) for a in range(3)]
        dets.append({"box": box, "exact": True, "cls": "/".join(combo)})
    for _ in range(2 if small else 6):
        combo = rng.choice(combos)
        box = [list(rng.choice(cls[a][combo[a]])) for a in range(3)]
        dets.append({"box": box, "exact": False, "cls": "/".join(combo)})
    for d in dets:
        if rng.chance(0.2):
            k = rng.randint(1, 5)
            d["components"] = rng.shuffle(list(COMP))[:k]       # deliberately NOT in canonical order
    dets[rng.randint(0, len(dets) - 1)]["inverse"] = True
    dets[-1]["inverse"] = True
    T = 3
    return {"shape": shape, "kinds": kinds, "sym": sym, "grid": grid, "widths": widths, "dets": dets, "T": T,
            "t": rng.randint(0, T - 1), "np_seed": rng.np_seed()}


def model_lines(spec):
    from .common import f2h
    E, H, Hp = fields_of(spec)
    n = spec["shape"]
    w = [spec["widths"][a] if spec["widths"] else [1.0] * n[a] for a in range(3)]
    # the implementation sees widths in metres; ratios are what matters, keep the same numbers
    data = " ".join(f2h(x * 1e-7) for a in range(3) for x in w[a]) + " " + " ".join(f2h(x) for arr in (E, H, Hp) for x in arr.ravel())
    head = f"{n[0]} {n[1]} {n[2]} " + " ".join("1" if b else "0" for b in wrap_flags(spec)) + " " + " ".join(str(s) for s in spec["sym"])
    nu = "1" if spec["grid"] == "nonuniform" else "0"
    lines = [f"full {head} {nu} {data}", f"pad {head} 0 {data}", f"pad {head} 1 {data}"]
    for d in spec["dets"]:
        b = d["box"]
        lines.append(f"rec {head} {nu} {1 if d['exact'] else 0} {b[0][0]} {b[0][1]} {b[1][0]} {b[1][1]} {b[2][0]} {b[2][1]} {data}")
    return lines


def slim(spec, keep=None):
    s = dict(spec)
    s["dets"] = [dict(d) for i, d in enumerate(spec["dets"]) if keep is None or i in keep]
    return s


def run(ctx):
    from .common import h2fs
    n_scenes = ctx.scale(7, 60)
    for i in range(n_scenes):
        spec = gen_scene(ctx.rng, i)
        res = impl_scene(spec)
        reps = ctx.driver.ask_many(model_lines(spec))
        tag = {"shape": spec["shape"], "kinds": spec["kinds"], "sym": spec["sym"], "grid": spec["grid"]}
        # (b) whole-domain observation points
        ctx.case(nontrivial=("full", i), op="full", grid=spec["grid"], sym=str(spec["sym"]))
        ctx.expect_equal("nonuniform-flag", slim(spec, []), res["nonuniform_flag"], spec["grid"] == "nonuniform")
        ctx.expect_close("full", slim(spec, []), res["full"], h2fs(reps[0]), tol=TOL)
        ctx.expect_close("padE", slim(spec, []), res["padE"].ravel(), h2fs(reps[1]), tol=TOL)
        ctx.expect_close("padH", slim(spec, []), res["padH"].ravel(), h2fs(reps[2]), tol=TOL)
        for a in range(3):
            ctx.case(op="axis", kind="/".join(spec["kinds"][a]) + f" sym={spec['sym'][a]}" + (" thin" if spec["shape"][a] < 3 else ""))
        # (a) per detector: model vs implementation
        for k, d in enumerate(spec["dets"]):
            name = f"det{k}"
            inv = bool(d.get("inverse", False))
            got = res["states"][inv][name][spec["t"]]
            model = np.asarray(h2fs(reps[3 + k])).reshape((6, *[e - s for s, e in d["box"]]))
            comps = d.get("components") or COMP
            model = model[[q for q, cn in enumerate(COMP) if cn in comps]]
            nt = (i, k) if (d["cls"] != "int/int/int" or spec["grid"] == "nonuniform" or any(spec["sym"]) or any(wrap_flags(spec))) else None
            ctx.case(sample={"op": "rec", **tag, "det": d, "impl_first": float(got.ravel()[0])} if (i < 3 and k == 0) else None,
                     nontrivial=nt, op="rec", contact=d["cls"], exact=d["exact"], subset=bool(d.get("components")))
            if got.shape != model.shape:
                ctx.mismatch("rec-shape", slim(spec, [k]), {"impl": got.shape, "model": model.shape})
            else:
                ctx.expect_close("rec", slim(spec, [k]), got.ravel(), model.ravel(), tol=TOL)
        # property predicate on the implementation
        ctx.impl_property_evals += len(spec["dets"])
        bad = check_scene(spec, res)
        if bad:
            detail, k = bad
            small = slim(spec, [k]) if k is not None else spec
            if k is not None and not property_fails(small):
                small = spec
            ctx.violation(small, detail)
            return
    ctx.extra["contact_classes_per_scene"] = "27 (+ full-span) where the axis lengths allow"


# ------------------------------------------------------------------------------------------- S
def search(ctx, hints):
    seen = 0
    for h in hints:
        if isinstance(h, dict) and "dets" in h and h["dets"] and seen < 12:
            seen += 1
            ctx.impl_property_evals += 1
            bad = property_fails(h)
            if bad:
                ctx.violation(h, bad[0])
                return
    # smallest scenes first; few detectors per scene
    for i in range(ctx.scale(24, 80)):
        spec = gen_scene(ctx.rng.fork(), i, small=(i < 16))
        ctx.impl_property_evals += len(spec["dets"])
        bad = property_fails(spec)
        if bad:
            detail, k = bad
            small = slim(spec, [k]) if k is not None else spec
            if k is not None and not property_fails(small):
                small = spec
            ctx.violation(small, detail)
            return


def replay(ctx, inp):
    bad = property_fails(inp)
    return bad[0] if bad else None
