"""C25 — BrushConstraint2D vs lean/FdtdxModel/C25.lean"""
import numpy as np

RULE = ("K: BrushConstraint2D.__call__ (public; axis 0/1/2, background index 0 and 1) on 2-D designs of 3..14 cells per side "
        "(quick: <= 10) plus three strongly elongated ones (3x64, 64x3, 4x72; seed C25i) with circular_brush of diameter 3, 5, 7 and the non-integer 2.5, 3.5, 4.2, 4.5, 5.5 (and 1); circular_brush itself is "
        "compared with the model and with its definition (odd size, point-symmetric, centre set) for 13 diameters: white-noise designs, smooth blobs, stripes "
        "thinner than the brush, integer-valued and +-1 designs (exact ties in every comparison), constant designs, designs smaller than the brush. The Lean "
        "model runs the same loop first (it reports the number of iterations, the case taken in each one and whether an "
        "iteration made no progress — the hypothesis `Progress` of the theorems); the final solid region is compared exactly. "
        "dilate_jax is compared separately on random images and brushes (incl. asymmetric ones). Independent oracle (numpy): "
        "output is binary and both the solid and the void region equal the union of the in-domain brush footprints they "
        "contain (morphological opening). non-trivial = the run used case 2 or 3 at least once.")

_c = {}


def J():
    if "jax" not in _c:
        import jax
        jax.config.update("jax_enable_x64", True)
        import jax.numpy as jnp
        from fdtdx.objects.device.parameters.discretization import BrushConstraint2D, circular_brush
        from fdtdx.objects.device.parameters.binary_transform import dilate_jax
        from fdtdx.materials import Material
        from fdtdx.typing import ParameterType
        from fdtdx.config import SimulationConfig
        from fdtdx.core.grid import UniformGrid
        _c.update(jax=jax, jnp=jnp, Brush=BrushConstraint2D, circular_brush=circular_brush, dilate=dilate_jax, Material=Material,
                  PT=ParameterType, cfg=SimulationConfig(time=100e-15, grid=UniformGrid(spacing=500e-9), backend="cpu"), fn={})
    return _c


def bits(m):
    return "".join("1" if x else "0" for x in np.asarray(m).astype(bool).ravel())


def unbits(s, shape):
    return np.frombuffer(s.encode(), dtype=np.uint8).reshape(shape) == ord("1")


def frac(diam):
    from fractions import Fraction
    return Fraction(str(diam))


def brush_of(diam):
    """the brush the property speaks about, from the documented definition (NOT the implementation): square of side
    ceil(diameter) rounded up to odd, cell set iff its distance to the centre is <= diameter / 2 (exact rationals)"""
    import math
    f = frac(diam)
    s = math.ceil(f)
    if s % 2 == 0:
        s += 1
    c = (s - 1) // 2
    return np.array([[4 * ((a - c) ** 2 + (b - c) ** 2) <= f * f for b in range(s)] for a in range(s)], dtype=bool).reshape(s, s)


def impl_brush_array(diam):
    return np.asarray(J()["circular_brush"](diam)).astype(bool)


def brush_fails(diam):
    """circular_brush must return an odd-sized, point-symmetric mask containing its centre, equal to the definition"""
    b = impl_brush_array(diam)
    if b.ndim != 2 or b.shape[0] != b.shape[1] or b.shape[0] % 2 == 0:
        return f"circular_brush({diam}) has shape {b.shape}: not an odd-sized square, the brush has no centre pixel"
    if not np.array_equal(b, b[::-1, ::-1]):
        return f"circular_brush({diam}) is not point-symmetric"
    if not b[b.shape[0] // 2, b.shape[0] // 2]:
        return f"circular_brush({diam}) does not contain its centre"
    if not np.array_equal(b, brush_of(diam)):
        return f"circular_brush({diam}) differs from the disc of that diameter: {bits(b)} vs {bits(brush_of(diam))}"
    return None


def module(shape3, axis, diam, bg):
    j = J()
    key = (shape3, axis, diam, bg)
    if key not in j["fn"]:
        mats = {"Air": j["Material"](permittivity=1.0), "Si": j["Material"](permittivity=11.7)}
        t = j["Brush"](brush=j["circular_brush"](diam), axis=axis, background_material=bg)
        t = t.init_module(config=j["cfg"], materials=mats, matrix_voxel_grid_shape=shape3, single_voxel_size=(1e-6,) * 3,
                          output_shape={"p": shape3})
        t = t.init_type({"p": j["PT"].CONTINUOUS})
        j["fn"][key] = j["jax"].jit(lambda p, t=t: t({"p": p})["p"])
    return j["fn"][key]


class Worker:
    """The generator is an unbounded `while_loop`; a defect there does not raise, it spins.  The real transform therefore
    runs in a child process that is killed when one case takes longer than `limit` seconds."""

    def __init__(self, limit):
        self.limit, self.p = limit, None

    def start(self):
        import subprocess
        import sys
        if self.p is None or self.p.poll() is not None:
            self.p = subprocess.Popen([sys.executable, "-m", "harness.c25"], stdin=subprocess.PIPE, stdout=subprocess.PIPE,
                                      text=True, bufsize=1)
            # importing fdtdx can take a minute on a busy machine: wait for the child's "ready" line without a case limit
            import select
            r, _, _ = select.select([self.p.stdout], [], [], 900)
            if not r or self.p.stdout.readline().strip() != "ready":
                self.p.kill()
                self.p = None
                raise RuntimeError("BrushConstraint2D worker process did not start")

    def call(self, inp):
        """returns 2-D array | "error" | "timeout" """
        import json
        import select
        self.start()
        self.p.stdin.write(json.dumps({k: inp[k] for k in ("shape", "axis", "diam", "bg", "design")}) + "\n")
        self.p.stdin.flush()
        r, _, _ = select.select([self.p.stdout], [], [], self.limit)
        if not r:
            self.p.kill()
            self.p = None
            return "timeout"
        rep = self.p.stdout.readline().strip()
        if rep in ("error", ""):
            return "error"
        return unbits(rep, tuple(inp["shape"])).astype(np.int64)

    def close(self):
        if self.p is not None and self.p.poll() is None:
            self.p.kill()
        self.p = None


_worker = None


def worker(ctx=None):
    global _worker
    if _worker is None:
        _worker = Worker(240 if (ctx is not None and ctx.thorough) else 120)
    return _worker


def worker_main():
    import json
    import sys
    out = sys.stdout
    sys.stdout = sys.stderr        # keep the reply channel clean
    J()
    out.write("ready\n")
    out.flush()
    for ln in sys.stdin:
        inp = json.loads(ln)
        res = impl_brush(np.asarray(inp["design"], dtype=np.float64).reshape(inp["shape"]), inp["axis"], inp["diam"], inp["bg"])
        if isinstance(res, str) or not np.isin(res, (0, 1)).all():
            out.write("error\n" if isinstance(res, str) else "nonbinary\n")
        else:
            out.write(bits(res != 0) + "\n")
        out.flush()


def impl_brush(design, axis, diam, bg):
    """IN-PROCESS call (used by the worker only). design: 2-D float array; returns 2-D array of the module output, or
    "error" when it raises ValueError"""
    j = J()
    shape3 = list(design.shape)
    shape3.insert(axis, 1)
    f = module(tuple(shape3), axis, diam, bg)
    try:
        out = np.asarray(f(j["jnp"].asarray(np.expand_dims(design, axis), dtype=j["jnp"].float64)))
    except ValueError:
        return "error"
    return np.squeeze(out, axis=axis)


# ------------------------------------------------------------------------------- oracle
def footprints(shape, brush):
    """list of in-domain footprint masks, one per touch position in the domain"""
    h, w = shape
    c = brush.shape[0] // 2
    res = []
    offs = [(a - c, b - c) for a in range(brush.shape[0]) for b in range(brush.shape[1]) if brush[a, b]]
    for i in range(h):
        for jj in range(w):
            m = np.zeros(shape, dtype=bool)
            for (di, dj) in offs:
                if 0 <= i + di < h and 0 <= jj + dj < w:
                    m[i + di, jj + dj] = True
            res.append(m)
    return res


def opening(region, fps):
    out = np.zeros(region.shape, dtype=bool)
    for m in fps:
        if not (m & ~region).any():
            out |= m
    return out


def check_output(out, brush):
    if not np.isin(out, (0, 1)).all():
        return f"output is not binary: values {np.unique(out)[:5].tolist()}"
    solid = out.astype(bool)
    fps = footprints(solid.shape, brush)
    for name, reg in (("solid", solid), ("void", ~solid)):
        op = opening(reg, fps)
        if not np.array_equal(op, reg):
            bad = np.argwhere(op != reg)[0].tolist()
            return (f"{name} region is not a union of in-domain brush footprints contained in it: pixel {bad} is {name} but no "
                    f"brush placement covering it fits (design {solid.shape}, brush {brush.shape[0]}x{brush.shape[0]})")
    return None


# ------------------------------------------------------------------------------- generators
def gen_design(ctx, kind, shape):
    r = np.random.default_rng(ctx.rng.np_seed())
    h, w = shape
    if kind == "noise":
        return r.uniform(-1, 1, size=shape)
    if kind == "blob":
        y, x = np.mgrid[0:h, 0:w]
        a = np.zeros(shape)
        for _ in range(3):
            cy, cx, s = r.uniform(0, h), r.uniform(0, w), r.uniform(1.0, 3.5)
            a += r.uniform(-1, 1) * np.exp(-((y - cy) ** 2 + (x - cx) ** 2) / (2 * s * s))
        return a + 1e-3 * r.uniform(-1, 1, size=shape)
    if kind == "stripes":
        a = -np.ones(shape)
        p = ctx.rng.randint(2, 4)
        if ctx.rng.chance(0.5):
            a[::p, :] = 1.0
        else:
            a[:, ::p] = 1.0
        return a + 1e-3 * r.uniform(-1, 1, size=shape)
    if kind == "ties":
        return r.integers(-2, 3, size=shape).astype(float)
    if kind == "pm1":       # every solid/void comparison is an exact tie
        return r.choice([-1.0, 1.0], size=shape)
    if kind == "const":
        return np.full(shape, ctx.rng.choice([-1.0, 0.0, 0.5]))
    raise ValueError(kind)


def gen_line(design, brush):
    from .common import f2h
    h, w = design.shape
    return f"gen {h} {w} {brush.shape[0]} {bits(brush)} " + " ".join(f2h(x) for x in design.ravel())


def parse_gen(rep, shape):
    t = rep.split()
    if len(t) == 1:
        return {"status": t[0], "iters": 0, "cases": []}
    return {"status": t[0], "iters": int(t[1]), "solid": unbits(t[2], shape), "touchS": unbits(t[3], shape),
            "touchV": unbits(t[4], shape), "good": t[5] == "1", "cases": [int(x) for x in t[6:]]}


def property_fails(inp, model=None):
    """evaluate the property on the real code. If the model predicts that the loop makes no progress the real code is not
    run in-process (it would not return)."""
    if inp.get("op") == "brush":
        return brush_fails(inp["diam"])
    design = np.asarray(inp["design"], dtype=np.float64).reshape(inp["shape"])
    brush = brush_of(inp["diam"])
    if model is not None and model["status"] != "done":
        return (f"BrushConstraint2D does not terminate: the generator loop reaches an iteration that adds no touch "
                f"({model['status']} after {model['iters']} iterations; design {inp['shape']}, brush diameter {inp['diam']})")
    out = worker().call(inp)
    if isinstance(out, str) and out == "timeout":
        return (f"BrushConstraint2D did not return within {worker().limit} s (design {inp['shape']}, brush diameter {inp['diam']}): "
                f"the generator loop does not terminate")
    if isinstance(out, str):
        return None       # convolve2d rejects the shape: not a design the transform accepts
    return check_output(out, brush)


def run(ctx):
    try:
        _run(ctx)
    finally:
        worker(ctx).close()


def _run(ctx):
    j = J()
    # ---- dilate_jax on its own (also asymmetric brushes: the convolution applies the brush point-reflected)
    lines, cases = [], []
    for c in range(ctx.scale(20, 100)):
        r = np.random.default_rng(ctx.rng.np_seed())
        h, w = ctx.rng.randint(3, 8), ctx.rng.randint(3, 8)
        bs = ctx.rng.choice([3, 3, 5])
        if min(h, w) < bs:
            bs = 3
        img = r.random((h, w)) < ctx.rng.choice([0.05, 0.2, 0.5])
        br = r.random((bs, bs)) < 0.5 if c % 2 else brush_of({3: 3, 5: 5}[bs])
        cases.append((img, br))
        lines.append(f"dil {h} {w} {bs} {bits(br)} {bits(img)}")
    for (img, br), rep in zip(cases, ctx.driver.ask_many(lines)):
        got = np.asarray(j["dilate"](j["jnp"].asarray(img), j["jnp"].asarray(br)))
        ctx.case(nontrivial=("dil", bits(img), bits(br)), op="dilate", brush=br.shape[0])
        ctx.expect_equal("dilate", {"img": bits(img), "brush": bits(br), "shape": list(img.shape)}, bits(got), rep)
    # ---- circular_brush itself: integer and NON-INTEGER diameters (the odd-size rounding only matters for the latter)
    diams = [1, 2, 2.5, 3, 3.5, 4, 4.2, 4.5, 5, 5.5, 6.5, 7, 7.5] + ([1.5, 8.5, 9, 9.5, 3.25, 5.75, 6, 8] if ctx.thorough else [])
    reps = ctx.driver.ask_many([f"brush {frac(x).numerator} {frac(x).denominator}" for x in diams])
    for x, rep in zip(diams, reps):
        b = impl_brush_array(x)
        ctx.case(nontrivial=("brush", x), op="circular_brush", diam=x)
        ctx.expect_equal("circular_brush", {"op": "brush", "diam": x}, f"{b.shape[0]} {bits(b)}", rep)
        ctx.impl_property_evals += 1
        d = brush_fails(x)
        if d:
            ctx.violation({"op": "brush", "diam": x}, d)
    # ---- the generator
    hi = ctx.scale(10, 14)
    confs = []
    shapes = [(3, 3), (4, 6), (7, 7), (6, 9), (hi, hi)] + ([(12, 9), (14, 14), (5, 13)] if ctx.thorough else [])
    for si, shape in enumerate(shapes):
        for diam in ([3, 5, 7] if si >= 2 else [3, 5]):
            if diam == 7 and min(shape) < 7 and not ctx.thorough:
                continue
            confs.append((shape, diam, (si + len(confs) + ctx.seed) % 3, [None, "Si"][(si + len(confs)) % 2]))
    confs += [((5, 5), 4.2, 2, None), ((4, 4), 1, 1, "Si")]
    # non-integer diameters whose ceiling is even (3.5, 5.5: size must be rounded UP to odd) and odd (2.5, 4.5), always
    confs += [((7, 8), 3.5, (ctx.seed + 1) % 3, None), ((8, 8), 5.5, ctx.seed % 3, "Si"), ((6, 6), 2.5, 2, "Si"), ((7, 6), 4.5, 0, None)]
    # strongly elongated designs, both orientations (seed C25i: an iteration bound derived from one side length only
    # cuts the generator short when the other side is much longer)
    confs += [((3, 64), 3, ctx.seed % 3, None), ((64, 3), 3, (ctx.seed + 1) % 3, "Si"), ((4, 72), 3, (ctx.seed + 2) % 3, None)]
    kinds = ["noise", "blob", "stripes", "ties", "pm1", "const"] + (["noise", "blob", "blob", "pm1"] if ctx.thorough else [])
    todo = []
    for (shape, diam, axis, bg) in confs:
        for kind in kinds:
            design = gen_design(ctx, kind, shape)
            todo.append({"shape": list(shape), "diam": diam, "axis": axis, "bg": bg, "kind": kind, "design": design.ravel().tolist()})
    reps = ctx.driver.ask_many([gen_line((-1 if t["bg"] == "Si" else 1) * np.asarray(t["design"]).reshape(t["shape"]), brush_of(t["diam"]))
                                for t in todo])
    for inp, rep in zip(todo, reps):
        m = parse_gen(rep, tuple(inp["shape"]))
        used = sorted(set(m["cases"]))
        ctx.case(sample={k: inp[k] for k in ("shape", "diam", "axis", "bg", "kind")} | {"iters": m["iters"], "cases": m["cases"][:20]}
                 if inp["kind"] == "blob" and inp["diam"] == 5 else None,
                 nontrivial=("gen", bits(m["solid"]), inp["diam"]) if (2 in used or 3 in used) and "solid" in m else None,
                 op="generator", diam=inp["diam"], kind=inp["kind"], axis=inp["axis"], background=str(inp["bg"]),
                 status=m["status"], good=m.get("good"), cases_used="".join(map(str, used)), iters_bucket=min(m["iters"] // 10 * 10, 100))
        if m["status"] in ("error", "unsupported"):
            out = worker(ctx).call(inp)
            if m["status"] == "error":
                ctx.expect_equal("generator-error", inp, out if isinstance(out, str) else "ok", "error")
            continue
        if not m["good"]:
            # the hypothesis GoodChoices of the theorems fails on this run (an invalid touch was selected in case 3):
            # recorded; the property itself is still evaluated below on the real output
            ctx.extra["runs_with_invalid_touch"] = ctx.extra.get("runs_with_invalid_touch", 0) + 1
        if m["status"] != "done":
            # hypothesis Progress fails on the model: the real loop would spin; report instead of hanging
            ctx.violation(inp, property_fails(inp, m), signature="brush:no-progress")
            continue
        if ctx.extra.get("nonterminating_runs"):
            continue          # one run that does not return is enough; every further one would cost the full time limit
        out = worker(ctx).call(inp)
        if isinstance(out, str):
            if out == "timeout":
                ctx.extra["nonterminating_runs"] = 1
                ctx.violation(inp, f"BrushConstraint2D did not return within {worker(ctx).limit} s although the model's loop ends after "
                                   f"{m['iters']} iterations (design {inp['shape']}, brush diameter {inp['diam']}): the generator loop does not terminate")
            else:
                ctx.mismatch("generator", inp, {"impl": out, "model": "done"})
            continue
        want = m["solid"] if inp["bg"] is None else ~m["solid"]
        ctx.expect_equal("generator", inp, bits(out != 0), bits(want))
        ctx.impl_property_evals += 1
        d = check_output(out, brush_of(inp["diam"]))
        if d:
            ctx.violation(inp, d)


# ------------------------------------------------------------------------------------------- S
def model_of(ctx, inp):
    design = (-1 if inp["bg"] == "Si" else 1) * np.asarray(inp["design"], dtype=np.float64).reshape(inp["shape"])
    return parse_gen(ctx.driver.ask_many([gen_line(design, brush_of(inp["diam"]))])[0], tuple(inp["shape"]))


def search(ctx, hints):
    cands = [h for h in hints if isinstance(h, dict) and ("design" in h or h.get("op") == "brush")]
    cands += [{"op": "brush", "diam": x} for x in (1, 2.5, 3, 3.5, 4.5, 5, 5.5, 7, 7.5)]
    for shape in [(3, 3), (4, 4), (5, 5), (6, 6), (7, 7), (8, 8)]:
        for diam in (3, 5):
            for kind in ("noise", "blob", "stripes", "ties", "noise", "blob"):
                design = gen_design(ctx, kind, shape)
                cands.append({"shape": list(shape), "diam": diam, "axis": 2, "bg": None, "kind": kind, "design": design.ravel().tolist()})
    try:
        for c in cands:
            if c.get("op") == "brush":
                ctx.impl_property_evals += 1
                d = brush_fails(c["diam"])
                if d:
                    ctx.violation(c, d)
                    return
                continue
            m = model_of(ctx, c)
            if m["status"] in ("unsupported", "error"):
                continue
            ctx.impl_property_evals += 1
            d = property_fails(c, m if m["status"] in ("stuck", "fuel") else None)
            if d:
                ctx.violation(c, d, signature="brush:no-progress" if m["status"] in ("stuck", "fuel") else None)
                return
    finally:
        worker().close()


def replay(ctx, inp):
    if inp.get("op") == "brush":
        return brush_fails(inp["diam"])
    m = model_of(ctx, inp)
    if m["status"] in ("unsupported", "error"):
        return None
    try:
        return property_fails(inp, m if m["status"] in ("stuck", "fuel") else None)
    finally:
        worker().close()


if __name__ == "__main__":
    worker_main()
