"""C43 — voxel masks of Sphere / Cylinder / ExtrudedPolygon vs lean/FdtdxModel/C43.lean"""
import numpy as np

RULE = ("K: (A) objects placed with place_on_grid on random index boxes of generated grids (4..9 cells per axis; integer, "
        "dyadic, equal-width arange, graded and random non-uniform edges; scales 1, 1e-7): Sphere with 1..3 distinct radii "
        "(random, larger than the box, tiny, and EXACT cases whose cell centres lie exactly on the surface, plus the next "
        "binary64 radius above), Cylinder for each axis (same radius classes), ExtrudedPolygon for each axis (triangles, "
        "rectangles, L-shapes, random star polygons, scaled to the box); mask from get_voxel_mask_for_shape compared "
        "bit-exactly with the model; (B) the legacy branch without a resolved grid (config.grid = UniformGrid) against "
        "the resolved branch; (C) end-to-end place_objects (uniform policy and explicit non-uniform grid): mask of the "
        "placed object and the painted inverse-permittivity array. Every mask is also judged by an independent numpy "
        "oracle of the property: cell centre (from the grid edges, absolute coordinates) strictly inside the analytic shape "
        "centred on the object's box (ellipsoid / cylinder equation; even-odd crossing rule for polygons); cells closer "
        "than 1e-9 (relative) to the surface are judged only in the EXACT cases. non-trivial = non-uniform grid, on-surface "
        "cell, empty or full mask, legacy branch.")

_J = None


def J():
    global _J
    if _J is None:
        import warnings
        warnings.filterwarnings("ignore")
        import jax
        jax.config.update("jax_enable_x64", True)
        import jax.numpy as jnp
        import fdtdx
        from fdtdx.core.grid import RectilinearGrid, UniformGrid
        mats = {"air": fdtdx.Material(permittivity=1.0), "si": fdtdx.Material(permittivity=4.0)}
        _J = dict(jax=jax, jnp=jnp, fdtdx=fdtdx, RG=RectilinearGrid, UG=UniformGrid, mats=mats, key=jax.random.PRNGKey(0))
    return _J


# --------------------------------------------------------------------------------------- grids
def gen_axis(rng, n, kind, scale):
    if kind == "int":
        h = rng.choice([1.0, 2.0])
        e = [h * i for i in range(n + 1)]
    elif kind == "intnu":
        e = [0.0]
        for _ in range(n):
            e.append(e[-1] + rng.randint(1, 3))
    elif kind == "dyadic":
        e = [rng.randint(-8, 8) / 4.0]
        for _ in range(n):
            e.append(e[-1] + rng.randint(1, 6) / 4.0)
    elif kind == "arange":
        h = rng.choice([0.1, 0.37, 2.5e-2])
        e = [float(x) for x in (-n * h / 2.0 + h * np.arange(n + 1))]
    elif kind == "graded":
        q = rng.choice([1.15, 0.85, 1.4])
        w = rng.uniform(0.3, 1.0)
        e = [rng.uniform(-1, 1)]
        for _ in range(n):
            e.append(e[-1] + w)
            w *= q
    else:
        e = [0.0]
        for _ in range(n):
            e.append(e[-1] + rng.uniform(0.3, 1.7))
    return [float(x) * scale for x in e]


def gen_grid(rng, exact=False):
    scale = 1.0 if exact else rng.choice([1.0, 1.0, 1e-7])
    kinds = [rng.choice(["int", "intnu", "dyadic"] if exact else ["int", "intnu", "dyadic", "arange", "graded", "random"])
             for _ in range(3)]
    axes = [gen_axis(rng, rng.randint(4, 9), k, scale) for k in kinds]
    return axes, kinds, scale


def gen_box(rng, axes, odd=False):
    box = []
    for e in axes:
        n = len(e) - 1
        size = rng.randint(1, n)
        if odd and size % 2 == 0:
            size -= 1
        lo = rng.randint(0, n - size)
        box.append([lo, lo + size])
    return box


def offsets(e, lo, up):
    """absolute cell centres minus box centre"""
    xc = 0.5 * (e[lo] + e[up])
    return [0.5 * (e[i] + e[i + 1]) - xc for i in range(lo, up)]


def gen_radius(rng, e, lo, up, cls):
    ext = e[up] - e[lo]
    # exactly-on-surface cases use power-of-two radii only: XLA evaluates x / r as x * (1/r), which is exact for those
    off = [abs(x) for x in offsets(e, lo, up) if x != 0.0 and float(np.log2(abs(x))).is_integer()]
    if cls == "exact" and off:
        return rng.choice(off)
    if cls == "exact+" and off:
        return float(np.nextafter(rng.choice(off), np.inf))
    if cls == "big":
        return ext * rng.uniform(0.8, 2.0)
    if cls == "tiny":
        return ext * rng.uniform(0.01, 0.08)
    return ext * rng.uniform(0.2, 0.6)


def gen_polygon(rng, wh, hv):
    """vertices centred on the origin (bounding-box centre), bounding box about wh x hv"""
    kind = rng.choice(["tri", "rect", "L", "star", "star"])
    if kind == "tri":
        v = [[-1, -1], [1, -1], [rng.uniform(-1, 1), 1]]
    elif kind == "rect":
        v = [[-1, -1], [1, -1], [1, 1], [-1, 1]]
    elif kind == "L":
        a, b = rng.uniform(-0.6, 0.6), rng.uniform(-0.6, 0.6)
        v = [[-1, -1], [1, -1], [1, b], [a, b], [a, 1], [-1, 1]]
    else:
        m = rng.randint(5, 9)
        ang = sorted(rng.uniform(0, 2 * np.pi) for _ in range(m))
        v = [[np.cos(t) * r, np.sin(t) * r] for t, r in ((t, rng.uniform(0.35, 1.0)) for t in ang)]
    v = np.asarray(v, dtype=float)
    v -= 0.5 * (v.min(axis=0) + v.max(axis=0))
    ext = v.max(axis=0) - v.min(axis=0)
    f = rng.uniform(0.5, 1.1)
    v = v / ext * np.asarray([wh, hv]) * f
    return [[float(a), float(b)] for a, b in v]


# ------------------------------------------------------------------------------ implementation
def make_config(axes, legacy_h=None):
    j = J()
    jnp = j["jnp"]
    if legacy_h is not None:
        grid = j["UG"](spacing=legacy_h)
    else:
        grid = j["RG"](x_edges=jnp.asarray(axes[0], dtype=jnp.float64), y_edges=jnp.asarray(axes[1], dtype=jnp.float64),
                       z_edges=jnp.asarray(axes[2], dtype=jnp.float64))
    return j["fdtdx"].SimulationConfig(time=1e-12, grid=grid, backend="cpu", dtype=jnp.float64)


def make_object(case):
    j = J()
    fd = j["fdtdx"]
    sh = case["shape"]
    if sh == "ell":
        r = case["r"]
        kw = {}
        if case.get("form", "xyz") == "xyz":
            kw = dict(radius_x=r[0], radius_y=r[1], radius_z=r[2])
            base = r[0] * 7.0            # the default radius must then be ignored
        elif case["form"] == "sphere":
            base = r[0]
        else:                            # only one axis overridden
            base = r[0]
            kw = dict(radius_z=r[2])
        return fd.Sphere(name="obj", radius=base, material_name="si", materials=j["mats"], **kw)
    if sh == "cyl":
        return fd.Cylinder(name="obj", radius=case["r"], axis=case["axis"], material_name="si", materials=j["mats"])
    if sh == "poly":
        return fd.ExtrudedPolygon(name="obj", axis=case["axis"], vertices=np.asarray(case["verts"], dtype=float),
                                  material_name="si", materials=j["mats"])
    raise ValueError(sh)


def impl_mask(case, legacy_h=None):
    """mask of the placed object; a string when placing / rasterising a valid object raises"""
    try:
        cfg = make_config(case["axes"], legacy_h)
        obj = make_object(case)
        placed = obj.place_on_grid(grid_slice_tuple=tuple(tuple(b) for b in case["box"]), config=cfg, key=J()["key"])
        return np.asarray(placed.get_voxel_mask_for_shape())
    except Exception as ex:  # noqa: BLE001
        return f"raised {type(ex).__name__}: {str(ex)[:120]}"


# ----------------------------------------------------------------------------------- model side
def model_line(case):
    from .common import f2h, fs2h
    axes, box = case["axes"], case["box"]
    if case["shape"] == "ell":
        r = case["r"]
        b = " ".join(f"{lo} {up}" for lo, up in box)
        return (f"ell {f2h(r[0])} {f2h(r[1])} {f2h(r[2])} {b} {len(axes[0])} {len(axes[1])} "
                f"{fs2h(axes[0])} {fs2h(axes[1])} {fs2h(axes[2])}")
    th, tv = [a for a in range(3) if a != case["axis"]]
    if case["shape"] == "cyl":
        return (f"cyl {f2h(case['r'])} {box[th][0]} {box[th][1]} {box[tv][0]} {box[tv][1]} {len(axes[th])} "
                f"{fs2h(axes[th])} {fs2h(axes[tv])}")
    v = " ".join(f"{f2h(a)} {f2h(b)}" for a, b in case["verts"])
    return (f"poly {len(case['verts'])} {box[th][0]} {box[th][1]} {box[tv][0]} {box[tv][1]} {len(axes[th])} {v} "
            f"{fs2h(axes[th])} {fs2h(axes[tv])}")


def model_mask(case, rep):
    box = case["box"]
    n = [up - lo for lo, up in box]
    bits = np.asarray([c == "1" for c in rep], dtype=bool)
    if case["shape"] == "ell":
        return bits.reshape(n)
    th, tv = [a for a in range(3) if a != case["axis"]]
    m2 = bits.reshape((n[th], n[tv]))
    if case["shape"] == "cyl":
        return np.expand_dims(m2, case["axis"])
    return np.repeat(np.expand_dims(m2, case["axis"]), n[case["axis"]], axis=case["axis"])


# ----------------------------------------------------- independent oracle of the property statement
def crossing_inside(verts, px, py):
    """even-odd rule, vectorised over points; also returns the distance to the polygon boundary"""
    v = np.asarray(verts, dtype=float)
    w = np.roll(v, -1, axis=0)
    inside = np.zeros(px.shape, dtype=bool)
    dist = np.full(px.shape, np.inf)
    for (x1, y1), (x2, y2) in zip(v, w):
        cond = (y1 > py) != (y2 > py)
        with np.errstate(divide="ignore", invalid="ignore"):
            xi = (x2 - x1) * (py - y1) / (y2 - y1) + x1
        inside ^= cond & (px < xi)
        dx, dy = x2 - x1, y2 - y1
        L2 = dx * dx + dy * dy
        t = np.clip(((px - x1) * dx + (py - y1) * dy) / L2, 0, 1) if L2 > 0 else np.zeros(px.shape)
        dist = np.minimum(dist, np.hypot(px - (x1 + t * dx), py - (y1 + t * dy)))
    return inside, dist


def oracle(case, mask):
    """None if `mask` marks exactly the cells whose centre lies strictly inside the analytic shape"""
    if isinstance(mask, str):
        return "no mask for a valid object: " + mask
    axes, box = case["axes"], case["box"]
    n = [up - lo for lo, up in box]
    off = [np.asarray(offsets(axes[a], box[a][0], box[a][1])) for a in range(3)]
    exact = case.get("exact", False)
    if case["shape"] == "ell":
        r = case["r"]
        if list(mask.shape) != n:
            return f"mask shape {mask.shape} != box {n}"
        q = (((off[0] / r[0]) ** 2)[:, None, None] + ((off[1] / r[1]) ** 2)[None, :, None]
             + ((off[2] / r[2]) ** 2)[None, None, :])
        full = mask
    else:
        ax = case["axis"]
        th, tv = [a for a in range(3) if a != ax]
        want = list(n)
        if case["shape"] == "cyl":
            want[ax] = 1
        if list(mask.shape) != want:
            return f"mask shape {mask.shape} != {want}"
        if not np.all(mask == np.take(mask, [0], axis=ax)):
            return "mask varies along the extrusion axis"
        full = np.take(mask, 0, axis=ax)
        if case["shape"] == "cyl":
            q = ((off[th] / case["r"]) ** 2)[:, None] + ((off[tv] / case["r"]) ** 2)[None, :]
        else:
            PX, PY = np.meshgrid(off[th], off[tv], indexing="ij")
            inside, dist = crossing_inside(case["verts"], PX, PY)
            sc = max(axes[th][-1] - axes[th][0], axes[tv][-1] - axes[tv][0])
            sure = dist > 1e-9 * sc
            bad = np.argwhere(sure & (inside != full))
            if len(bad):
                i, j = bad[0]
                return (f"polygon cell {tuple(int(x) for x in bad[0])}: centre offset ({PX[i, j]!r}, {PY[i, j]!r}) is "
                        f"{'inside' if inside[i, j] else 'outside'} the polygon but mask = {bool(full[i, j])}")
            return None
    inside = q < 1.0
    sure = np.ones(q.shape, dtype=bool) if (exact and pow2_radii(case)) else np.abs(q - 1.0) > 1e-9
    bad = np.argwhere(sure & (inside != full))
    if len(bad):
        idx = tuple(int(x) for x in bad[0])
        return (f"{case['shape']} cell {idx}: normalised squared distance of the cell centre = {float(q[idx])!r}, "
                f"strictly inside = {bool(inside[idx])}, mask = {bool(full[idx])}")
    return None


# ------------------------------------------------------------------------------------------- cases
def gen_cases(rng, n_grids, per_grid=1):
    cases = []
    for g in range(n_grids):
        exact = g % 3 == 0
        axes, kinds, scale = gen_grid(rng, exact)
        nonuni = any(k in ("intnu", "dyadic", "graded", "random") for k in kinds)
        for _ in range(per_grid):
            base = {"axes": axes, "kinds": kinds, "nonuniform": nonuni}
            # ellipsoid
            box = gen_box(rng, axes, odd=exact)
            cls = [rng.choice(["exact", "exact+", "mid"] if exact else ["mid", "mid", "big", "tiny"]) for _ in range(3)]
            r = [gen_radius(rng, axes[a], box[a][0], box[a][1], cls[a]) for a in range(3)]
            form = rng.choice(["xyz", "xyz", "sphere", "z"])
            if form == "sphere":
                r = [r[0]] * 3
            elif form == "z":
                r = [r[0], r[0], r[2]]
            cases.append(dict(base, shape="ell", box=box, r=r, form=form, exact=exact, cls="/".join(cls)))
            # cylinder
            ax = rng.randint(0, 2)
            box = gen_box(rng, axes, odd=exact)
            th = [a for a in range(3) if a != ax][rng.randint(0, 1)]
            c = rng.choice(["exact", "exact+", "mid"] if exact else ["mid", "mid", "big", "tiny"])
            cases.append(dict(base, shape="cyl", axis=ax, box=box, exact=exact, cls=c,
                              r=gen_radius(rng, axes[th], box[th][0], box[th][1], c)))
            # polygon
            ax = rng.randint(0, 2)
            box = gen_box(rng, axes)
            th, tv = [a for a in range(3) if a != ax]
            verts = gen_polygon(rng, axes[th][box[th][1]] - axes[th][box[th][0]], axes[tv][box[tv][1]] - axes[tv][box[tv][0]])
            cases.append(dict(base, shape="poly", axis=ax, box=box, verts=verts, exact=False, cls="poly"))
    return cases


def fixed_cases():
    e = [float(i) for i in range(9)]
    axes = [e, e, e]
    base = {"axes": axes, "kinds": ["int"] * 3, "nonuniform": False, "exact": True}
    out = []
    for r0 in (2.0, float(np.nextafter(2.0, np.inf)), float(np.nextafter(2.0, -np.inf))):
        out.append(dict(base, shape="ell", box=[[1, 6], [2, 7], [0, 5]], r=[r0, 4.0, 8.0], form="xyz", cls="fixed"))
        out.append(dict(base, shape="ell", box=[[1, 6], [2, 7], [0, 5]], r=[r0, r0, r0], form="sphere", cls="fixed"))
        for ax in range(3):
            out.append(dict(base, shape="cyl", axis=ax, box=[[1, 6], [2, 7], [0, 5]], r=r0, cls="fixed"))
    nu = [0.0, 1.0, 3.0, 4.0, 8.0, 9.0, 11.0]
    base2 = {"axes": [nu, e, nu], "kinds": ["intnu", "int", "intnu"], "nonuniform": True, "exact": True}
    # box [0,4] on nu: centres .5, 2, 3.5, 6 ; box centre 4 -> offsets -3.5, -2, -.5, 2 (on-surface for r = 2 and 0.5)
    for r0 in (2.0, 0.5, float(np.nextafter(2.0, np.inf))):
        out.append(dict(base2, shape="ell", box=[[0, 4], [2, 5], [1, 2]], r=[r0, 2.0, 1.0], form="xyz", cls="fixed"))
        out.append(dict(base2, shape="cyl", axis=2, box=[[0, 4], [2, 5], [0, 3]], r=r0, cls="fixed"))
    return out


def nontrivial(case, mask, on_surface):
    tags = []
    if case["nonuniform"]:
        tags.append("nonuniform")
    if on_surface:
        tags.append("on-surface")
    if not mask.any():
        tags.append("empty")
    if mask.all():
        tags.append("full")
    return (case["shape"], tuple(tags), case.get("axis"), case["cls"]) if tags else None


def surface_cells(case):
    if case["shape"] == "poly" or not case.get("exact"):
        return 0
    axes, box = case["axes"], case["box"]
    off = [np.asarray(offsets(axes[a], box[a][0], box[a][1])) for a in range(3)]
    if case["shape"] == "ell":
        r = case["r"]
        q = (((off[0] / r[0]) ** 2)[:, None, None] + ((off[1] / r[1]) ** 2)[None, :, None]
             + ((off[2] / r[2]) ** 2)[None, None, :])
    else:
        th, tv = [a for a in range(3) if a != case["axis"]]
        q = ((off[th] / case["r"]) ** 2)[:, None] + ((off[tv] / case["r"]) ** 2)[None, :]
    return int(np.sum(q == 1.0))


def norm_q(case):
    """normalised squared distance per cell (ell: 3-D, cyl: 2-D), None for polygons"""
    if case["shape"] == "poly":
        return None
    axes, box = case["axes"], case["box"]
    off = [np.asarray(offsets(axes[a], box[a][0], box[a][1])) for a in range(3)]
    if case["shape"] == "ell":
        r = case["r"]
        return (((off[0] / r[0]) ** 2)[:, None, None] + ((off[1] / r[1]) ** 2)[None, :, None]
                + ((off[2] / r[2]) ** 2)[None, None, :])
    th, tv = [a for a in range(3) if a != case["axis"]]
    return np.expand_dims(((off[th] / case["r"]) ** 2)[:, None] + ((off[tv] / case["r"]) ** 2)[None, :], case["axis"])


def compare_masks(ctx, op, case, mm, mask):
    """model vs implementation, bit-exact except cells within 1e-12 of the surface for radii that are not powers of two
    (there XLA's x * (1/r) and the model's x / r may round to different sides of 1)"""
    if mm.shape != mask.shape:
        ctx.mismatch(op, case, {"model_shape": list(mm.shape), "impl_shape": list(mask.shape)})
        return
    diff = mm != mask
    q = norm_q(case)
    if q is not None and not pow2_radii(case):
        diff &= np.abs(np.broadcast_to(q, diff.shape) - 1.0) > 1e-12
    if diff.any():
        ctx.mismatch(op, case, {"differing_cells": np.argwhere(diff)[:4].tolist()})


def pow2_radii(case):
    rs = case["r"] if isinstance(case["r"], list) else [case["r"]]
    return all(float(np.log2(r)).is_integer() for r in rs)


def judge(ctx, case, mask):
    ctx.impl_property_evals += 1
    d = oracle(case, mask)
    if d:
        ctx.violation({k: v for k, v in case.items()}, d)
    return d


# --------------------------------------------------------------------------------- end-to-end
def end_to_end(ctx, k):
    """place_objects with constraints: mask of the placed object + painted inverse permittivity"""
    j = J()
    fd, jnp = j["fdtdx"], j["jnp"]
    rng = ctx.rng
    shape_kind = ["ell", "cyl", "poly"][k % 3]
    nonuni = k % 2 == 1
    n = [rng.randint(6, 9) for _ in range(3)]
    h = rng.choice([1.0, 5e-8])
    if nonuni:
        axes = [gen_axis(rng, n[a], rng.choice(["graded", "random", "dyadic"]), h) for a in range(3)]
        grid = j["RG"](x_edges=jnp.asarray(axes[0]), y_edges=jnp.asarray(axes[1]), z_edges=jnp.asarray(axes[2]))
    else:
        grid = j["UG"](spacing=h)
    cfg = fd.SimulationConfig(time=1e-15, grid=grid, backend="cpu", dtype=jnp.float64)
    vol = fd.SimulationVolume(partial_grid_shape=tuple(n))
    ax = rng.randint(0, 2)
    ext = [(axes[a][-1] - axes[a][0]) if nonuni else n[a] * h for a in range(3)]
    if shape_kind == "ell":
        r = [ext[a] * rng.uniform(0.15, 0.35) for a in range(3)]
        case = {"shape": "ell", "r": r, "form": "xyz"}
    elif shape_kind == "cyl":
        th = [a for a in range(3) if a != ax]
        case = {"shape": "cyl", "axis": ax, "r": min(ext[th[0]], ext[th[1]]) * rng.uniform(0.15, 0.35)}
    else:
        th, tv = [a for a in range(3) if a != ax]
        case = {"shape": "poly", "axis": ax, "verts": gen_polygon(rng, 0.6 * ext[th], 0.6 * ext[tv])}
    obj = make_object(case)
    cons = [obj.place_at_center(vol)]
    if shape_kind != "ell":
        cons.append(obj.same_size(vol, axes=(ax,)))
    objs, arrays, params, cfg2, _ = fd.place_objects(object_list=[vol, obj], config=cfg, constraints=cons, key=j["key"])
    placed = [o for o in objs.objects if o.name == "obj"][0]
    axes2 = [[float(x) for x in np.asarray(cfg2.grid.edges(a))] for a in range(3)]
    case.update(axes=axes2, box=[list(b) for b in placed.grid_slice_tuple], kinds=["placed"] * 3, nonuniform=nonuni,
                exact=False, cls="e2e")
    mask = np.asarray(placed.get_voxel_mask_for_shape())
    ip = np.asarray(arrays.inv_permittivities)[0]
    sl = tuple(slice(lo, up) for lo, up in case["box"])
    painted = np.zeros(ip.shape, dtype=bool)
    painted[sl] = np.broadcast_to(mask, tuple(up - lo for lo, up in case["box"]))
    arr_ok = np.array_equal(np.abs(ip - 0.25) < 1e-12, painted) and np.all(np.abs(ip[~painted] - 1.0) < 1e-12)
    return case, mask, arr_ok


# ------------------------------------------------------------------------------------------- K
def run(ctx):
    cases = fixed_cases() + gen_cases(ctx.rng, ctx.scale(14, 150))
    reps = ctx.driver.ask_many([model_line(c) for c in cases])
    for i, (case, rep) in enumerate(zip(cases, reps)):
        mask = impl_mask(case)
        if isinstance(mask, str):
            ctx.case(nontrivial=("raised", case["shape"]), shape=case["shape"], cls="raised")
            ctx.mismatch(case["shape"], case, mask)
            judge(ctx, case, mask)
            continue
        ns = surface_cells(case)
        ctx.case(sample={"case": {k: v for k, v in case.items() if k != "axes"}, "cells_in_mask": int(mask.sum()),
                         "on_surface": ns} if i in (0, 30, 45) else None,
                 nontrivial=nontrivial(case, mask, ns), shape=case["shape"], cls=case["cls"].split("/")[0],
                 grid="nonuniform" if case["nonuniform"] else "uniform", on_surface=min(ns, 3))
        if not set(rep) <= {"0", "1"}:
            ctx.mismatch(case["shape"], case, {"model": rep[:80]})
        else:
            compare_masks(ctx, case["shape"], case, model_mask(case, rep), mask)
        judge(ctx, case, mask)
    # (B) legacy branch (no resolved grid): equal-width boxes only
    for i in range(ctx.scale(6, 40)):
        h = ctx.rng.choice([1.0, 0.5, 0.37, 2.5e-8])
        n = [ctx.rng.randint(4, 8) for _ in range(3)]
        axes = [[float(x) for x in h * np.arange(m + 1)] for m in n]
        box = gen_box(ctx.rng, axes)
        kind = ["ell", "cyl", "poly"][i % 3]
        ax = ctx.rng.randint(0, 2)
        case = {"axes": axes, "box": box, "kinds": ["legacy"] * 3, "nonuniform": False, "exact": False, "cls": "legacy",
                "shape": kind, "axis": ax}
        if kind == "ell":
            case.update(r=[gen_radius(ctx.rng, axes[a], box[a][0], box[a][1], "mid") for a in range(3)], form="xyz")
        elif kind == "cyl":
            th = [a for a in range(3) if a != ax][0]
            case.update(r=gen_radius(ctx.rng, axes[th], box[th][0], box[th][1], "mid"))
        else:
            th, tv = [a for a in range(3) if a != ax]
            case.update(verts=gen_polygon(ctx.rng, h * (box[th][1] - box[th][0]), h * (box[tv][1] - box[tv][0])))
        m_legacy = impl_mask(case, legacy_h=h)
        m_res = impl_mask(case)
        ctx.case(nontrivial=("legacy", kind, i), shape=kind, cls="legacy", grid="legacy")
        ctx.expect_equal("legacy-vs-resolved", case, m_legacy if isinstance(m_legacy, str) else m_legacy.astype(int).tolist(),
                         m_res if isinstance(m_res, str) else m_res.astype(int).tolist())
        judge(ctx, case, m_legacy)
    # (C) end to end
    for k in range(ctx.scale(3, 18)):
        case, mask, arr_ok = end_to_end(ctx, k)
        ctx.case(sample={"e2e": {kk: v for kk, v in case.items() if kk != "axes"}, "cells": int(mask.sum())} if k == 0 else None,
                 nontrivial=("e2e", case["shape"], case["nonuniform"], k), shape=case["shape"], cls="e2e",
                 grid="nonuniform" if case["nonuniform"] else "uniform")
        rep = ctx.driver.ask_many([model_line(case)])[0]
        compare_masks(ctx, "e2e-" + case["shape"], case, model_mask(case, rep), mask)
        judge(ctx, case, mask)
        if not arr_ok:
            ctx.violation(case, "the painted inverse-permittivity array does not follow the object's voxel mask")


# ------------------------------------------------------------------------------------------- S
def search(ctx, hints):
    for h in hints:
        if isinstance(h, dict) and "shape" in h and "box" in h:
            d = oracle(h, impl_mask(h))
            ctx.impl_property_evals += 1
            if d:
                ctx.violation(h, d)
                return
    for case in fixed_cases() + gen_cases(ctx.rng.fork(), ctx.scale(60, 300)):
        ctx.impl_property_evals += 1
        d = oracle(case, impl_mask(case))
        if d:
            ctx.violation(case, d)
            return


def replay(ctx, inp):
    return oracle(inp, impl_mask(inp))
