"""C04 — time-reversal gradients (fdtdx.fdtd.fdtd.reversible_fdtd custom VJP) vs lean/FdtdxModel/C04.lean"""
import numpy as np

RULE = ("K: (a) _reversible_slice_boundaries for every T<=Tb, 1<=k<=max(T,1) compared exactly with the model's sliceBoundaries; "
        "(b) the REAL reversible_fdtd loop (fdtd_fwd/segmented_forward/fdtd_bwd/cond_fun/body_fn/reverse_body, reached through "
        "jax.grad of fdtdx.run_fdtd) executed with a toy 1-D leapfrog step patched in for forward/backward/"
        "forward_single_args_wrapper (module attribute replacement, no source change): the sequence of (backward entered at t, "
        "step-VJP taken at t) events logged by ordered jax.debug.callbacks is compared exactly with the model's reverse loop, "
        "and the gradient (binary64) with the model's gradReversible on the same toy system to 1e-9, for T<=12, every number of "
        "slices k (quick: all k for T<=3 plus a sample), n in 2..4 cells, random parameters/cotangents, reverse steps that are "
        "exact inverses (dlt=0) and deliberately inexact ones (dlt>0, so the time and order of every checkpoint reset is "
        "observable); non-trivial = k>=2 or dlt>0. (c) the property itself on the real solver: jax.grad of a random "
        "linear+quadratic functional of FieldDetector records w.r.t. inv_permittivities (and inv_permeabilities) under "
        "GradientConfig(method='reversible', k-1 checkpoints) vs method='checkpointed', relative difference <= 1e-9 (float64) at "
        "cells outside PML, on tiny scenes (periodic / PML / PEC faces, plane source with GaussianPulse or CustomTimeSignal "
        "profile that is non-zero at t<0, electric/magnetic dipole, random material arrays, one conductive scene with a checkpoint "
        "at every step; every quick run contains a plane source (injects into H) with a pulse profile and a late-start OnOffSwitch "
        "(on after ~40 % of the run) and an electric dipole with a late-start switch, and rotates with the seed through switch "
        "kinds {interval 2, fixed on-steps not starting at 0, late start + interval} x H-injecting source kinds {plane, magnetic "
        "dipole}; thorough: the full grid switch kind x {plane, magnetic dipole, electric dipole}); every quick run contains one scene with a "
        "lossless FULL 9-component symmetric positive definite inverse-permittivity tensor (all off-diagonals non-zero, random per "
        "cell) and the gradient taken w.r.t. the 9-component array; thorough/search rotate which off-diagonal pairs are non-zero "
        "(full, xy, xz, yz) and add full inverse-permeability tensors; every quick run contains a TILTED MAGNETIC dipole (non-zero azimuth and elevation, "
        "signs rotating) and rotates over the plane-source classes (Uniform, Gaussian, box Region; Mode in thorough), directions "
        "+/-, tilted / untilted plane sources, dipole polarisation axes and tilted electric dipoles, so every `inverse` branch of "
        "every source kind is exercised; thorough/search run the whole source grid, with the real backward/forward_single_args_wrapper traced and their schedule compared with the model. "
        "Independent oracles: toy gradient vs plain autodiff through a Python loop (dlt=0), reversible vs checkpointed gradient.")

TOL = 1e-9
_j = None
LOG = []


def J():
    global _j
    if _j is None:
        import jax
        jax.config.update("jax_enable_x64", True)
        import jax.numpy as jnp
        import fdtdx
        import fdtdx.fdtd.fdtd as FD
        from fdtdx.config import GradientConfig, SimulationConfig
        from fdtdx.core.grid import UniformGrid
        from fdtdx.fdtd.container import ArrayContainer, FieldState
        _j = dict(jax=jax, jnp=jnp, fdtdx=fdtdx, FD=FD, GradientConfig=GradientConfig, SimulationConfig=SimulationConfig,
                  UniformGrid=UniformGrid, ArrayContainer=ArrayContainer, FieldState=FieldState)
    return _j


RES = 50e-9


def _config(T, grad):
    j = J()
    mk = lambda tm: j["SimulationConfig"](time=tm, grid=j["UniformGrid"](spacing=RES), backend="cpu", dtype=j["jnp"].float64,
                                          courant_factor=0.99, gradient_config=grad)
    dt = mk(1e-15).time_step_duration
    cfg = mk((T + 0.01) * dt)
    if cfg.time_steps_total != T:
        raise RuntimeError(f"time_steps_total {cfg.time_steps_total} != {T}")
    return cfg, dt


def _grad_cfg(method, k, recorder=None):
    j = J()
    if method == "reversible":
        return j["GradientConfig"](method="reversible", recorder=recorder or j["fdtdx"].Recorder(modules=[]),
                                   num_checkpoints_reversible=k - 1)
    return j["GradientConfig"](method="checkpointed", num_checkpoints=k)


class Patched:
    """replace module attributes of fdtdx.fdtd.fdtd for the duration of a with-block"""

    def __init__(self, **kw):
        self.kw = kw

    def __enter__(self):
        FD = J()["FD"]
        self.old = {k: getattr(FD, k) for k in self.kw}      # AttributeError here = anchors renamed
        for k, v in self.kw.items():
            setattr(FD, k, v)

    def __exit__(self, *a):
        FD = J()["FD"]
        for k, v in self.old.items():
            setattr(FD, k, v)


def release_jit():
    """every compiled XLA:CPU kernel holds memory mappings; a long run exhausts vm.max_map_count unless they are released"""
    import gc
    J()["jax"].clear_caches()
    gc.collect()


def _logger(tag):
    def cb(t):
        LOG.append((tag, int(t)))
    return cb


# ------------------------------------------------------------------------------------ toy step (mirrors Toy.* in C04.lean)
def toy_fwd_core(t, e, h, det, p, cH):
    jnp = J()["jnp"]
    i = jnp.arange(e.shape[0])
    src = ((t + 2) * (i + 1)).astype(e.dtype)
    e2 = e + p * (h - jnp.roll(h, 1)) + p * src
    h2 = h + cH * (jnp.roll(e2, -1) - e2)
    det2 = jnp.where(jnp.arange(det.shape[0]) == t, jnp.sum(e2), det)
    return e2, h2, det2


def toy_bwd_core(t, e, h, p, cH, dlt):
    jnp = J()["jnp"]
    i = jnp.arange(e.shape[0])
    src = ((t + 2) * (i + 1)).astype(e.dtype)
    h0 = h - cH * (jnp.roll(e, -1) - e)
    e0 = e - p * (h0 - jnp.roll(h0, 1)) - p * src + dlt * e
    return e0, h0


def toy_patches(cH, dlt):
    j = J()
    jax, AC, FS = j["jax"], j["ArrayContainer"], j["FieldState"]

    def forward(state, config, objects, key, record_detectors, record_boundaries, simulate_boundaries):
        t, arr = state
        e2, h2, d2 = toy_fwd_core(t, arr.fields.E, arr.fields.H, arr.detector_states["toy"]["d"], arr.inv_permittivities, cH)
        arr = arr.aset("fields->E", e2).aset("fields->H", h2)
        if record_detectors:
            arr = arr.aset("detector_states", {"toy": {"d": d2}})
        return (t + 1, arr)

    def forward_single_args_wrapper(time_step, E, H, psi_E, psi_H, inv_permittivities, inv_permeabilities, detector_states,
                                    recording_state, config, objects, key, record_detectors, record_boundaries,
                                    simulate_boundaries, electric_conductivity=None, magnetic_conductivity=None):
        jax.debug.callback(_logger("v"), time_step, ordered=True)
        arr = AC(fields=FS(E=E, H=H, psi_E=psi_E, psi_H=psi_H), inv_permittivities=inv_permittivities,
                 inv_permeabilities=inv_permeabilities, detector_states=detector_states, recording_state=recording_state)
        s = forward((time_step, arr), config, objects, key, record_detectors, record_boundaries, simulate_boundaries)
        a = s[1]
        return (s[0], a.fields.E, a.fields.H, a.fields.psi_E, a.fields.psi_H, a.inv_permittivities, a.inv_permeabilities,
                a.detector_states, a.recording_state)

    def backward(state, config, objects, key=None, record_detectors=True, reset_fields=True, fields_to_reset=("E", "H")):
        t, arr = state
        jax.debug.callback(_logger("b"), t, ordered=True)
        t = t - 1
        e0, h0 = toy_bwd_core(t, arr.fields.E, arr.fields.H, arr.inv_permittivities, cH, dlt)
        arr = arr.aset("fields->E", e0).aset("fields->H", h0)
        return (t, arr)

    return dict(forward=forward, forward_single_args_wrapper=forward_single_args_wrapper, backward=backward)


def toy_impl(c):
    """gradient of <ce,E_T>+<ch,H_T>+<cd,det> w.r.t. inv_permittivities through the real reversible_fdtd with the toy step;
    returns (grad, plain-autodiff grad, event log)"""
    j = J()
    jax, jnp = j["jax"], j["jnp"]
    n, T, k = c["n"], c["T"], c["k"]
    cfg, _ = _config(T, _grad_cfg("reversible", k))
    z = jnp.zeros(n)
    p = jnp.asarray(c["p"])
    ce, ch, cd = jnp.asarray(c["ce"]), jnp.asarray(c["ch"]), jnp.asarray(c["cd"]).reshape((T,))
    arr = j["ArrayContainer"](fields=j["FieldState"](E=z, H=z, psi_E={}, psi_H={}), inv_permittivities=p,
                              inv_permeabilities=jnp.ones(()), detector_states={"toy": {"d": jnp.zeros(T)}},
                              recording_state=None)

    def loss(ip):
        a = arr.aset("inv_permittivities", ip)
        _, out = j["fdtdx"].run_fdtd(a, None, cfg, jax.random.PRNGKey(0), show_progress=False)
        return jnp.sum(ce * out.fields.E) + jnp.sum(ch * out.fields.H) + jnp.sum(cd * out.detector_states["toy"]["d"])

    def loss_plain(ip):
        e, h, d = z, z, jnp.zeros(T)
        for t in range(T):
            e, h, d = toy_fwd_core(t, e, h, d, ip, c["cH"])
        return jnp.sum(ce * e) + jnp.sum(ch * h) + jnp.sum(cd * d)

    with Patched(**toy_patches(c["cH"], c["dlt"])):
        del LOG[:]
        g = jax.grad(loss)(p)
        jax.effects_barrier()
        log = list(LOG)
    g2 = jax.grad(loss_plain)(p)
    return np.asarray(g), np.asarray(g2), log


def toy_line(c, variant="fixed"):
    from .common import f2h
    xs = [c["cH"], c["dlt"], *c["p"], *c["ce"], *c["ch"], *c["cd"]]
    return f"toy {variant} {c['n']} {c['T']} {c['k']} " + " ".join(f2h(x) for x in xs)


def fmt_log(log):
    return " ".join(f"{a}{t}" for a, t in log)


def toy_case(rng, n, T, k, dlt):
    return {"kind": "toy", "n": n, "T": T, "k": k, "cH": 0.5, "dlt": dlt,
            "p": [rng.uniform(0.3, 0.9) for _ in range(n)], "ce": [rng.uniform(-1, 1) for _ in range(n)],
            "ch": [rng.uniform(-1, 1) for _ in range(n)], "cd": [rng.uniform(-1, 1) for _ in range(T)]}


def toy_property_fails(c, res=None):
    """property on the real loop with an exactly invertible toy step: reversible gradient = plain autodiff gradient"""
    if c["dlt"] != 0.0:
        return None
    g, g2, _ = res or toy_impl(c)
    sc = max(1e-300, float(np.max(np.abs(g2)))) if c["T"] > 0 else 1.0
    e = float(np.max(np.abs(g - g2))) / sc if g.size else 0.0
    if not e <= TOL:
        return (f"reversible_fdtd loop with an exactly invertible toy step (n={c['n']}, T={c['T']}, slices={c['k']}): gradient "
                f"differs from plain autodiff by {e:.3e} (relative); reversible={g.tolist()} exact={g2.tolist()}")
    return None


# ------------------------------------------------------------------------------------------- real scenes
FACES = ("min_x", "max_x", "min_y", "max_y", "min_z", "max_z")
BOUNDS = {
    "periodic": {f: "periodic" for f in FACES},
    "pml_z": {**{f: "periodic" for f in FACES}, "min_z": "pml", "max_z": "pml"},
    "pml_z_pec_x": {"min_x": "pec", "max_x": "pec", "min_y": "periodic", "max_y": "periodic", "min_z": "pml", "max_z": "pml"},
    "pec_pmc": {"min_x": "pec", "max_x": "pec", "min_y": "pmc", "max_y": "pmc", "min_z": "periodic", "max_z": "periodic"},
    "pml_all": {f: "pml" for f in FACES},
}


SWITCH_KINDS = ("start", "interval", "fixed", "start_interval")


def switch_on_steps(kind, T):
    """the time steps at which a switch of this kind is on (what the harness intends; checked against the placed source)"""
    s0 = max(1, round(0.4 * T))
    if kind == "start":
        return [t for t in range(T) if t >= s0]
    if kind == "interval":
        return [t for t in range(T) if t % 2 == 0]
    if kind == "fixed":
        return [t for t in range(T) if t % 3 != 0]          # does not start at step 0
    if kind == "start_interval":
        return [t for t in range(T) if t >= s0 and t % 2 == 0]
    raise ValueError(kind)


def make_switch(kind, T, dt):
    """non-default OnOffSwitch: late start (on after ~40 % of the run), every second step, fixed on-steps not starting at 0"""
    if not kind:
        return None
    from fdtdx.core.switch import OnOffSwitch
    s0 = max(1, round(0.4 * T))
    if kind == "start":
        return OnOffSwitch(start_time=(s0 - 0.5) * dt)
    if kind == "interval":
        return OnOffSwitch(interval=2)
    if kind == "fixed":
        return OnOffSwitch(fixed_on_time_steps=switch_on_steps(kind, T))
    if kind == "start_interval":
        return OnOffSwitch(start_time=(s0 - 0.5) * dt, interval=2)
    raise ValueError(kind)


def build_scene(sp):
    j = J()
    fdtdx, jax, jnp = j["fdtdx"], j["jax"], j["jnp"]
    T, n = sp["T"], tuple(sp["n"])
    config, dt = _config(T, _grad_cfg("reversible", 1))
    objects, cons = [], []
    vol = fdtdx.SimulationVolume(partial_grid_shape=n)
    objects.append(vol)
    bc = fdtdx.BoundaryConfig.from_uniform_bound(thickness=sp.get("thickness", 2), override_types=BOUNDS[sp["bounds"]])
    bd, cl = fdtdx.boundary_objects_from_config(bc, vol)
    objects.extend(bd.values())
    cons.extend(cl)
    wave = fdtdx.WaveCharacter(wavelength=8 * RES)
    src_kind = sp["source"]
    if src_kind in ("plane_gauss", "dipole_gauss", "dipole_mag_gauss"):
        prof = fdtdx.GaussianPulseProfile(spectral_width=fdtdx.WaveCharacter(wavelength=sp.get("width", 40) * RES), center_wave=wave)
    elif src_kind == "plane_custom":
        r = np.random.default_rng(sp["seed"] + 77)
        prof = fdtdx.CustomTimeSignalProfile(signal=jnp.asarray(r.uniform(-1, 1, T + 12)), time_step_duration=dt, start_time=-6 * dt)
    elif src_kind == "plane_cw":
        prof = fdtdx.SingleFrequencyProfile()
    else:
        raise ValueError(src_kind)
    zs = sp.get("src_z", n[2] // 2 - 1)
    skw = {}
    sw = make_switch(sp.get("switch"), T, dt)
    if sw is not None:
        skw["switch"] = sw
    tilt = sp.get("tilt") or [0.0, 0.0]
    if src_kind.startswith("plane"):
        # every plane-source class of the library: Uniform / Gaussian TFSF plane, TFSF box region; both directions; tilted or not
        pkw = dict(wave_character=wave, temporal_profile=prof, direction=sp.get("direction", "+"),
                   fixed_E_polarization_vector=(1, 0, 0), azimuth_angle=float(tilt[0]), elevation_angle=float(tilt[1]), **skw)
        cls = sp.get("plane_cls", "uniform")
        if cls == "uniform":
            src = fdtdx.UniformPlaneSource(partial_grid_shape=(None, None, 1), **pkw)
        elif cls == "gaussian":
            src = fdtdx.GaussianPlaneSource(partial_grid_shape=(None, None, 1), radius=1.6 * RES, **pkw)
        elif cls == "region":
            src = fdtdx.TFSFPlaneSourceRegion(partial_grid_shape=(None, None, 2), propagation_axis=2, periodic_axes=(0, 1), **pkw)
        elif cls == "mode":                  # shares update_E/update_H (and their inverse branch) with the TFSF plane sources
            mkw = {k: v for k, v in pkw.items() if k not in ("fixed_E_polarization_vector",)}
            src = fdtdx.ModePlaneSource(partial_grid_shape=(None, None, 1), mode_index=0, **mkw)
        else:
            raise ValueError(cls)
        cons += [src.same_size(vol, axes=(0, 1)), src.place_at_center(vol, axes=(0, 1)),
                 src.set_grid_coordinates(axes=(2,), sides=("-",), coordinates=(zs,))]
    else:
        # electric / magnetic point dipole, any polarisation axis, axis-aligned or tilted (azimuth / elevation in degrees)
        src = fdtdx.PointDipoleSource(partial_grid_shape=(1, 1, 1), wave_character=wave, temporal_profile=prof,
                                      polarization=int(sp.get("pol", 0)), azimuth_angle=float(tilt[0]), elevation_angle=float(tilt[1]),
                                      source_type="magnetic" if src_kind == "dipole_mag_gauss" else "electric", **skw)
        cons.append(src.set_grid_coordinates(axes=(0, 1, 2), sides=("-", "-", "-"), coordinates=(n[0] // 2, n[1] // 2, zs)))
    objects.append(src)
    # the detector covers the source plane and its two neighbours and records at every step (first and last included)
    det = fdtdx.FieldDetector(name="det", partial_grid_shape=(2, 2, 3), dtype=jnp.float64)
    cons.append(det.set_grid_coordinates(axes=(0, 1, 2), sides=("-", "-", "-"),
                                         coordinates=(n[0] // 2 - 1, n[1] // 2 - 1, zs - 1)))
    objects.append(det)
    if sp.get("lossy"):
        mat = fdtdx.Material(permittivity=2.0, electric_conductivity=sp["lossy"])
        slab = fdtdx.UniformMaterialObject(partial_grid_shape=(None, None, 2), material=mat)
        cons += [slab.same_size(vol, axes=(0, 1)), slab.place_at_center(vol, axes=(0, 1)),
                 slab.set_grid_coordinates(axes=(2,), sides=("-",), coordinates=(min(zs + 1, n[2] - 2),))]
        objects.append(slab)
    if sp.get("aniso") or sp.get("aniso_mu"):
        # an anisotropic block makes placement allocate the full 9-component tensor tier; the values are overwritten by
        # random symmetric positive definite tensors in scene_eval
        kw = {"permittivity": (2.0, 0.2, 0.1, 0.2, 2.5, 0.15, 0.1, 0.15, 3.0) if sp.get("aniso") else 1.5}
        if sp.get("aniso_mu"):
            kw["permeability"] = (1.5, 0.1, 0.05, 0.1, 2.0, 0.1, 0.05, 0.1, 1.8)
        blk = fdtdx.UniformMaterialObject(name="aniso_block", partial_grid_shape=(2, 2, 2), material=fdtdx.Material(**kw))
        cons.append(blk.set_grid_coordinates(axes=(0, 1, 2), sides=("-", "-", "-"),
                                             coordinates=(n[0] // 2 - 1, n[1] // 2 - 1, min(zs + 1, n[2] - 2))))
        objects.append(blk)
    if sp.get("magnetic"):
        mat = fdtdx.Material(permittivity=1.5, permeability=2.0)
        blk = fdtdx.UniformMaterialObject(partial_grid_shape=(2, 2, 2), material=mat)
        cons.append(blk.set_grid_coordinates(axes=(0, 1, 2), sides=("-", "-", "-"),
                                             coordinates=(n[0] // 2 - 1, n[1] // 2 - 1, min(zs + 1, n[2] - 2))))
        objects.append(blk)
    key = jax.random.PRNGKey(0)
    oc, arrays, params, config, _ = fdtdx.place_objects(object_list=objects, config=config, constraints=cons, key=key)
    arrays, oc, _ = fdtdx.apply_params(arrays, oc, params, key)
    if sp.get("switch"):
        on = [t for t, b in enumerate(np.asarray(oc.sources[0]._is_on_at_time_step_arr)) if b]
        if on != switch_on_steps(sp["switch"], T):
            raise RuntimeError(f"switch {sp['switch']}: source is on at {on}, intended {switch_on_steps(sp['switch'], T)}")
    return oc, arrays, config


def outside_pml_mask(oc, shape):
    m = np.ones(shape[-3:], dtype=bool)
    for b in oc.pml_objects:
        (x0, x1), (y0, y1), (z0, z1) = b.grid_slice_tuple
        m[x0:x1, y0:y1, z0:z1] = False
    return m


def traced_real():
    """loggers around the real backward / forward_single_args_wrapper"""
    j = J()
    jax, FD = j["jax"], j["FD"]
    rb, rw = FD.backward, FD.forward_single_args_wrapper

    def backward(state, *a, **kw):
        jax.debug.callback(_logger("b"), state[0], ordered=True)
        return rb(state, *a, **kw)

    def forward_single_args_wrapper(time_step, *a, **kw):
        jax.debug.callback(_logger("v"), time_step, ordered=True)
        return rw(time_step, *a, **kw)

    return dict(backward=backward, forward_single_args_wrapper=forward_single_args_wrapper)


FINDING_ANISO_PML = "full-inv-permittivity-tensor+pml"
ANISO_KINDS = ("full", "xy", "xz", "yz")
_PAIRS = {"full": ((0, 1), (0, 2), (1, 2)), "xy": ((0, 1),), "xz": ((0, 2),), "yz": ((1, 2),)}


def random_material(r, shape, aniso, what):
    """random lossless inverse material array: values in (1/3, 1) for 1/3-component arrays; for the 9-component tier a
    symmetric, strictly diagonally dominant (hence positive definite) tensor per cell, diagonal in (0.4, 0.8), the selected
    off-diagonal pairs in +-(0.03, 0.09) (non-zero everywhere), the others exactly 0"""
    if shape[0] != 9:
        if aniso:
            raise RuntimeError(f"{what}: full tensor requested but placement produced shape {shape}")
        return 1.0 / (1.0 + 2.0 * r.random(shape))
    out = np.zeros((3, 3) + tuple(shape[1:]))
    for a in range(3):
        out[a, a] = r.uniform(0.4, 0.8, shape[1:])
    for a, b in _PAIRS[aniso or "full"]:
        v = r.uniform(0.03, 0.09, shape[1:]) * r.choice([-1.0, 1.0], shape[1:])
        out[a, b] = v
        out[b, a] = v
    return out.reshape((9,) + tuple(shape[1:]))


def scene_eval(sp):
    """returns list of (k, relative difference per parameter array, log) and the reference gradient scale"""
    j = J()
    jax, jnp, fdtdx = j["jax"], j["jnp"], j["fdtdx"]
    oc, arrays, config = build_scene(sp)
    r = np.random.default_rng(sp["seed"])
    inv_eps = jnp.asarray(random_material(r, arrays.inv_permittivities.shape, sp.get("aniso"), "inv_permittivities"))
    inv_mu = arrays.inv_permeabilities
    mu_is_array = hasattr(inv_mu, "shape") and getattr(inv_mu, "ndim", 0) >= 3
    if sp.get("aniso_mu") and not (mu_is_array and inv_mu.shape[0] == 9):
        raise RuntimeError(f"aniso_mu requested but inv_permeabilities has shape {getattr(inv_mu, 'shape', None)}")
    if mu_is_array:
        inv_mu = jnp.asarray(random_material(r, inv_mu.shape, sp.get("aniso_mu"), "inv_permeabilities"))
    else:
        inv_mu = jnp.asarray(inv_mu, dtype=jnp.float64)
    w = jnp.asarray(r.standard_normal(arrays.detector_states["det"]["fields"].shape))
    quad = float(sp.get("quad", 0.5))

    def loss(ie, im, cfg):
        a = arrays.aset("inv_permittivities", ie).aset("inv_permeabilities", im)
        _, out = fdtdx.run_fdtd(a, oc, cfg, jax.random.PRNGKey(1), show_progress=False)
        f = out.detector_states["det"]["fields"]
        s = jnp.max(jnp.abs(jax.lax.stop_gradient(f))) + 1e-300
        return jnp.sum(w * f / s) + quad * jnp.sum((w * f / s) ** 2)

    mask = outside_pml_mask(oc, arrays.inv_permittivities.shape)
    has_pml = not mask.all()
    cfg_c = config.aset("gradient_config", _grad_cfg("checkpointed", sp.get("nck", 3)))
    ge, gm = jax.grad(loss, argnums=(0, 1))(inv_eps, inv_mu, cfg_c)
    ge, gm = np.asarray(ge), np.asarray(gm)
    sc_e = float(np.max(np.abs(ge[..., mask])))
    sc_m = float(np.max(np.abs(gm[..., mask]))) if mu_is_array else float(np.abs(gm))
    res = []
    rec = config.gradient_config.recorder
    for k in sp["ks"]:
        cfg_r = config.aset("gradient_config", _grad_cfg("reversible", k, rec))
        with Patched(**traced_real()):
            del LOG[:]
            he, hm = jax.grad(loss, argnums=(0, 1))(inv_eps, inv_mu, cfg_r)
            jax.effects_barrier()
            log = list(LOG)
        he, hm = np.asarray(he), np.asarray(hm)
        # relative to the largest reference entry; absolute when the reference gradient vanishes identically
        de = float(np.max(np.abs(he - ge)[..., mask])) / (sc_e if sc_e > 0 else 1.0)
        if mu_is_array:
            dm = float(np.max(np.abs(hm - gm)[..., mask])) / (sc_m if sc_m > 0 else 1.0)
        elif has_pml:
            dm = 0.0            # a scalar permeability sums over PML cells, outside the property
        else:
            dm = float(np.abs(hm - gm)) / (sc_m if sc_m > 0 else 1.0)
        res.append((k, de, dm, log))
    return res, (sc_e, sc_m), bool(np.all(np.isfinite(ge)))


def scene_property_fails(sp, ev=None):
    res, (sc_e, sc_m), finite = ev or scene_eval(sp)
    if not finite:
        return None if ev else "scene is degenerate (reference gradient not finite)"
    for k, de, dm, _ in res:
        if not (de <= TOL and dm <= TOL):
            return (f"scene {sp}: reversible gradient with {k - 1} checkpoints differs from checkpointed autodiff: relative "
                    f"difference {de:.3e} (inv_permittivities), {dm:.3e} (inv_permeabilities) outside PML; tolerance {TOL}")
    return None


def seed_tilt(seed):
    """non-zero azimuth / elevation in degrees; both signs of both angles occur over the seeds"""
    az = (20.0 + 7.0 * (seed % 5)) * (-1.0 if seed % 2 else 1.0)
    el = (15.0 + 5.0 * (seed % 4)) * (-1.0 if (seed // 2) % 2 else 1.0)
    return [az, el]


def quick_scenes(seed):
    """four fixed shapes, every `inverse` branch of the sources is in every run:
    [0] TFSF plane source (class rotates Uniform / Gaussian / box Region), always on, pulse non-zero at t<0;
    [1] ALWAYS a plane source with a pulse and a late-start switch, PML; direction and tilt rotate with the seed;
    [2] ALWAYS an electric dipole with a late-start switch in a FULL 9-component inverse-permittivity tensor (the non-axis-aligned
        branch of update_E); polarisation axis and tilt rotate;
    [3] ALWAYS a TILTED MAGNETIC dipole (the non-axis-aligned branch of update_H), conductive medium with a checkpoint at every
        step; tilt angles (both signs), polarisation axis and switch kind (interval / fixed / late start + interval) rotate"""
    rot_switch = ("interval", "fixed", "start_interval")[seed % 3]
    return [
        {"kind": "scene", "T": 9, "n": [4, 4, 6], "bounds": "periodic", "source": "plane_gauss", "ks": [1, 3], "seed": seed,
         "plane_cls": ("uniform", "gaussian", "region")[seed % 3]},
        {"kind": "scene", "T": 10, "n": [4, 4, 10], "bounds": "pml_z", "source": "plane_custom", "ks": [2], "seed": seed + 1,
         "src_z": 3, "switch": "start", "direction": "+-"[(seed // 2) % 2], "tilt": seed_tilt(seed + 1) if seed % 2 else None},
        {"kind": "scene", "T": 8, "n": [4, 4, 6], "bounds": "pec_pmc", "source": "dipole_gauss", "ks": [1], "seed": seed + 2,
         "switch": "start", "aniso": "full", "pol": seed % 3, "tilt": seed_tilt(seed + 2) if (seed // 3) % 2 else None},
        {"kind": "scene", "T": 6, "n": [4, 4, 6], "bounds": "periodic", "source": "dipole_mag_gauss", "ks": [6], "seed": seed + 3,
         "lossy": 100.0, "switch": rot_switch, "tilt": seed_tilt(seed + 3), "pol": (seed // 3) % 3},
    ]


def source_scenes(seed, T=6):
    """every source kind of the library with its orientation options: electric / magnetic dipole (each polarisation axis,
    axis-aligned and tilted with both signs), Uniform / Gaussian / Region / Mode plane sources (both directions, tilted or
    not), switches rotating"""
    out = []
    base = {"kind": "scene", "T": T, "n": [4, 4, 6], "bounds": "periodic", "width": 40}
    i = 0
    for src in ("dipole_gauss", "dipole_mag_gauss"):
        for var in ({"pol": 1}, {"pol": 2, "tilt": seed_tilt(seed + i)}, {"pol": 0, "tilt": seed_tilt(seed + i + 1)}):
            out.append({**base, "source": src, "ks": [1 + i % 3], "seed": seed + i, **var,
                        **({"switch": SWITCH_KINDS[i % 4]} if i % 2 else {})})
            i += 1
    for cls in ("uniform", "gaussian", "region"):
        for var in ({"direction": "-"}, {"direction": "+-"[i % 2], "tilt": seed_tilt(seed + i)}):
            if cls == "region":       # a box region with periodic transverse axes rejects tilted incidence at placement
                var = {k: v for k, v in var.items() if k != "tilt"}
            out.append({**base, "source": ("plane_gauss", "plane_custom")[i % 2], "plane_cls": cls, "ks": [1 + i % 3], "seed": seed + i,
                        **var, **({"switch": SWITCH_KINDS[i % 4]} if i % 2 else {})})
            i += 1
    out.append({**base, "n": [5, 5, 6], "source": "plane_gauss", "plane_cls": "mode", "ks": [2], "seed": seed + i})
    return out


def thorough_scenes(seed):
    return [
        {"kind": "scene", "T": 8, "n": [7, 7, 8], "bounds": "pml_all", "source": "dipole_gauss", "ks": [4], "seed": seed + 4,
         "src_z": 3, "width": 10},
        {"kind": "scene", "T": 12, "n": [4, 4, 6], "bounds": "periodic", "source": "plane_custom", "ks": [12], "seed": seed + 5,
         "lossy": 300.0},
        {"kind": "scene", "T": 1, "n": [3, 3, 5], "bounds": "periodic", "source": "plane_custom", "ks": [1], "seed": seed + 6},
        {"kind": "scene", "T": 10, "n": [4, 4, 10], "bounds": "pml_z", "source": "plane_custom", "ks": [2], "seed": seed + 7,
         "src_z": 3},
        {"kind": "scene", "T": 8, "n": [4, 4, 6], "bounds": "pec_pmc", "source": "dipole_gauss", "ks": [1], "seed": seed + 30,
         "magnetic": True, "switch": "start"},
        # KNOWN FINDING (props/C04.findings.json): full inverse-permittivity tensor + PML -> interior reconstruction is inexact
        {"kind": "scene", "T": 8, "n": [3, 3, 11], "bounds": "pml_z", "source": "dipole_gauss", "ks": [1], "seed": 5, "src_z": 5,
         "width": 40, "aniso": "xy", "finding": FINDING_ANISO_PML},
        {"kind": "scene", "T": 8, "n": [3, 3, 11], "bounds": "pml_z", "source": "dipole_mag_gauss", "ks": [2], "seed": 6, "src_z": 5,
         "width": 40, "aniso_mu": "full"},
    ] + switch_scenes(seed + 8) + aniso_scenes(seed + 40) + source_scenes(seed + 60)


def aniso_scenes(seed, T=7):
    """full inverse-permittivity / inverse-permeability tensors; which off-diagonal pairs are non-zero rotates"""
    out = []
    for i, kind in enumerate(ANISO_KINDS):
        out.append({"kind": "scene", "T": T, "n": [4, 4, 5], "bounds": ("periodic", "pec_pmc")[i % 2],
                    "source": ("dipole_gauss", "dipole_mag_gauss")[i % 2], "ks": [1 + i % 3], "seed": seed + i, "aniso": kind,
                    "aniso_mu": ANISO_KINDS[(i + 1) % 4] if i % 2 == 0 else None, "width": 40})
    out.append({"kind": "scene", "T": T, "n": [4, 4, 5], "bounds": "periodic", "source": "dipole_mag_gauss", "ks": [2],
                "seed": seed + 9, "aniso_mu": "full", "width": 40})
    return out


def switch_scenes(seed, T=7):
    """switch kinds x sources that inject into H (plane, magnetic dipole) and into E (electric dipole), smallest scenes"""
    out = []
    for i, (kind, source) in enumerate((k, s) for k in SWITCH_KINDS for s in ("plane_gauss", "dipole_mag_gauss", "dipole_gauss")):
        out.append({"kind": "scene", "T": T, "n": [3, 3, 5], "bounds": "periodic", "source": source, "ks": [1 + i % 2], "seed": seed + i,
                    "switch": kind, "width": 40})
    return out


def random_scene(rng, i):
    bounds = rng.choice(["periodic", "pml_z", "pml_z_pec_x", "pec_pmc", "pml_all", "periodic", "pml_z", "pml_z"])
    source = rng.choice(["plane_gauss", "plane_custom", "dipole_gauss", "plane_custom", "plane_cw"])
    if bounds in ("pec_pmc", "pml_z_pec_x", "pml_all") and source.startswith("plane"):
        source = "dipole_gauss"          # a full-width plane source needs periodic transverse faces
    has_pml_z = bounds in ("pml_z", "pml_z_pec_x", "pml_all")
    nz = rng.randint(9, 11) if has_pml_z else rng.randint(5, 7)
    nx = rng.randint(7, 8) if bounds == "pml_all" else rng.randint(3, 5)
    T = rng.randint(3, 14)
    lossy = rng.choice([0, 0, 0, 30.0, 300.0])
    ks = sorted({1, rng.randint(1, T), rng.randint(2, max(2, min(4, T)))}) if not lossy else [T]
    ks = [k for k in ks if k <= T]
    sp = {"kind": "scene", "T": T, "n": [nx, nx, nz], "bounds": bounds, "source": source, "ks": ks, "seed": rng.randint(0, 10 ** 6),
          "width": rng.choice([10, 40, 200]), "quad": rng.choice([0.0, 0.5, 2.0]), "nck": rng.randint(1, 5)}
    if has_pml_z:
        sp["src_z"] = rng.randint(3, nz - 5)
    if lossy:
        sp["lossy"] = lossy
    if rng.chance(0.3):
        sp["magnetic"] = True
    # full permittivity tensors are only combined with PML in the one scene tagged with the known finding (thorough_scenes)
    if sp["source"].startswith("dipole") and not lossy and not has_pml_z and rng.chance(0.7):
        sp["aniso"] = ANISO_KINDS[i % 4]
        sp.pop("magnetic", None)
        if rng.chance(0.5):
            sp["aniso_mu"] = ANISO_KINDS[(i + 2) % 4]
    if sp["source"].startswith("plane"):
        sp["plane_cls"] = ("uniform", "gaussian", "region")[i % 3]
        sp["direction"] = rng.choice(["+", "-"])
        if rng.chance(0.4) and sp["plane_cls"] != "region":
            sp["tilt"] = seed_tilt(rng.randint(0, 40))
    else:
        sp["pol"] = rng.randint(0, 2)
        if rng.chance(0.5):
            sp["tilt"] = seed_tilt(rng.randint(0, 40))
    if source != "plane_cw" and rng.chance(0.6):
        sp["switch"] = SWITCH_KINDS[i % len(SWITCH_KINDS)]
        if source == "dipole_gauss" and rng.chance(0.5):
            sp["source"] = "dipole_mag_gauss"
    return sp


# ------------------------------------------------------------------------------------------------ K
_SCHED = {}


def expected_sched(ctx, T, k):
    """model's event sequence of the reverse loop (batched: the persistent `ask` channel is not used)"""
    if (T, k) not in _SCHED:
        todo = [(a, b) for a in range(0, 15) for b in range(1, max(a, 1) + 1)]
        if (T, k) not in todo:
            todo.append((T, k))
        for (a, b), rep in zip(todo, ctx.driver.ask_many([f"sched fixed {a} {b}" for a, b in todo])):
            _SCHED[(a, b)] = rep.split("|")[1].strip()
    return _SCHED[(T, k)]


def run_scene(ctx, sp):
    ev = scene_eval(sp)
    res, (sc_e, sc_m), finite = ev
    pml = sp["bounds"].startswith("pml")
    for k, de, dm, log in res:
        ctx.case(sample={"scene": sp, "k": k, "rel_diff_eps": de, "rel_diff_mu": dm, "grad_scale": sc_e} if len(ctx.samples) < 5 else None,
                 nontrivial=("scene", sp["bounds"], sp["source"], k > 1, bool(sp.get("lossy")), bool(sp.get("magnetic")), sp.get("switch"), sp.get("aniso"), sp.get("aniso_mu"), sp.get("plane_cls"), bool(sp.get("tilt")), sp.get("direction"))
                 if sc_e > 0 else None, zero_gradient=not sc_e > 0,
                 op="scene", bounds=sp["bounds"], source=sp["source"], slices=min(k, 4), lossy=bool(sp.get("lossy")),
                 switch=sp.get("switch", "always_on"), source_cls=sp.get("plane_cls", "uniform") if sp["source"].startswith("plane") else "dipole", tilted=bool(sp.get("tilt")),
                 eps_tensor=sp.get("aniso") or "iso/diag", mu_tensor=sp.get("aniso_mu") or "iso/diag")
        ctx.expect_equal("real-schedule", {**sp, "ks": [k]}, fmt_log(log), expected_sched(ctx, sp["T"], k))
        ctx.impl_property_evals += 1
    if not finite:
        ctx.mismatch("scene-degenerate", sp, {"grad_scale": sc_e, "finite": finite})
        return
    d = scene_property_fails(sp, ev)
    if d:
        ctx.violation(sp, d, signature=sp.get("finding"))


def run(ctx):
    import time
    tm = {"start": time.time()}
    j = J()
    FD = j["FD"]
    tm["import"] = time.time()
    # (a) slice boundaries, exhaustive
    Tb = ctx.scale(16, 40)
    cfgs = [(T, k) for T in range(0, Tb + 1) for k in range(1, max(T, 1) + 1)]
    reps = ctx.driver.ask_many([f"bounds {T} {k}" for T, k in cfgs])
    for (T, k), rep in zip(cfgs, reps):
        impl = " ".join(str(int(x)) for x in FD._reversible_slice_boundaries(T, k))
        ctx.case(nontrivial=("bounds", T, k) if (2 * T) % k == 0 and (T // k) % 2 == 0 and k > 1 else None, op="bounds")
        ctx.expect_equal("bounds", {"T": T, "k": k}, impl, rep)
    ctx.extra["exhaustive_bounds"] = {"boundaries_T_max": Tb, "all_k": True}
    tm["bounds"] = time.time()

    # (b) the real reverse loop with the toy step
    if ctx.thorough:
        tk = [(T, k) for T in range(0, 13) for k in range(1, max(T, 1) + 1)]
    else:
        tk = [(T, k) for T in range(0, 4) for k in range(1, max(T, 1) + 1)]
        extra = [(5, 2), (7, 3), (6, 6), (9, 4), (12, 5), (10, 10), (11, 2), (8, 1), (4, 3), (4, 4)]
        tk += extra[:2] + [ctx.rng.choice(extra[2:])] + [(lambda T: (T, ctx.rng.randint(2, T)))(ctx.rng.randint(5, 12))]
    from .common import h2fs
    cases = [toy_case(ctx.rng, 2 + (i % 3), T, k, [0.0, 0.01, 0.03][i % 3] if T > 0 else 0.0) for i, (T, k) in enumerate(tk)]
    reps = ctx.driver.ask_many([toy_line(c) for c in cases])
    for i, (c, rep) in enumerate(zip(cases, reps)):
        T, k, dlt = c["T"], c["k"], c["dlt"]
        if i % 10 == 9:
            release_jit()
        res = toy_impl(c)
        g, g2, log = res
        gm, gx = h2fs(rep.split("|")[0]), h2fs(rep.split("|")[1])
        ctx.case(sample={"op": "toy", **c, "impl_grad": g.tolist(), "events": fmt_log(log)} if i == 7 else None,
                 nontrivial=("toy", T, k, dlt) if (k >= 2 or dlt > 0) else None, op="toy", slices=min(k, 5), inexact_reverse=dlt > 0)
        ctx.expect_equal("toy-schedule", c, fmt_log(log), expected_sched(ctx, T, k))
        ctx.expect_close("toy-grad", c, g, gm, tol=TOL, floor=max(1e-300, float(np.max(np.abs(g2)))) if g2.size and np.max(np.abs(g2)) > 0 else 1.0)
        # the model's exact reverse accumulation (hand-written toy VJP) vs plain jax autodiff of the toy steps
        ctx.expect_close("toy-exact", c, g2, gx, tol=TOL, floor=max(1e-300, float(np.max(np.abs(g2)))) if g2.size and np.max(np.abs(g2)) > 0 else 1.0)
        if dlt == 0.0:
            ctx.impl_property_evals += 1
            d = toy_property_fails(c, res)
            if d:
                ctx.violation(c, d)
    # error branch: more slices than time steps (num_checkpoints_reversible > T - 1) is rejected by both
    bad = [toy_case(ctx.rng, 2, T, k, 0.0) for T, k in [(2, 3), (0, 2), (1, 5)]]
    for c, rep in zip(bad, ctx.driver.ask_many([toy_line(c) for c in bad])):
        try:
            toy_impl(c)
            impl = "ok"
        except Exception as e:
            impl = "error" if "num_checkpoints_reversible" in str(e) else "other: " + str(e)[:120]
        ctx.case(nontrivial=("toy-error", c["T"], c["k"]), op="toy-error")
        ctx.expect_equal("toy-error", c, impl, "error" if rep == "error" else "ok")
    ctx.exhaustive = bool(ctx.thorough)
    ctx.extra["toy_loop_cases"] = len(tk)
    tm["toy"] = time.time()

    # (c) the property on the real solver
    scenes = quick_scenes(ctx.rng.randint(0, 10 ** 6))
    if ctx.thorough:
        scenes += thorough_scenes(7) + [random_scene(ctx.rng, i) for i in range(8)]
    for i, sp in enumerate(scenes):
        run_scene(ctx, sp)
        if i % 4 == 3:
            release_jit()
        tm[f"scene{i}"] = time.time()
    # report a violation on the real solver in preference to one on the real loop with the toy step
    ctx.violations.sort(key=lambda v: 0 if isinstance(v["input"], dict) and v["input"].get("kind") == "scene" else 1)
    ks = list(tm)
    ctx.extra["phase_seconds"] = {b: round(tm[b] - tm[a], 1) for a, b in zip(ks, ks[1:])}


# ------------------------------------------------------------------------------------------------ S
def search(ctx, hints):
    for h in hints:
        if isinstance(h, dict) and h.get("kind") in ("toy", "scene"):
            d = replay(ctx, h)
            ctx.impl_property_evals += 1
            if d:
                ctx.violation(h, d)
                return
    # smallest inputs first: the real loop with an exactly invertible toy step, then real scenes of growing size
    r = ctx.rng.fork()
    for T in range(1, 7):
        for k in range(1, T + 1):
            c = toy_case(r, 2, T, k, 0.0)
            ctx.impl_property_evals += 1
            d = toy_property_fails(c)
            if d:
                ctx.violation(c, d)
                return
    cands = [{"kind": "scene", "T": T, "n": [3, 3, 5], "bounds": "periodic", "source": s, "ks": ks, "seed": 5}
             for T in (1, 2, 4) for s in ("plane_custom", "plane_gauss") for ks in ([1], [2] if T >= 2 else [1])]
    cands += source_scenes(41, T=5)[:-1] + switch_scenes(21, T=5) + aniso_scenes(31, T=5) + quick_scenes(11) + [random_scene(r, i) for i in range(ctx.scale(12, 60))]
    for sp in cands:
        ctx.impl_property_evals += 1
        release_jit()
        d = scene_property_fails(sp)
        if d and "degenerate" not in d:
            ctx.violation(sp, d)
            return


def replay(ctx, inp):
    if inp.get("kind") == "toy":
        return toy_property_fails(inp)
    d = scene_property_fails(inp)
    return d
