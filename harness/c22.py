"""C22 — GaussianSmoothing2D vs lean/FdtdxModel/C22.lean"""
import numpy as np

RULE = ("K: fdtdx.GaussianSmoothing2D.__call__ for std_discrete in {1,2,3}, designs nx x ny with sides 1..8 (a few shapes per "
        "run, always one with a side shorter than the kernel half-width and one degenerate 1 x n), singleton axis in every "
        "position, all 16 present/absent patterns of the four padding vectors over the run, values in [0,1] or [-3,3], "
        "constants; output compared with the model (same padded normalised-kernel convolution on binary64, exp passed as a "
        "parameter) at 1e-9 (observed 1e-16: only summation order and exp differ); kernel table compared separately. "
        "Multi-entry dicts whose arrays differ in singleton-axis position (paddings present) or size (default padding) in ONE "
        "call: shape kept, equal to the single-array call, model per entry. Glue: no singleton axis -> exception, init_module's 2-D shape check, std_discrete = 0 (NaN on both sides). "
        "Property oracle on the implementation for every case (independent of the model): min(inputs, paddings) <= out <= "
        "max; constants with matching/default padding fixed; affine combinations preserved (linear with default padding); "
        "mirroring either axis with mirrored/swapped paddings mirrors the output; default padding == "
        "scipy.ndimage.gaussian_filter(mode='nearest', truncate=3). "
        "non-trivial = any padding vector present, or a side shorter than 3*std, or singleton axis not last.")

_J = None


def J():
    global _J
    if _J is None:
        import jax
        jax.config.update("jax_enable_x64", True)
        import jax.numpy as jnp
        import fdtdx
        from fdtdx.config import SimulationConfig
        from fdtdx.core.grid import UniformGrid
        from fdtdx.materials import Material
        cfg = SimulationConfig(time=100e-15, grid=UniformGrid(spacing=500e-9), backend="cpu", dtype=jnp.float64)
        mats = {"Air": Material(permittivity=1.0), "Si": Material(permittivity=11.7)}
        try:
            from scipy.ndimage import gaussian_filter
        except Exception:          # pragma: no cover
            gaussian_filter = None
        _J = dict(jax=jax, jnp=jnp, fdtdx=fdtdx, cfg=cfg, mats=mats, gf=gaussian_filter)
    return _J


# ----------------------------------------------------------------------------- implementation side
def impl(sigma, x3, pads, init=True):
    """pads = [lo0, hi0, lo1, hi1] with None or 1-D numpy arrays; returns numpy array shaped like x3 or 'error'"""
    j = J()
    jnp = j["jnp"]
    kw = {}
    for name, p in zip(("padding_low_axis0", "padding_high_axis0", "padding_low_axis1", "padding_high_axis1"), pads):
        if p is not None:
            kw[name] = jnp.asarray(p, dtype=jnp.float64)
    t = j["fdtdx"].GaussianSmoothing2D(std_discrete=sigma, **kw)
    if init:
        try:
            t = t.init_module(config=j["cfg"], materials=j["mats"], matrix_voxel_grid_shape=tuple(x3.shape),
                              single_voxel_size=(1e-6, 1e-6, 1e-6), output_shape={"p": tuple(x3.shape)})
        except Exception:
            return "error-init"
    try:
        out = np.asarray(t({"p": jnp.asarray(x3, dtype=jnp.float64)})["p"], dtype=np.float64)
    except Exception:
        return "error"
    if out.shape != x3.shape:
        return "error"
    return out


def impl_dict(sigma, arrays, pads):
    """ONE __call__ on a dict whose entries differ in shape / singleton-axis position; {key: numpy} or 'error'"""
    j = J()
    jnp = j["jnp"]
    kw = {}
    for name, p in zip(("padding_low_axis0", "padding_high_axis0", "padding_low_axis1", "padding_high_axis1"), pads):
        if p is not None:
            kw[name] = jnp.asarray(p, dtype=jnp.float64)
    t = j["fdtdx"].GaussianSmoothing2D(std_discrete=sigma, **kw)
    try:
        out = t({k: jnp.asarray(a, dtype=jnp.float64) for k, a in arrays.items()})
    except Exception:
        return "error"
    if list(out.keys()) != list(arrays.keys()):
        return "error"
    return {k: np.asarray(out[k], dtype=np.float64) for k in arrays}


def prop_dict(sigma, arrays, pads, out=None):
    """multi-entry call: every entry keeps its shape and equals the single-array call on that entry"""
    arrays = {k: np.asarray(a, dtype=np.float64) for k, a in arrays.items()}
    pads = [None if p is None else np.asarray(p, dtype=np.float64) for p in pads]
    if out is None:
        out = impl_dict(sigma, arrays, pads)
    tag = f"std={sigma} dict shapes={[a.shape for a in arrays.values()]} pads={[p is not None for p in pads]}"
    if isinstance(out, str):
        return f"multi-entry call raised: {tag}"
    for k, v in arrays.items():
        if out[k].shape != v.shape:
            return f"entry '{k}' changed shape {v.shape} -> {out[k].shape} in a multi-entry call: {tag}"
        alone = impl(sigma, v, pads, init=False)
        if isinstance(alone, str) or not np.array_equal(alone, out[k]):
            return f"entry '{k}' differs from the single-array call: {tag}"
    return None


def run2d(sigma, x2, pads, v=2):
    out = impl(sigma, np.expand_dims(x2, v), pads, init=False)
    if isinstance(out, str):
        raise RuntimeError("implementation raised on a valid 2-D design")
    return np.squeeze(out, v)


# ------------------------------------------------------------------------ property oracle (python)
TOL = 1e-12


def mirror_pads(pads, axis):
    lo0, hi0, lo1, hi1 = pads
    r = lambda p: None if p is None else p[::-1].copy()
    if axis == 0:
        return [hi0, lo0, r(lo1), r(hi1)]
    return [r(lo0), r(hi0), hi1, lo1]


def prop(sigma, x2, pads, v=2, y=None, y2=None, t=0.3, full=True):
    """property statement on the implementation for design x2 (2-D numpy) and paddings; y2 = a second design"""
    x2 = np.asarray(x2, dtype=np.float64)
    pads = [None if p is None else np.asarray(p, dtype=np.float64) for p in pads]
    if y is None:
        y = run2d(sigma, x2, pads, v)
    tag = f"std={sigma} shape={x2.shape} pads={[p is not None for p in pads]} vertical_axis={v}"
    if not np.all(np.isfinite(y)):
        return f"non-finite output: {tag}"
    allv = np.concatenate([x2.ravel()] + [p.ravel() for p in pads if p is not None])
    lo, hi = float(allv.min()), float(allv.max())
    scale = max(1.0, abs(lo), abs(hi))
    if y.min() < lo - TOL * scale or y.max() > hi + TOL * scale:
        return f"range: output in [{y.min()!r}, {y.max()!r}] but inputs and paddings in [{lo!r}, {hi!r}]: {tag}"
    if lo == hi and np.max(np.abs(y - lo)) > TOL * scale:
        return f"constant {lo!r} not preserved (max deviation {np.max(np.abs(y - lo))!r}): {tag}"
    if not full:
        return None
    # affine: second design from the caller or a deterministic one
    if y2 is None:
        i, jx = np.meshgrid(np.arange(x2.shape[0]), np.arange(x2.shape[1]), indexing="ij")
        y2 = np.cos(0.7 * i + 1.3 * jx) * 0.5 + 0.25
    a = run2d(sigma, t * x2 + (1 - t) * y2, pads, v)
    b = t * y + (1 - t) * run2d(sigma, y2, pads, v)
    if np.max(np.abs(a - b)) > TOL * scale * 4:
        return f"not affine: smoothing(t x + (1-t) x') differs from the combination by {np.max(np.abs(a - b))!r}: {tag}"
    if all(p is None for p in pads):
        a = run2d(sigma, 2.0 * x2 - 3.0 * y2, pads, v)
        b = 2.0 * y - 3.0 * run2d(sigma, y2, pads, v)
        if np.max(np.abs(a - b)) > TOL * scale * 16:
            return f"not linear with default padding (deviation {np.max(np.abs(a - b))!r}): {tag}"
        gf = J()["gf"]
        if gf is not None:
            ref = gf(x2, sigma=sigma, mode="nearest", truncate=3.0)
            if np.max(np.abs(ref - y)) > 1e-11 * scale:
                return f"default padding differs from edge-replicated Gaussian filter by {np.max(np.abs(ref - y))!r}: {tag}"
    for axis in (0, 1):
        m = run2d(sigma, np.flip(x2, axis).copy(), mirror_pads(pads, axis), v)
        if np.max(np.abs(m - np.flip(y, axis))) > TOL * scale * 4:
            return f"mirroring axis {axis} (paddings mirrored) does not mirror the output (deviation {np.max(np.abs(m - np.flip(y, axis)))!r}): {tag}"
    return None


# --------------------------------------------------------------------------------- generators
def gen_design(rng, nx, ny, kind):
    if kind == "const":
        return np.full((nx, ny), rng.choice([0.0, 1.0, 0.37, -2.5]))
    lo, hi = (0.0, 1.0) if kind == "unit" else (-3.0, 3.0)
    return np.array([[rng.uniform(lo, hi) for _ in range(ny)] for _ in range(nx)])


def gen_pads(rng, nx, ny, pattern, kind, const=None):
    lens = [ny, ny, nx, nx]
    lo, hi = (0.0, 1.0) if kind == "unit" else (-3.0, 3.0)
    out = []
    for bit, n in zip(pattern, lens):
        if not bit:
            out.append(None)
        elif const is not None:
            out.append(np.full(n, const))
        else:
            out.append(np.array([rng.uniform(lo, hi) for _ in range(n)]))
    return out


def model_line(sigma, x2, pads):
    from .common import f2h
    fl = [0 if p is None else 1 for p in pads]
    vals = list(x2.ravel())
    for p in pads:
        if p is not None:
            vals += list(p)
    return f"smooth {sigma} {x2.shape[0]} {x2.shape[1]} {fl[0]} {fl[1]} {fl[2]} {fl[3]} " + " ".join(f2h(t) for t in vals)


def to_case(sigma, x2, pads, v):
    return {"sigma": sigma, "x2": x2.tolist(), "pads": [None if p is None else p.tolist() for p in pads], "v": v}


# ------------------------------------------------------------------------------------------- K
def run(ctx):
    from .common import h2fs
    rng = ctx.rng
    lines, cbs = [], []
    shapes = [(rng.randint(2, 3), rng.randint(5, 8)), (1, rng.randint(3, 6)), (rng.randint(4, 8), rng.randint(2, 8))]
    shapes += [(rng.randint(1, 8), rng.randint(1, 8)) for _ in range(ctx.scale(1, 8))]
    patterns = rng.shuffle([tuple((k >> b) & 1 for b in range(4)) for k in range(16)])
    n_cases = ctx.scale(36, 320)
    for ci in range(n_cases):
        sigma = 1 + ci % 3 if ci % 11 else rng.choice([1, 1, 2])
        nx, ny = shapes[(ci // 3) % len(shapes)]
        pattern = (0, 0, 0, 0) if ci % 4 == 0 else (1, 1, 1, 1) if ci % 16 == 1 else patterns[ci % 16]
        kind = ["unit", "wide", "const"][(ci // 2) % 3]
        x2 = gen_design(rng, nx, ny, kind)
        pads = gen_pads(rng, nx, ny, pattern, kind, const=(float(x2[0, 0]) if kind == "const" and ci % 2 else None))
        v = 0 if nx == 1 else (1 if ny == 1 else ci % 3)     # the implementation squeezes the FIRST singleton axis
        x3 = np.expand_dims(x2, v)
        two = sum(1 for s in x3.shape if s != 1) == 2
        y3 = impl(sigma, x3, pads, init=two and ci % 2 == 0)
        if not two:
            ctx.expect_equal("init-2d-check", {"shape": x3.shape}, impl(sigma, x3, pads, init=True), "error-init")
        case = to_case(sigma, x2, pads, v)
        short = nx < 3 * sigma or ny < 3 * sigma
        ctx.case(sample={**case, "impl": None if isinstance(y3, str) else y3.tolist()} if ci == 5 else None,
                 nontrivial=(sigma, nx, ny, pattern, v) if (any(pattern) or short or v != 2) else None,
                 op="smooth", std=sigma, pads_present=sum(pattern), values=kind, vertical_axis=v, shorter_than_halfwidth=short)
        if isinstance(y3, str) or list(x3.shape).index(1) != v:
            # a side of length 1 before the intended axis: the implementation squeezes that one instead
            if isinstance(y3, str):
                ctx.mismatch("smooth", case, {"impl": y3})
            continue
        y = np.squeeze(y3, v)

        def cb(rep, case=case, y=y):
            if rep in ("error", "bad-op"):
                ctx.mismatch("smooth", case, {"model": rep})
            else:
                ctx.expect_close("smooth", case, y.ravel(), h2fs(rep), tol=1e-9)
        lines.append(model_line(sigma, x2, pads))
        cbs.append(cb)
        ctx.impl_property_evals += 1
        d = prop(sigma, x2, pads, v, y, t=rng.uniform(-0.5, 1.5), full=(ci % ctx.scale(2, 1) == 0))
        if d:
            ctx.violation(case, d)
    # multi-entry dicts mixing singleton-axis positions (same squeezed size, paddings present) or sizes (default padding)
    for ci in range(ctx.scale(4, 24)):
        sigma = 1 + ci % 2
        nx, ny = rng.randint(2, 5), rng.randint(2, 6)
        if ci % 2 == 0:
            dims = [(nx, ny)] * 3
            pads = gen_pads(rng, nx, ny, patterns[ci % 16], "unit")
        else:
            dims = [(nx, ny), (ny + 1, nx), (nx + 1, ny + 2)]
            pads = [None] * 4
        arrays = {}
        for k, pos, d in zip(("a", "b", "c"), rng.shuffle([0, 1, 2]), dims):
            arrays[k] = np.expand_dims(gen_design(rng, d[0], d[1], "unit"), pos)
        if rng.chance(0.5):
            arrays.pop("c")
        out = impl_dict(sigma, arrays, pads)
        case = {"sigma": sigma, "dict": {k: a.tolist() for k, a in arrays.items()},
                "pads": [None if p is None else p.tolist() for p in pads]}
        ctx.case(nontrivial=("dict", ci), op="mixed-dict", std=sigma, entries=len(arrays), pads_present=sum(p is not None for p in pads),
                 singleton_positions="/".join(str(list(a.shape).index(1)) for a in arrays.values()))
        for k, a in arrays.items():
            if isinstance(out, str) or out[k].shape != a.shape:
                ctx.mismatch("mixed-dict", case, {"entry": k, "impl": out if isinstance(out, str) else list(out[k].shape),
                                                  "expected_shape": list(a.shape)})
                continue
            vax = list(a.shape).index(1)
            lines.append(model_line(sigma, np.squeeze(a, vax), pads))
            cbs.append(lambda rep, case=case, y=out[k].ravel(): ctx.expect_close("mixed-dict", case, y, h2fs(rep), tol=1e-9)
                       if rep not in ("error", "bad-op") else ctx.mismatch("mixed-dict", case, {"model": rep}))
        ctx.impl_property_evals += 1
        d = prop_dict(sigma, arrays, pads, out)
        if d:
            ctx.violation(case, d)
    # kernel tables
    j = J()
    for sigma in (1, 2, 3):
        t = j["fdtdx"].GaussianSmoothing2D(std_discrete=sigma)
        k = np.asarray(t._create_gaussian_kernel(6 * sigma + 1, sigma), dtype=np.float64)
        ctx.case(op="kernel", std=sigma)
        if abs(float(k.sum()) - 1) > 1e-12 or k.min() < 0 or not np.allclose(k, k[::-1, :], atol=0) or not np.allclose(k, k.T, atol=0):
            ctx.violation({"kernel": sigma}, f"kernel for std={sigma} is not a normalised symmetric non-negative table")
        lines.append(f"kernel {sigma}")
        cbs.append(lambda rep, k=k, sigma=sigma: ctx.expect_close("kernel", {"sigma": sigma}, k.ravel(), h2fs(rep), tol=1e-12))
    # glue: vertical axis detection and the error branch
    for shape in [(3, 4, 5), (1, 4, 5), (4, 1, 5), (4, 5, 1), (1, 1, 5), (4, 1, 1), (1, 1, 1)]:
        out = impl(1, np.full(shape, 0.5), [None] * 4, init=False)
        ctx.case(op="axis", nontrivial=("axis", shape))
        real = "error" if isinstance(out, str) else str(list(shape).index(1))
        lines.append("axis %d %d %d" % shape)
        cbs.append(lambda rep, real=real, shape=shape: ctx.expect_equal("axis", {"shape": shape}, real, rep))
    # degenerate width 0: 0/0 in the exponent, NaN everywhere on both sides (not an input of the property)
    x2 = gen_design(rng, 3, 4, "unit")
    y3 = impl(0, np.expand_dims(x2, 2), [None] * 4, init=False)
    ctx.case(op="std0")
    lines.append(model_line(0, x2, [None] * 4))
    cbs.append(lambda rep, y3=y3: ctx.expect_equal("std0", {"sigma": 0}, bool(np.all(np.isnan(y3))), bool(np.all(np.isnan(h2fs(rep))))))
    for cb, rep in zip(cbs, ctx.driver.ask_many(lines)):
        cb(rep)


# ------------------------------------------------------------------------------------------- S
def _eval(inp):
    if "dict" in inp:
        return prop_dict(inp["sigma"], inp["dict"], inp["pads"])
    pads = [None if p is None else np.asarray(p, dtype=np.float64) for p in inp["pads"]]
    return prop(inp["sigma"], np.asarray(inp["x2"], dtype=np.float64), pads, inp.get("v", 2))


def search(ctx, hints):
    for h in hints:
        if isinstance(h, dict) and ("x2" in h or "dict" in h) and h.get("sigma", 0) >= 1:
            ctx.impl_property_evals += 1
            d = _eval(h)
            if d:
                ctx.violation(h, d)
                return
    rng = ctx.rng.fork()
    # smallest designs first; every padding pattern; a unit impulse makes a misplaced kernel / padding visible
    for (nx, ny) in [(1, 1), (1, 2), (2, 1), (2, 2), (2, 3), (3, 2), (3, 3), (4, 5), (7, 4)]:
        for sigma in (1, 2):
            for k in range(16):
                pattern = tuple((k >> b) & 1 for b in range(4))
                for kind in ("impulse", "const", "unit"):
                    if kind == "impulse":
                        x2 = np.zeros((nx, ny))
                        x2[0, ny - 1] = 1.0
                        pads = gen_pads(rng, nx, ny, pattern, "unit")
                    elif kind == "const":
                        x2 = np.full((nx, ny), 0.37)
                        pads = gen_pads(rng, nx, ny, pattern, "unit", const=0.37)
                    else:
                        x2 = gen_design(rng, nx, ny, "unit")
                        pads = gen_pads(rng, nx, ny, pattern, "unit")
                    for v in ((0,) if nx == 1 else (1,) if ny == 1 else (0, 1, 2)):
                        inp = to_case(sigma, x2, pads, v)
                        ctx.impl_property_evals += 1
                        d = _eval(inp)
                        if d:
                            ctx.violation(inp, d)
                            return


def replay(ctx, inp):
    return _eval(inp)
