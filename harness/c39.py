"""C39 — fdtdx.Material normalisation / predicates / ordering / complex permittivity vs lean/FdtdxModel/C39.lean"""
import math
import warnings

from .common import f2h, h2fs

RULE = ("K, four streams observed at fdtdx.Material and the list builders of fdtdx.materials: (norm) scalar float/int, 3-tuples of "
        "floats, 3-tuples containing an int (ValueError), nested 3x3 with row lengths 2/3/4, mixed row/float tuples, 9-tuples, "
        "tuples of length 0,1,2,4,8,10, for a random one of the four properties, through the constructor and through "
        "aset(<property>, value); (pred) tensors that are exactly isotropic / isotropic within 1e-10 and 1e-8 relative / diagonal / "
        "with a tiny or large off-diagonal entry / identity / zero, plus a fixed structured set in every run (antisymmetric g/-g pairs "
        "at each of the three index pairs with equal / unequal / zero / unit diagonal, three cancelling entries, a single off-diagonal entry "
        "at each of the six positions with either sign and magnitudes 0.3 / 1e-9 / 1e-12 / 1e-300, diagonals around the 1e-9 tolerance); "
        "each tensor is placed in all four properties and isotropic_property_value is checked too; Hermitian (gyrotropic) complex "
        "permittivities are always sent through from_complex_permittivity and every Material built there is re-classified; all predicates of Material incl. the is_all_* conjunctions; "
        "(mats) dicts of 1-5 materials drawn from a small value pool so that sort keys tie on 1-4 leading entries, three list "
        "modes, all five list builders + compute_ordered_materials; (disp) dicts of 2-5 materials with 1-3 dispersive ones (Lorentz / Drude "
        "poles), distinct keys, written in shuffled (mostly non-canonical, often descending) insertion order: the rows of "
        "compute_allowed_dispersive_coefficients (c1..c4, num_components 1 and 3) against the model's canonical order, each row "
        "identified with the block computed for that material alone; (cplx) from_complex_permittivity with scalar / 3 / 9 / nested "
        "complex tensors, complex or default permeability, reference given as frequency / wavelength / WaveCharacter / none / two, "
        "singular real parts and wrong shapes. Model compared exactly (lists, flags, order) or to 1e-12 (floats). Independent "
        "oracle: equivalent input forms give identical Materials; predicates recomputed from the tensor; every list entry i "
        "belongs to names[i]; keys ascending; same order after shuffling the dict when keys are distinct; eps' + i*sigma/(w*eps0) "
        "equals the requested complex permittivity at the reference frequency. non-trivial = anything but a plain scalar input.")

PROPS = ["permittivity", "permeability", "electric_conductivity", "magnetic_conductivity"]
_env = None


def E():
    global _env
    if _env is None:
        import fdtdx
        from fdtdx import constants, materials
        _env = dict(fdtdx=fdtdx, M=fdtdx.Material, mats=materials, c=constants.c, eps0=constants.eps0, mu0=constants.mu0)
    return _env


# ---------------------------------------------------------------------------------------- encoding of inputs
def build_input(d):
    """d: ["S", x] | ["Si", n] | ["T", [item..]], item: ["F", x] | ["I", n] | ["R", [x..]]  ->  python value"""
    if d[0] == "S":
        return float(d[1])
    if d[0] == "Si":
        return int(d[1])
    out = []
    for it in d[1]:
        if it[0] == "F":
            out.append(float(it[1]))
        elif it[0] == "I":
            out.append(int(it[1]))
        else:
            out.append(tuple(float(x) for x in it[1]))
    return tuple(out)


def input_line(d):
    if d[0] in ("S", "Si"):
        return "norm S " + f2h(d[1])
    toks = ["norm", "T", str(len(d[1]))]
    for it in d[1]:
        if it[0] == "F":
            toks += ["F", f2h(it[1])]
        elif it[0] == "I":
            toks += ["O", f2h(it[1])]
        else:
            toks += ["R", str(len(it[1]))] + [f2h(x) for x in it[1]]
    return " ".join(toks)


def rnd(rng):
    return rng.choice([1.0, 2.25, 0.5, 12.0, -1.5, 0.0, 3.0e-3, rng.uniform(0.1, 9.0), rng.uniform(-4, 4)])


def gen_norm(rng):
    k = rng.randint(0, 13)
    F = lambda: ["F", rnd(rng)]
    if k == 0:
        return ["S", rnd(rng)], "scalar"
    if k == 1:
        return ["Si", rng.randint(1, 9)], "scalar-int"
    if k in (2, 3):
        return ["T", [F(), F(), F()]], "diag3"
    if k == 4:
        its = [F(), F(), F()]
        its[rng.randint(0, 2)] = ["I", rng.randint(1, 5)]
        return ["T", its], "diag3-with-int"
    if k in (5, 6):
        return ["T", [["R", [rnd(rng) for _ in range(3)]] for _ in range(3)]], "nested"
    if k == 7:
        rows = [["R", [rnd(rng) for _ in range(3)]] for _ in range(3)]
        rows[rng.randint(0, 2)] = ["R", [rnd(rng) for _ in range(rng.choice([0, 2, 4]))]]
        return ["T", rows], "nested-badrow"
    if k == 8:
        its = [["R", [rnd(rng) for _ in range(3)]] for _ in range(3)]
        its[rng.randint(0, 2)] = F()
        return ["T", its], "mixed-row-float"
    if k in (9, 10):
        return ["T", [F() for _ in range(9)]], "flat9"
    if k == 11:
        its = [F() for _ in range(9)]
        its[rng.randint(0, 8)] = ["I", rng.randint(0, 5)]
        return ["T", its], "flat9-with-int"
    n = rng.choice([0, 1, 2, 4, 8, 10])
    return ["T", [F() for _ in range(n)]], "badlen"


def impl_norm(case):
    e = E()
    val = build_input(case["input"])
    prop = PROPS[case["prop"]]
    with warnings.catch_warnings():
        warnings.simplefilter("ignore")
        try:
            if case["via"] == "ctor":
                m = e["M"](**{prop: val})
            else:
                m = e["M"]().aset(prop, val)
        except ValueError:
            return None
    got = getattr(m, prop)
    if not (isinstance(got, tuple) and len(got) == 9):
        return ("malformed", repr(got))
    return [float(x) for x in got]


def equivalent_forms(p9):
    """all input forms that denote the tensor p9 (list of 9 floats)"""
    forms = [tuple(p9), (tuple(p9[0:3]), tuple(p9[3:6]), tuple(p9[6:9]))]
    offd = [p9[i] for i in (1, 2, 3, 5, 6, 7)]
    if all(x == 0.0 for x in offd):
        forms.append((p9[0], p9[4], p9[8]))
        if p9[0] == p9[4] == p9[8]:
            forms.append(p9[0])
    return forms


def check_norm_property(case):
    """four forms -> one tensor, on the implementation only"""
    e = E()
    got = impl_norm(case)
    if got is None or isinstance(got, tuple):
        return None if got is None else f"Material.{PROPS[case['prop']]} is not a 9-tuple: {got[1]}"
    prop = PROPS[case["prop"]]
    with warnings.catch_warnings():
        warnings.simplefilter("ignore")
        for f in equivalent_forms(got):
            other = [float(x) for x in getattr(e["M"](**{prop: f}), prop)]
            if other != got:
                return f"input {f!r} normalises to {other}, but the equivalent {build_input(case['input'])!r} gives {got}"
    return None


# ---------------------------------------------------------------------------------------------- predicates
def gen_tensor(rng):
    k = rng.randint(0, 9)
    v = rng.choice([1.0, 2.25, 7.5, 1e-3, 3e4])
    if k == 0:
        return [v, 0, 0, 0, v, 0, 0, 0, v], "iso"
    if k == 1:
        d = rng.choice([1e-10, 5e-10, 0.9e-9])
        return [v, 0, 0, 0, v * (1 + d), 0, 0, 0, v], "iso-within-tol"
    if k == 2:
        d = rng.choice([1.1e-9, 1e-8, 1e-3])
        p = [v, 0, 0, 0, v, 0, 0, 0, v]
        p[rng.choice([0, 4, 8])] = v * (1 + d)
        return p, "iso-outside-tol"
    if k == 3:
        return [v, 0, 0, 0, v * 2, 0, 0, 0, v * rng.uniform(0.5, 3)], "diag"
    if k == 4:
        p = [v, 0, 0, 0, v, 0, 0, 0, v]
        p[rng.choice([1, 2, 3, 5, 6, 7])] = rng.choice([1e-300, -1e-30, 1e-12, 0.3])
        return p, "offdiag"
    if k == 5:
        return [1.0, 0, 0, 0, 1.0, 0, 0, 0, 1.0], "identity"
    if k == 6:
        return [0.0] * 9, "zero"
    if k == 7:
        p = [1.0, 0, 0, 0, 1.0, 0, 0, 0, 1.0]
        p[rng.randint(0, 8)] += rng.choice([1e-10, 1e-7, -1e-10, 0.5])
        return p, "near-identity"
    if k == 8:
        p = [0.0] * 9
        p[rng.randint(0, 8)] = rng.choice([1e-300, 1e-9, 2.0, -1.0])
        return p, "one-entry"
    return [rng.uniform(-2, 5) for _ in range(9)], "full"


OFFD = (1, 2, 3, 5, 6, 7)
PAIRS = ((1, 3), (2, 6), (5, 7))


def structured_tensors():
    """deterministic list, generated in every run: cancelling / antisymmetric off-diagonals, single off-diagonal entries at each
    position with either sign, entries around the isclose tolerance, equal and unequal diagonals"""
    out = []
    for diag, dtag in (([2.0, 2.0, 2.0], "eqdiag"), ([2.0, 2.5, 2.0], "neqdiag"), ([0.0, 0.0, 0.0], "zerodiag"), ([1.0, 1.0, 1.0], "unitdiag")):
        base = [diag[0], 0.0, 0.0, 0.0, diag[1], 0.0, 0.0, 0.0, diag[2]]
        for (i, j) in PAIRS:
            for g in (0.3, 5.0, 1e-9, 1e-12, 1e-300):
                for sgn in (1.0, -1.0):
                    p = list(base)
                    p[i], p[j] = sgn * g, -sgn * g
                    out.append((p, f"gyro-{dtag}"))
        p = list(base)
        p[1], p[2], p[5] = 0.4, 0.1, -0.5            # three entries cancelling without being pairwise antisymmetric
        out.append((p, f"cancel3-{dtag}"))
        p = list(base)
        p[1], p[3], p[2], p[6], p[5], p[7] = 0.2, -0.2, 0.7, -0.7, -1.5, 1.5
        out.append((p, f"gyro-all-{dtag}"))
        for i in OFFD:
            for g in (0.3, 1e-9, 1e-12, 1e-300):
                for sgn in (1.0, -1.0):
                    p = list(base)
                    p[i] = sgn * g
                    out.append((p, f"single-offdiag-{dtag}"))
        p = list(base)
        p[1], p[3] = 0.3, 0.3                          # symmetric (not cancelling)
        out.append((p, f"sym-{dtag}"))
    for d in (0.5e-9, 0.99e-9, 1.01e-9, 2e-9):         # diagonal entries around the relative tolerance
        out.append(([2.0, 0.0, 0.0, 0.0, 2.0 * (1 + d), 0.0, 0.0, 0.0, 2.0], "diag-near-tol"))
        out.append(([2.0, 0.0, 0.0, 0.0, 2.0, 0.0, 0.0, 0.0, 2.0 * (1 - d)], "diag-near-tol"))
    return out


def isclose_oracle(a, b):
    return a == b or abs(a - b) <= 1e-9 * max(abs(a), abs(b))


def pred_oracle(p):
    diag = all(p[i] == 0.0 for i in (1, 2, 3, 5, 6, 7))
    iso = diag and isclose_oracle(p[0], p[4]) and isclose_oracle(p[4], p[8])
    ident = [1.0 if i % 4 == 0 else 0.0 for i in range(9)]
    magnetic = not all(isclose_oracle(p[i], ident[i]) for i in range(9))
    cond = not all(x == 0.0 for x in p)
    return [iso, diag, magnetic, cond]


# ------------------------------------------------------------------------------------------------- materials
POOL = [1.0, 2.25, 2.25, 4.0, 12.0]


def gen_mat(rng):
    """description of one material: four 9-lists"""
    def prop(base):
        k = rng.randint(0, 3)
        v = rng.choice(base)
        if k == 0:
            return [v, 0.0, 0.0, 0.0, v, 0.0, 0.0, 0.0, v]
        if k == 1:
            return [v, 0.0, 0.0, 0.0, rng.choice(base), 0.0, 0.0, 0.0, rng.choice(base)]
        p = [rng.choice(base) * rng.choice([1.0, 0.1]) for _ in range(9)]
        p[0] = v
        return p
    return [prop(POOL), prop([1.0, 1.0, 1.0, 2.0]), prop([0.0, 0.0, 0.5, 1.5]), prop([0.0, 0.0, 0.0, 0.25])]


def build_mats(desc):
    e = E()
    with warnings.catch_warnings():
        warnings.simplefilter("ignore")
        return {name: e["M"](permittivity=tuple(m[0]), permeability=tuple(m[1]), electric_conductivity=tuple(m[2]),
                             magnetic_conductivity=tuple(m[3])) for name, m in desc}


def impl_lists(mats, mode):
    mm = E()["mats"]
    kw = dict(isotropic=(mode == 0), diagonally_anisotropic=(mode == 1))
    return (mm.compute_ordered_names(mats),
            [mm.compute_allowed_permittivities(mats, **kw), mm.compute_allowed_permeabilities(mats, **kw),
             mm.compute_allowed_electric_conductivities(mats, **kw), mm.compute_allowed_magnetic_conductivities(mats, **kw)],
            mm.compute_ordered_materials(mats), mm.compute_ordered_material_name_tuples(mats))


def project(p, mode):
    return (p[0],) if mode == 0 else ((p[0], p[4], p[8]) if mode == 1 else tuple(p))


def mats_property(desc, mode, shuffled_desc=None):
    """one common order for every list; ascending keys; independent of dict order when keys are distinct"""
    mats = build_mats(desc)
    names, lists, omats, pairs = impl_lists(mats, mode)
    if sorted(names) != sorted(mats.keys()):
        return f"ordered names {names} are not the dict's names"
    for li, pname in zip(lists, PROPS):
        if len(li) != len(names):
            return f"list of {pname} has {len(li)} entries for {len(names)} materials"
        for i, n in enumerate(names):
            if tuple(li[i]) != project(getattr(mats[n], pname), mode):
                return f"{pname} list entry {i} is not the {pname} of material {n!r} (names order {names})"
    for i, n in enumerate(names):
        if omats[i] is not mats[n] or pairs[i][0] != n or pairs[i][1] is not mats[n]:
            return f"compute_ordered_materials / name tuples entry {i} is not material {n!r}"
    keys = [tuple(getattr(mats[n], p)[0] for p in PROPS) for n in names]
    if any(keys[i] > keys[i + 1] for i in range(len(keys) - 1)):
        return f"materials are not in ascending key order: {keys}"
    if shuffled_desc is not None and len(set(keys)) == len(keys):
        names2 = impl_lists(build_mats(shuffled_desc), mode)[0]
        if names2 != names:
            return f"order depends on dict insertion order although keys are distinct: {names} vs {names2}"
    return None


# --------------------------------------------------------------------------------- dispersive coefficient tables
DT_DISP = 1e-17


def gen_disp_mats(rng):
    """2-5 materials, at least one (usually two) dispersive, distinct sort keys, in SHUFFLED insertion order"""
    n = rng.randint(2, 5)
    eps = rng.shuffle([1.0, 1.5, 2.25, 4.0, 6.0, 9.0, 12.0])[:n]
    names = rng.shuffle(["air", "glass", "lorentz", "metal", "zz", "A"])[:n]
    ndisp = rng.randint(1, min(3, n))
    desc = []
    for i in range(n):
        poles = []
        if i < ndisp:
            for _ in range(rng.randint(1, 3)):
                if rng.chance(0.5):
                    poles.append(["lorentz", rng.choice([1e15, 2e15, 3.3e15]), rng.choice([1e13, 3e13]), rng.choice([0.7, 2.0, 1.3])])
                else:
                    poles.append(["drude", rng.choice([2e15, 1e15]), rng.choice([1e14, 5e13])])
        desc.append([names[i], {"eps": eps[i], "mu": rng.choice([1.0, 1.0, 1.5]), "sigma": rng.choice([0.0, 0.0, 3.0]),
                                "sigma_m": rng.choice([0.0, 0.5]), "poles": poles}])
    desc = rng.shuffle(desc)
    if rng.chance(0.7):      # make sure the insertion order is not already the canonical one
        desc = sorted(desc, key=lambda d: -d[1]["eps"]) if rng.chance(0.5) else desc
    return desc


def build_disp_mats(desc):
    e = E()
    from fdtdx.dispersion import DispersionModel, DrudePole, LorentzPole
    out = {}
    with warnings.catch_warnings():
        warnings.simplefilter("ignore")
        for name, m in desc:
            poles = tuple(LorentzPole(resonance_frequency=p[1], damping=p[2], delta_epsilon=p[3]) if p[0] == "lorentz"
                          else DrudePole(plasma_frequency=p[1], damping=p[2]) for p in m["poles"])
            out[name] = e["M"](permittivity=m["eps"], permeability=m["mu"], electric_conductivity=m["sigma"],
                               magnetic_conductivity=m["sigma_m"], dispersion=DispersionModel(poles=poles) if poles else None)
    return out


def disp_tables(mats, max_poles, ncomp):
    """(c1..c4) of compute_allowed_dispersive_coefficients flattened per material row: list over materials of flat float lists"""
    import numpy as np
    mm = E()["mats"]
    c = mm.compute_allowed_dispersive_coefficients(mats, dt=DT_DISP, max_num_poles=max_poles, num_components=ncomp)
    n = len(mats)
    return [[float(x) for k in range(4) for x in np.asarray(c[k][i]).ravel()] for i in range(n)]


def disp_property(desc, ncomp, shuffled=None):
    """row i of c1..c4 belongs to material names[i]; independent of insertion order (keys are distinct)"""
    mm = E()["mats"]
    mats = build_disp_mats(desc)
    names = mm.compute_ordered_names(mats)
    maxp = mm.compute_max_dispersive_poles(mats)
    table = disp_tables(mats, maxp, ncomp)
    if len(table) != len(names):
        return f"dispersive coefficient arrays have {len(table)} rows for {len(names)} materials", None
    blocks = {}
    for nme in mats:        # the block of one material alone: no order involved
        blocks[nme] = disp_tables({nme: mats[nme]}, maxp, ncomp)[0]
    for i, nme in enumerate(names):
        if table[i] != blocks[nme]:
            owner = [k for k, b in blocks.items() if b == table[i]]
            return (f"dispersive c1..c4 row {i} is not the coefficient block of material {nme!r} (ordered names {names}, dict order "
                    f"{list(mats)}); it is the block of {owner}"), None
    if shuffled is not None:
        t2 = disp_tables(build_disp_mats(shuffled), maxp, ncomp)
        if t2 != table:
            return "dispersive coefficient arrays depend on the dict insertion order", None
    return None, (names, table, blocks, maxp)


# ---------------------------------------------------------------------------------------------------- complex
def gen_cplx_value(rng, allow_bad=True):
    """returns (description, shape, rows, flat complex list or None when the shape is rejected before flattening)"""
    k = rng.randint(0, 11 if allow_bad else 7)
    cz = lambda lo=1.0: [rng.uniform(lo, 6.0), rng.choice([0.0, 0.1, 0.35, -0.2, 2.0])]
    off = lambda: [rng.choice([0.0, 0.0, 0.2, -0.3]), rng.choice([0.0, 0.05, -0.1])]
    if k in (0, 1):
        return ["S", cz()], "scalar"
    if k == 2:
        return ["S", [rng.uniform(1, 5), 0.0]], "scalar-real"
    if k in (3, 4):
        return ["T", [cz(), cz(), cz()]], "flat3"
    if k in (5, 6, 7):
        m = [cz() if i % 4 == 0 else off() for i in range(9)]
        m = [[m[i][0] + (3.0 if i % 4 == 0 else 0.0), m[i][1]] for i in range(9)]     # diagonally dominant: invertible
        return (["T", m], "flat9") if k == 5 else (["N", [m[0:3], m[3:6], m[6:9]]], "nested")
    if k == 8 and rng.chance(0.5):
        e0, g = rng.uniform(1.5, 5.0), rng.choice([0.3, 0.05, 1.2])
        (i, j) = rng.choice(list(PAIRS))
        m = [[e0, 0.0] if q % 4 == 0 else [0.0, 0.0] for q in range(9)]
        m[i], m[j] = [0.0, g], [0.0, -g]          # Hermitian (gyrotropic): antisymmetric real conductivity
        return (["T", m], "hermitian9") if rng.chance(0.5) else (["N", [m[0:3], m[3:6], m[6:9]]], "hermitian-nested")
    if k == 8:
        return ["T", [cz() for _ in range(rng.choice([1, 2, 4, 8]))]], "badlen"
    if k == 9:
        rows = [[cz(), off(), off()], [off(), cz(), off()], [off(), off(), cz()]]
        rows[rng.randint(0, 2)] = [cz() for _ in range(rng.choice([2, 4]))]
        return ["N", rows], "nested-badrow"
    if k == 10:
        sing = rng.choice(["zero", "rank1", "zero-row"])
        if sing == "zero":
            return ["S", [0.0, 0.3]], "singular-scalar"
        if sing == "rank1":
            return ["T", [[1.0 * a * b, 0.1] for a in (1.0, 2.0, 3.0) for b in (1.0, 2.0, 3.0)]], "singular-rank1"
        m = [cz() if i % 4 == 0 else off() for i in range(9)]
        for j in range(3):
            m[3 + j] = [0.0, 0.2]
        return ["T", m], "singular-zero-row"
    return ["T", [cz(), cz(), 0.0 if False else [0.0, 0.4]]], "singular-diag"


def build_cplx(d):
    if d[0] == "S":
        return complex(*d[1])
    if d[0] == "T":
        return tuple(complex(*z) for z in d[1])
    return tuple(tuple(complex(*z) for z in row) for row in d[1])


def cplx_tokens(d):
    """-> <shape> <k rows…> <n> <2n floats>"""
    if d[0] == "S":
        return ["0", "0", "1", f2h(d[1][0]), f2h(d[1][1])]
    if d[0] == "T":
        return ["1", "0", str(len(d[1]))] + [f2h(x) for z in d[1] for x in z]
    flat = [z for row in d[1] for z in row]
    return ["2", str(len(d[1]))] + [str(len(r)) for r in d[1]] + [str(len(flat))] + [f2h(x) for z in flat for x in z]


def gen_reference(rng):
    k = rng.randint(0, 9)
    f = rng.choice([2e14, 1.934e14, 3e9, 5.5e14])
    if k <= 2:
        return {"frequency": f}
    if k <= 5:
        return {"wavelength": rng.choice([1.55e-6, 0.8e-6, 0.1])}
    if k == 6:
        return {"reference": ["wavelength", 1.3e-6]}
    if k == 7:
        return {"reference": ["frequency", f]}
    if k == 8:
        return {}
    return {"frequency": f, "wavelength": 1e-6}


def resolve_ref(ref):
    """python kwargs + the angular frequency computed independently (None when the spec is invalid)"""
    e = E()
    kw, freqs = {}, []
    for k, v in ref.items():
        if k == "reference":
            kw[k] = e["fdtdx"].WaveCharacter(**{v[0]: v[1]})
            freqs.append(v[1] if v[0] == "frequency" else e["c"] / v[1])
        else:
            kw[k] = v
            freqs.append(v if k == "frequency" else e["c"] / v)
    return kw, (2.0 * math.pi * freqs[0] if len(freqs) == 1 else None)


def impl_cplx(case):
    e = E()
    kw, omega = resolve_ref(case["ref"])
    args = dict(kw)
    if case["mu"] is not None:
        args["permeability"] = build_cplx(case["mu"])
    with warnings.catch_warnings():
        warnings.simplefilter("ignore")
        try:
            m = e["M"].from_complex_permittivity(build_cplx(case["eps"]), **args)
        except ValueError:
            return None, omega
    return m, omega


def cplx_property(case, m, omega):
    """eps' + i sigma/(w eps0) reproduces the requested tensor at the reference frequency (likewise mu)"""
    e = E()
    for d, rp, sp, vac, nm in ((case["eps"], "permittivity", "electric_conductivity", e["eps0"], "permittivity"),
                               (case["mu"], "permeability", "magnetic_conductivity", e["mu0"], "permeability")):
        if d is None:
            want = [1.0 + 0j if i % 4 == 0 else 0j for i in range(9)]
        elif d[0] == "S":
            want = [complex(*d[1]) if i % 4 == 0 else 0j for i in range(9)]
        elif d[0] == "T" and len(d[1]) == 3:
            want = [complex(*d[1][i // 4]) if i % 4 == 0 else 0j for i in range(9)]
        elif d[0] == "T":
            want = [complex(*z) for z in d[1]]
        else:
            want = [complex(*z) for row in d[1] for z in row]
        re_, sg = getattr(m, rp), getattr(m, sp)
        got = [complex(re_[i], sg[i] / (omega * vac)) for i in range(9)]
        for i in range(9):
            if abs(got[i] - want[i]) > 1e-12 * max(1.0, abs(want[i])):
                return f"{nm}[{i}] at the reference frequency is {got[i]!r}, requested {want[i]!r}"
    return None


# ----------------------------------------------------------------------------------------------------- K
def run(ctx):
    e = E()
    rng = ctx.rng
    lines, post = [], []

    # ---- norm
    for i in range(ctx.scale(300, 2000)):
        inp, tag = gen_norm(rng)
        case = {"stream": "norm", "input": inp, "prop": rng.randint(0, 3), "via": rng.choice(["ctor", "ctor", "aset"]), "tag": tag}
        got = impl_norm(case)
        ctx.case(sample=case if i == 5 else None, nontrivial=None if tag == "scalar" else ("norm", i), stream="norm", norm_kind=tag,
                 via=case["via"], outcome="error" if got is None else "ok")
        ctx.impl_property_evals += 1
        d = check_norm_property(case)
        if d:
            ctx.violation(case, d)
        lines.append(input_line(inp))
        post.append(("norm", case, got))

    # ---- predicates
    structured = structured_tensors()
    for i in range(len(structured) + ctx.scale(300, 2000)):
        p, tag = structured[i] if i < len(structured) else gen_tensor(rng)
        p = [float(x) for x in p]
        case = {"stream": "pred", "tensor": p, "tag": tag}
        got, d = impl_pred(case)
        ctx.case(sample=case if i == 3 else None, nontrivial=("pred", i), stream="pred", pred_kind=tag, flags="".join(str(int(b)) for b in got))
        ctx.impl_property_evals += 1
        if d:
            ctx.violation(case, d)
        lines.append("pred " + f2h(1e-9) + " " + " ".join(f2h(x) for x in p))
        post.append(("pred", case, got))

    # ---- material lists
    for i in range(ctx.scale(200, 1500)):
        n = rng.randint(1, 5)
        names = rng.shuffle(["air", "si", "sio2", "poly", "zz", "A", "b2"])[:n]
        desc = [[nm, gen_mat(rng)] for nm in names]
        if n >= 2 and rng.chance(0.3):       # force a full key tie between two different materials
            desc[1][1] = [list(p) for p in desc[0][1]]
            desc[1][1][0][4] += 1.0
        mode = rng.randint(0, 2)
        case = {"stream": "mats", "materials": desc, "mode": mode, "shuffled": rng.shuffle(desc)}
        mats = build_mats(desc)
        inames, ilists, _, _ = impl_lists(mats, mode)
        keys = [tuple(m[j][0] for j in range(4)) for _, m in desc]
        ties = len(keys) - len(set(keys))
        ctx.case(sample=None, nontrivial=("mats", i), stream="mats", n_materials=n, mode=mode, key_ties=ties)
        ctx.impl_property_evals += 1
        d = mats_property(desc, mode, case["shuffled"])
        if d:
            ctx.violation(case, d)
        lines.append(f"mats {mode} {n} " + " ".join(f2h(x) for _, m in desc for p in m for x in p))
        post.append(("mats", case, (inames, ilists, [nm for nm, _ in desc])))

    # ---- dispersive coefficient tables (every per-material table indexed by the material index)
    for i in range(ctx.scale(60, 400)):
        desc = gen_disp_mats(rng)
        ncomp = rng.choice([1, 3])
        case = {"stream": "disp", "materials": desc, "ncomp": ncomp, "shuffled": rng.shuffle(desc)}
        ctx.impl_property_evals += 1
        d, res = disp_property(desc, ncomp, case["shuffled"])
        order_in = [nm for nm, _ in desc]
        canonical = sorted(order_in, key=lambda nm: dict(desc)[nm]["eps"])
        ctx.case(sample=case if i == 0 else None, nontrivial=("disp", i), stream="disp", n_materials=len(desc),
                 n_dispersive=sum(1 for _, m in desc if m["poles"]), insertion_is_canonical=(order_in == canonical), ncomp=ncomp)
        if d:
            ctx.violation(case, d)
            continue
        names, table, blocks, maxp = res
        mats = build_disp_mats(desc)
        L = len(table[0])
        flat = []
        for nm in order_in:
            m = mats[nm]
            flat += [float(x) for p in PROPS for x in getattr(m, p)] + blocks[nm]
        lines.append(f"matsd {len(desc)} {L} " + " ".join(f2h(x) for x in flat))
        post.append(("disp", case, (names, table, order_in)))

    # ---- complex permittivity
    for i in range(ctx.scale(250, 1500)):
        eps, tag = gen_cplx_value(rng)
        if i < 12:                      # Hermitian (gyrotropic) permittivities are always present
            e0, g = 2.0 + 0.25 * i, [0.3, 0.05, 1.2][i % 3]
            (a, b) = PAIRS[i % 3]
            hm = [[e0, 0.0] if q % 4 == 0 else [0.0, 0.0] for q in range(9)]
            hm[a], hm[b] = [0.0, g], [0.0, -g]
            eps, tag = (["T", hm], "hermitian9") if i % 2 else (["N", [hm[0:3], hm[3:6], hm[6:9]]], "hermitian-nested")
        mu, mtag = (None, "default") if rng.chance(0.6) else gen_cplx_value(rng, allow_bad=rng.chance(0.2))
        case = {"stream": "cplx", "eps": eps, "mu": mu, "ref": gen_reference(rng), "tag": tag, "mu_tag": mtag}
        m, omega = impl_cplx(case)
        ctx.case(sample=case if i == 2 else None, nontrivial=("cplx", i), stream="cplx", eps_kind=tag, mu_kind=mtag,
                 ref_kind="+".join(sorted(case["ref"])) or "none", outcome="error" if m is None else "ok")
        if m is not None:
            ctx.impl_property_evals += 1
            d = cplx_property(case, m, omega) or material_predicates_consistent(m)
            if d:
                ctx.violation(case, d)
        if omega is None:
            ctx.expect_equal("cplx-reference", case, m is None, True)     # zero or two references must raise
            continue
        mu_toks = cplx_tokens(mu) if mu is not None else ["0", "0", "1", f2h(1.0), f2h(0.0)]
        lines.append(" ".join(["cplx", f2h(omega), f2h(e["eps0"]), f2h(e["mu0"]), f2h(1e-9)] + cplx_tokens(eps) + mu_toks))
        post.append(("cplx", case, m))

    reps = ctx.driver.ask_many(lines)
    for (kind, case, got), rep in zip(post, reps):
        if kind == "norm":
            if isinstance(got, tuple):
                ctx.mismatch("norm", case, {"impl": got[1], "model": rep})
            elif got is None:
                ctx.expect_equal("norm", case, "error", rep)
            elif ctx.expect_equal("norm-status", case, "ok", rep.split(" ")[0]):
                ctx.expect_equal("norm", case, [f2h(x) for x in got], rep.split(" ")[1:])
        elif kind == "pred":
            ctx.expect_equal("pred", case, " ".join("1" if b else "0" for b in got), rep)
        elif kind == "mats":
            inames, ilists, order_in = got
            parts = rep.split(" | ")
            ctx.expect_equal("mats-order", case, inames, [order_in[int(t)] for t in parts[0].split()])
            for j in range(4):
                flat = [float(x) for t in ilists[j] for x in t]
                ctx.expect_equal("mats-" + PROPS[j], case, [f2h(x) for x in flat], parts[j + 1].split())
        elif kind == "disp":
            names, table, order_in = got
            parts = rep.split(" | ")
            ctx.expect_equal("disp-order", case, names, [order_in[int(t)] for t in parts[0].split()])
            ctx.expect_equal("disp-rows", case, [f2h(x) for row in table for x in row], parts[1].split() if len(parts) > 1 else [])
        else:
            if got is None:
                ctx.expect_equal("cplx", case, "error", rep)
            elif ctx.expect_equal("cplx-status", case, "ok", rep.split(" ")[0]):
                flat = [float(x) for p in PROPS for x in getattr(got, p)]
                ctx.expect_close("cplx", case, flat, h2fs(rep[3:]), tol=1e-12)


def material_predicates_consistent(m):
    """every classification predicate of a Material agrees with its stored tensors (used for any Material K builds)"""
    mm = E()["mats"]
    flags = []
    for pr in PROPS:
        p = [float(x) for x in getattr(m, pr)]
        want = pred_oracle(p)
        iso = getattr(m, "is_isotropic_" + pr)
        dia = getattr(m, "is_diagonally_anisotropic_" + pr)
        if iso != want[0] or dia != want[1]:
            return f"is_isotropic_{pr}={iso}, is_diagonally_anisotropic_{pr}={dia} but the stored tensor {tuple(p)} says {want[0]}, {want[1]}"
        if iso and not dia:
            return f"{pr} is reported isotropic but not diagonally anisotropic"
        try:
            val = mm.isotropic_property_value(tuple(p), pr)
            if not want[0] or val != p[0]:
                return f"isotropic_property_value({tuple(p)}) returned {val!r} for a tensor that is {'not ' if not want[0] else ''}isotropic"
        except ValueError:
            if want[0]:
                return f"isotropic_property_value rejected the isotropic tensor {tuple(p)}"
        flags.append((want[0], want[1]))
    if m.is_all_isotropic != all(f[0] for f in flags) or m.is_all_diagonally_anisotropic != all(f[1] for f in flags):
        return "is_all_isotropic / is_all_diagonally_anisotropic is not the conjunction over the four stored tensors"
    return None


def impl_pred(case):
    """all predicates of Material for the tensor placed in each property; returns model-comparable flags + oracle verdict"""
    e = E()
    p = tuple(case["tensor"])
    with warnings.catch_warnings():
        warnings.simplefilter("ignore")
        ms = [e["M"](**{pr: p}) for pr in PROPS]
    iso = [ms[0].is_isotropic_permittivity, ms[1].is_isotropic_permeability, ms[2].is_isotropic_electric_conductivity,
           ms[3].is_isotropic_magnetic_conductivity]
    dia = [ms[0].is_diagonally_anisotropic_permittivity, ms[1].is_diagonally_anisotropic_permeability,
           ms[2].is_diagonally_anisotropic_electric_conductivity, ms[3].is_diagonally_anisotropic_magnetic_conductivity]
    got = [iso[0], dia[0], ms[1].is_magnetic, ms[2].is_electrically_conductive]
    want = pred_oracle(list(p))
    detail = None
    if len(set(iso)) != 1 or len(set(dia)) != 1:
        detail = f"isotropy/diagonality of the same tensor differs between properties: {iso} {dia}"
    elif got != want:
        detail = f"predicates (iso, diag, magnetic, conductive) = {got}, the tensor {p} says {want}"
    elif ms[3].is_magnetically_conductive != want[3]:
        detail = "is_magnetically_conductive disagrees with the tensor"
    else:
        for k, m in enumerate(ms):      # the other three properties are at their (isotropic) defaults
            if m.is_all_isotropic != want[0] or m.is_all_diagonally_anisotropic != want[1]:
                detail = f"is_all_isotropic / is_all_diagonally_anisotropic wrong with the tensor in {PROPS[k]}"
            detail = detail or material_predicates_consistent(m)
    return got, detail


# ----------------------------------------------------------------------------------------------------- S
def replay(ctx, inp):
    s = inp["stream"]
    if s == "norm":
        return check_norm_property(inp) or norm_contract(inp)
    if s == "pred":
        return impl_pred(inp)[1]
    if s == "mats":
        return mats_property(inp["materials"], inp["mode"], inp.get("shuffled"))
    if s == "disp":
        return disp_property(inp["materials"], inp["ncomp"], inp.get("shuffled"))[0]
    m, omega = impl_cplx(inp)
    if omega is None:
        return None if m is None else "from_complex_permittivity accepted zero or several reference specifications"
    exp_ok = cplx_expected_ok(inp)
    if m is None:
        return "from_complex_permittivity raised on a valid invertible tensor" if exp_ok else None
    if not exp_ok:
        return "from_complex_permittivity accepted a malformed or singular tensor"
    return cplx_property(inp, m, omega) or material_predicates_consistent(m)


def cplx_expected_ok(case):
    return not any(t.startswith(("bad", "nested-bad", "singular")) for t in (case["tag"], case["mu_tag"]))


def norm_contract(case):
    """documented contract of the four input forms (used by the search only)"""
    got = impl_norm(case)
    d = case["input"]
    tag = case["tag"]
    should_fail = tag in ("diag3-with-int", "nested-badrow", "mixed-row-float", "badlen")
    if isinstance(got, tuple):
        return got[1]
    if should_fail:
        return None if got is None else f"{tag} input {build_input(d)!r} was accepted as {got}"
    if got is None:
        return f"valid {tag} input {build_input(d)!r} was rejected"
    v = build_input(d)
    if tag in ("scalar", "scalar-int"):
        want = [float(v), 0, 0, 0, float(v), 0, 0, 0, float(v)]
    elif tag == "diag3":
        want = [v[0], 0, 0, 0, v[1], 0, 0, 0, v[2]]
    elif tag == "nested":
        want = [x for r in v for x in r]
    else:
        want = list(v)
    return None if [float(x) for x in want] == got else f"{tag} input {v!r} normalised to {got}, expected {want}"


def search(ctx, hints):
    for h in hints:
        if isinstance(h, dict) and "stream" in h:
            d = replay(ctx, h)
            if d:
                ctx.violation(h, d)
                return
    rng = ctx.rng.fork()
    for i in range(200):
        desc = gen_disp_mats(rng)
        case = {"stream": "disp", "materials": desc, "ncomp": rng.choice([1, 3]), "shuffled": rng.shuffle(desc)}
        ctx.impl_property_evals += 1
        d = replay(ctx, case)
        if d:
            ctx.violation(case, d)
            return
    for i in range(3000):
        k = i % 4
        if k == 0:
            inp, tag = gen_norm(rng)
            case = {"stream": "norm", "input": inp, "prop": rng.randint(0, 3), "via": rng.choice(["ctor", "aset"]), "tag": tag}
        elif k == 1:
            p, tag = gen_tensor(rng)
            case = {"stream": "pred", "tensor": [float(x) for x in p], "tag": tag}
        elif k == 2:
            n = rng.randint(1, 4)
            desc = [[nm, gen_mat(rng)] for nm in rng.shuffle(["air", "si", "sio2", "poly", "zz"])[:n]]
            case = {"stream": "mats", "materials": desc, "mode": rng.randint(0, 2), "shuffled": rng.shuffle(desc)}
        else:
            eps, tag = gen_cplx_value(rng)
            case = {"stream": "cplx", "eps": eps, "mu": None, "ref": gen_reference(rng), "tag": tag, "mu_tag": "default"}
        ctx.impl_property_evals += 1
        d = replay(ctx, case)
        if d:
            ctx.violation(case, d)
            return
