"""C40 — TreeClass.aset / TreeClass._parse_operations vs lean/FdtdxModel/C40.lean"""
import copy

RULE = ("K: random nested values (TreeClass instances of three harness classes with plain and frozen fields, lists, tuples, "
        "dicts with string or integer keys, atoms int/str/None/float; depth <= 4) plus a few real fdtdx configuration objects "
        "(SimulationConfig > GradientConfig > Recorder > modules list). Paths are walks into the value (attribute / [i] incl. "
        "negative / ['k']) rendered with random blanks inside brackets; 45% are then perturbed: index = len, -len, -len-1, "
        "missing key / attribute with create_new_ok on and off (last and inner position), operation kind not supported by the "
        "node (index on object, key on list, attribute on dict, anything on an atom), a tuple on the path, integer-key dicts "
        "addressed by [i]; plus a malformed-string stream (dropped/inserted characters, trailing '->', empty brackets, quotes). "
        "Compared exactly with the model: parsed operation list, ok/error, the result value, the original after the call. "
        "Independent oracle on the implementation: deep value+identity snapshot of the original before/after, type of the result, "
        "result == pure update of the snapshot at the intended path, no container on the result's spine is the original's. "
        "A dedicated stream (96 quick cases) always generates paths that end in, or pass through, a dict key that does not exist yet, "
        "on dicts nested 1-3 levels below plain and frozen fields (through dicts and lists), with create_new_ok on (3/4) and off. "
        "The deep value+identity+key-set snapshot of the original is compared before/after in EVERY case, error cases included. "
        "A render stream (200 quick) draws operation lists (identifiers incl. keywords/dunders, indices incl. negative and 20-digit, keys "
        "with blanks, \"->\", empty; every 4th list contains a name outside the well-formedness predicate), lets the MODEL render the path, "
        "checks it equals the Python rendering, and feeds it to the real _parse_operations and to the model parser: same result, and the "
        "original operations for well-formed lists. "
        "non-trivial = path of length >= 2 or any perturbed/malformed case.")

_env = None


def E():
    """lazy imports + harness classes"""
    global _env
    if _env is None:
        from typing import Any
        import pytreeclass as tc
        from fdtdx.core.jax.pytrees import TreeClass, autoinit, field, frozen_field

        @autoinit
        class K0(TreeClass):
            a: Any = field(default=0)
            b: Any = frozen_field(default=0)
            c: Any = field(default=None)

        @autoinit
        class K1(TreeClass):
            p: Any = frozen_field(default=0)
            q: Any = field(default=0)

        @autoinit
        class K2(TreeClass):
            u: Any = field(default=0)
            v: Any = frozen_field(default=None)
            w: Any = frozen_field(default=0)
            t: Any = field(default=0)

        _env = dict(TreeClass=TreeClass, tc=tc, classes=[K0, K1, K2],
                    fields=[["a", "b", "c"], ["p", "q"], ["u", "v", "w", "t"]])
    return _env


def hx(s):
    return "x" + s.encode("utf-8").hex()


def unhx(t):
    return bytes.fromhex(t[1:]).decode("utf-8")


# -------------------------------------------------------------------------------- values <-> tokens / snapshots
class Reg:
    """class name -> small id (per case)"""

    def __init__(self):
        self.ids = {}

    def id(self, obj):
        e = E()
        for i, k in enumerate(e["classes"]):
            if type(obj) is k:
                return i
        return self.ids.setdefault(type(obj).__qualname__, 10 + len(self.ids))


def is_obj(x):
    return isinstance(x, E()["TreeClass"])


def obj_items(x):
    # `vars` holds frozen wrappers for frozen fields; getattr unwraps them (what aset itself sees)
    return [(k, getattr(x, k)) for k in vars(x).keys()]


def atom(x):
    return f"{type(x).__name__}:{x!r}"[:200]


def snap(x, reg):
    """order-insensitive for dicts / object attributes, exact otherwise"""
    if is_obj(x):
        return ("O", reg.id(x), {k: snap(v, reg) for k, v in obj_items(x)})
    if type(x) is list:
        return ("A", [snap(v, reg) for v in x])
    if type(x) is tuple:
        return ("T", [snap(v, reg) for v in x])
    if type(x) is dict:
        return ("D", {k: snap(v, reg) for k, v in x.items()})
    return ("L", atom(x))


def snap_ids(x):
    """value + identity + order of every reachable container: the original must keep all of it"""
    if is_obj(x):
        return ("O", id(x), type(x).__qualname__, [(k, snap_ids(v)) for k, v in obj_items(x)])
    if type(x) in (list, tuple):
        return (type(x).__name__, id(x), [snap_ids(v) for v in x])
    if type(x) is dict:
        return ("D", id(x), [(k, snap_ids(v)) for k, v in x.items()])
    return ("L", atom(x))


def tokens(x, reg):
    if is_obj(x):
        its = obj_items(x)
        out = ["O", str(reg.id(x)), str(len(its))]
        for k, v in its:
            out += [hx(k)] + tokens(v, reg)
        return out
    if type(x) is list or type(x) is tuple:
        out = ["A" if type(x) is list else "T", str(len(x))]
        for v in x:
            out += tokens(v, reg)
        return out
    if type(x) is dict:
        out = ["D", str(len(x))]
        for k, v in x.items():
            out += [("i%d" % k) if isinstance(k, int) else "s" + k.encode().hex()] + tokens(v, reg)
        return out
    return ["L", hx(atom(x))]


def parse_tokens(toks, i=0):
    """model reply -> the same structure as `snap`"""
    t = toks[i]
    if t == "L":
        return ("L", unhx(toks[i + 1])), i + 2
    if t in ("A", "T"):
        n, i = int(toks[i + 1]), i + 2
        xs = []
        for _ in range(n):
            v, i = parse_tokens(toks, i)
            xs.append(v)
        return (t, xs), i
    if t == "O":
        c, n, i = int(toks[i + 1]), int(toks[i + 2]), i + 3
        d = {}
        for _ in range(n):
            k = unhx(toks[i])
            d[k], i = parse_tokens(toks, i + 1)
        return ("O", c, d), i
    if t == "D":
        n, i = int(toks[i + 1]), i + 2
        d = {}
        for _ in range(n):
            k = toks[i]
            k = int(k[1:]) if k[0] == "i" else bytes.fromhex(k[1:]).decode()
            d[k], i = parse_tokens(toks, i + 1)
        return ("D", d), i
    raise ValueError("bad token " + t)


# ------------------------------------------------------------ JSON-able description of a synthetic value (replay)
def build(desc):
    """desc: ["i",5] ["s","x"] ["n"] ["f",1.5] ["A",[..]] ["T",[..]] ["D",[[k,v]..]] ["O",cls,{field:desc}]"""
    k = desc[0]
    if k == "i":
        return int(desc[1])
    if k == "s":
        return str(desc[1])
    if k == "n":
        return None
    if k == "f":
        return float(desc[1])
    if k == "A":
        return [build(d) for d in desc[1]]
    if k == "T":
        return tuple(build(d) for d in desc[1])
    if k == "D":
        return {kk: build(v) for kk, v in desc[1]}
    if k == "O":
        return E()["classes"][desc[1]](**{f: build(v) for f, v in desc[2].items()})
    if k == "real":
        return real_object(desc[1])
    raise ValueError(k)


def real_object(which):
    import fdtdx
    import jax.numpy as jnp
    from fdtdx.interfaces.modules import DtypeConversion
    from fdtdx.interfaces.time_filter import LinearReconstructEveryK
    rec = fdtdx.Recorder(modules=[LinearReconstructEveryK(k=2 + which), DtypeConversion(dtype=jnp.float16)])
    gc = fdtdx.GradientConfig(method="reversible", recorder=rec)
    if which == 0:
        return fdtdx.SimulationConfig(time=1e-13, grid=fdtdx.UniformGrid(spacing=5e-8), gradient_config=gc)
    if which == 1:
        return gc
    return rec      # (Material is unsuitable: its fields normalise what is assigned to them)


def gen_desc(rng, depth, frozen_ctx=False, root=False):
    r = rng.random()
    if depth <= 0 or (not root and r < 0.28):
        k = rng.randint(0, 9)
        if k <= 5:
            return ["i", rng.randint(-9, 99)]
        if k <= 7:
            return ["s", rng.choice(["k", "abc", "", "a b", "0"])]
        if k == 8:
            return ["n"]
        return ["f", rng.choice([0.5, -2.25, 1e-9])]
    if root or r < 0.52:
        ci = rng.randint(0, 2)
        return ["O", ci, {f: gen_desc(rng, depth - 1) for f in E()["fields"][ci]}]
    if r < 0.70:
        return ["A", [gen_desc(rng, depth - 1) for _ in range(rng.randint(0, 4))]]
    if r < 0.80:
        return ["T", [gen_desc(rng, depth - 1) for _ in range(rng.randint(1, 3))]]
    n = rng.randint(0, 3)
    if rng.chance(0.3):
        keys = rng.shuffle([0, 1, 2, 7, -1])[:n]
    else:
        keys = rng.shuffle(["k", "b", "a", "name", "k k", "", "x->y", "0"])[:n]
    return ["D", [[kk, gen_desc(rng, depth - 1)] for kk in keys]]


# ----------------------------------------------------------------------------------------------- paths
def children(x):
    """[(op, child)] of a live value; ops are ("attr",name) | ("idx",i) | ("key",k)"""
    if is_obj(x):
        return [(("attr", k), v) for k, v in obj_items(x)]
    if type(x) in (list, tuple):
        return [(("idx", i), v) for i, v in enumerate(x)]
    if type(x) is dict:
        return [((("idx", k) if isinstance(k, int) else ("key", k)), v) for k, v in x.items()]
    return []


def gen_path(rng, root, maxlen):
    """valid walk; returns ops and the nodes visited (parents of each op)"""
    ops, parents, cur = [], [], root
    for _ in range(rng.randint(1, maxlen)):
        ch = children(cur)
        ch = [c for c in ch if not (c[0][0] == "key" and ("'" in c[0][1] or "[" in c[0][1] or "]" in c[0][1]))]
        if not ch:
            break
        op, nxt = rng.choice(ch)
        if op[0] == "idx" and type(cur) in (list, tuple) and rng.chance(0.35):
            op = ("idx", op[1] - len(cur))          # negative alias of the same slot
        ops.append(op)
        parents.append(cur)
        cur = nxt
    return ops, parents


def perturb(rng, ops, parents, synthetic):
    """returns (ops, tag). May make the path invalid."""
    ops = list(ops)
    j = rng.choice([len(ops) - 1, len(ops) - 1, rng.randint(0, len(ops) - 1)])
    par = parents[j]
    kinds = ["missing-attr", "missing-key", "idx-len", "idx-neg-len", "idx-below", "wrong-kind"]
    kind = rng.choice(kinds)
    if kind == "missing-attr":
        ops[j] = ("attr", rng.choice(["zz", "q1", "_new", "A9"]))
    elif kind == "missing-key":
        ops[j] = ("key", rng.choice(["zz", "new key", "", "k"]))
    elif kind == "idx-len":
        n = len(par) if type(par) in (list, tuple, dict) else 0
        ops[j] = ("idx", n)
    elif kind == "idx-neg-len":
        n = len(par) if type(par) in (list, tuple, dict) else 1
        ops[j] = ("idx", -n)
    elif kind == "idx-below":
        n = len(par) if type(par) in (list, tuple, dict) else 0
        ops[j] = ("idx", -n - 1)
    else:
        if not synthetic and not (is_obj(par) or type(par) in (list, tuple, dict)):
            return ops, "none"
        ops[j] = rng.choice([("attr", "a"), ("idx", 0), ("key", "k"), ("idx", -1), ("attr", "p")])
    return ops[: j + 1] if rng.chance(0.5) else ops, kind


def render(rng, ops):
    parts = []
    for op in ops:
        if op[0] == "attr":
            parts.append(op[1])
        else:
            l, r = rng.choice(["", "", " ", "\t "]), rng.choice(["", "", " "])
            if op[0] == "idx":
                body = str(op[1])
                if rng.chance(0.1) and op[1] >= 0:
                    body = "0" + body
            else:
                body = "'" + op[1] + "'"
            parts.append("[" + l + body + r + "]")
    return "->".join(parts)


MALFORMED = ["", "->", "a->", "->a", "a->->b", "a-->b", "a->[0", "a->[]", "a->[ ]", "a->[']", "a->['']", "a->[''']",
             "a->['a[b']", "a->['a]b']", "a->[0]b", "a[0]", "a->[0][1]", "a->[0]->[1]", "a->[-]", "a->[--1]", "a->[+1]",
             "a->[1 2]", "a->[1.0]", "a->[\"k\"]", "a->[k]", "1a", "a b", "a->b c", "a.b", "a->[ -1 ]", "a->['k'", "[0]",
             "['k']", "a->[-0]", "a->[00]", "a->['->']", "a->[' k ']", "class", "_", "a->_1", "a-", "a->[0]-", "a->[0]->",
             "a>b", "a->[0]>", "a->'k'", "a->[\t0\t]", "a->[0x1]", "a->[1_0]"]   # ASCII only: the model does not cover unicode identifiers/digits


def mutate_string(rng, s):
    if not s:
        return "a"
    k = rng.randint(0, 3)
    i = rng.randint(0, len(s) - 1)
    if k == 0:
        return s[:i] + s[i + 1:]
    if k == 1:
        return s[:i] + rng.choice(["-", ">", "[", "]", "'", " ", "a", "0", "->", "]->["]) + s[i:]
    if k == 2:
        return s + rng.choice(["->", "]", "->[", "-", "->a", "[0]"])
    return s[:i] + rng.choice(["-", ">", "[", "]", "'", "_"]) + s[i + 1:]


# ------------------------------------------------------------------------------------------ one case
def impl_parse(path):
    TC = E()["TreeClass"]
    try:
        ops = TC._parse_operations(path)
    except ValueError:
        return None
    out = []
    for v, kind in ops:
        out.append({"attribute": "a" + v.encode().hex() if kind == "attribute" else None,
                    "index": "i%d" % v if kind == "index" else None,
                    "key": "k" + v.encode().hex() if kind == "key" else None}[kind])
    return out


def pure_update(s, ops, val, create):
    """independent oracle on snapshots: value of the result when the path is a valid walk"""
    op, rest = ops[0], ops[1:]
    s = copy.deepcopy(s)
    if s[0] == "O":
        d, k = s[2], op[1]
    elif s[0] == "D":
        d, k = s[1], op[1]
    elif s[0] == "A":
        d, k = s[1], op[1] % len(s[1])
    else:
        raise KeyError("not updatable")
    d[k] = val if not rest else pure_update(d[k], rest, val, create)
    return s


def walk_valid(root, ops, create):
    """does the intended path exist and is it settable? (the contract of aset, written independently of the model)"""
    cur = root
    for j, op in enumerate(ops):
        last = j == len(ops) - 1
        if op[0] == "attr":
            if not is_obj(cur):
                return False
            if op[1] not in vars(cur):
                return last and create
            cur = getattr(cur, op[1])
        elif op[0] == "idx":
            if type(cur) is list:
                if not -len(cur) <= op[1] < len(cur):
                    return False
            elif type(cur) is dict:
                if op[1] not in cur:
                    return False
            else:
                return False
            cur = cur[op[1]]
        else:
            if type(cur) is not dict:
                return False
            if op[1] not in cur:
                return last and create
            cur = cur[op[1]]
    return True


def spine_aliases(orig, res, ops):
    """containers on the result's spine that are the very objects of the original"""
    bad = []
    a, b = orig, res
    for j, op in enumerate(ops):
        if a is b:
            bad.append(j)
        if j == len(ops) - 1:
            break
        try:
            a = getattr(a, op[1]) if op[0] == "attr" else a[op[1]]
            b = getattr(b, op[1]) if op[0] == "attr" else b[op[1]]
        except Exception:
            break
    return bad


def evaluate(ctx, case, pend=None):
    """runs one case on the implementation (+ model); returns a violation detail or None"""
    root = build(case["root"])
    val = build(case["val"])
    path, create = case["path"], bool(case["create"])
    reg = Reg()
    before, before_ids = snap(root, reg), snap_ids(root)
    vsnap = snap(val, reg)
    iparse = impl_parse(path)
    try:
        res = root.aset(path, val, create_new_ok=create)
        status = "ok"
    except Exception as e:  # noqa: BLE001 — any exception is the error outcome
        res, status = None, ("parse-error" if iparse is None else "error")
        if iparse is None and not isinstance(e, ValueError):
            status = "error"
    detail = None
    # ---- property oracle (independent of the model)
    ctx.impl_property_evals += 1
    ops = [tuple(o) for o in case["intended"]] if case.get("intended") is not None else None
    expect_ok = walk_valid(root, ops, create) if ops is not None else None
    if snap_ids(root) != before_ids:
        detail = f"aset({path!r}) changed its input object (deep value/identity snapshot differs)"
    elif status == "ok":
        if type(res) is not type(root):
            detail = f"aset({path!r}) returned {type(res).__name__}, input was {type(root).__name__}"
        elif expect_ok is False:
            detail = f"aset({path!r}, create_new_ok={create}) succeeded although the addressed path does not exist / is not settable"
        elif expect_ok:
            exp = pure_update(before, ops, vsnap, create)
            got = snap(res, reg)
            if got != exp:
                detail = f"aset({path!r}): result differs from the input outside the addressed path or at it"
            else:
                al = spine_aliases(root, res, ops)
                if al:
                    detail = f"aset({path!r}): result shares the container at path position {al} with the input"
    elif expect_ok:
        detail = f"aset({path!r}, create_new_ok={create}) raised on a valid path ({status})"
    # ---- correspondence (requests are batched: see flush_model)
    if pend is not None:
        want = "parse-error" if iparse is None else " ".join(["ok"] + iparse)
        reg2 = Reg()            # root and val share one registry so that class ids agree
        line = f"aset {int(create)} {hx(path)} " + " ".join(tokens(root, reg2) + tokens(val, reg2))
        pend.append({"case": case, "lines": ["parse " + hx(path), line], "want_parse": want, "status": status,
                     "res": snap(res, reg2) if status == "ok" else None, "orig": snap(root, reg2)})
    return detail, status


def flush_model(ctx, pend):
    lines = [l for p in pend for l in p["lines"]]
    reps = ctx.driver.ask_many(lines)
    for k, p in enumerate(pend):
        mparse, rep = reps[2 * k], reps[2 * k + 1]
        case = p["case"]
        ctx.expect_equal("parse", case, p["want_parse"], mparse)
        mstatus = rep.split(" ", 1)[0]
        if ctx.expect_equal("aset-status", case, p["status"], mstatus) and p["status"] == "ok":
            body = rep.split(" | ")
            mres, _ = parse_tokens(body[1].split())
            morig, _ = parse_tokens(body[2].split())
            ctx.expect_equal("aset-result", case, p["res"], mres)
            ctx.expect_equal("aset-original", case, p["orig"], morig)


def make_case(ctx, rng, i):
    e = E()
    real = i % 12 == 11
    if real:
        rootd = ["real", rng.randint(0, 2)]
    else:
        rootd = gen_desc(rng, rng.randint(1, 4), root=True)
    root = build(rootd)
    vald = gen_desc(rng, rng.randint(0, 2))
    ops, parents = gen_path(rng, root, 5)
    if not ops:
        return None
    tag, valid = "valid", True
    create = rng.chance(0.4)
    if any(type(p) is tuple for p in parents):
        tag, valid = "tuple-on-path", False
    if rng.chance(0.45):
        ops, tag = perturb(rng, ops, parents, not real)
        valid = False
        if tag == "none":
            tag, valid = "valid", not any(type(p) is tuple for p in parents[:len(ops)])
    if create and ops[-1][0] == "key":
        # JAX cannot flatten a dict with both int and str keys (pytreeclass re-flattens the object after `_aset`):
        # never ask aset to add a string key to an integer-keyed dict
        par = root
        try:
            for op in ops[:-1]:
                par = getattr(par, op[1]) if op[0] == "attr" else par[op[1]]
            if type(par) is dict and any(isinstance(k, int) for k in par):
                create = False
        except Exception:
            pass
    path = render(rng, ops)
    case = {"root": rootd, "val": vald, "path": path, "create": int(create), "valid": valid,
            "intended": [list(o) for o in ops], "tag": tag, "real": real}
    if rng.chance(0.12):
        case["path"] = mutate_string(rng, path) if rng.chance(0.7) else rng.choice(MALFORMED)
        case["valid"], case["intended"], case["tag"] = False, None, "malformed"
    return case


# --------------------------------------------------------------------------- parser round trip (render -> parse)
IDENTS = ["a", "b2", "_x", "cfg", "class", "A9", "__init__", "gradient_config", "x_1", "Z"]
BAD_ATTRS = ["a b", "1a", "a-b", "a->b", "a[0]", "", "a.b", "a'"]
GOOD_KEYS = ["k", "", "a b", "a->b", "->", " x ", "0", "-1", "name.with.dots", "it\"s", "a>b", "-"]
BAD_KEYS = ["a]b", "a[b", "it's", "']", "[", "''"]


def py_render(ops):
    return "->".join(o[1] if o[0] == "attr" else ("[%d]" % o[1] if o[0] == "idx" else "['%s']" % o[1]) for o in ops)


def op_token(o):
    return ("a" + o[1].encode().hex()) if o[0] == "attr" else (("i%d" % o[1]) if o[0] == "idx" else "k" + o[1].encode().hex())


def py_wf(o):
    if o[0] == "attr":
        return o[1].isidentifier()
    if o[0] == "key":
        return not any(c in o[1] for c in "'[]")
    return True


def gen_ops(rng, allow_bad):
    n = rng.randint(1, 6)
    ops = []
    for _ in range(n):
        k = rng.randint(0, 2)
        if k == 0:
            ops.append(("attr", rng.choice(IDENTS)))
        elif k == 1:
            ops.append(("idx", rng.choice([0, 1, 7, 10, 99, 100, 12345678901234567890, -1, -10, -305, rng.randint(-50, 50)])))
        else:
            ops.append(("key", rng.choice(GOOD_KEYS)))
    if allow_bad:
        j = rng.randint(0, n - 1)
        ops[j] = ("attr", rng.choice(BAD_ATTRS)) if rng.chance(0.5) else ("key", rng.choice(BAD_KEYS))
    return ops


def render_stream(ctx, n):
    """model render -> real parser and model parser; for well-formed ops both must give the ops back"""
    cases = [gen_ops(ctx.rng, allow_bad=(i % 4 == 3)) for i in range(n)]
    reps = ctx.driver.ask_many(["render " + " ".join(op_token(o) for o in ops) for ops in cases])
    paths = []
    for ops, rep in zip(cases, reps):
        case = {"stream": "render", "ops": [list(o) for o in ops]}
        wf = all(py_wf(o) for o in ops)
        tag, hexpath = rep.split(" ")
        path = bytes.fromhex(hexpath[1:]).decode()
        paths.append(path)
        ctx.expect_equal("render-wf", case, "ok" if wf else "not-wf", tag)
        ctx.expect_equal("render-path", case, py_render(ops), path)
        got = impl_parse(path)
        want = [op_token(o) for o in ops]
        ctx.case(nontrivial=("render", tuple(want)), kind="render-wf" if wf else "render-not-wf",
                 status="parse-error" if got is None else "ok", pathlen=len(ops))
        ctx.impl_property_evals += 1
        d = render_property(case)
        if d:
            ctx.violation(case, d)
    reps = ctx.driver.ask_many(["parse " + hx(p) for p in paths])
    for ops, path, rep in zip(cases, paths, reps):
        got = impl_parse(path)
        ctx.expect_equal("parse-rendered", {"stream": "render", "ops": [list(o) for o in ops]},
                         "parse-error" if got is None else " ".join(["ok"] + got), rep)


def render_property(case):
    """the documented syntax is read back: _parse_operations(render(ops)) == ops for well-formed ops"""
    ops = [tuple(o) for o in case["ops"]]
    if not all(py_wf(o) for o in ops):
        return None
    got = impl_parse(py_render(ops))
    want = [op_token(o) for o in ops]
    if got != want:
        return f"_parse_operations({py_render(ops)!r}) = {got}, rendered from {ops}"
    return None


def make_dictkey_case(rng, i):
    """dedicated stream: a path that ends in (or passes through) a dict key that does not exist yet, on dicts nested
    1-3 levels deep below plain and frozen fields, with create_new_ok on and off"""
    ci = rng.randint(0, 2)
    field = rng.choice(E()["fields"][ci])
    depth = 1 + i % 3
    inner_keys = rng.shuffle(["k", "b", "a", "name", "opts"])[:rng.randint(0, 3)]
    node = ["D", [[k, gen_desc(rng, 1)] for k in inner_keys]]
    ops = []
    for lvl in range(depth - 1):
        if rng.chance(0.6):
            key = rng.choice(["opts", "inner", "d"])
            node = ["D", [[key, node]] + [[k, ["i", rng.randint(0, 9)]] for k in rng.shuffle(["x", "y"])[:rng.randint(0, 2)]]]
            ops.insert(0, ("key", key))
        else:
            pos = rng.randint(0, 2)
            items = [["i", rng.randint(0, 9)] for _ in range(pos)] + [node] + [["i", 7] for _ in range(rng.randint(0, 1))]
            node = ["A", items]
            ops.insert(0, ("idx", pos if rng.chance(0.6) else pos - len(items)))
    fields = {f: (node if f == field else gen_desc(rng, 1)) for f in E()["fields"][ci]}
    rootd = ["O", ci, fields]
    ops.insert(0, ("attr", field))
    variant = ["last-missing", "last-missing", "inner-missing", "existing"][i % 4] if inner_keys else ["last-missing", "inner-missing"][i % 2]
    new_key = rng.choice(["new", "zz", "new key", "K9"])
    if variant == "last-missing":
        ops.append(("key", new_key))
    elif variant == "inner-missing":
        ops += [("key", new_key), rng.choice([("key", "k"), ("idx", 0), ("attr", "a")])]
    else:
        ops.append(("key", inner_keys[0]))
    create = 1 if i % 8 < 6 else 0
    return {"root": rootd, "val": gen_desc(rng, rng.randint(0, 1)), "path": render(rng, ops), "create": create, "valid": None,
            "intended": [list(o) for o in ops], "tag": "dictkey-" + variant, "real": False, "depth": depth}


def run(ctx):
    E()
    pend = []
    n = ctx.scale(400, 4000)
    for i in range(ctx.scale(96, 600)):
        case = make_dictkey_case(ctx.rng, i)
        d, st = evaluate(ctx, case, pend)
        ctx.case(sample=case if i == 0 else None, nontrivial=("dictkey", i), kind=case["tag"], status=st, create=case["create"],
                 pathlen=len(case["intended"]), dictkey_depth=case["depth"])
        if d:
            ctx.violation(case, d)
    # malformed strings: every curated one once (parse only + aset on a fixed object)
    for s in MALFORMED:
        case = {"root": ["O", 0, {"a": ["A", [["D", [["k", ["i", 1]]]], ["i", 2]]], "b": ["i", 0], "c": ["n"]}],
                "val": ["i", 5], "path": s, "create": 0, "valid": False, "intended": None, "tag": "curated"}
        d, st = evaluate(ctx, case, pend)
        ctx.case(nontrivial=("curated", s), kind="curated", status=st)
        if d:
            ctx.violation(case, d)
    i = 0
    made = 0
    while made < n:
        i += 1
        case = make_case(ctx, ctx.rng, i)
        if case is None:
            continue
        made += 1
        d, st = evaluate(ctx, case, pend)
        nt = None
        if case["tag"] != "valid" or len(case["intended"] or []) >= 2:
            nt = (case["path"], case["tag"], st, made)
        ctx.case(sample={k: case[k] for k in ("path", "create", "tag")} | {"status": st} if made in (3, 40, 77) else None,
                 nontrivial=nt, kind=case["tag"], status=st, create=case["create"],
                 pathlen=len(case["intended"] or []), real=case["real"] if "real" in case else False)
        if d:
            ctx.violation(case, d)
    flush_model(ctx, pend)
    render_stream(ctx, ctx.scale(200, 2000))


# ------------------------------------------------------------------------------------------- S
def search(ctx, hints):
    for h in hints:
        if isinstance(h, dict) and h.get("stream") == "render":
            d = render_property(h)
            if d:
                ctx.violation(h, d)
                return
    for i in range(400):
        case = {"stream": "render", "ops": [list(o) for o in gen_ops(ctx.rng, False)]}
        d = render_property(case)
        if d:
            ctx.violation(case, d)
            return
    for h in hints:
        if isinstance(h, dict) and "root" in h:
            d, _ = evaluate(ctx, h)
            if d:
                ctx.violation(h, d)
                return
    rng = ctx.rng.fork()
    found = []
    for i in range(200):
        case = make_dictkey_case(rng, i)
        d, _ = evaluate(ctx, case)
        if d:
            found.append((len(str(case["root"])), case, d))
            if len(found) >= 5:
                break
    for i in range(0 if found else 6000):
        case = make_case(ctx, rng, i * 12 + 1)     # synthetic only
        if case is None:
            continue
        d, _ = evaluate(ctx, case)
        if d:
            found.append((len(str(case["root"])), case, d))
            if len(found) >= 5:
                break
    if found:
        found.sort(key=lambda t: t[0])
        ctx.violation(found[0][1], found[0][2])


def replay(ctx, inp):
    if inp.get("stream") == "render":
        return render_property(inp)
    d, _ = evaluate(ctx, inp)
    return d
