"""C32 — symmetry unfolding (unfold_fields / unfold_array / unfold_detector_states, parity tables)
vs lean/FdtdxModel/C32.lean"""
import itertools

import numpy as np

RULE = ("K: (a) parity / mirror-map / Poynting-parity tables: every (field kind, component, axis, wall in {-1,+1}) row and "
        "invalid walls, exhaustive, exact; (b) mirror_extend_low_side on random 1-D and 2-D arrays (length 1..6, both "
        "parities, on/off plane, any axis); (c) fdtdx.unfold_fields for ALL 26 non-zero symmetry tuples (x both field kinds in the thorough tier, one kind per "
        "tuple in the quick tier) on random "
        "binary64 arrays with extents 1..4 (extent 1 on symmetric axes included) plus the error inputs (no symmetry, entry "
        "outside {-1,0,1}, bad field kind); (d) fdtdx.unfold_array on random layouts (with/without component axis, "
        "array/scalar/absent signs, on-plane subsets); (e) fdtdx.unfold_detector_states on placed reduced scenes "
        "(place_objects with config.symmetry) holding Field/Phasor/Energy/PoyntingFlux/PhasorPoyntingFlux detectors with "
        "random component subsets given in canonical, shuffled and reversed tuple order (every scene carries one Field and one "
        "Phasor detector crossing all planes with a NON-canonical tuple whose parities differ from the stored order, spatial and "
        "reduce_volume alternating; the stored slot order is read off the detector's own update() on constant probe fields), reduce_volume, exact_interpolation, as_slices, keep_all_components, propagation axis, "
        "boxes straddling / touching / inside the kept half per axis; every multi-axis scene also carries one detector of each "
        "kind that crosses only a proper SUBSET of the planes (none, one of two, two of three; the EnergyDetector always "
        "reduce_volume, the others alternating), random recorded states; plus two fixed scenes (all-electric, all-magnetic) with a summed PoyntingFluxDetector "
        "for every normal axis x every single straddled plane, scalar and all-component. All outputs compared "
        "exactly (values are copies and sign flips / factors 0,1,2,4,8). Independent numpy oracle on every array case: "
        "upper half == input (values and dtype), doubled extent, mirror index map + documented parity; for reduce_volume "
        "detectors: unfolded value == reduction of the unfolded spatial twin when nothing sits on a plane. "
        "non-trivial = an on-plane axis, an odd component, extent 1, two or more symmetric axes, or an error input.")

_J = None


def J():
    global _J
    if _J is None:
        import jax
        jax.config.update("jax_enable_x64", True)
        import jax.numpy as jnp
        import fdtdx
        from loguru import logger
        logger.remove()
        from fdtdx.core.physics import symmetry as cs
        from fdtdx.fdtd import symmetry as fs
        _J = dict(jax=jax, jnp=jnp, fdtdx=fdtdx, cs=cs, fs=fs)
    return _J


NAMES = ("Ex", "Ey", "Ez", "Hx", "Hy", "Hz")
ALL_SYMS = [s for s in itertools.product((-1, 0, 1), repeat=3) if any(s)]


# ------------------------------------------------------------------ independent oracle (documentation)
def o_parity(ft, c, a, w):
    """PEC (-1): tangential E and normal H odd; PMC (+1): tangential H and normal E odd."""
    n = 1 if c == a else -1
    e = 1 if ft == "E" else -1
    return n * e * (-w)


def o_on_plane(ft, c, a, w):
    """only an electric plane carries samples: tangential E / normal H live on integer positions along a"""
    if w != -1:
        return False
    return (c != a) if ft == "E" else (c == a)


def o_poynting(i, a, w):
    return -1 if i == a else 1      # S is a polar vector whatever the wall kind


def check_mirror(full, half, axis, parity, on_plane):
    """property predicate along one array axis; parity broadcastable against the arrays. Returns None or text."""
    full = np.asarray(full)
    half = np.asarray(half)
    n = half.shape[axis]
    if full.shape[axis] != 2 * n:
        return f"extent {full.shape[axis]} along axis {axis} is not doubled ({n} kept)"
    F = np.moveaxis(full, axis, 0)
    H = np.moveaxis(half, axis, 0)
    par = np.moveaxis(np.broadcast_to(parity, half.shape), axis, 0)[0] if np.ndim(parity) else parity
    if not np.array_equal(F[n:], H):
        return f"upper half along axis {axis} differs from the input"
    if not on_plane:
        for i in range(n):
            if not np.array_equal(F[n - 1 - i], par * F[n + i]):
                return f"mirror law full[n-1-{i}] = p*full[n+{i}] fails along axis {axis}"
    else:
        for j in range(1, n):
            if not np.array_equal(F[n - j], par * F[n + j]):
                return f"on-plane mirror law full[n-{j}] = p*full[n+{j}] fails along axis {axis}"
        if n >= 2 and not np.array_equal(F[0], F[1]):
            return f"on-plane edge sample full[0] does not repeat its neighbour full[1] along axis {axis}"
    return None


# ----------------------------------------------------------------------------------------- helpers
def rand_arr(rng, shape, f32=False):
    a = np.array([rng.uniform(-3, 3) for _ in range(int(np.prod(shape)))]).reshape(shape)
    # a few exact zeros / repeated values
    if a.size and rng.chance(0.3):
        a.flat[rng.randint(0, a.size - 1)] = 0.0
    return a.astype(np.float32).astype(np.float64) if f32 else a


def model_arr(reply):
    """`shape | hex…` -> ndarray or the error token"""
    from .common import h2f
    if "|" not in reply:
        return reply
    sh, vals = reply.split("|")
    shape = tuple(int(t) for t in sh.split())
    return np.array([h2f(t) for t in vals.split()], dtype=np.float64).reshape(shape)


def same(a, b):
    a = np.asarray(a, dtype=np.float64)
    return isinstance(b, np.ndarray) and a.shape == b.shape and np.array_equal(a, b)


_PENDING = []


def queue(line, fn):
    """model requests are batched (the native driver answers when its input closes); fn(reply) compares"""
    _PENDING.append((line, fn))


def flush(ctx):
    global _PENDING
    pend, _PENDING = _PENDING, []
    if not pend:
        return
    reps = ctx.driver.ask_many([l for l, _ in pend])
    for (_, fn), rep in zip(pend, reps):
        fn(rep)


def exc_kind(f):
    try:
        return ("ok", f())
    except Exception as e:  # noqa: BLE001
        return ("error", type(e).__name__)


# --------------------------------------------------------------------------------- (a) tables
def run_tables(ctx):
    j = J()
    cs, fs = j["cs"], j["fs"]
    lines, impl, keys = [], [], []
    for ft in "EH":
        for c in range(3):
            for a in range(3):
                for w in (-1, 1, 0, 2, -2):
                    lines.append(f"parity {ft} {c} {a} {w}")
                    k, v = exc_kind(lambda: cs.field_component_parity(ft, c, a, w))
                    impl.append(str(v) if k == "ok" else "error")
                    keys.append(("parity", ft, c, a, w))
                    if w in (-1, 1):
                        ctx.impl_property_evals += 1
                        if k != "ok" or v != o_parity(ft, c, a, w):
                            ctx.violation({"op": "parity", "ft": ft, "c": c, "a": a, "w": w},
                                          f"field_component_parity({ft},{c},{a},{w}) = {v}, documented table says {o_parity(ft, c, a, w)}")
                        lines.append(f"onplane {ft} {c} {a} {w}")
                        v2 = cs.mirror_pairs_on_plane(ft, c, a, w)
                        impl.append("1" if v2 else "0")
                        keys.append(("onplane", ft, c, a, w))
                        if bool(v2) != o_on_plane(ft, c, a, w):
                            ctx.violation({"op": "onplane", "ft": ft, "c": c, "a": a, "w": w},
                                          f"mirror_pairs_on_plane({ft},{c},{a},{w}) = {v2}, documented map says {o_on_plane(ft, c, a, w)}")
    for i in range(3):
        for a in range(3):
            for w in (-1, 1, 0):
                lines.append(f"ppar {i} {a} {w}")
                k, v = exc_kind(lambda: fs._poynting_parity(i, a, w))
                impl.append(str(v) if k == "ok" else "error")
                keys.append(("ppar", i, a, w))
                if w != 0:
                    ctx.impl_property_evals += 1
                    if k != "ok" or v != o_poynting(i, a, w):
                        ctx.violation({"op": "ppar", "i": i, "a": a, "w": w},
                                      f"_poynting_parity({i},{a},{w}) = {v}, a polar vector has {o_poynting(i, a, w)}")
    reps = ctx.driver.ask_many(lines)
    for key, im, rep in zip(keys, impl, reps):
        ctx.case(sample={"op": key[0], "args": key[1:], "reply": rep} if key == ("parity", "H", 1, 1, -1) else None,
                 nontrivial=key, op=key[0])
        ctx.expect_equal(key[0], {"op": key[0], "args": list(key[1:])}, im, rep)


# --------------------------------------------------------------------------------- (b) low side
def low_case(ctx, rng):
    n = rng.choice([1, 1, 2, 2, 3, 4, 5, 6])
    p = rng.choice([1, -1])
    op = rng.chance(0.6)
    vals = [float(x) for x in rand_arr(rng, (n,))]
    return {"op": "low", "n": n, "p": p, "on_plane": op, "vals": vals, "ndim": rng.choice([1, 2]), "axis": rng.randint(0, 1)}


def eval_low(ctx, case, compare=True):
    from .common import f2h
    j = J()
    jnp, cs = j["jnp"], j["cs"]
    vals, p, op = np.array(case["vals"]), case["p"], case["on_plane"]
    if case["ndim"] == 1:
        arr, ax = vals, 0
    else:   # the same line replicated with a scale along a second axis
        ax = case["axis"]
        arr = np.stack([vals, 2.0 * vals], axis=1 - ax)
    k, out = exc_kind(lambda: np.asarray(j["cs"].mirror_extend_low_side(jnp.asarray(arr), ax, p, op)))
    if k != "ok":
        return f"mirror_extend_low_side raised {out}"
    line = np.moveaxis(out, ax, 0)
    line = line if case["ndim"] == 1 else line[:, 0]
    if compare:
        im = f"{len(line)} | " + " ".join(f2h(v) for v in line)
        queue(f"low {p} {int(op)} " + " ".join(f2h(v) for v in vals), lambda rep: ctx.expect_equal("low", case, im, rep))
    # property: block has the shape of the input, concatenation obeys the mirror law
    ctx.impl_property_evals += 1
    if out.shape != arr.shape:
        return f"low block shape {out.shape} differs from the kept block {arr.shape}"
    if case["ndim"] == 2 and not np.array_equal(np.moveaxis(out, ax, 0)[:, 1], 2.0 * line):
        return "second line of the 2-D block is not the mirrored second line"
    return check_mirror(np.concatenate([out, arr], axis=ax), arr, ax, p, op)


# --------------------------------------------------------------------------------- (c) unfold_fields
def fields_case(rng, sym, ft):
    shape = [rng.choice([1, 2, 2, 3, 4]) for _ in range(3)]
    return {"op": "fields", "sym": list(sym), "ft": ft, "shape": shape, "eager": rng.chance(0.15),
            "vals": [float(x) for x in rand_arr(rng, (3 * shape[0] * shape[1] * shape[2],))]}


def eval_fields(ctx, case, compare=True):
    from .common import f2h
    j = J()
    jnp, fdtdx = j["jnp"], j["fdtdx"]
    sym, ft, shape = tuple(case["sym"]), case["ft"], case["shape"]
    half = np.array(case["vals"]).reshape((3, *shape))
    eager = case.get("eager", False) or ft not in ("E", "H")
    fn = (lambda x: fdtdx.unfold_fields(x, sym, ft))
    k, out = exc_kind(lambda: (fn if eager else j["jax"].jit(fn))(jnp.asarray(half)))
    valid = ft in ("E", "H") and any(sym) and all(s in (-1, 0, 1) for s in sym)
    if compare and ft in ("E", "H"):
        def cmp_fields(rep, k=k, out=out):
            if k == "ok":
                if not same(np.asarray(out), model_arr(rep)):
                    ctx.mismatch("fields", case, {"impl_shape": list(np.asarray(out).shape), "model": str(rep)[:200]})
            else:
                ctx.expect_equal("fields", case, "error", rep)
        queue(f"fields {ft} {sym[0]} {sym[1]} {sym[2]} {shape[0]} {shape[1]} {shape[2]} " +
              " ".join(f2h(v) for v in case["vals"]), cmp_fields)
    ctx.impl_property_evals += 1
    if not valid:
        return None if (k == "error" and out == "ValueError") else f"invalid request did not raise ValueError: {k} {out if k == 'error' else ''}"
    if k != "ok":
        return f"unfold_fields raised {out} on a valid reduced field"
    full = np.asarray(out)
    if out.dtype != half.dtype:
        return f"dtype changed {half.dtype} -> {out.dtype}"
    # upper half on all symmetric axes
    idx = [slice(None)] * 4
    for a in range(3):
        if sym[a]:
            idx[a + 1] = slice(full.shape[a + 1] // 2, None)
    if not np.array_equal(full[tuple(idx)], half):
        return "upper half of the unfolded field differs from the reduced field"
    # per-axis mirror law on the fully unfolded array
    for a in range(3):
        if not sym[a]:
            if full.shape[a + 1] != shape[a]:
                return f"non-symmetric axis {a} changed extent"
            continue
        for c in range(3):
            # kept half along axis a of the full array (other axes already unfolded)
            sl = [slice(None)] * 3
            sl[a] = slice(full.shape[a + 1] // 2, None)
            d = check_mirror(full[c], full[c][tuple(sl)] if full.shape[a + 1] == 2 * shape[a] else half[c],
                             a, o_parity(ft, c, a, sym[a]), o_on_plane(ft, c, a, sym[a]))
            if d:
                return f"component {ft}{'xyz'[c]} across the {'xyz'[a]}-plane (wall {sym[a]}): {d}"
    return None


# --------------------------------------------------------------------------------- (d) unfold_array
def array_case(rng):
    sym = rng.choice(ALL_SYMS)
    layout = rng.choice(["ocxyz", "txyz", "xyz"])
    o = rng.randint(1, 2) if layout != "xyz" else 1
    c = rng.randint(1, 3) if layout == "ocxyz" else 1
    shape = [rng.choice([1, 2, 2, 3]) for _ in range(3)]
    signs = [[rng.choice([1, -1]) for _ in range(c)] for _ in range(3)]
    mode = rng.choice(["array", "array", "none", "partial"])
    if mode == "none":
        signs = [[1] * c for _ in range(3)]
    onp = [a for a in range(3) if sym[a] != 0 and rng.chance(0.4)]
    if mode == "partial":          # signs given only for some axes
        for a in range(3):
            if rng.chance(0.5):
                signs[a] = [1] * c
    f32 = rng.chance(0.5)
    return {"op": "array", "sym": list(sym), "layout": layout, "o": o, "c": c, "shape": shape, "signs": signs,
            "mode": mode, "on_plane": onp, "f32": f32, "eager": rng.chance(0.15),
            "vals": [float(x) for x in rand_arr(rng, (o * c * shape[0] * shape[1] * shape[2],), f32)]}


def eval_array(ctx, case, compare=True):
    from .common import f2h
    j = J()
    jnp, fdtdx = j["jnp"], j["fdtdx"]
    sym, layout, o, c, shape = tuple(case["sym"]), case["layout"], case["o"], case["c"], case["shape"]
    R = np.array(case["vals"]).reshape((o, c, *shape))
    dt = np.float32 if case["f32"] else np.float64
    if layout == "ocxyz":
        arr, sp, lead = R.astype(dt), (2, 3, 4), 2
    elif layout == "txyz":
        arr, sp, lead = R[:, 0].astype(dt), (1, 2, 3), 1
    else:
        arr, sp, lead = R[0, 0].astype(dt), (0, 1, 2), 0
    signs = None
    if case["mode"] != "none":
        signs = {}
        for a in range(3):
            if case["mode"] == "partial" and all(s == 1 for s in case["signs"][a]):
                continue
            if layout == "ocxyz":
                signs[a] = jnp.asarray(case["signs"][a]).reshape((1, c, 1, 1, 1))
            else:
                signs[a] = jnp.asarray(float(case["signs"][a][0]))
    fn = (lambda x: fdtdx.unfold_array(x, sym, sp, signs, tuple(case["on_plane"])))
    k, out = exc_kind(lambda: (fn if case.get("eager") else j["jax"].jit(fn))(jnp.asarray(arr)))
    if k != "ok":
        return f"unfold_array raised {out}"
    full = np.asarray(out)
    if compare:
        opf = [int(a in case["on_plane"]) for a in range(3)]
        sg = " ".join(str(s) for a in range(3) for s in case["signs"][a])
        def cmp_array(rep):
            m = model_arr(rep)
            ok = isinstance(m, np.ndarray) and same(full.reshape(m.shape) if full.size == m.size else full, m)
            if not ok:
                ctx.mismatch("array", case, {"impl_shape": list(full.shape), "model": str(rep)[:200]})
        queue(f"array {sym[0]} {sym[1]} {sym[2]} {opf[0]} {opf[1]} {opf[2]} {o} {c} {shape[0]} {shape[1]} {shape[2]} "
              f"{sg} " + " ".join(f2h(v) for v in case["vals"]), cmp_array)
    ctx.impl_property_evals += 1
    if out.dtype != arr.dtype:
        return f"dtype changed {arr.dtype} -> {out.dtype}"
    cur = arr
    # per-axis law on the final array: compare against the kept half along that axis of the final array
    for a in range(3):
        if not sym[a]:
            continue
        ax = sp[a]
        n2 = full.shape[ax]
        if n2 != 2 * arr.shape[ax]:
            return f"extent along physical axis {a} not doubled: {arr.shape[ax]} -> {n2}"
        sl = [slice(None)] * full.ndim
        sl[ax] = slice(n2 // 2, None)
        par = np.asarray(case["signs"][a], dtype=np.float64)
        par = par.reshape((1, c, 1, 1, 1)) if layout == "ocxyz" else float(par[0])
        d = check_mirror(full, full[tuple(sl)], ax, par, a in case["on_plane"])
        if d:
            return d
    sl = [slice(None)] * full.ndim
    for a in range(3):
        if sym[a]:
            sl[sp[a]] = slice(full.shape[sp[a]] // 2, None)
    if not np.array_equal(full[tuple(sl)], cur):
        return "upper half of the unfolded array differs from the input"
    return None


# --------------------------------------------------------------------------------- (e) detectors
def det_specs(rng, sym, vshape, ndet):
    """random detector descriptions on a full volume `vshape` (even on symmetric axes)"""
    specs = []
    kinds = ["field", "phasor", "energy", "poynting", "phasorflux"]
    for i in range(ndet):
        kind = kinds[i % len(kinds)] if i < len(kinds) else rng.choice(kinds)
        lo, hi = [], []
        for a in range(3):
            n = vshape[a]
            if sym[a] != 0:
                m = n // 2
                rel = rng.choice(["straddle", "straddle", "touch", "inside"]) if m >= 2 else rng.choice(["straddle", "touch"])
                if rel == "straddle":
                    l, h = rng.randint(0, m - 1), rng.randint(m + 1, n)
                elif rel == "touch":
                    l, h = m, rng.randint(m + 1, n)
                else:
                    l = rng.randint(m + 1, n - 1)
                    h = rng.randint(l + 1, n)
            else:
                l = rng.randint(0, n - 1)
                h = rng.randint(l + 1, n)
            lo.append(l)
            hi.append(h)
        sp = {"name": f"d{i}", "kind": kind, "lo": lo, "hi": hi, "exact": rng.chance(0.6)}
        if kind in ("field", "phasor"):
            k = rng.randint(1, 6)
            comps = sorted(rng.shuffle(list(range(6)))[:k])
            if rng.chance(0.3):
                comps = list(range(6))
            # `comps` is the USER's tuple order; the detector stores canonically whatever the order
            order = rng.choice(["canonical", "shuffled", "reversed"])
            if order == "reversed":
                comps = comps[::-1]
            elif order == "shuffled":
                comps = rng.shuffle(comps)
            sp["comps"] = comps
            sp["reduce"] = rng.chance(0.35)
        elif kind == "energy":
            mode = rng.choice(["spatial", "slices", "reduce"])
            sp["slices"], sp["reduce"] = mode == "slices", mode == "reduce"
        elif kind == "poynting":
            sp["keep_all"] = rng.chance(0.5)
            sp["reduce"] = rng.chance(0.4)
            sp["prop"] = rng.randint(0, 2)
            sp["direction"] = rng.choice(["+", "-"])
        else:
            sp["prop"] = rng.randint(0, 2)
            sp["direction"] = rng.choice(["+", "-"])
        specs.append(sp)
    return specs


def scene_case(rng, sym, ndet, variant=0):
    vshape = [rng.choice([2, 4, 4, 6]) if sym[a] != 0 else rng.randint(2, 5) for a in range(3)]
    dets = det_specs(rng, sym, vshape, ndet)
    # one summed and one averaged record that cross EVERY symmetry plane (factors 2^count, prod over all axes)
    for sp in dets:
        if sp["kind"] in ("energy", "field") and rng.chance(0.5):
            for a in range(3):
                if sym[a] != 0:
                    sp["lo"][a], sp["hi"][a] = 0, vshape[a]
            sp["reduce"] = True
            if sp["kind"] == "energy":
                sp["slices"] = False
    dets += noncanonical_dets(rng, sym, vshape, variant)
    dets += subset_dets(rng, sym, vshape, variant)
    return {"op": "scene", "sym": list(sym), "vshape": vshape, "dets": dets,
            "seed": rng.randint(0, 2 ** 31 - 1), "eager": rng.chance(0.25)}


def subset_dets(rng, sym, vshape, variant):
    """detectors that cross only a SUBSET of the symmetry planes (none, one of two, two of three, ...): one per
    detector kind, the EnergyDetector always reduce_volume (its 2**count must count the planes THIS detector crosses),
    the others alternating reduce_volume / spatial with `variant`; on the remaining symmetric axes the box starts on
    the plane or lies inside the kept half"""
    axes = [a for a in range(3) if sym[a] != 0]
    subsets = [list(c) for r in range(len(axes) - 1, -1, -1) for c in itertools.combinations(axes, r)]   # proper, largest first
    out = []
    kinds = ["energy", "field", "poynting", "phasor"] if len(axes) >= 2 else ["energy"]
    for k, kind in enumerate(kinds):
        sub = subsets[(variant + k) % len(subsets)]
        nonempty = [x for x in subsets if x]
        if kind == "energy" and nonempty:       # crossing some but not all planes: 2**count is sensitive to the count
            sub = nonempty[variant % len(nonempty)]
        lo, hi = [], []
        for a in range(3):
            n, m = vshape[a], vshape[a] // 2
            if sym[a] == 0:
                l = rng.randint(0, n - 1)
                lo.append(l)
                hi.append(rng.randint(l + 1, n))
            elif a in sub:
                lo.append(rng.randint(0, m - 1))
                hi.append(rng.randint(m + 1, n))
            elif m >= 2 and rng.chance(0.5):
                l = rng.randint(m + 1, n - 1)
                lo.append(l)
                hi.append(rng.randint(l + 1, n))
            else:
                lo.append(m)
                hi.append(rng.randint(m + 1, n))
        sp = {"name": f"ps{k}", "kind": kind, "lo": lo, "hi": hi, "exact": rng.chance(0.5), "subset": sub}
        red = True if kind == "energy" else bool((variant + k) % 2)
        if kind in ("field", "phasor"):
            comps = sorted(rng.shuffle(list(range(6)))[:rng.randint(1, 6)])
            sp["comps"] = comps if rng.chance(0.5) else comps[::-1]
            sp["reduce"] = red
        elif kind == "energy":
            sp["slices"], sp["reduce"] = False, True
        else:
            sp["keep_all"], sp["reduce"], sp["prop"], sp["direction"] = rng.chance(0.5), red, rng.randint(0, 2), rng.choice(["+", "-"])
        out.append(sp)
    return out


def poynting_scene(rng, sym):
    """summed PoyntingFluxDetectors for EVERY (normal axis p) x (single straddled symmetry axis a): scalar
    (keep_all_components False, fixed_propagation_axis p) and, per straddled axis, one all-component detector; on the
    other symmetric axes the box starts on the plane or lies inside the kept half"""
    vshape = [rng.choice([4, 6]) if sym[a] != 0 else rng.randint(2, 4) for a in range(3)]
    dets = []
    for a in [x for x in range(3) if sym[x] != 0]:
        for p in (0, 1, 2, 3):
            lo, hi = [], []
            for b in range(3):
                n, m = vshape[b], vshape[b] // 2
                if sym[b] == 0:
                    l = rng.randint(0, n - 1)
                    lo.append(l)
                    hi.append(rng.randint(l + 1, n))
                elif b == a:
                    lo.append(rng.randint(0, m - 1))
                    hi.append(rng.randint(m + 1, n))
                elif rng.chance(0.5):
                    lo.append(m)
                    hi.append(rng.randint(m + 1, n))
                else:
                    l = rng.randint(m + 1, n - 1)
                    lo.append(l)
                    hi.append(rng.randint(l + 1, n))
            dets.append({"name": f"pf{a}{p}", "kind": "poynting", "lo": lo, "hi": hi, "exact": rng.chance(0.5),
                         "keep_all": p == 3, "reduce": True, "prop": p % 3 if p < 3 else rng.randint(0, 2),
                         "direction": rng.choice(["+", "-"])})
    return {"op": "scene", "sym": list(sym), "vshape": vshape, "dets": dets,
            "seed": rng.randint(0, 2 ** 31 - 1), "eager": rng.chance(0.25)}


def parity_rows(comps, sym):
    return [[o_parity("E" if i < 3 else "H", i % 3, a, sym[a]) for i in comps] for a in range(3) if sym[a] != 0]


def noncanonical_dets(rng, sym, vshape, variant):
    """one FieldDetector and one PhasorDetector crossing every plane whose `components` tuple is NOT in canonical
    order (reversed / shuffled), chosen so that the parities in tuple order differ from those in stored order;
    spatial and reduce_volume alternate with `variant`"""
    out = []
    for k, kind in enumerate(("field", "phasor")):
        mode = ["reversed", "shuffled"][(variant + k) % 2]
        while True:
            if mode == "reversed":
                n = rng.choice([2, 3, 4, 6])
                comps = sorted(rng.shuffle(list(range(6)))[:n])[::-1]
            else:
                n = rng.choice([3, 4, 5, 6])
                comps = rng.shuffle(rng.shuffle(list(range(6)))[:n])
            if comps != sorted(comps) and parity_rows(comps, sym) != parity_rows(sorted(comps), sym):
                break
        lo = [0 if sym[a] != 0 else rng.randint(0, vshape[a] - 1) for a in range(3)]
        hi = [vshape[a] if sym[a] != 0 else rng.randint(lo[a] + 1, vshape[a]) for a in range(3)]
        out.append({"name": f"nc{k}", "kind": kind, "lo": lo, "hi": hi, "exact": rng.chance(0.5), "comps": comps,
                    "reduce": bool((variant // 2 + k) % 2), "order": mode})
    return out


def build_scene(case):
    j = J()
    jnp, fdtdx, jax = j["jnp"], j["fdtdx"], j["jax"]
    sym = tuple(case["sym"])
    cfg = fdtdx.SimulationConfig(grid=fdtdx.UniformGrid(spacing=50e-9), time=1.7e-16, dtype=jnp.float64, symmetry=sym)
    vol = fdtdx.SimulationVolume(partial_grid_shape=tuple(case["vshape"]))
    objs, cons = [vol], []
    wc = (fdtdx.WaveCharacter(wavelength=1e-6), fdtdx.WaveCharacter(wavelength=1.3e-6))
    for sp in case["dets"]:
        shp = tuple(h - l for l, h in zip(sp["lo"], sp["hi"]))
        kw = dict(name=sp["name"], partial_grid_shape=shp, exact_interpolation=sp["exact"])
        if sp["kind"] == "field":
            d = fdtdx.FieldDetector(components=tuple(NAMES[i] for i in sp["comps"]), reduce_volume=sp["reduce"], **kw)
        elif sp["kind"] == "phasor":
            d = fdtdx.PhasorDetector(components=tuple(NAMES[i] for i in sp["comps"]), reduce_volume=sp["reduce"],
                                     wave_characters=wc, **kw)
        elif sp["kind"] == "energy":
            d = fdtdx.EnergyDetector(as_slices=sp["slices"], reduce_volume=sp["reduce"], **kw)
        elif sp["kind"] == "poynting":
            # keep_all_components=True cannot be placed in this tree (stack of unequal face-area weights raises);
            # the flag is set on the placed detector instead, see below
            d = fdtdx.PoyntingFluxDetector(direction=sp["direction"], reduce_volume=sp["reduce"], keep_all_components=False,
                                           fixed_propagation_axis=sp["prop"], **kw)
        else:
            d = fdtdx.PhasorPoyntingFluxDetector(direction=sp["direction"], fixed_propagation_axis=sp["prop"], wave_characters=wc, **kw)
        cons.append(d.set_grid_coordinates(axes=(0, 1, 2), sides=("-", "-", "-"), coordinates=tuple(sp["lo"])))
        objs.append(d)
    oc, arrays, _p, cfg2, _i = fdtdx.place_objects(object_list=objs, config=cfg, constraints=cons, key=jax.random.PRNGKey(0))
    keep = {sp["name"] for sp in case["dets"] if sp.get("keep_all")}
    if keep:
        from fdtdx.fdtd.container import ObjectContainer
        new_list = [o.aset("keep_all_components", True) if o.name in keep else o for o in oc.object_list]
        oc = ObjectContainer(object_list=new_list, volume_idx=oc.volume_idx)
        st = dict(arrays.detector_states)
        for name in keep:
            v = st[name]["poynting_flux"]
            st[name] = {"poynting_flux": jnp.zeros((v.shape[0], 3) + tuple(v.shape[1:] if v.ndim == 4 else ()), dtype=v.dtype)}
        arrays = arrays.aset("detector_states", st)
    return oc, arrays, cfg2


def expected_touched(sym, vshape, sp):
    return [sym[a] if (sym[a] != 0 and sp["lo"][a] < vshape[a] // 2) else 0 for a in range(3)]


def model_det_line(sp, touched, o, c, shp, vals):
    from .common import f2h
    kind = {"field": "field", "phasor": "phasor", "phasorflux": "phasor", "energy": "energy", "poynting": "poynting"}[sp["kind"]]
    comps = sp.get("comps", list(range(6)) if sp["kind"] == "phasorflux" else [])
    mask = "".join("1" if i in comps else "0" for i in range(6))
    return (f"det {kind} {mask} {int(bool(sp.get('reduce')))} {int(sp['exact'])} {int(bool(sp.get('slices')))} "
            f"{int(bool(sp.get('keep_all')))} {sp.get('prop', 0)} {touched[0]} {touched[1]} {touched[2]} "
            f"{o} {c} {shp[0]} {shp[1]} {shp[2]} " + " ".join(f2h(v) for v in vals))


PROBE = (2.0, 3.0, 5.0, 7.0, 11.0, 13.0)     # Ex, Ey, Ez, Hx, Hy, Hz


def stored_order(det, state):
    """which field component sits in which slot of the detector's record, found by RUNNING the detector's own
    update on fields where every component is a distinct constant (independent of the unfolding code)"""
    j = J()
    jnp = j["jnp"]
    import numpy as _np
    gs = tuple(det.grid_shape)
    zero = {k: jnp.zeros_like(v) for k, v in state.items()}

    upd = j["jax"].jit(lambda E, H, t: det.update(t, E, H, zero, 1.0, 1.0))

    def slots(consts):
        import warnings
        E = jnp.stack([jnp.full(gs, consts[c], dtype=jnp.float32) for c in range(3)])
        H = jnp.stack([jnp.full(gs, consts[3 + c], dtype=jnp.float32) for c in range(3)])
        for t in (0, 1):
            with warnings.catch_warnings():
                warnings.simplefilter("ignore")
                out = upd(E, H, jnp.asarray(t, dtype=jnp.int32))
            a = _np.asarray(out["fields"])[0] if "fields" in out else _np.asarray(out["phasor"])[0, 0]
            v = _np.asarray([a[c].ravel()[0] for c in range(a.shape[0])])
            if _np.all(v != 0):
                return v
        raise RuntimeError(f"probe of {det.name} recorded zeros")

    ratio = slots(PROBE) / slots((1.0,) * 6)        # the second run measures the detector's own scale per slot
    idx = []
    for r in ratio:
        hit = [i for i, pc in enumerate(PROBE) if abs(r - pc) < 1e-4 * pc]
        if len(hit) != 1:
            raise RuntimeError(f"cannot identify the stored component order of {det.name}: {ratio}")
        idx.append(hit[0])
    return idx


def det_component_parities(sp, a, w, stored=None):
    if sp["kind"] in ("field", "phasor", "phasorflux"):
        comps = stored if stored is not None else sorted(sp.get("comps", list(range(6))))
        return [o_parity("E" if i < 3 else "H", i % 3, a, w) for i in comps]
    if sp["kind"] == "energy":
        return [1]
    return [o_poynting(i, a, w) for i in ((0, 1, 2) if sp["keep_all"] else (sp["prop"],))]


def to5(sp, arr):
    """normalise a stored record to (outer, comp, x, y, z)"""
    a = np.asarray(arr)
    if sp["kind"] in ("phasor", "phasorflux"):          # (1, F, C, x, y, z) or (1, F, C)
        a = a[0]
        return a if a.ndim == 5 else a.reshape(a.shape + (1, 1, 1))
    if sp["kind"] == "field":                           # (T, C, x, y, z) or (T, C)
        return a if a.ndim == 5 else a.reshape(a.shape + (1, 1, 1))
    if sp["kind"] == "energy":                          # (T, x, y, z) or (T, 1)
        return a[:, None] if a.ndim == 4 else a.reshape((a.shape[0], 1, 1, 1, 1))
    if sp["keep_all"]:                                  # (T, 3, x, y, z) or (T, 3)
        return a if a.ndim == 5 else a.reshape(a.shape + (1, 1, 1))
    return a[:, None] if a.ndim == 4 else a.reshape((a.shape[0], 1, 1, 1, 1))


def eval_scene(ctx, case, compare=True):
    """returns (detail or None); K comparisons are pushed into ctx when compare"""
    from .common import f2h, Rng
    j = J()
    jnp, fdtdx = j["jnp"], j["fdtdx"]
    sym, vshape = tuple(case["sym"]), case["vshape"]
    try:
        oc, arrays, cfg = build_scene(case)
    except Exception as e:  # noqa: BLE001
        return f"place_objects raised {type(e).__name__}: {str(e)[:200]}"
    rng = Rng(case["seed"])
    byname = {d.name: d for d in oc.detectors}
    stored = {}
    for sp in case["dets"]:
        if sp["kind"] in ("field", "phasor") and sp["name"] in byname and sp["name"] in arrays.detector_states:
            stored[sp["name"]] = stored_order(byname[sp["name"]], arrays.detector_states[sp["name"]])
            ctx.impl_property_evals += 1
            if sorted(stored[sp["name"]]) != sorted(sp["comps"]):
                return f"{sp['name']}: record holds components {stored[sp['name']]}, requested {sp['comps']}"
            if compare and stored[sp["name"]] != sorted(sp["comps"]):
                # the model (like _stored_component_spec) assumes the canonical Ex..Hz storage order
                ctx.mismatch("stored-order", {**case, "det": sp["name"]}, {"impl": stored[sp["name"]], "model": sorted(sp["comps"])})
    states, raw = {}, {}
    for sp in case["dets"]:
        st = arrays.detector_states.get(sp["name"])
        if st is None:
            return f"detector {sp['name']} lost by placement"
        new = {}
        for key, v in st.items():
            re = rand_arr(rng, v.shape, f32=True)
            if np.issubdtype(v.dtype, np.complexfloating):
                val = re + 1j * rand_arr(rng, v.shape, f32=True)
            else:
                val = re
            new[key] = jnp.asarray(val).astype(v.dtype)
        states[sp["name"]] = new
    # reduce_volume detectors: make the stored value the reduction of a spatial twin record (for the third clause)
    twins = {}
    for sp in case["dets"]:
        if sp.get("reduce") and not sp.get("slices"):
            det = byname[sp["name"]]
            gs = det.grid_shape
            cur = np.asarray(states[sp["name"]][next(iter(states[sp["name"]]))])
            lead = cur.shape if sp["kind"] != "energy" and not (sp["kind"] == "poynting" and not sp["keep_all"]) else cur.shape[:1]
            tw = rand_arr(rng, tuple(lead) + tuple(gs), f32=False)
            twins[sp["name"]] = tw
            red = tw.mean(axis=(-3, -2, -1)) if sp["kind"] in ("field", "phasor") else tw.sum(axis=(-3, -2, -1))
            key = next(iter(states[sp["name"]]))
            states[sp["name"]] = {key: jnp.asarray(red.reshape(cur.shape)).astype(jnp.complex128 if np.iscomplexobj(cur) else jnp.float64)}
    arrays = arrays.aset("detector_states", states)
    if case.get("eager"):
        k, out = exc_kind(lambda: fdtdx.unfold_detector_states(arrays, oc, cfg))
    else:
        fn = j["jax"].jit(lambda st: fdtdx.unfold_detector_states(arrays.aset("detector_states", st), oc, cfg).detector_states)
        k, out = exc_kind(lambda: arrays.aset("detector_states", fn(states)))
    if k != "ok":
        return f"unfold_detector_states raised {out}"
    for sp in case["dets"]:
        det = byname[sp["name"]]
        exp_t = expected_touched(sym, vshape, sp)
        starts = [det.unreduced_grid_slice_tuple[a][0] for a in range(3)]
        real_t = [cfg.symmetry[a] if det.straddles_symmetry_plane(a) else 0 for a in range(3)]
        if compare:
            for a in range(3):
                queue(f"touched {sym[a]} {starts[a]}",
                      lambda rep, a=a, real_t=real_t, starts=starts: ctx.expect_equal(
                          "touched", {**case, "det": sp["name"], "axis": a, "start": starts[a]}, str(real_t[a]), rep))
        if real_t != exp_t:
            return f"{sp['name']}: planes seen {real_t}, box {sp['lo']}..{sp['hi']} in {vshape} crosses {exp_t}"
        st_in, st_out = states[sp["name"]], out.detector_states[sp["name"]]
        ntkey = (sp["kind"], tuple(exp_t), bool(sp.get("reduce")), bool(sp.get("slices")), sp["exact"], bool(sp.get("keep_all")),
                 "comps" in sp and sp["comps"] != sorted(sp["comps"]))
        ctx.case(sample=None, nontrivial=ntkey if any(exp_t) else None, op="det", kind=sp["kind"],
                 touched=sum(1 for t in exp_t if t), reduce=bool(sp.get("reduce")),
                 component_order=("n/a" if "comps" not in sp else "canonical" if sp["comps"] == sorted(sp["comps"]) else "non-canonical"))
        if set(st_in) != set(st_out):
            return f"{sp['name']}: state keys changed"
        if not any(exp_t):
            for key in st_in:
                if not np.array_equal(np.asarray(st_in[key]), np.asarray(st_out[key])):
                    return f"{sp['name']}: untouched detector changed"
            continue
        onp = [a for a in (0, 1) if sp["exact"] and exp_t[a] == -1]
        for key in st_in:
            a_in, a_out = np.asarray(st_in[key]), np.asarray(st_out[key])
            ctx.impl_property_evals += 1
            if a_out.dtype != a_in.dtype:
                return f"{sp['name']}[{key}]: dtype changed {a_in.dtype} -> {a_out.dtype}"
            if sp.get("slices"):
                plane = {"XY Plane": 0, "XZ Plane": 1, "YZ Plane": 2}[key]
                pq = [(0, 1), (0, 2), (1, 2)][plane]
                if compare:
                    def cmp_slice(rep, a_out=a_out, nm=sp["name"], key=key):
                        if not same(a_out, model_arr(rep)):
                            ctx.mismatch("slice", {**case, "det": nm, "key": key}, {"impl_shape": list(a_out.shape), "model": rep[:120]})
                    queue(f"slice {int(sp['exact'])} {exp_t[0]} {exp_t[1]} {exp_t[2]} {plane} "
                          f"{a_in.shape[0]} {a_in.shape[1]} {a_in.shape[2]} " + " ".join(f2h(v) for v in a_in.ravel()), cmp_slice)
                cur = a_out
                for ax, ph in ((1, pq[0]), (2, pq[1])):
                    if exp_t[ph] == 0:
                        if a_out.shape[ax] != a_in.shape[ax]:
                            return f"{sp['name']}[{key}]: untouched axis changed"
                        continue
                    sl = [slice(None)] * 3
                    sl[ax] = slice(a_out.shape[ax] // 2, None)
                    if a_out.shape[ax] != 2 * a_in.shape[ax]:
                        return f"{sp['name']}[{key}]: extent not doubled along {'xyz'[ph]}"
                    d = check_mirror(a_out, a_out[tuple(sl)], ax, 1.0, ph in onp)
                    if d:
                        return f"{sp['name']}[{key}]: {d}"
                    cur = cur[tuple(sl)]
                if not np.array_equal(cur, a_in):
                    return f"{sp['name']}[{key}]: upper half differs from the stored plane"
                continue
            n_in, n_out = to5(sp, a_in), to5(sp, a_out)
            parts = [(n_in.real, n_out.real), (n_in.imag, n_out.imag)] if np.iscomplexobj(n_in) else [(n_in, n_out)]
            if compare:
                for pi, po in parts:
                    def cmp_det(rep, po=po, nm=sp["name"]):
                        if not same(po, model_arr(rep)):
                            ctx.mismatch("det", {**case, "det": nm}, {"impl_shape": list(po.shape), "model": rep[:160]})
                    queue(model_det_line(sp, exp_t, pi.shape[0], pi.shape[1], pi.shape[2:], pi.ravel()), cmp_det)
            if sp.get("reduce"):
                # third clause: unfolded reduced value == reduction of the unfolded spatial twin (off-plane only)
                if onp:
                    continue
                tw = twins[sp["name"]]
                full = tw
                for a in range(3):
                    if exp_t[a] == 0:
                        continue
                    par = np.asarray(det_component_parities(sp, a, exp_t[a], stored.get(sp["name"])), dtype=np.float64)
                    ax = full.ndim - 3 + a
                    if sp["kind"] in ("field", "phasor") or (sp["kind"] == "poynting" and sp["keep_all"]):
                        par = par.reshape((-1, 1, 1, 1))
                    else:
                        par = float(par[0])
                    full = np.concatenate([np.flip(full, axis=ax) * par, full], axis=ax)
                red = full.mean(axis=(-3, -2, -1)) if sp["kind"] in ("field", "phasor") else full.sum(axis=(-3, -2, -1))
                got = a_out.reshape(red.shape)
                if not np.allclose(got, red, rtol=1e-9, atol=1e-9):
                    return (f"{sp['name']} ({sp['kind']}, reduce_volume, planes {exp_t}): unfolded value {got.ravel()[:3]} != "
                            f"reduction of the unfolded spatial record {red.ravel()[:3]}")
                continue
            # spatial record: per-axis law on the final array + upper half
            cur = n_out
            for a in range(3):
                if exp_t[a] == 0:
                    if n_out.shape[2 + a] != n_in.shape[2 + a]:
                        return f"{sp['name']}: untouched axis {a} changed extent"
                    continue
                if n_out.shape[2 + a] != 2 * n_in.shape[2 + a]:
                    return f"{sp['name']}: extent along {'xyz'[a]} not doubled ({n_in.shape[2 + a]} -> {n_out.shape[2 + a]})"
                sl = [slice(None)] * 5
                sl[2 + a] = slice(n_out.shape[2 + a] // 2, None)
                par = np.asarray(det_component_parities(sp, a, exp_t[a], stored.get(sp["name"])), dtype=np.float64).reshape((1, -1, 1, 1, 1))
                d = check_mirror(n_out, n_out[tuple(sl)], 2 + a, par, a in onp)
                if d:
                    return f"{sp['name']} ({sp['kind']}) across the {'xyz'[a]}-plane (wall {exp_t[a]}): {d}"
                cur = cur[tuple(sl)]
            if not np.array_equal(cur, n_in):
                return f"{sp['name']}: upper half of the unfolded record differs from the stored record"
    return None


# ------------------------------------------------------------------------------------------- K
EVAL = {"low": eval_low, "fields": eval_fields, "array": eval_array, "scene": eval_scene}


def nontrivial_of(case):
    if case["op"] == "low":
        return ("low", case["n"], case["p"], case["on_plane"]) if (case["on_plane"] or case["p"] == -1 or case["n"] == 1) else None
    if case["op"] == "fields":
        return ("fields", tuple(case["sym"]), case["ft"], tuple(case["shape"]))
    if case["op"] == "array":
        return ("array", tuple(case["sym"]), case["layout"], tuple(case["on_plane"]), case["mode"])
    return None


def run(ctx):
    run_tables(ctx)
    cases = []
    for _ in range(ctx.scale(12, 300)):
        cases.append(low_case(ctx, ctx.rng))
    for rep in range(ctx.scale(1, 6)):
        flip = ctx.rng.randint(0, 1)
        for k, sym in enumerate(ALL_SYMS):
            # thorough: both field kinds for every tuple; quick: every tuple with one kind (alternating, seed-dependent)
            for ft in ("EH" if ctx.thorough else "EH"[(k + flip) % 2]):
                cases.append(fields_case(ctx.rng, sym, ft))
    # error inputs of unfold_fields
    cases.append({"op": "fields", "sym": [0, 0, 0], "ft": "E", "shape": [2, 2, 2], "vals": [0.5] * 24})
    cases.append({"op": "fields", "sym": [2, 0, 0], "ft": "H", "shape": [2, 1, 2], "vals": [0.25] * 12})
    cases.append({"op": "fields", "sym": [0, -1, -3], "ft": "E", "shape": [1, 2, 2], "vals": [1.5] * 12})
    cases.append({"op": "fields", "sym": [-1, 0, 0], "ft": "D", "shape": [2, 2, 2], "vals": [0.5] * 24})
    for _ in range(ctx.scale(22, 500)):
        cases.append(array_case(ctx.rng))
    for case in cases:
        d = EVAL[case["op"]](ctx, case)
        ctx.case(sample=case if len(case.get("vals", [])) <= 12 and case["op"] != "low" else None,
                 nontrivial=nontrivial_of(case), op=case["op"],
                 **({"nsym": sum(1 for s in case["sym"] if s)} if "sym" in case else {}))
        if d:
            ctx.violation(case, d)
    flush(ctx)
    # detector scenes: every symmetry tuple in the thorough tier, a seed-dependent subset in the quick tier
    syms = list(ALL_SYMS) if ctx.thorough else ctx.rng.shuffle(ALL_SYMS)[:5]
    if not ctx.thorough:  # always keep a triple-plane, a pure-electric, a pure-magnetic and a mixed scene
        syms = syms[:1] + [ctx.rng.choice([(-1, -1, -1), (-1, 1, -1), (1, -1, 1)]), ctx.rng.choice([(-1, 0, 0), (0, -1, 0)]),
                           ctx.rng.choice([(1, 0, 0), (0, 0, 1), (1, 1, 0)]), ctx.rng.choice([(0, 1, -1), (-1, 0, 1)])]
    for k, sym in enumerate(syms):
        # every scene also carries a Field and a Phasor detector with a NON-canonical components tuple (variant k)
        nsym = sum(1 for x in sym if x)
        case = scene_case(ctx.rng, sym, ctx.scale(3 if nsym >= 2 else 5, 12), variant=k)
        d = eval_scene(ctx, case)
        if d:
            ctx.violation(case, d)
    # summed Poynting flux: every normal axis x every single straddled plane x both wall kinds (fixed set)
    for sym in ([(-1, -1, -1), (1, 1, 1)] + ([(-1, 1, -1), (1, -1, 1), (0, 1, -1)] if ctx.thorough else [])):
        case = poynting_scene(ctx.rng, sym)
        d = eval_scene(ctx, case)
        if d:
            ctx.violation(case, d)
    flush(ctx)
    ctx.extra["exhaustive_bounds"] = {"tables": "all rows", "unfold_fields": "all 26 symmetry tuples"}


# ------------------------------------------------------------------------------------------- S
def search(ctx, hints):
    for h in hints:
        if isinstance(h, dict) and h.get("op") in EVAL:
            d = EVAL[h["op"]](ctx, h, compare=False)
            if d:
                ctx.violation(h, d)
                return
    from .common import Rng
    rng = Rng(ctx.seed + 77)
    # smallest inputs first: 1-D blocks, then single-axis fields with growing extents, then arrays, then scenes
    for n in range(1, 5):
        for p in (1, -1):
            for op in (False, True):
                for nd, ax in ((1, 0), (2, 0), (2, 1)):
                    case = {"op": "low", "n": n, "p": p, "on_plane": op, "vals": [float(i + 1) for i in range(n)], "ndim": nd, "axis": ax}
                    d = eval_low(ctx, case, compare=False)
                    if d:
                        ctx.violation(case, d)
                        return
    for ext in (1, 2, 3):
        for sym in ALL_SYMS:
            for ft in "EH":
                shape = [ext if s else 1 for s in sym]
                n = 3 * shape[0] * shape[1] * shape[2]
                case = {"op": "fields", "sym": list(sym), "ft": ft, "shape": shape, "vals": [float(i + 1) for i in range(n)]}
                d = eval_fields(ctx, case, compare=False)
                if d:
                    ctx.violation(case, d)
                    return
    for _ in range(400):
        case = array_case(rng)
        d = eval_array(ctx, case, compare=False)
        if d:
            ctx.violation(case, d)
            return
    for sym in [(-1, -1, -1), (1, 1, 1), (-1, 1, -1), (1, -1, 1)]:
        case = poynting_scene(rng, sym)
        d = eval_scene(ctx, case, compare=False)
        if d:
            ctx.violation(case, d)
            return
    for ndet in (2, 5, 10):
        for sym in ALL_SYMS:
            case = scene_case(rng, sym, ndet, variant=rng.randint(0, 3))
            d = eval_scene(ctx, case, compare=False)
            if d:
                ctx.violation(case, d)
                return


def replay(ctx, inp):
    if inp.get("op") in ("parity", "onplane", "ppar"):
        j = J()
        if inp["op"] == "parity":
            v = j["cs"].field_component_parity(inp["ft"], inp["c"], inp["a"], inp["w"])
            return None if v == o_parity(inp["ft"], inp["c"], inp["a"], inp["w"]) else f"parity {v}"
        if inp["op"] == "onplane":
            v = j["cs"].mirror_pairs_on_plane(inp["ft"], inp["c"], inp["a"], inp["w"])
            return None if bool(v) == o_on_plane(inp["ft"], inp["c"], inp["a"], inp["w"]) else f"on-plane {v}"
        v = j["fs"]._poynting_parity(inp["i"], inp["a"], inp["w"])
        return None if v == o_poynting(inp["i"], inp["a"], inp["w"]) else f"poynting parity {v}"
    return EVAL[inp["op"]](ctx, inp, compare=False)
