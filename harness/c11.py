"""C11 — complex-valued field storage reproduces real-valued runs.

Property oracle (on the real code): the same scene placed with SimulationConfig(use_complex_fields=None) and with
use_complex_fields=True, both run through fdtdx.run_fdtd: real parts equal, imaginary parts zero, detector states
equal.  K: forward() of both placements from the same random real state (and, on the complex placement, from a
complex state) vs the shared Yee model on binary64 (`fwd r`) and on complex binary64 (`fwd c`); the TFSF
injection functions `_tfsf_inject_E_face` / `_tfsf_inject_H_face` called directly with real / complex field
arrays and real / complex-typed / genuinely complex incident profiles vs the model's `incidentComponent`."""
import numpy as np

from . import yee_api as Y
from . import c10 as L
from .common import f2h, h2f

RULE = ("scenes from the seed (generator of C10 with boundary pairs pml, periodic, bloch with zero wave vector, pec, pmc, "
        "none, mixed): 4..6 cells per axis, uniform / non-uniform grid, 1..2 sources of every kind (UniformPlaneSource, "
        "GaussianPlaneSource, PointDipoleSource electric/magnetic, and the hard HardConstantAmplitudePlanceSource from "
        "fdtdx.objects.sources.source — always present in the first quick scene), detectors of every kind (Field, Phasor, Energy, "
        "PoyntingFlux, ClosedSurfacePoyntingFlux; reduced / full / co-located or not), random inv_eps, optional sigma_E, "
        "6..12 steps. Property oracle per scene: run_fdtd on the real placement and on the use_complex_fields=True placement: "
        "field dtype is complex, Re(fields) equal (1e-9 relative), |Im(fields)| <= 1e-12 * scale, every detector state "
        "(incl. Energy and PoyntingFlux, always present) equal (1e-9) with zero imaginary part. K per scene: forward() x1 from a random real state on both placements vs "
        "model `fwd r` / `fwd c`; forward() from a complex state on the complex placement vs `fwd c`; direct calls of "
        "_tfsf_inject_E_face/_tfsf_inject_H_face (real fields/real profile = complex fields/real profile = real fields/"
        "complex-typed profile with zero imaginary part; genuinely complex profile vs model incidentComponent). "
        "One scene per run (thorough: 4) has an electric and a magnetic point dipole INSIDE a lossy (damped Lorentz / Drude) "
        "dispersive block and a plane source crossing it (oracle-only). One more oracle-only scene per run (thorough: 3): a ModePlaneSource (tidy3d mode solver, 20x20 / 22x22 cross-section) "
        "whose core is conductive AND Lorentz/Drude dispersive, with Field/Energy/PoyntingFlux detectors, real vs complex "
        "storage. non-trivial = the run ends with non-zero fields.")

TOL = 1e-9
AXPAIRS = [("pml", "pml"), ("periodic", "periodic"), ("bloch", "bloch"), ("pec", "pec"), ("pmc", "pmc"), ("none", "none"),
           ("pec", "pmc"), ("pml", "pmc"), ("periodic", "periodic")]


def gen_case(rng, thorough, force=None):
    c = L.gen_case(rng, thorough)
    th = c["pml_thickness"]
    faces, shape = {}, []
    for ax in range(3):
        lo, hi = rng.choice(AXPAIRS)
        faces[Y.FACES[2 * ax]], faces[Y.FACES[2 * ax + 1]] = lo, hi
        npml = (lo == "pml") + (hi == "pml")
        nmin = max(4, npml * th + 2)
        shape.append(int(rng.randint(nmin, max(nmin, 8 if thorough else 6))))
    c["faces"], c["shape"] = faces, shape
    if c["widths"] is not None:
        c["widths"] = [[50e-9 * rng.uniform(0.7, 1.5) for _ in range(n)] for n in shape]
    for s in c["sources"]:
        if s["kind"] in ("uniform", "gauss") and rng.chance(0.3):
            s["kind"] = "hard"      # HardConstantAmplitudePlanceSource: overwrites the field on its plane
    c["amp"] = [rng.choice([-1.0, 1.0]) * rng.uniform(0.5, 2.0) for _ in c["sources"]]
    # leftover bloch_vector component on a PERIODIC axis (periodic faces must ignore it); 'bloch' faces keep k = 0
    c["bloch_vector"] = [0.0, 0.0, 0.0]
    per = [ax for ax in range(3) if faces[Y.FACES[2 * ax]] == "periodic"]
    if per and rng.chance(0.35):
        c["bloch_vector"][rng.choice(per)] = rng.choice([-1.0, 1.0]) * rng.uniform(0.5e7, 2.0e7)
    if force:
        c.update(force)
    c["bloch_vector"] = [v if c["faces"][Y.FACES[2 * ax]] == "periodic" else 0.0 for ax, v in enumerate(c["bloch_vector"])]
    if len(c["amp"]) != len(c["sources"]):
        c["amp"] = [1.3, -0.7, 0.9][:len(c["sources"])]
    for s in c["sources"]:
        s["pos"] = [int(p) % n for p, n in zip(s["pos"], c["shape"])]
    return L._fix_positions(c)


def _mx(x):
    x = np.asarray(x)
    return float(np.max(np.abs(x))) if x.size else 0.0


def cmp_complex_real(what, zc, zr):
    """detail string when complex-storage value zc does not reproduce real-storage value zr"""
    zc, zr = np.asarray(zc), np.asarray(zr)
    if zc.shape != zr.shape:
        return f"{what}: shapes differ {zc.shape} vs {zr.shape}"
    if not (np.all(np.isfinite(zc)) and np.all(np.isfinite(zr))):
        return f"{what}: non-finite values"
    scale = max(_mx(zr), 1e-300)
    e = _mx(np.real(zc) - np.real(zr)) / scale
    if not e <= TOL:
        return f"{what}: real part of the complex-storage run differs from the real-storage run by {e:.3e} (relative)"
    im = _mx(np.imag(zc) - np.imag(zr)) / scale
    if not im <= 1e-12:
        return f"{what}: imaginary part {im:.3e} (relative to the field scale) instead of 0"
    return None


def run_oracle(c, scr=None, scc=None, info=None):
    j = Y.J()
    f, jax, jnp = j["fdtdx"], j["jax"], j["jnp"]
    scr = scr or L.scene_of(c, None)
    scc = scc or L.scene_of(c, True)
    inv_eps, sig_e, _ = L.materials(c, scr)
    outs = []
    for sc in (scr, scc):
        arrays = Y.with_state(sc, inv_eps=inv_eps, sig_e=sig_e)
        try:
            st = f.run_fdtd(arrays=arrays, objects=L.with_amps(sc, c["amp"]), config=sc.config, key=jax.random.PRNGKey(0), show_progress=False)
        except Exception as e:
            if sc is scr:
                raise
            # the real-storage run works and the complex-storage run of the same scene does not
            return f"run_fdtd raised {type(e).__name__} with use_complex_fields=True while the real-storage run succeeded: {str(e)[:200]}"
        outs.append(st)
    (tr, ar), (tc, ac) = outs
    if not jnp.iscomplexobj(ac.fields.E) or not jnp.iscomplexobj(ac.fields.H):
        return "use_complex_fields=True did not allocate complex fields"
    if jnp.iscomplexobj(ar.fields.E):
        return "default placement without Bloch phase allocated complex fields"
    if int(tr) != int(tc):
        return f"runs ended at different steps {int(tr)} vs {int(tc)}"
    if info is not None:
        info["on"] = _mx(ar.fields.E) > 0 or _mx(ar.fields.H) > 0
    for nm in ("E", "H"):
        d = cmp_complex_real(f"final {nm}", getattr(ac.fields, nm), getattr(ar.fields, nm))
        if d:
            return d
    for name, st in ar.detector_states.items():
        for key, vr in st.items():
            d = cmp_complex_real(f"detector state {name}/{key}", ac.detector_states[name][key], vr)
            if d:
                return d
    return None


def forward_parts(ctx, c, scr, scc):
    """forward() on both placements vs the real / complex model; returns a detail string for the property-level
    comparison (complex placement vs real placement after one step from the same real state)"""
    inv_eps, sig_e, r = L.materials(c, scr)
    n3 = (3,) + tuple(c["shape"])
    E0, H0 = r.standard_normal(n3), r.standard_normal(n3)
    Ec, Hc = E0 + 1j * r.standard_normal(n3), H0 + 1j * r.standard_normal(n3)
    t = min(c["t"], c["steps"] - 1)
    objs_r, objs_c = L.with_amps(scr, c["amp"]), L.with_amps(scc, c["amp"])
    jE, jH = L.probe_sources(scr, objs_r, t, inv_eps, sig_e, c["shape"])
    jEc, jHc = L.probe_sources(scc, objs_c, t, inv_eps, sig_e, c["shape"])
    detail = cmp_complex_real("probed source term jE", jEc, jE) or cmp_complex_real("probed source term jH", jHc, jH)
    inv_mu = np.asarray(scr.arrays.inv_permeabilities, dtype=np.float64)
    # property on forward(): with active boundaries, 2 steps
    # with random REAL psi arrays in every PML (embedded in the complex placement): fields and psi stay real
    from . import cpml_api as P
    jnp = Y.J()["jnp"]
    qE, qH = P.random_psi(scr, r)
    names = {pr.name: pc.name for pr, pc in zip(P.pml_list(scr), P.pml_list(scc))}     # same layers, placement-specific names
    cq = lambda q: {names[k]: tuple(jnp.asarray(np.asarray(x), dtype=jnp.complex128) for x in v) for k, v in q.items()}
    nst = min(2, c["steps"] - t)
    r2 = L._fwd_full(scr, objs_r, P.with_psi(Y.with_state(scr, E0, H0, inv_eps=inv_eps, sig_e=sig_e), qE, qH), t, nst, sim=True)
    c2 = L._fwd_full(scc, objs_c, P.with_psi(Y.with_state(scc, E0, H0, inv_eps=inv_eps, sig_e=sig_e), cq(qE), cq(qH)), t, nst, sim=True)
    detail = detail or cmp_complex_real("forward() x2 E", c2[0], r2[0]) or cmp_complex_real("forward() x2 H", c2[1], r2[1])
    for k, nm in ((2, "psi_E"), (3, "psi_H")):
        for name in r2[k]:
            for idx in (0, 1):
                detail = detail or cmp_complex_real(f"forward() x2 {nm}[{name}][{idx}]", c2[k][names[name]][idx], r2[k][name][idx])
    if any(s["kind"] == "hard" for s in c["sources"]) or c.get("dispersive"):
        # a hard source overwrites fields (not an additive term); a dispersive block has ADE polarisation the Yee model
        # does not have: no model comparison for these scenes
        return detail
    # real placement with ACTIVE PML and non-zero psi vs the CPML model (Cpml.forwardP, op pmlfwd)
    L.pml_model_part(ctx, c, scr, dict(t=t, inv_eps=inv_eps, sig_e=sig_e, am=(None, None, c["amp"]), s3=(E0, H0), q3=(qE, qH)))
    # real placement vs real model
    rE, rH = L._fwd(scr, objs_r, Y.with_state(scr, E0, H0, inv_eps=inv_eps, sig_e=sig_e), t, 1, sim=False)
    mE, mH = Y.decode_fields(ctx.driver.ask(Y.request(scr, "fwd", E0, H0, inv_eps, inv_mu, sig_e, None, (jE, jH), 1)), c["shape"])
    ctx.expect_close("forward real storage", c, np.concatenate([rE.ravel(), rH.ravel()]), np.concatenate([mE.ravel(), mH.ravel()]))
    # complex placement, embedded real state, vs complex model
    cE, cH = L._fwd(scc, objs_c, Y.with_state(scc, E0, H0, inv_eps=inv_eps, sig_e=sig_e), t, 1, sim=False)
    mcE, mcH = Y.decode_fields(ctx.driver.ask(Y.request(scc, "fwd", E0, H0, inv_eps, inv_mu, sig_e, None, (jE, jH), 1, is_complex=True)), c["shape"], True)
    ctx.expect_close("forward complex storage (embedded real state)", c, np.concatenate([cE.ravel(), cH.ravel()]), np.concatenate([mcE.ravel(), mcH.ravel()]))
    ctx.expect_close("model: complex run = embedded real run", c, np.concatenate([mE.ravel(), mH.ravel()]).astype(np.complex128),
                     np.concatenate([mcE.ravel(), mcH.ravel()]), tol=1e-12)
    # complex placement, genuinely complex state, vs complex model
    gE, gH = L._fwd(scc, objs_c, Y.with_state(scc, Ec, Hc, inv_eps=inv_eps, sig_e=sig_e), t, 1, sim=False)
    mgE, mgH = Y.decode_fields(ctx.driver.ask(Y.request(scc, "fwd", Ec, Hc, inv_eps, inv_mu, sig_e, None, (jE, jH), 1, is_complex=True)), c["shape"], True)
    ctx.expect_close("forward complex storage (complex state)", c, np.concatenate([gE.ravel(), gH.ravel()]), np.concatenate([mgE.ravel(), mgH.ravel()]))
    return detail


def tfsf_part(ctx, c, scr, rng):
    """direct calls of the TFSF face injection with real / complex fields and profiles"""
    from fdtdx.objects.sources.tfsf import _tfsf_inject_E_face, _tfsf_inject_H_face
    from fdtdx.core.axis import get_oriented_transverse_axes
    jnp = Y.J()["jnp"]
    planes = [s for s in scr.objects.sources if hasattr(s, "_time_offset_H") and hasattr(s, "propagation_axis")]
    if not planes:
        return None, 0
    src = planes[0]
    cfg = scr.config
    inv_eps, _, r = L.materials(c, scr)
    n3 = (3,) + tuple(c["shape"])
    t = float(min(c["t"], c["steps"] - 1))
    saf = 1.3
    a_ax, b_ax = get_oriented_transverse_axes(src.propagation_axis)
    cn = float(cfg.courant_number)
    detail, n = None, 0
    for which in ("E", "H"):
        prof = np.asarray(src._H if which == "E" else src._E, dtype=np.float64)
        off = np.asarray(src._time_offset_H if which == "E" else src._time_offset_E, dtype=np.float64)
        gen = prof * (0.6 - 0.8j) + 0.3j * r.standard_normal(prof.shape)

        def call(field_dtype, P):
            F = jnp.zeros(n3, dtype=field_dtype)
            common = dict(grid_slice=src.grid_slice, normal_axis=src.propagation_axis, sign=1, c=cn, time_step=jnp.asarray(t),
                          delta_t=cfg.time_step_duration, temporal_profile=src.temporal_profile, wave_character=src.wave_character,
                          static_amplitude_factor=saf)
            if which == "E":
                return np.asarray(_tfsf_inject_E_face(F, incident_H=jnp.asarray(P), time_offset_H=jnp.asarray(off), temporal_H_filter=None,
                                                      inv_permittivities=jnp.asarray(inv_eps), **common))
            return np.asarray(_tfsf_inject_H_face(F, incident_E=jnp.asarray(P), time_offset_E=jnp.asarray(off),
                                                  inv_permeabilities=scr.arrays.inv_permeabilities, **common))
        base = call(jnp.float64, prof)
        d1 = cmp_complex_real(f"_tfsf_inject_{which}_face with complex fields / real profile", call(jnp.complex128, prof), base)
        d2 = cmp_complex_real(f"_tfsf_inject_{which}_face with complex-typed profile of zero imaginary part", call(jnp.float64, prof.astype(np.complex128)), base)
        detail = detail or d1 or d2
        # genuinely complex profile: model formula per cell
        got = call(jnp.float64, gen)
        period, ph = src.wave_character.get_period(), src.wave_character.phase_shift
        sl = tuple(src.grid_slice)
        for (tgt, other, sgn) in ((a_ax, b_ax, 1.0), (b_ax, a_ax, -1.0)) if which == "E" else ((b_ax, a_ax, 1.0), (a_ax, b_ax, -1.0)):
            tm = (t + off[other]) * float(cfg.time_step_duration)
            amp = np.asarray(src.temporal_profile.get_amplitude(time=jnp.asarray(tm), period=period, phase_shift=ph)) * saf
            quad = np.asarray(src.temporal_profile.get_amplitude(time=jnp.asarray(tm), period=period, phase_shift=ph - 0.5 * np.pi)) * saf
            if which == "E":
                mat = np.broadcast_to(inv_eps, n3)[(tgt,) + sl]
            else:
                im_ = np.asarray(scr.arrays.inv_permeabilities, dtype=np.float64)
                mat = np.broadcast_to(im_, n3)[(tgt,) + sl] if im_.ndim else np.full(prof.shape[1:], float(im_))
            inc_got = got[(tgt,) + sl]
            for _ in range(3):
                idx = tuple(int(rng.randint(0, s - 1)) for s in inc_got.shape)
                line = " ".join(["tfsfamp", "1", f2h(gen[other][idx].real), f2h(gen[other][idx].imag), f2h(np.broadcast_to(amp, inc_got.shape)[idx]),
                                 f2h(np.broadcast_to(quad, inc_got.shape)[idx])])
                m = h2f(ctx.driver.ask(line))
                ctx.expect_close(f"_tfsf_inject_{which}_face quadrature", c, np.array([inc_got[idx]]), np.array([sgn * m * cn * mat[idx]]), floor=1e-3)
                line0 = " ".join(["tfsfamp", "0", f2h(prof[other][idx]), f2h(0.0), f2h(np.broadcast_to(amp, inc_got.shape)[idx]),
                                  f2h(np.broadcast_to(quad, inc_got.shape)[idx])])
                m0 = h2f(ctx.driver.ask(line0))
                ctx.expect_close(f"_tfsf_inject_{which}_face plain", c, np.array([base[(tgt,) + sl][idx]]), np.array([sgn * m0 * cn * mat[idx]]), floor=1e-3)
                n += 2
    return detail, n


# ------------------------------------------------------------ ModePlaneSource in a conductive + dispersive core (oracle only)
def mode_forced(seed, k=0):
    """k even: core conductive AND dispersive, scalar permeability (the mode profile must stay real);
    k odd: core conductive only (complex, lossy mode profile -> quadrature injection) and a small MAGNETIC block elsewhere
    in the scene, so that the permeability is stored as an array"""
    n = 20 + 2 * ((seed + k) % 2)
    lossy_only = k % 2 == 1
    return dict(mode="modesrc", shape=[8 if lossy_only else 6, n, n], steps=6, axis=0, direction="+" if (seed + k) % 2 == 0 else "-",
                core={"kind": "none" if lossy_only else ("lorentz" if k % 4 == 0 else "drude"), "w0": 6.0e15, "wp": 2.0e15, "gamma": 1.0e14,
                      "de": 1.5, "eps_inf": 6.0, "sigma": 3.0e4, "size": 8},
                magnet=({"pos": [5, 3, 4], "size": [2, 3, 3], "mu": 1.6} if lossy_only else None),
                wavelength=1.0e-6, mode_index=0, seed=500 + seed + k)


def mode_scene(c, complex_fields):
    j = Y.J()
    f, jnp = j["fdtdx"], j["jnp"]
    wave = f.WaveCharacter(wavelength=c["wavelength"])

    def extra(vol):
        core = f.UniformMaterialObject(partial_grid_shape=(None, c["core"]["size"], c["core"]["size"]),
                                       material=L.dispersive_material(f, c["core"]), name="core")
        src = f.ModePlaneSource(name="src0", partial_grid_shape=(1, None, None), wave_character=wave, direction=c["direction"],
                                mode_index=c["mode_index"], static_amplitude_factor=1.0)
        dets = [f.FieldDetector(name="det0_field", dtype=jnp.float64, plot=False, partial_grid_shape=(None, None, None)),
                f.EnergyDetector(name="det1_energy", dtype=jnp.float64, plot=False, reduce_volume=True, partial_grid_shape=(None, None, None)),
                f.PoyntingFluxDetector(name="det2_poynting", dtype=jnp.float64, plot=False, direction="+", partial_grid_shape=(1, None, None))]
        cons = [core.place_at_center(vol), src.set_grid_coordinates(axes=0, sides="-", coordinates=2),
                dets[2].set_grid_coordinates(axes=0, sides="-", coordinates=4)]
        extra_objs = []
        if c.get("magnet"):
            mg = f.UniformMaterialObject(partial_grid_shape=tuple(c["magnet"]["size"]), name="magnet",
                                         material=L.dispersive_material(f, {"kind": "none", "eps_inf": 1.0, "mu": c["magnet"]["mu"]}))
            cons.append(mg.set_grid_coordinates(axes=(0, 1, 2), sides=("-", "-", "-"), coordinates=tuple(c["magnet"]["pos"])))
            extra_objs.append(mg)
        for d in dets[:2]:
            cons += list(d.same_position_and_size(vol))
        return [core] + extra_objs + [src] + dets, cons
    faces = {"min_x": "periodic", "max_x": "periodic", "min_y": "none", "max_y": "none", "min_z": "none", "max_z": "none"}
    dt = L._dt(dict(widths=None))
    return Y.build(c["shape"], faces, time=(c["steps"] + 0.01) * dt, gradient=None, extra_fn=extra, complex_fields=complex_fields)


def mode_oracle(c, info=None):
    j = Y.J()
    f, jax, jnp = j["fdtdx"], j["jax"], j["jnp"]
    outs = []
    for cf in (None, True):
        sc = mode_scene(c, cf)
        st = f.run_fdtd(arrays=sc.arrays, objects=sc.objects, config=sc.config, key=jax.random.PRNGKey(0), show_progress=False)
        outs.append((sc, st))
    (scr, (tr, ar)), (scc, (tc, ac)) = outs
    if info is not None:
        src = [s for s in scr.objects.sources][0]
        info["on"] = _mx(ar.fields.E) > 0
        info["profile_complex_dtype"] = bool(jnp.iscomplexobj(src._E))
        info["conductive"] = scr.arrays.electric_conductivity is not None
        info["dispersive"] = scr.arrays.dispersive_c1 is not None
        mu = scr.arrays.inv_permeabilities
        info["array_permeability"] = bool(hasattr(mu, "ndim") and mu.ndim > 0)
    if not jnp.iscomplexobj(ac.fields.E):
        return "use_complex_fields=True did not allocate complex fields"
    for nm in ("E", "H"):
        d = cmp_complex_real(f"mode source scene (lossy core): final {nm}", getattr(ac.fields, nm), getattr(ar.fields, nm))
        if d:
            return d
    for name, st in ar.detector_states.items():
        for key, vr in st.items():
            d = cmp_complex_real(f"mode source scene: detector state {name}/{key}", ac.detector_states[name][key], vr)
            if d:
                return d
    return None


def one_mode_case(ctx, c):
    info = {}
    d = mode_oracle(c, info)
    ctx.impl_property_evals += 1
    ctx.case(nontrivial=("modesrc", c["seed"]) if info.get("on") and info.get("conductive") else None,
             mode="mode-source", mode_profile_complex_dtype=info.get("profile_complex_dtype"), core=c["core"]["kind"],
             mode_scene_array_permeability=info.get("array_permeability"), mode_scene_dispersive=info.get("dispersive"))
    if d:
        ctx.violation(c, d)


def leftover_oracle(c, scr):
    """periodic axes with a leftover non-zero bloch_vector component in the BoundaryConfig (documented: periodic faces
    ignore it): explicit use_complex_fields=False must be accepted, and the real run must equal the run of the same scene
    with a zero vector"""
    j = Y.J()
    f, jax = j["fdtdx"], j["jax"]
    try:
        scf = L.scene_of(c, False)
    except Exception as e:
        return f"placement with use_complex_fields=False raised {type(e).__name__} for periodic faces with leftover bloch_vector {c['bloch_vector']}: {str(e)[:160]}"
    sc0 = L.scene_of(dict(c, bloch_vector=[0.0, 0.0, 0.0]), None)
    inv_eps, sig_e, _ = L.materials(c, scr)
    outs = []
    for sc in (scf, sc0):
        st = f.run_fdtd(arrays=Y.with_state(sc, inv_eps=inv_eps, sig_e=sig_e), objects=L.with_amps(sc, c["amp"]), config=sc.config,
                        key=jax.random.PRNGKey(0), show_progress=False)
        outs.append(st[1])
    for nm in ("E", "H"):
        d = cmp_complex_real(f"periodic scene with leftover bloch_vector vs zero vector: final {nm}", getattr(outs[0].fields, nm), getattr(outs[1].fields, nm))
        if d:
            return d
    return None


def one_case(ctx, c, sample=False):
    leftover = any(v != 0.0 for v in (c.get("bloch_vector") or []))
    try:
        scr, scc = L.scene_of(c, None), L.scene_of(c, True)
    except Exception as e:
        if not leftover:
            raise
        ctx.case(nontrivial=None, oracle_failed=True)
        ctx.violation(c, f"placement raised {type(e).__name__} for periodic faces with leftover bloch_vector {c['bloch_vector']}: {str(e)[:160]}")
        return
    info = {}
    d0 = run_oracle(c, scr, scc, info)
    if not d0 and leftover:
        d0 = leftover_oracle(c, scr)
    if d0:
        ctx.case(nontrivial=None, oracle_failed=True)
        ctx.impl_property_evals += 1
        ctx.violation(c, d0)
        return
    d1 = forward_parts(ctx, c, scr, scc)
    d2, ntf = tfsf_part(ctx, c, scr, ctx.rng)
    kinds = sorted(set(c["faces"].values()))
    ctx.case(sample={k: c[k] for k in ("shape", "faces", "sources", "steps", "amp", "gradient", "seed")} if sample else None,
             nontrivial=(tuple(c["shape"]), c["seed"]) if info.get("on") else None, n_sources=len(c["sources"]),
             grid="nonuniform" if c["widths"] else "uniform", gradient=str(c["gradient"]), sig_e=c["sig_e"], tfsf_cells=ntf,
             dispersive=(c["dispersive"]["kind"] if c.get("dispersive") else "no"),
             leftover_bloch_vector=("no" if not leftover else "+" if max(c["bloch_vector"], key=abs) > 0 else "-"),
             **{"src_" + s["kind"]: True for s in c["sources"]}, **{"face_" + k: True for k in kinds},
             **{"det_%s_%s%s" % (d["kind"], "reduced" if d["reduce"] else "full", "_exact" if d["exact"] else ""): True for d in c["detectors"]})
    ctx.impl_property_evals += 3
    for d in (d0, d1, d2):
        if d:
            ctx.violation(c, d)
            break


FORCED = [
    dict(shape=[5, 5, 8], pml_thickness=2, widths=None, steps=9, gradient=None,
         faces={"min_x": "periodic", "max_x": "periodic", "min_y": "bloch", "max_y": "bloch", "min_z": "pml", "max_z": "pml"},
         sources=[{"kind": "gauss", "axis": 2, "direction": "+", "profile": "pulse", "switch": "default", "pol": 0, "pos": [2, 2, 3]},
                  {"kind": "dipole_m", "axis": 0, "direction": "+", "profile": "cw", "switch": "interval", "pol": 1, "pos": [1, 3, 4]},
                  {"kind": "hard", "axis": 2, "direction": "+", "profile": "cw", "switch": "default", "pol": 1, "pos": [2, 2, 5]}]),
    dict(shape=[4, 6, 5], pml_thickness=2, widths=None, steps=7, gradient="reversible", sig_e=True,
         faces={"min_x": "pec", "max_x": "pmc", "min_y": "pml", "max_y": "pec", "min_z": "pmc", "max_z": "pmc"},
         sources=[{"kind": "uniform", "axis": 1, "direction": "-", "profile": "cw", "switch": "start", "pol": 1, "pos": [1, 3, 2]},
                  {"kind": "dipole_e", "axis": 1, "direction": "+", "profile": "pulse", "switch": "default", "pol": 0, "pos": [2, 3, 2]}]),
]


def dispersive_forced(seed, k=0):
    """electric and magnetic point dipoles INSIDE a lossy (damped Lorentz / Drude) dispersive block, and a plane source
    crossing the block; every detector kind; real vs complex storage"""
    kind = "lorentz" if (seed + k) % 2 == 0 else "drude"
    return dict(shape=[5, 5, 8], pml_thickness=2, widths=None, steps=8, gradient=None, sig_e=False,
                faces={"min_x": "periodic", "max_x": "periodic", "min_y": "periodic" if k % 2 == 0 else "pec",
                       "max_y": "periodic" if k % 2 == 0 else "pec", "min_z": "pml", "max_z": "pml"},
                dispersive={"kind": kind, "pos": [1, 1, 3], "size": [3, 3, 2], "gamma": 4.0e14, "w0": 5.0e15, "wp": 3.0e15, "de": 2.0},
                sources=[{"kind": "dipole_e", "axis": 0, "direction": "+", "profile": "cw", "switch": "default", "pol": (seed + k) % 3, "pos": [2, 2, 3]},
                         {"kind": "dipole_m", "axis": 0, "direction": "+", "profile": "pulse", "switch": "default", "pol": (seed + k + 1) % 3, "pos": [2, 3, 4]},
                         {"kind": "uniform" if (seed + k) % 2 == 0 else "gauss", "axis": 2, "direction": "+", "profile": "cw", "switch": "default",
                          "pol": 0, "pos": [2, 2, 4]}])


def run(ctx):
    n = ctx.scale(2, 14)
    cases = [gen_case(ctx.rng, ctx.thorough, f) for f in FORCED[:n]]
    # the first forced scene (periodic x, zero-k Bloch y, PML z) carries a leftover bloch_vector component on its periodic axis
    cases[0]["bloch_vector"] = [(1.0 if ctx.seed % 2 == 0 else -1.0) * 1.3e7, 0.0, 0.0]
    while len(cases) < n:
        cases.append(gen_case(ctx.rng, ctx.thorough))
    if not ctx.thorough and ctx.seed != 0:
        cases[1] = gen_case(ctx.rng, False)
    cases.append(gen_case(ctx.rng, ctx.thorough, dispersive_forced(ctx.seed)))
    for k in range(1, ctx.scale(1, 4)):
        cases.append(gen_case(ctx.rng, ctx.thorough, dispersive_forced(ctx.seed, k)))
    for i, c in enumerate(cases):
        one_case(ctx, c, sample=i < 2)
    try:
        import tidy3d  # noqa: F401  (mode solver used by ModePlaneSource)
        have_solver = True
    except Exception:
        have_solver = False
        ctx.notes.append("tidy3d mode solver not importable: ModePlaneSource scene skipped")
    if have_solver:
        for k in range(ctx.scale(2, 6)):
            one_mode_case(ctx, mode_forced(ctx.seed, k))


def property_fails(c):
    if c.get("mode") == "modesrc":
        return mode_oracle(c)
    scr, scc = L.scene_of(c, None), L.scene_of(c, True)
    return run_oracle(c, scr, scc)


def search(ctx, hints):
    for h in hints:
        if isinstance(h, dict) and "shape" in h:
            ctx.impl_property_evals += 1
            d = property_fails(h)
            if d:
                ctx.violation(h, d)
                return
    for k in range(2):
        try:
            d = property_fails(mode_forced(ctx.seed, k))
        except ImportError:
            break
        ctx.impl_property_evals += 1
        if d:
            ctx.violation(mode_forced(ctx.seed, k), d)
            return
    rng = ctx.rng.fork()
    for i in range(ctx.scale(6, 30)):
        c = gen_case(rng, False)
        if i % 2 == 0:
            c["sources"] = c["sources"][:1]
            c["amp"] = c["amp"][:1]
            c["steps"] = 6
        ctx.impl_property_evals += 1
        d = property_fails(c)
        if d:
            ctx.violation(c, d)
            return


def replay(ctx, inp):
    return property_fails(inp)
