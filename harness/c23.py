"""C23 — connectivity clean-up (binary_transform.py / discrete.py) vs lean/FdtdxModel/C23.lean"""
from collections import deque

import numpy as np

RULE = ("K: binary designs on a fixed list of shapes (every axis 3..7 quick / 3..12 thorough, plus z=1, degenerate shapes with every axis <= 3, and the shapes on "
        "which convolve2d raises), per shape random designs of density 0.15..0.95 and adversarial ones (serpentines in the "
        "xz / yz plane and lying in a z-layer, square spirals, combs, nested boxes, closed cavities, floating blocks, "
        "diagonal-only contacts, full, empty). Observed: compute_polymer_connection, compute_air_connection (private anchors), "
        "RemoveFloatingMaterial.__call__ and ConnectHolesAndStructures.__call__ (public, background index 0 and 1, three "
        "materials with fill_material) — compared exactly with the Lean model. Independent oracle (queue BFS in numpy): "
        "removeFloating = material cells face-connected to layer z=0; connectHoles result has no floating material and no "
        "background component cut off from the sides and the top. non-trivial = the design has floating material, or "
        "an enclosed cavity, or a geodesic distance from the seed larger than max(shape).")

_cache = {}


def J():
    if "jax" not in _cache:
        import jax
        jax.config.update("jax_enable_x64", True)
        import jax.numpy as jnp
        import fdtdx
        from fdtdx.objects.device.parameters import binary_transform as bt
        from fdtdx.objects.device.parameters.discrete import ConnectHolesAndStructures, RemoveFloatingMaterial
        from fdtdx.materials import Material
        from fdtdx.typing import ParameterType
        _cache.update(jax=jax, jnp=jnp, bt=bt, CH=ConnectHolesAndStructures, RM=RemoveFloatingMaterial, Material=Material,
                      PT=ParameterType, fdtdx=fdtdx, fn={})
    return _cache


# ----------------------------------------------------------------------------- implementation side
def _jit(name, shape):
    j = J()
    key = (name, shape)
    if key not in j["fn"]:
        j["fn"][key] = j["jax"].jit(getattr(j["bt"], name))
    return j["fn"][key]


def impl_raw(name, m):
    """private anchor on a bool array; returns np bool array or 'error'"""
    j = J()
    try:
        return np.asarray(_jit(name, m.shape)(j["jnp"].asarray(m))).astype(bool)
    except (ValueError, IndexError, TypeError):
        return "error"


def _materials(n):
    M = J()["Material"]
    mats = {"Air": M(permittivity=1.0), "Silicon": M(permittivity=11.7)}
    if n == 3:
        mats["SiO2"] = M(permittivity=2.25)
    return mats


def _module(kind, shape, nmat, bg_name, fill):
    j = J()
    key = ("mod", kind, shape, nmat, bg_name, fill)
    if key not in j["fn"]:
        from fdtdx.config import SimulationConfig
        from fdtdx.core.grid import UniformGrid
        cfg = SimulationConfig(time=100e-15, grid=UniformGrid(spacing=500e-9), backend="cpu")
        kw = {"background_material": bg_name}
        if kind == "ch":
            kw["fill_material"] = fill
        t = (j["CH"] if kind == "ch" else j["RM"])(**kw)
        t = t.init_module(config=cfg, materials=_materials(nmat), matrix_voxel_grid_shape=shape,
                          single_voxel_size=(1e-6, 1e-6, 1e-6), output_shape={"params": shape})
        t = t.init_type({"params": j["PT"].BINARY if nmat == 2 else j["PT"].DISCRETE})
        j["fn"][key] = j["jax"].jit(lambda p, t=t: t({"params": p})["params"])
    return j["fn"][key]


ORDER = {2: ["Air", "Silicon"], 3: ["Air", "SiO2", "Silicon"]}


def impl_transform(kind, params, nmat, bg_name, fill):
    j = J()
    try:
        f = _module(kind, params.shape, nmat, bg_name, fill)
        return np.asarray(f(j["jnp"].asarray(params, dtype=j["jnp"].int32))).astype(np.int64)
    except (ValueError, IndexError, TypeError):
        return "error"


# ------------------------------------------------------------------------------- model side
def bits(m):
    return "".join("1" if x else "0" for x in np.asarray(m, dtype=bool).ravel())


def unbits(s, shape):
    if s == "error":
        return "error"
    return np.frombuffer(s.encode(), dtype=np.uint8).reshape(shape) == ord("1")


def line(op, m):
    return f"{op} {m.shape[0]} {m.shape[1]} {m.shape[2]} {bits(m)}"


# ------------------------------------------------------------------------ property oracle (numpy BFS)
NB = [(1, 0, 0), (-1, 0, 0), (0, 1, 0), (0, -1, 0), (0, 0, 1), (0, 0, -1)]


def bfs(mask, seeds):
    """cells of `mask` reachable from seed cells (already inside mask) through face-adjacent mask cells; also depth"""
    seen = np.zeros(mask.shape, dtype=bool)
    depth = 0
    q = deque()
    for c in seeds:
        if mask[c] and not seen[c]:
            seen[c] = True
            q.append((c, 0))
    nx, ny, nz = mask.shape
    while q:
        (i, j, k), d = q.popleft()
        depth = max(depth, d)
        for di, dj, dk in NB:
            a, b, c = i + di, j + dj, k + dk
            if 0 <= a < nx and 0 <= b < ny and 0 <= c < nz and mask[a, b, c] and not seen[a, b, c]:
                seen[a, b, c] = True
                q.append(((a, b, c), d + 1))
    return seen, depth


def bottom_connected(mat):
    nx, ny, nz = mat.shape
    return bfs(mat, [(i, j, 0) for i in range(nx) for j in range(ny)])


def open_air(mat):
    """background cells connected to the four sides or the top"""
    nx, ny, nz = mat.shape
    seeds = [(i, j, k) for i in range(nx) for j in range(ny) for k in range(nz)
             if k == nz - 1 or i in (0, nx - 1) or j in (0, ny - 1)]
    return bfs(~mat, seeds)[0]


def check_remove(mat, out):
    want = bottom_connected(mat)[0]
    if not np.array_equal(out, want):
        bad = np.argwhere(out != want)[0].tolist()
        return (f"remove_floating_polymer on shape {mat.shape}: cell {bad} is {'kept' if out[tuple(bad)] else 'removed'} but it is "
                f"{'' if want[tuple(bad)] else 'not '}connected to the bottom layer ({int(out.sum())} cells kept, {int(want.sum())} connected)")
    return None


def check_connect(out):
    """returns (kind, detail) or None"""
    fl = out & ~bottom_connected(out)[0]
    if fl.any():
        return "floating", f"connect_holes_and_structures result has floating material at {np.argwhere(fl)[0].tolist()} (shape {out.shape})"
    enc = ~out & ~open_air(out)
    if enc.any():
        return "enclosed", (f"connect_holes_and_structures result has {int(enc.sum())} background cell(s) enclosed away from sides and top, "
                            f"e.g. {np.argwhere(enc)[0].tolist()} (shape {out.shape})")
    return None


# ------------------------------------------------------------------------------- generators
def serp(shape, plane):
    nx, ny, nz = shape
    m = np.zeros(shape, dtype=bool)
    if plane == "xz":
        for r in range(0, nz, 2):
            m[:, 0, r] = True
        for q, r in enumerate(range(1, nz, 2)):
            m[nx - 1 if q % 2 == 0 else 0, 0, r] = True
    elif plane == "yz":
        for r in range(0, nz, 2):
            m[nx - 1, :, r] = True
        for q, r in enumerate(range(1, nz, 2)):
            m[nx - 1, ny - 1 if q % 2 == 0 else 0, r] = True
    else:  # lying in layer z = 1 (floating) or z = 0 with a stalk
        for r in range(0, ny, 2):
            m[:, r, 1] = True
        for q, r in enumerate(range(1, ny, 2)):
            m[nx - 1 if q % 2 == 0 else 0, r, 1] = True
        if plane == "xy+stalk":
            m[0, 0, 0] = True
    return m


def spiral(shape):
    """square spiral wall in the xz plane (y = 1), one cell wide, starting at the bottom"""
    nx, ny, nz = shape
    g = np.zeros((nx, nz), dtype=bool)
    i, k, di, dk = 0, 0, 1, 0
    g[0, 0] = True
    for _ in range(nx * nz):
        a, c = i + di, k + dk
        a2, c2 = a + di, c + dk
        ok = 0 <= a < nx and 0 <= c < nz and not g[a, c] and not (0 <= a2 < nx and 0 <= c2 < nz and g[a2, c2])
        if ok:
            # do not touch earlier turns sideways
            side = [(a - dk, c + di), (a + dk, c - di)]
            for (p, q) in side:
                if 0 <= p < nx and 0 <= q < nz and g[p, q] and (p, q) != (i, k):
                    ok = False
        if not ok:
            di, dk = -dk, di  # turn
            a, c = i + di, k + dk
            a2, c2 = a + di, c + dk
            if not (0 <= a < nx and 0 <= c < nz) or g[a, c] or (0 <= a2 < nx and 0 <= c2 < nz and g[a2, c2]):
                break
        g[a, c] = True
        i, k = a, c
    m = np.zeros(shape, dtype=bool)
    m[:, min(1, ny - 1), :] = g
    return m


def comb(shape):
    m = np.zeros(shape, dtype=bool)
    m[:, :, 0] = True
    m[::2, ::2, :] = True
    m[1::2, 1::2, -1] = True   # floating caps
    return m


def nested(shape):
    """box shell with a floating box inside a cavity"""
    nx, ny, nz = shape
    m = np.zeros(shape, dtype=bool)
    m[:, :, :] = True
    if min(shape) >= 5:
        m[1:-1, 1:-1, 1:-1] = False
        m[2:-2, 2:-2, 2:-2] = True
    else:
        m[1:-1, 1:-1, 1:-1] = False
    return m


def cavity(shape, rng):
    m = np.ones(shape, dtype=bool)
    i, j, k = (rng.randint(1, n - 2) for n in shape)
    m[i, j, k] = False
    if rng.chance(0.5) and k + 1 < shape[2] - 1:
        m[i, j, k + 1] = False
    return m


def diagonal(shape):
    """stairs touching only along edges: nothing above the bottom layer is face-connected"""
    m = np.zeros(shape, dtype=bool)
    for k in range(shape[2]):
        m[k % shape[0], :, k] = True
    return m


def designs(ctx, shape, n_random):
    out = []
    nx, ny, nz = shape
    if min(shape) >= 3:
        out += [("serp-xz", serp(shape, "xz")), ("serp-yz", serp(shape, "yz")), ("serp-xy", serp(shape, "xy")),
                ("serp-xy+stalk", serp(shape, "xy+stalk")), ("spiral", spiral(shape)), ("comb", comb(shape)),
                ("nested", nested(shape)), ("cavity", cavity(shape, ctx.rng)), ("diagonal", diagonal(shape)),
                ("inv-serp", ~serp(shape, "xz")), ("inv-spiral", ~spiral(shape))]
    out += [("full", np.ones(shape, dtype=bool)), ("empty", np.zeros(shape, dtype=bool))]
    for _ in range(n_random):
        p = ctx.rng.choice([0.15, 0.3, 0.5, 0.6, 0.7, 0.8, 0.9, 0.95])
        r = np.random.default_rng(ctx.rng.np_seed())
        m = r.random(shape) < p
        if ctx.rng.chance(0.3):   # column structure: more long vertical paths
            m &= (r.random((nx, ny, 1)) < 0.7)
        out.append((f"random-{p}", m))
    return out


def nontrivial_key(kind, m):
    if min(m.shape) < 3:
        return (kind, m.shape, bits(m)[:64], "thin")
    conn, depth = bottom_connected(m)
    floating = bool((m & ~conn).any())
    enclosed = bool((~m & ~open_air(m)).any())
    longp = depth > max(m.shape)
    if floating or enclosed or longp:
        return (kind, m.shape, bits(m)[:64], floating, enclosed, longp)
    return None


SHAPES_QUICK = [(3, 3, 3), (5, 3, 5), (4, 5, 6), (7, 3, 7), (6, 6, 5)]
SHAPES_THOROUGH = SHAPES_QUICK + [(3, 7, 4), (8, 5, 8), (9, 3, 9), (5, 8, 7), (10, 4, 6), (12, 3, 12), (6, 6, 6), (3, 3, 9), (9, 9, 3)]
# convolve2d raises when a plane has one axis < 3 and the other > 3; it works when every axis is <= 3
SHAPES_ERR = [(2, 5, 5), (5, 5, 2), (4, 2, 4), (1, 4, 4)]
SHAPES_FLAT = [(4, 5, 1), (3, 3, 1), (3, 3, 2), (2, 3, 3), (3, 1, 3), (1, 1, 1)]


# ------------------------------------------------------------------------------------------- K
OPS = ["conn", "air", "rm", "ch"]


def one_case(ctx, tag, m, reps, do_ch=True, variant=0):
    """all observation points on one design (`reps` = the model's replies to OPS)"""
    shape = m.shape
    case = {"shape": list(shape), "bits": bits(m), "tag": tag}
    ops = OPS
    model = {op: unbits(r, shape) for op, r in zip(ops, reps)}
    # private anchors
    for op, name in (("conn", "compute_polymer_connection"), ("air", "compute_air_connection")):
        got = impl_raw(name, m)
        same = (isinstance(got, str) and isinstance(model[op], str)) or \
               (not isinstance(got, str) and not isinstance(model[op], str) and np.array_equal(got, model[op]))
        if not same:
            ctx.mismatch(op, case, {"impl": "error" if isinstance(got, str) else bits(got), "model": reps[ops.index(op)]})
    # public: RemoveFloatingMaterial (background index 0 / 1)
    bg = ["Air", "Silicon"][variant % 2]
    bgi = ORDER[2].index(bg)
    params = np.where(m, 1 - bgi, bgi)
    got = impl_transform("rm", params, 2, bg, None)
    if isinstance(got, str) or isinstance(model["rm"], str):
        if not (isinstance(got, str) and isinstance(model["rm"], str)):
            ctx.mismatch("rm", case, {"impl": str(got)[:80], "model": str(model["rm"])[:80]})
    else:
        want = np.where(model["rm"], 1 - bgi, bgi)
        if not np.array_equal(got, want):
            ctx.mismatch("rm", case, {"impl": bits(got != bgi), "model": bits(model["rm"]), "background_idx": bgi})
        ctx.impl_property_evals += 1
        d = check_remove(m, got != bgi)
        if d:
            ctx.violation({**case, "op": "rm", "bg": bg}, d)
    # public: ConnectHolesAndStructures
    if do_ch:
        nmat = 3 if variant % 3 == 2 else 2
        if nmat == 2:
            fill = None
            p2 = params
        else:
            bg = ["Air", "SiO2", "Silicon"][(variant // 3) % 3]
            bgi = ORDER[3].index(bg)
            fill = [n for n in ORDER[3] if n != bg][(variant // 9) % 2]
            others = [x for x in range(3) if x != bgi]
            rr = np.random.default_rng(int(m.sum()) + variant)
            p2 = np.where(m, rr.choice(others, size=shape), bgi)
        got = impl_transform("ch", p2, nmat, bg, fill)
        if isinstance(got, str) or isinstance(model["ch"], str):
            if not (isinstance(got, str) and isinstance(model["ch"], str)):
                ctx.mismatch("ch", case, {"impl": str(got)[:80], "model": str(model["ch"])[:80]})
        else:
            feas = model["ch"]
            filli = ORDER[nmat].index(fill) if fill else 1 - bgi
            want = np.where(feas & m, p2, np.where(feas, filli, bgi))
            if not np.array_equal(got, want):
                ctx.mismatch("ch", case, {"impl": bits(got != bgi), "model": bits(feas), "background_idx": bgi, "nmat": nmat})
            ctx.impl_property_evals += 1
            d = check_connect(got != bgi)
            if d:
                ctx.violation({**case, "op": "ch", "bg": bg, "nmat": nmat, "fill": fill}, d[1],
                              signature=SIG_ENCLOSED if d[0] == "enclosed" else None)
    return case


SIG_ENCLOSED = "connect_holes_and_structures:enclosed-background"


def run(ctx):
    shapes = ctx.scale(SHAPES_QUICK, SHAPES_THOROUGH)
    n_random = ctx.scale(8, 40)
    todo = []
    for si, shape in enumerate(shapes):
        v = si + ctx.seed     # one module configuration per shape (each one is a separate jit compilation)
        for tag, m in designs(ctx, shape, n_random):
            todo.append((tag, m, v, "3d"))
    for si, shape in enumerate(SHAPES_FLAT + SHAPES_ERR):
        for tag, m in designs(ctx, shape, ctx.scale(3, 10)):
            todo.append((tag, m, si, "flat/err"))
    replies = ctx.driver.ask_many([line(op, m) for (_, m, _, _) in todo for op in OPS])   # one model process
    for n, (tag, m, v, cls) in enumerate(todo):
        shape = m.shape
        one_case(ctx, tag, m, replies[4 * n:4 * n + 4], do_ch=True, variant=v)
        ctx.case(sample={"shape": list(shape), "tag": tag, "bits": bits(m)} if tag == "serp-xz" and shape == (5, 3, 5) else None,
                 nontrivial=nontrivial_key(cls, m), shape="x".join(map(str, shape)), kind=tag.split("-")[0],
                 variant=(v % 18 if cls == "3d" else "flat/err"))


# ------------------------------------------------------------------------------------------- S
def property_fails(inp):
    shape = tuple(inp["shape"])
    m = unbits(inp["bits"], shape)
    op = inp.get("op", "rm")
    if op in ("conn", "air"):   # the two flood fills named as mechanisms of the property
        name = "compute_polymer_connection" if op == "conn" else "compute_air_connection"
        got = impl_raw(name, m)
        if isinstance(got, str):
            return None
        want = bottom_connected(m)[0] if op == "conn" else open_air(m)
        if not np.array_equal(got, want):
            bad = np.argwhere(got != want)[0].tolist()
            return (f"{name} on shape {shape}: cell {bad} marked {bool(got[tuple(bad)])}, but face-adjacent reachability from the "
                    f"{'bottom layer' if op == 'conn' else 'top/side faces'} says {bool(want[tuple(bad)])}")
        return None
    if op == "rm":
        bg = inp.get("bg", "Air")
        bgi = ORDER[2].index(bg)
        got = impl_transform("rm", np.where(m, 1 - bgi, bgi), 2, bg, None)
        if isinstance(got, str):
            return None if (min(shape[:2]) < 3 or shape[2] == 2) else f"RemoveFloatingMaterial raises on shape {shape}"
        return check_remove(m, got != bgi)
    bg = inp.get("bg", "Air")
    nmat = inp.get("nmat", 2)
    bgi = ORDER[nmat].index(bg)
    others = [x for x in range(nmat) if x != bgi]
    got = impl_transform("ch", np.where(m, others[0], bgi), nmat, bg, inp.get("fill"))
    if isinstance(got, str):
        return None if min(shape) < 3 else f"ConnectHolesAndStructures raises on shape {shape}"
    d = check_connect(got != bgi)
    return d[1] if d else None


def search(ctx, hints):
    cands = []
    for h in hints:
        if isinstance(h, dict) and "bits" in h:
            cands += [{**h, "op": o} for o in ("rm", "ch", "conn", "air")]
    # smallest adversarial shapes first, then random ones
    for shape in [(5, 3, 5), (3, 3, 3), (4, 5, 1), (7, 3, 7), (4, 5, 6), (6, 6, 5)]:
        for tag, m in designs(ctx, shape, 10):
            for op in ("rm", "ch", "conn", "air"):
                cands.append({"shape": list(shape), "bits": bits(m), "tag": tag, "op": op})
    for c in cands:
        ctx.impl_property_evals += 1
        d = property_fails(c)
        if d and not (c["op"] == "ch" and "enclosed away" in d):
            ctx.violation(c, d)
            return
        if d:
            ctx.violation(c, d, signature=SIG_ENCLOSED)


def replay(ctx, inp):
    return property_fails(inp)
