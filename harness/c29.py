"""C29 — check_overlap and the object loops of place_objects / apply_params vs lean/FdtdxModel/C29.lean"""
import itertools

import numpy as np

from .common import relerr

RULE = ("K: (a) SimulationObject.check_overlap (private anchor, used directly) for EVERY ordered pair of boxes whose three "
        "intervals have integer end points in 0..n (n=4 quick: 10^6 pairs, all 13^3 per-axis interval-relation classes; n=5 "
        "thorough), compared exactly with the model's checkOverlap and with a plain Python box-intersection oracle (closed "
        "index ranges on every axis, the convention fixed by tests/unit/objects/test_object.py::TestCheckOverlap); also "
        "symmetry and 'a shared grid cell implies overlap'. (b) fdtdx.place_objects + fdtdx.apply_params on tiny scenes "
        "(volume 8^3 (7-10 thorough), ALWAYS 2-3 continuous devices in varying list order incl. fixed scenes whose sources "
        "overlap only the first / middle / last / two / all / none of three disjoint devices, optional static box, 2-4 PointDipoleSource / "
        "UniformPlaneSource / EnergyDetector boxes whose per-axis relation to a device is drawn from the 13 interval "
        "relations, weighted towards strictly-inside, touching, one-axis-apart; object kinds: PointDipoleSource, "
        "UniformPlaneSource, GaussianPlaneSource, GaussianModeOverlapDetector (material-dependent reference mode / n_eff), "
        "EnergyDetector): DECISION LEVEL - the `apply` attribute of every SimulationObject class is wrapped in the "
        "harness and the calls made by place_objects resp. apply_params are recorded for every object of the list "
        "and, for every object whose apply is not the inherited no-op (all source kinds and the mode-overlap detectors), "
        "compared exactly with the model's two loops (`decide`) and "
        "with the plain rule 'deferred and re-applied <=> overlaps some device'; property oracle: the state of every source after apply_params equals the state obtained by applying the "
        "object directly against ALL post-device arrays (inverse permittivity, pole coefficients c1..c4, conductivity; "
        "1e-12); half of the scenes give the device a Lorentz/Drude material so that the parameters also rewrite the "
        "coefficient arrays (state incl. the plane sources' _temporal_H_filter). non-trivial = distinct per-axis relation triple x kind.")

_jax = None


def J():
    global _jax
    if _jax is None:
        import warnings
        import jax
        jax.config.update("jax_enable_x64", True)
        import jax.numpy as jnp
        import fdtdx
        warnings.filterwarnings("ignore")
        try:
            from loguru import logger
            logger.disable("fdtdx")
        except Exception:
            pass
        _jax = dict(jax=jax, jnp=jnp, fdtdx=fdtdx)
        _install_apply_recorder()
    return _jax


# which objects have their `apply` called, per phase — observed by replacing the `apply` attribute of every class of the
# SimulationObject hierarchy that defines one (harness-side only, no source hooks)
REC = {"phase": None, "calls": []}


def _install_apply_recorder():
    from fdtdx.objects.object import SimulationObject

    def subclasses(c):
        for sub in c.__subclasses__():
            yield sub
            yield from subclasses(sub)

    done = []
    for cls in [SimulationObject] + list(subclasses(SimulationObject)):
        if "apply" in cls.__dict__ and cls not in done:
            done.append(cls)

            def make(orig):
                def apply(self, *a, **k):
                    if REC["phase"] is not None:
                        REC["calls"].append((REC["phase"], self.name))
                    return orig(self, *a, **k)
                apply.__wrapped__ = orig
                return apply
            setattr(cls, "apply", make(cls.__dict__["apply"]))
    _jax["recorded_classes"] = [c.__name__ for c in done]


# ----------------------------------------------------------------------------- part (a): the predicate
def intervals(n):
    return [(lo, hi) for lo in range(n) for hi in range(lo + 1, n + 1)]


def boxes(n):
    iv = intervals(n)
    return [(x, y, z) for x in iv for y in iv for z in iv]          # x-major, as Fdtdx.C29.boxes


def allen(a, b):
    """one of the 13 interval relations of a w.r.t. b (as a small int)"""
    (a1, a2), (b1, b2) = a, b
    sgn = lambda u, v: (u > v) - (u < v)
    return (sgn(a1, b1), sgn(a1, b2), sgn(a2, b1), sgn(a2, b2))


def oracle_overlap(s, o):
    """plain box intersection: closed index ranges intersect on every axis"""
    return all(max(s[k][0], o[k][0]) <= min(s[k][1], o[k][1]) for k in range(3))


def shares_cell(s, o):
    return all(max(s[k][0], o[k][0]) < min(s[k][1], o[k][1]) for k in range(3))


_placed_cache = {}


def placed_box(box):
    """a real placed SimulationObject with the given _grid_slice_tuple (place_on_grid once, then the library's own
    functional update `aset`, which is what place_on_grid itself uses; 3 ms instead of 45 ms per box)"""
    box = tuple(tuple(int(v) for v in iv) for iv in box)
    if box not in _placed_cache:
        j = J()
        fdtdx, jnp, jax = j["fdtdx"], j["jnp"], j["jax"]
        if "cfg0" not in j:
            cfg = fdtdx.SimulationConfig(time=20e-15, grid=fdtdx.UniformGrid(spacing=50e-9), dtype=jnp.float64, backend="cpu")
            j["cfg0"] = cfg.aset("grid", cfg.grid.resolve((16, 16, 16)))
            j["proto"] = fdtdx.UniformMaterialObject(name="b", material=fdtdx.Material(permittivity=2.0))
            j["placed0"] = j["proto"].place_on_grid(grid_slice_tuple=((0, 1), (0, 1), (0, 1)), config=j["cfg0"],
                                                    key=jax.random.PRNGKey(0))
        _placed_cache[box] = j["placed0"].aset("_grid_slice_tuple", box)
    return _placed_cache[box]


def overlap_fails(s, o):
    """property predicate on the real check_overlap for one ordered pair; detail string or None"""
    a, b = placed_box(s), placed_box(o)
    got, rev, exp = bool(a.check_overlap(b)), bool(b.check_overlap(a)), oracle_overlap(s, o)
    if shares_cell(s, o) and not got:
        return f"boxes {s} and {o} share a grid cell but check_overlap returns False (a device at the first would not re-apply an object at the second)"
    if got != exp:
        return f"check_overlap({s}, {o}) = {got}, closed box intersection = {exp}"
    if got != rev:
        return f"check_overlap is not symmetric on {s}, {o}: {got} vs {rev}"
    return None


def run_predicate(ctx):
    n = ctx.scale(4, 5)
    bx = boxes(n)
    objs = [placed_box(b) for b in bx]
    rows = ctx.driver.ask_many([f"row {n} " + " ".join(f"{iv[0]} {iv[1]}" for iv in s) for s in bx])
    lo = np.array([[iv[0] for iv in b] for b in bx])
    hi = np.array([[iv[1] for iv in b] for b in bx])
    first_miss, first_diff = None, None
    for si, (s, row) in enumerate(zip(bx, rows)):
        a = objs[si]
        impl = np.fromiter((a.check_overlap(b) for b in objs), dtype=bool, count=len(objs))
        model = np.frombuffer(row.encode(), dtype=np.uint8) == ord("1")
        if model.shape != impl.shape or not np.array_equal(impl, model):
            k = 0 if model.shape != impl.shape else int(np.argmax(impl != model))
            ctx.mismatch("ov", {"op": "ov", "s": s, "o": bx[k]}, {"impl": bool(impl[k]), "model": row[k:k + 1]})
        # plain oracle, vectorised: closed ranges intersect on every axis / a grid cell is shared
        exp = np.all(np.maximum(lo[si], lo) <= np.minimum(hi[si], hi), axis=1)
        cell = np.all(np.maximum(lo[si], lo) < np.minimum(hi[si], hi), axis=1)
        if not np.array_equal(impl, exp):
            miss = np.flatnonzero(cell & ~impl)
            if miss.size and first_miss is None:
                first_miss = (s, bx[int(miss[0])])
            if first_diff is None:
                first_diff = (s, bx[int(np.argmax(impl != exp))])
    for pair in (first_miss, first_diff):                          # a genuine miss (shared cell, not seen) is reported first
        if pair is not None:
            ctx.violation({"op": "ov", "s": pair[0], "o": pair[1]},
                          overlap_fails(*pair) or "row differs from the box-intersection oracle")
    # symmetry of the implementation on a sample (the oracle comparison above already implies it when it passes)
    for _ in range(200):
        s, o = ctx.rng.choice(bx), ctx.rng.choice(bx)
        if bool(placed_box(s).check_overlap(placed_box(o))) != bool(placed_box(o).check_overlap(placed_box(s))):
            ctx.violation({"op": "ov", "s": s, "o": o}, f"check_overlap is not symmetric on {s}, {o}")
            break
    iv = intervals(n)
    rels = {allen(a, b) for a in iv for b in iv}
    npairs = len(bx) * len(bx)
    ctx.impl_property_evals += npairs
    ctx.evaluations += npairs
    ctx.dist.setdefault("op", {})["ov"] = npairs
    for c in itertools.product(sorted(rels), repeat=3):            # every triple of per-axis relations occurs (full product)
        ctx.nontrivial.add(str(("ov", c)))
    ctx.exhaustive = True
    ctx.extra["exhaustive_bounds"] = {"coordinates": [0, n], "ordered_box_pairs": npairs,
                                      "interval_relations_per_axis": len(rels)}
    ctx.samples.append({"op": "ov", "s": [[1, 4], [1, 4], [1, 4]], "o": [[2, 3], [2, 3], [2, 3]],
                        "impl": bool(placed_box(((1, 4),) * 3).check_overlap(placed_box(((2, 3),) * 3)))})


# ----------------------------------------------------------------------------- part (b): scenes
DIPOLE_FIELDS = ["_inv_eps_local", "_inv_mu_local", "_inv_eps_oriented", "_inv_mu_oriented"]
PLANE_FIELDS = ["_E", "_H", "_time_offset_E", "_time_offset_H"]
PLANE_OPTIONAL = ["_temporal_H_filter"]          # set only in dispersive scenes (None otherwise)
MODE_DET_FIELDS = ["_mode_E", "_mode_H", "_mode_neff"]
FIELDS = {"dipole": DIPOLE_FIELDS, "plane": PLANE_FIELDS, "gplane": PLANE_FIELDS, "gdet": MODE_DET_FIELDS, "detector": []}
SOURCE_KINDS = ("dipole", "plane", "gplane")


def build_scene(inp):
    j = J()
    fdtdx, jnp = j["fdtdx"], j["jnp"]
    cfg = fdtdx.SimulationConfig(time=20e-15, grid=fdtdx.UniformGrid(spacing=50e-9), dtype=jnp.float64, backend="cpu")
    objs = [fdtdx.SimulationVolume(name="vol", partial_grid_shape=tuple(inp["volume"]))]
    cons = []

    def add(o, box):
        objs.append(o)
        cons.append(fdtdx.GridCoordinateConstraint(object=o.name, axes=[0, 1, 2], sides=["-", "-", "-"],
                                                   coordinates=[int(b[0]) for b in box]))

    shp = lambda box: tuple(int(b[1] - b[0]) for b in box)
    wc = fdtdx.WaveCharacter(wavelength=1e-6)
    # objects are listed in the order given by inp["order"] (devices and others interleaved)
    entries = []
    for i, box in enumerate(inp["devices"]):
        disp = None
        if inp.get("dispersive"):
            # one device material is dispersive: the parameters then also rewrite the pole-coefficient arrays
            pole = (fdtdx.LorentzPole(resonance_frequency=3.0e15, damping=1.0e14, delta_epsilon=1.5) if inp["dispersive"] == "lorentz"
                    else fdtdx.DrudePole(plasma_frequency=2.0e15, damping=1.0e14))
            disp = fdtdx.DispersionModel(poles=(pole,))
        mats = {"lo": fdtdx.Material(permittivity=2.0 + i), "hi": fdtdx.Material(permittivity=6.0 + i, dispersion=disp)}
        entries.append((f"dev{i}", fdtdx.Device(name=f"dev{i}", partial_grid_shape=shp(box), partial_voxel_grid_shape=(1, 1, 1),
                                                 materials=mats, param_transforms=[]), box))
    if inp.get("static"):
        box = inp["static"]
        entries.append(("slab", fdtdx.UniformMaterialObject(name="slab", partial_grid_shape=shp(box),
                                                            material=fdtdx.Material(permittivity=2.25)), box))
    for i, o in enumerate(inp["objects"]):
        name, box = f"o{i}", o["box"]
        if o["kind"] == "dipole":
            ob = fdtdx.PointDipoleSource(name=name, partial_grid_shape=shp(box), wave_character=wc,
                                         polarization=int(o["pol"]), source_type=o.get("stype", "electric"))
        elif o["kind"] == "plane":
            vec = [0, 0, 0]
            vec[int(o["pol"])] = 1
            ob = fdtdx.UniformPlaneSource(name=name, partial_grid_shape=shp(box), wave_character=wc,
                                          direction=o["dir"], fixed_E_polarization_vector=tuple(vec))
        elif o["kind"] == "gplane":
            vec = [0, 0, 0]
            vec[int(o["pol"])] = 1
            ob = fdtdx.GaussianPlaneSource(name=name, partial_grid_shape=shp(box), wave_character=wc, radius=100e-9,
                                           direction=o["dir"], fixed_E_polarization_vector=tuple(vec))
        elif o["kind"] == "gdet":
            # analytic mode-overlap detector (no mode solver): reference mode and n_eff come from the materials
            vec = [0.0, 0.0, 0.0]
            vec[int(o["pol"])] = 1.0
            ob = fdtdx.GaussianModeOverlapDetector(name=name, partial_grid_shape=shp(box), wave_characters=(wc,),
                                                   mode_radius=100e-9, direction=o["dir"],
                                                   fixed_E_polarization_vector=tuple(vec))
        elif o["kind"] == "detector":
            ob = fdtdx.EnergyDetector(name=name, partial_grid_shape=shp(box))
        else:
            raise ValueError(o["kind"])
        entries.append((name, ob, box))
    order = inp.get("order") or list(range(len(entries)))
    for k in order:
        add(entries[k][1], entries[k][2])
    V = inp["volume"]
    listing = [("vol", [(0, V[0]), (0, V[1]), (0, V[2])], False)]
    listing += [(entries[k][0], entries[k][2], entries[k][0].startswith("dev")) for k in order]
    return objs, cfg, cons, listing


def state_of(obj, kind, optional=False):
    fields = FIELDS[kind] + (PLANE_OPTIONAL if optional and kind in ("plane", "gplane") else [])
    out = {}
    for f in fields:
        try:
            v = getattr(obj, f)
        except Exception:
            v = None
        # an unset private field holds the library's NULL sentinel, not an array
        is_val = isinstance(v, (int, float, np.ndarray, np.generic)) or (hasattr(v, "shape") and hasattr(v, "dtype"))
        out[f] = np.asarray(v) if is_val else None
    return out


def run_scene(inp):
    """returns (listing, tags, property detail or None).  listing = every object of the list handed to place_objects
    (name, box, isDevice) in list order; tags[name] = which loop(s) called the object's `apply` ('P' place_objects,
    'A' apply_params).  A valid scene on which the real code raises counts as a failure of the property on it."""
    try:
        return _run_scene(inp)
    except Exception as e:                                   # noqa: BLE001
        import traceback
        REC["phase"] = None
        tb = traceback.extract_tb(e.__traceback__)
        where = next((f"{fr.filename.split('/src/')[-1]}:{fr.lineno}" for fr in reversed(tb) if "/fdtdx/" in fr.filename), "harness")
        return None, {}, f"place_objects/apply_params/apply raised {type(e).__name__}: {str(e)[:200]} (at {where})"


def _run_scene(inp):
    j = J()
    fdtdx, jnp, jax = j["fdtdx"], j["jnp"], j["jax"]
    objs, cfg, cons, listing = build_scene(inp)
    REC["calls"] = []
    REC["phase"] = "P"
    oc, arrays, params, cfg2, _ = fdtdx.place_objects(objs, cfg, cons, jax.random.PRNGKey(int(inp.get("pseed", 0))))
    REC["phase"] = None
    key = jax.random.PRNGKey(int(inp.get("pseed", 0)) + 17)
    newp = {}
    for name, p in params.items():
        key, sub = jax.random.split(key)
        newp[name] = jax.random.uniform(sub, p.shape, dtype=jnp.float64)
    REC["phase"] = "A"
    arr2, oc2, _ = fdtdx.apply_params(arrays, oc, newp, jax.random.PRNGKey(5))
    REC["phase"] = None
    calls = set(REC["calls"])
    tags = {name: ("P" if ("P", name) in calls else "") + ("A" if ("A", name) in calls else "") for name, _, _ in listing}
    detail = None
    if [o.name for o in oc2.object_list] != [n for n, _, _ in listing]:
        detail = f"object list after apply_params is {[o.name for o in oc2.object_list]}, handed in {[n for n, _, _ in listing]}"
        return listing, tags, detail
    for i, o in enumerate(inp["objects"]):
        name = f"o{i}"
        before, after = oc[name], oc2[name]
        if tuple(map(tuple, after.grid_slice_tuple)) != tuple(tuple(int(v) for v in b) for b in o["box"]):
            detail = detail or f"object {name} moved: {after.grid_slice_tuple} instead of {o['box']}"
        if not FIELDS[o["kind"]]:
            continue
        # property: the state after apply_params is the state of a set-up against the post-device arrays
        # (ALL post-device arrays: inverse permittivity/permeability, pole coefficients, conductivity)
        sg = jax.lax.stop_gradient
        direct = before.apply(key=jax.random.PRNGKey(9), inv_permittivities=sg(arr2.inv_permittivities),
                              inv_permeabilities=sg(arr2.inv_permeabilities),
                              dispersive_c1=arr2.dispersive_c1, dispersive_c2=arr2.dispersive_c2,
                              dispersive_c3=arr2.dispersive_c3, dispersive_c4=arr2.dispersive_c4,
                              electric_conductivity=arr2.electric_conductivity)
        want, got = state_of(direct, o["kind"], True), state_of(after, o["kind"], True)
        what = f"{o['kind']} {'source' if o['kind'] in SOURCE_KINDS else 'detector'} {name} box {o['box']}"
        for f in want:
            if want[f] is None and got[f] is None:
                continue
            if want[f] is None:
                detail = detail or f"{what}: state {f} set after apply_params but a direct set-up leaves it unset"
                continue
            if got[f] is None:
                detail = detail or f"{what} has no state {f} after apply_params"
                continue
            w, g = np.asarray(want[f]), np.asarray(got[f])
            err = relerr(g, w)
            if not err <= 1e-12:
                detail = detail or (f"{what} (devices {inp['devices']}): state {f} after apply_params differs from a "
                                    f"set-up against the post-device materials by {err:.3g} (relative)")
    return listing, tags, detail


def rel_intervals(V, dev, size):
    """all intervals of the given size in [0,V] grouped by their relation to the device interval"""
    groups = {}
    for lo in range(V - size + 1):
        groups.setdefault(allen((lo, lo + size), dev), []).append((lo, lo + size))
    return groups


DURING = (1, -1, 1, -1)
BEFORE, AFTER = (-1, -1, -1, -1), (1, 1, 1, 1)
MEETS, MET_BY = (-1, -1, 0, -1), (1, 0, 1, 1)
INSIDE_OR_ALIGNED = [DURING, (0, -1, 1, -1), (1, -1, 1, 0), (0, -1, 1, 0)]
COVERS = [(-1, -1, 1, 1), (0, -1, 1, 1), (-1, -1, 1, 0), (0, -1, 1, 0)]


def gen_scene(rng, idx, thorough=False):
    """shapes come from a small set (every new array shape costs seconds of XLA compilation); positions are free"""
    V = [8, 8, 8] if not thorough else [rng.randint(8, 10) for _ in range(3)]
    nd = rng.choice([2, 2, 3])          # always several devices: the re-apply test is an `any` over ALL of them
    devs = []
    for _ in range(nd):
        box = []
        for a in range(3):
            size = 4 if not thorough else rng.randint(3, 5)
            lo = rng.randint(1, V[a] - size - 1)
            box.append((lo, lo + size))
        devs.append(box)
    static = None
    if rng.chance(0.5):
        lo = rng.randint(0, V[2] - 2)
        static = [(0, V[0]), (0, V[1]), (lo, lo + 2)]
    objects = []
    scen_cycle = ["inside", "inside", "random", "apart1", "touch", "random", "far", "cover"]
    for k in range(rng.randint(2, 4)):
        scen = scen_cycle[(idx + k) % len(scen_cycle)] if k < 2 else rng.choice(scen_cycle)
        kind = (rng.choice(["dipole", "plane", "gdet", "gdet", "gplane", "dipole", "detector"]) if k
                else ["dipole", "plane", "gdet"][idx % 3])
        dev = rng.choice(devs)
        axis = rng.choice([0, 2]) if not thorough else rng.randint(0, 2)
        if kind in ("plane", "gplane", "gdet"):
            t = rng.choice([2, 2, "full"] + ([3] if thorough else [])) if scen != "cover" else "full"
            shape = [V[a] if t == "full" else t for a in range(3)]
            shape[axis] = 1
        elif kind == "dipole":
            shape = [1, 1, 1]
            if rng.chance(0.3):
                shape[0 if not thorough else rng.randint(0, 2)] = 2
        else:
            shape = [rng.randint(1, 3) for _ in range(3)]
        special = rng.randint(0, 2)
        box = []
        for a in range(3):
            g = rel_intervals(V[a], dev[a], shape[a])
            want = None
            if scen == "inside":
                want = [DURING]
            elif scen == "apart1":
                want = [BEFORE, AFTER] if a == special else INSIDE_OR_ALIGNED
            elif scen == "touch":
                want = [MEETS, MET_BY] if a == special else [r for r in g if r not in (BEFORE, AFTER)]
            elif scen == "far":
                want = [BEFORE, AFTER]
            elif scen == "cover":
                want = COVERS
            cands = [r for r in (want or list(g)) if r in g] or list(g)
            box.append(rng.choice(g[rng.choice(sorted(cands))]))
        o = {"kind": kind, "box": box}
        if kind in ("plane", "gplane", "gdet"):
            o["dir"] = rng.choice(["+", "-"])
            o["pol"] = rng.choice([a for a in range(3) if a != axis])
        elif kind == "dipole":
            o["pol"] = rng.randint(0, 2)
            o["stype"] = rng.choice(["electric", "electric", "magnetic"])
        objects.append(o)
    n_entries = nd + (1 if static else 0) + len(objects)
    order = rng.shuffle(list(range(n_entries))) if rng.chance(0.6) else list(range(n_entries))
    return {"op": "scene", "volume": V, "devices": devs, "static": static, "objects": objects, "order": order,
            "pseed": rng.randint(0, 1000), "dispersive": rng.choice([None, None, "lorentz", "drude"])}


def flat(box):
    return " ".join(f"{int(iv[0])} {int(iv[1])}" for iv in box)


def model_decisions(ctx, listing):
    """the model's decision for EVERY object of the list (volume, devices, slab, sources, detectors)"""
    line = "decide " + " ".join(("d " if dev else "o ") + flat(box) for _, box, dev in listing)
    return ctx.driver.ask_many([line])[0]      # (the persistent Driver.ask blocks: the native driver does not flush)


def decision_detail(listing, tags, kinds):
    """plain oracle at the decision level, for every object of the list whatever its kind:
    apply deferred at placement and called by apply_params  <=>  the object overlaps some device"""
    dev_boxes = [box for _, box, dev in listing if dev]
    for name, box, dev in listing:
        if dev or not FIELDS.get(kinds.get(name)):
            continue                      # inherited no-op apply: calling it or not changes nothing
        hit = any(oracle_overlap(tuple(map(tuple, d)), tuple(map(tuple, box))) for d in dev_boxes)
        want = "A" if hit else "P"
        if tags.get(name) != want:
            kind = "device" if dev else kinds.get(name, name)
            return (f"{kind} {name} box {box}: apply called by {tags.get(name) or 'no loop'} (P = place_objects, "
                    f"A = apply_params), but it {'overlaps a' if hit else 'overlaps no'} device {dev_boxes}, so it must be "
                    f"applied by {want} only")
    return None


def check_scene(ctx, inp, sample=False):
    listing, tags, detail = run_scene(inp)
    if listing is None:
        ctx.case(nontrivial=None, op="scene-raised")
        ctx.mismatch("decide", inp, {"impl": "raised", "model": "-"})
        ctx.violation(inp, detail)
        return detail
    model = model_decisions(ctx, listing)
    kinds = {f"o{i}": o["kind"] for i, o in enumerate(inp["objects"])}
    dev_boxes = [box for _, box, dev in listing if dev]                    # devices in list order
    for (name, box, dev), m in zip(listing, model):
        kind = "device" if dev else kinds.get(name, name)                  # vol / slab keep their name as kind
        hit = tuple(oracle_overlap(tuple(map(tuple, d)), tuple(map(tuple, box))) for d in dev_boxes)
        r = tuple(allen(tuple(box[a]), tuple(dev_boxes[0][a])) for a in range(3))
        ctx.case(sample=None, nontrivial=("scene", kind, r, hit, inp.get("dispersive")), op="scene-object", kind=kind,
                 dispersive_device=str(inp.get("dispersive")), devices=len(dev_boxes),
                 overlapped_devices_in_list_order="".join("x" if h else "." for h in hit),
                 applied_by={"P": "place_objects", "A": "apply_params"}.get(m, m))
        # decision level, every object whose `apply` does something (all source kinds, mode-overlap detectors): which
        # loop called it.  For the volume, static objects, devices and plain detectors `apply` is the inherited no-op,
        # so whether it is called is not observable behaviour; their decisions are only counted.
        if FIELDS.get(kind):
            ctx.expect_equal("decide", inp, f"{name}:{tags.get(name)}", f"{name}:{m}")
    detail = detail or decision_detail(listing, tags, kinds)
    if sample:
        ctx.samples.append({"input": inp, "impl_apply_calls": tags, "model": model})
    ctx.impl_property_evals += len(listing)
    if detail:
        ctx.violation(inp, detail)
    return detail


def witness_scene(kind="dipole", dispersive=None):
    """the Lean refutation witness: a source strictly inside the device on all three axes"""
    o = {"kind": kind, "box": [(3, 4), (3, 4), (3, 4)], "pol": 0}
    if kind in ("plane", "gplane", "gdet"):
        o.update(dir="+", pol=0, box=[(3, 5), (3, 5), (3, 4)])
    else:
        o["stype"] = "electric"
    return {"op": "scene", "volume": [8, 8, 8], "devices": [[(1, 7), (1, 7), (1, 7)]], "static": None, "objects": [o],
            "order": None, "pseed": 0, "dispersive": dispersive}


def multi_device_scene(perm, dispersive=None):
    """three disjoint device slabs along x and sources that overlap only the first / only the middle / only the last /
    two / all / none of them; `perm` is the order in which the devices appear in the object list"""
    devs = [[(0, 2), (1, 7), (2, 8)], [(3, 5), (1, 7), (2, 8)], [(6, 8), (1, 7), (2, 8)]]
    dip = lambda box: {"kind": "dipole", "box": box, "pol": 2, "stype": "electric"}
    objects = [dip([(0, 1), (3, 4), (4, 5)]),                       # only dev0
               dip([(3, 4), (3, 4), (4, 5)]),                       # only dev1
               dip([(7, 8), (3, 4), (4, 5)]),                       # only dev2
               dip([(4, 6), (3, 4), (4, 5)]),                       # dev1 and (touching) dev2
               dip([(3, 4), (3, 4), (0, 1)]),                       # none (one cell below every device)
               {"kind": "plane", "box": [(3, 5), (3, 5), (4, 5)], "dir": "+", "pol": 0},    # only dev1
               {"kind": "plane", "box": [(0, 8), (0, 8), (5, 6)], "dir": "-", "pol": 1},    # all three
               {"kind": "gdet", "box": [(3, 5), (3, 5), (5, 6)], "dir": "+", "pol": 0},     # mode-overlap detector, only dev1
               {"kind": "gdet", "box": [(0, 8), (0, 8), (0, 1)], "dir": "-", "pol": 1},     # … clear of every device
               {"kind": "gplane", "box": [(6, 8), (3, 5), (6, 7)], "dir": "+", "pol": 1},   # only dev2
               {"kind": "detector", "box": [(0, 2), (2, 3), (3, 4)]}]
    order = list(perm) + list(range(3, 3 + len(objects)))
    return {"op": "scene", "volume": [8, 8, 8], "devices": devs, "static": None, "objects": objects, "order": order,
            "pseed": 3, "dispersive": dispersive}


def run(ctx):
    import time
    t0 = time.time()
    J()
    t1 = time.time()
    # the Lean refutation witness of the as-found tree first: a source strictly inside a device
    check_scene(ctx, witness_scene("dipole"), sample=True)
    check_scene(ctx, witness_scene("plane"))
    # a material-dependent DETECTOR crossing the device must see the device materials as well
    check_scene(ctx, witness_scene("gdet"))
    # dispersive device material: re-applied sources must see the post-device pole coefficients as well
    check_scene(ctx, witness_scene("dipole", "lorentz"))
    check_scene(ctx, witness_scene("plane", "drude"))
    # several devices in every list order that puts each of them last once (thorough: all six)
    perms = [(0, 1, 2), (2, 0, 1), (1, 2, 0)] + ([(0, 2, 1), (1, 0, 2), (2, 1, 0)] if ctx.thorough else [])
    for k, perm in enumerate(perms):
        check_scene(ctx, multi_device_scene(perm, [None, "lorentz", "drude"][k % 3]))
    run_predicate(ctx)
    t2 = time.time()
    n = ctx.scale(12, 80)
    for i in range(n):
        check_scene(ctx, gen_scene(ctx.rng, i, ctx.thorough), sample=(i == 0))
    ctx.extra["phase_seconds"] = {"import": round(t1 - t0, 1), "predicate": round(t2 - t1, 1), "scenes": round(time.time() - t2, 1)}


# ------------------------------------------------------------------------------------------- S
def property_fails(inp):
    if inp.get("op") == "ov":
        return overlap_fails(tuple(map(tuple, inp["s"])), tuple(map(tuple, inp["o"])))
    listing, tags, detail = run_scene(inp)
    if detail or listing is None:
        return detail
    return decision_detail(listing, tags, {f"o{i}": o["kind"] for i, o in enumerate(inp["objects"])})


def search(ctx, hints):
    for h in hints:
        if isinstance(h, dict) and h.get("op") in ("ov", "scene"):
            ctx.impl_property_evals += 1
            d = property_fails(h)
            if d:
                # an overlap miss is turned into the smallest scene that shows the stale state, when it does
                if h.get("op") == "ov" and shares_cell(tuple(map(tuple, h["s"])), tuple(map(tuple, h["o"]))):
                    sc = scene_from_pair(h["s"], h["o"])
                    d2 = sc and property_fails(sc)
                    if d2:
                        ctx.violation(sc, d2)
                        return
                ctx.violation(h, d)
                return
    # the predicate, smallest coordinates first
    for n in (2, 3):
        bx = boxes(n)
        for s in bx:
            for o in bx:
                ctx.impl_property_evals += 1
                d = overlap_fails(s, o)
                if d:
                    ctx.violation({"op": "ov", "s": s, "o": o}, d)
                    return
    # scenes: one device, one single-cell dipole at every per-axis position class, inside first
    for kind in ("dipole", "plane", "gdet", "gplane"):
        for disp in (None, "lorentz", "drude"):
            ctx.impl_property_evals += 1
            d = property_fails(witness_scene(kind, disp))
            if d:
                ctx.violation(witness_scene(kind, disp), d)
                return
    for perm in itertools.permutations(range(3)):
        sc = multi_device_scene(perm)
        ctx.impl_property_evals += 1
        d = property_fails(sc)
        if d:
            ctx.violation(sc, d)
            return
    pos = [3, 2, 4, 1, 5, 0, 6]
    for (x, y, z) in sorted(itertools.product(pos, repeat=3), key=lambda p: sum(pos.index(v) for v in p)):
        sc = {"op": "scene", "volume": [7, 7, 7], "devices": [[(2, 5), (2, 5), (2, 5)]], "static": None,
              "objects": [{"kind": "dipole", "box": [(x, x + 1), (y, y + 1), (z, z + 1)], "pol": 2, "stype": "electric"}],
              "order": None, "pseed": 1}
        ctx.impl_property_evals += 1
        d = property_fails(sc)
        if d:
            ctx.violation(sc, d)
            return


def scene_from_pair(s, o):
    """device at box s, a dipole source at box o (when the boxes are usable as such)"""
    V = [max(s[a][1], o[a][1]) + 1 for a in range(3)]
    return {"op": "scene", "volume": [max(v, 3) for v in V], "devices": [[tuple(iv) for iv in s]], "static": None,
            "objects": [{"kind": "dipole", "box": [tuple(iv) for iv in o], "pol": 2, "stype": "electric"}],
            "order": None, "pseed": 0}


def replay(ctx, inp):
    return property_fails(inp)
