"""C19 — fdtdx.ClosestIndex / straight_through_estimator vs lean/FdtdxModel/C19.lean"""
from fractions import Fraction

import numpy as np

RULE = ("K: ClosestIndex.__call__ (public, fdtdx.ClosestIndex, built with init_module as a Device does) on generated "
        "(material set, branch, shape, values): 2-5 materials; permittivity kinds isotropic / diagonal / full tensor, with "
        "repeated permittivities (ties, ordering by permeability) in a fraction of the sets, partially degenerate diagonals and six forced sets whose anisotropic members are all uniaxial (seed C19h); branches round (default) and "
        "inv (mapping_from_inverse_permittivities); shapes of rank 0-4 with a singleton axis in every position and with the "
        "last axis equal / unequal to the number of materials; values: exact half-integers, integers, out-of-range, "
        "negative, huge, -0.0, exact table entries, exact mid-points between table entries, random. Index arrays and "
        "shapes are compared exactly with the model (round: all sets; inv: isotropic and diagonal sets; a differing index "
        "is tolerated only when the two summed distances of a diagonal set differ by < 1e-12 relative, counted as "
        "near_tie). jax.grad / jax.jvp of the transform and of straight_through_estimator are compared with the model's "
        "dual-number STE. The property predicate (independent exact-rational oracle: valid index, nearest, first on ties, "
        "shape kept, gradient = identity) is evaluated on every case, incl. full-tensor sets that the model does not cover. "
        "Output types (BINARY for 2 materials, DISCRETE above, exception for 1) are compared with a table. "
        "non-trivial = singleton axis present, or last axis != number of materials, or tie / out-of-range value present.")

_j = None


def J():
    global _j
    if _j is None:
        import jax
        jax.config.update("jax_enable_x64", True)
        import jax.numpy as jnp
        import fdtdx
        from fdtdx.core.jax.ste import straight_through_estimator
        from fdtdx.materials import Material
        from fdtdx.typing import ParameterType
        cfg = fdtdx.SimulationConfig(time=100e-15, grid=fdtdx.UniformGrid(spacing=500e-9), backend="cpu", dtype=jnp.float64)
        _j = dict(jax=jax, jnp=jnp, fdtdx=fdtdx, ste=straight_through_estimator, Material=Material, cfg=cfg,
                  PT=ParameterType)
    return _j


# ----------------------------------------------------------------------------- implementation side
def build_materials(mats):
    """mats: list of {"eps": float | [3] | [9], "mu": float}; names m0.. in the given (insertion) order"""
    M = J()["Material"]
    out = {}
    for i, m in enumerate(mats):
        e = m["eps"]
        e = float(e) if not isinstance(e, (list, tuple)) else tuple(float(v) for v in e)
        out[f"m{i}"] = M(permittivity=e, permeability=float(m.get("mu", 1.0)))
    return out


def build_transform(mats, branch):
    j = J()
    import warnings
    with warnings.catch_warnings():
        warnings.simplefilter("ignore")
        materials = build_materials(mats)
    t = j["fdtdx"].ClosestIndex(mapping_from_inverse_permittivities=(branch == "inv"))
    return t.init_module(config=j["cfg"], materials=materials, matrix_voxel_grid_shape=(4, 4, 4),
                         single_voxel_size=(1e-6, 1e-6, 1e-6), output_shape={"params": (4, 4, 4)})


def impl_call(mats, branch, shape, vals, dtype="float64", jit=False):
    """returns (out_shape, flat float values)"""
    j = J()
    jnp, jax = j["jnp"], j["jax"]
    t = build_transform(mats, branch)
    x = jnp.asarray(np.asarray(vals, dtype=np.float64).reshape(shape), dtype=getattr(jnp, dtype))
    f = (lambda a: t({"p": a, "q": a[..., ::-1] if a.ndim else a})) if not jit else jax.jit(lambda a: t({"p": a, "q": a[..., ::-1] if a.ndim else a}))
    out = f(x)
    if set(out.keys()) != {"p", "q"}:
        raise RuntimeError("keys changed")
    o = np.asarray(out["p"], dtype=np.float64)
    q = np.asarray(out["q"], dtype=np.float64)
    if q.shape != o.shape or not np.array_equal(q[..., ::-1] if q.ndim else q, o):
        raise RuntimeError("second dict entry (reversed copy) transformed differently")
    return tuple(o.shape), [float(v) for v in o.ravel()]


def impl_grad(mats, branch, shape, vals, w):
    """gradient of sum(w * transform(x)) with respect to x"""
    j = J()
    jnp, jax = j["jnp"], j["jax"]
    t = build_transform(mats, branch)
    x = jnp.asarray(np.asarray(vals, dtype=np.float64).reshape(shape))
    wj = jnp.asarray(np.asarray(w, dtype=np.float64).reshape(shape))
    g = jax.grad(lambda a: jnp.sum(t({"p": a})["p"] * wj))(x)
    return tuple(g.shape), [float(v) for v in np.asarray(g).ravel()]


# ---------------------------------------------------------------------- independent reading of the inputs
def kind_of(mats):
    def iso(e):
        return not isinstance(e, (list, tuple))
    if all(iso(m["eps"]) for m in mats):
        return "iso"
    if all(iso(m["eps"]) or len(m["eps"]) == 3 for m in mats):
        return "diag"
    return "full"


def eps9(e):
    if not isinstance(e, (list, tuple)):
        return [float(e), 0, 0, 0, float(e), 0, 0, 0, float(e)]
    if len(e) == 3:
        return [float(e[0]), 0, 0, 0, float(e[1]), 0, 0, 0, float(e[2])]
    return [float(v) for v in e]


def ordered(mats):
    """documented order: ascending permittivity (first component), then permeability; stable"""
    return sorted(mats, key=lambda m: (eps9(m["eps"])[0], float(m.get("mu", 1.0))))


def inv_table(mats):
    """rows of inverse permittivities in material order (numpy, independent of fdtdx)"""
    k = kind_of(mats)
    rows = []
    for m in ordered(mats):
        e = eps9(m["eps"])
        if k == "iso":
            rows.append([1.0 / e[0]])
        elif k == "diag":
            rows.append([1.0 / e[0], 1.0 / e[4], 1.0 / e[8]])
        else:
            rows.append([float(v) for v in np.linalg.inv(np.asarray(e).reshape(3, 3)).ravel()])
    return rows


def eps_rows(mats):
    k = kind_of(mats)
    rows = []
    for m in ordered(mats):
        e = eps9(m["eps"])
        rows.append([e[0]] if k == "iso" else [e[0], e[4], e[8]])
    return rows


# ------------------------------------------------------------------------ property oracle (python, exact)
def oracle(mats, branch, shape, vals, got_shape, got):
    """the property statement on one output; returns a detail string or None"""
    n = len(mats)
    if tuple(got_shape) != tuple(shape):
        return f"shape changed: input {tuple(shape)} -> output {tuple(got_shape)}"
    if len(got) != len(vals):
        return "length changed"
    table = None if branch == "round" else [[Fraction(v) for v in row] for row in inv_table(mats)]
    for i, (x, o) in enumerate(zip(vals, got)):
        if not np.isfinite(x):
            continue
        if o != int(o) or not (0 <= int(o) <= n - 1):
            return f"voxel {i}: output {o!r} is not an index in 0..{n - 1} (input {x!r})"
        k = int(o)
        fx = Fraction(x)
        if branch == "round":
            d = [abs(fx - jj) for jj in range(n)]
            tol = Fraction(0)
        else:
            d = [sum(abs(fx - c) for c in row) for row in table]
            # distances are formed in binary64: an error of a few ulp of the operands is not a violation
            if kind_of(mats) == "iso":
                tol = 4 * Fraction(float(np.spacing(max(abs(x), max(abs(float(r[0])) for r in table)))))
            else:
                tol = Fraction(1, 10 ** 12) * max(1, abs(fx))
        best = min(d)
        if d[k] > best + tol:
            jj = d.index(best)
            return (f"voxel {i}: input {x!r} mapped to index {k} (distance {float(d[k])!r}) but index {jj} is nearer "
                    f"(distance {float(best)!r}); n={n}, branch={branch}")
        if branch == "inv" and kind_of(mats) == "iso":
            # first on exact ties (equal table entries)
            first = next(jj for jj in range(n) if table[jj] == table[k])
            if first != k:
                return f"voxel {i}: tie between equal materials {first} and {k} resolved to the later one"
    return None


def property_fails(case):
    mats, branch, shape, vals = case["mats"], case["branch"], tuple(case["shape"]), case["vals"]
    try:
        gs, got = impl_call(mats, branch, shape, vals, case.get("dtype", "float64"), case.get("jit", False))
    except Exception as e:  # the transform must accept every shape
        return f"ClosestIndex raised {type(e).__name__}: {str(e)[:160]} (n={len(mats)}, shape={shape}, branch={branch})"
    d = oracle(mats, branch, shape, vals, gs, got)
    if d:
        return d
    if case.get("grad", True) and all(np.isfinite(v) for v in vals):
        w = [1.0 + 0.5 * i for i in range(len(vals))]
        try:
            gsh, g = impl_grad(mats, branch, shape, vals, w)
        except Exception as e:
            return f"jax.grad through ClosestIndex raised {type(e).__name__}: {str(e)[:160]}"
        if tuple(gsh) != tuple(shape) or g != w:
            return f"gradient is not passed through unchanged: d/dx sum(w*out) = {g[:6]} for w = {w[:6]}"
    return None


# ------------------------------------------------------------------------------------------- generators
def gen_mats(rng, n, kind, ties):
    mats = []
    base = [round(rng.uniform(1.0, 12.0), 3) for _ in range(n)]
    if ties and n >= 2:
        base[1] = base[0]
        if n >= 4 and rng.chance(0.5):
            base[3] = base[2]
    for i in range(n):
        e = base[i]
        mu = 1.0 if not ties else rng.choice([1.0, 2.0, 3.0, 0.5])
        if kind == "iso":
            mats.append({"eps": e, "mu": mu})
        elif kind == "diag":
            if i == 0 and rng.chance(0.3):
                mats.append({"eps": e, "mu": mu})       # an isotropic member of a diagonal set
            else:
                y, z = round(rng.uniform(1.0, 12.0), 3), round(rng.uniform(1.0, 12.0), 3)
                # uniaxial / partially degenerate tensors (seed C19h: an isotropy test that compares only two of the
                # three diagonal entries sends a uniaxial set down the isotropic branch)
                c = rng.randint(0, 9)
                if c < 2 and z != e:
                    y = e                                   # eps_x == eps_y != eps_z
                elif c == 2 and y != e:
                    z = y                                   # eps_y == eps_z != eps_x
                elif c == 3 and y != e:
                    z = e                                   # eps_x == eps_z != eps_y
                mats.append({"eps": [e, y, z], "mu": mu})
        else:
            o = [round(rng.uniform(-0.3, 0.3), 3) for _ in range(3)]
            d = [e, round(rng.uniform(1.0, 12.0), 3), round(rng.uniform(1.0, 12.0), 3)]
            mats.append({"eps": [d[0], o[0], o[1], o[0], d[1], o[2], o[1], o[2], d[2]], "mu": mu})
    if kind == "diag" and kind_of(mats) != "diag":
        mats[-1] = {"eps": [base[-1], 2.0, 3.0], "mu": 1.0}
    return rng.shuffle(mats)


def gen_shape(rng, n, mode):
    """mode: 'single' (a singleton axis somewhere), 'lastn' (last axis = n), 'free', 'scalar'"""
    if mode == "scalar":
        return ()
    r = rng.randint(1, 4)
    s = [rng.randint(2, 4) for _ in range(r)]
    if mode == "single":
        s[rng.randint(0, r - 1)] = 1
        if rng.chance(0.3):
            s[rng.randint(0, r - 1)] = 1
    elif mode == "lastn":
        s[-1] = n
    elif mode == "lastnot":
        s[-1] = n + 1 if (rng.chance(0.5) or n - 1 < 2) else n - 1
    return tuple(s)


def gen_vals(rng, mats, branch, count):
    n = len(mats)
    vals = []
    flags = set()
    tab = [r[0] for r in inv_table(mats)] if branch == "inv" else None
    for _ in range(count):
        c = rng.randint(0, 9)
        if branch == "round":
            if c <= 2:
                v = rng.randint(-2, n + 1) + 0.5
                flags.add("half")
            elif c == 3:
                v = float(rng.randint(-3, n + 2))
                flags.add("int")
            elif c == 4:
                v = rng.choice([-0.0, -1e30, 1e30, -7.25, n + 6.5, 2.0 ** 52 + 1, -(2.0 ** 53), 0.49999999999999994,
                                n - 0.5, n - 1 + 0.5000000000000001])
                flags.add("range")
            else:
                v = rng.uniform(-1.0, n + 0.0)
        else:
            if c <= 1:
                v = tab[rng.randint(0, n - 1)]
                flags.add("exact")
            elif c <= 3:
                a, b = tab[rng.randint(0, n - 1)], tab[rng.randint(0, n - 1)]
                v = (a + b) / 2
                flags.add("mid")
            elif c == 4:
                v = rng.choice([-0.0, -3.0, 5.0, 1e30, -1e30, 0.0])
                flags.add("range")
            else:
                v = rng.uniform(0.0, 1.2)
        vals.append(float(v))
    return vals, flags


# ------------------------------------------------------------------------------------------- model side
def model_line(mats, branch, shape, vals):
    from .common import f2h
    n = len(mats)
    sh = " ".join(str(s) for s in shape)
    xs = " ".join(f2h(v) for v in vals)
    if branch == "round":
        return f"round {n} {len(shape)} {sh} | {xs}".replace("  ", " ")
    rows = eps_rows(mats)
    c = len(rows[0])
    es = " ".join(f2h(v) for row in rows for v in row)
    return f"inv {n} {c} {es} {len(shape)} {sh} | {xs}".replace("  ", " ")


def parse_reply(rep):
    if "|" not in rep:
        return None, None
    a, b = rep.split("|")
    return tuple(int(t) for t in a.split()), [int(t) for t in b.split()]


def near_tie(mats, x, k1, k2):
    rows = inv_table(mats)
    d1 = sum(abs(x - c) for c in rows[k1])
    d2 = sum(abs(x - c) for c in rows[k2])
    return abs(d1 - d2) <= 1e-12 * max(1.0, abs(d1))


# ------------------------------------------------------------------------------------------- K
def run(ctx):
    from .common import f2h, h2f
    j = J()
    ncases = ctx.scale(70, 700)
    cases = []
    modes = ["single", "lastn", "lastnot", "free", "single", "scalar", "single", "lastn"]
    kinds = ["iso", "iso", "diag", "iso", "full", "diag"]
    for i in range(ncases):
        n = 2 + (i % 4)
        branch = "inv" if i % 2 == 0 else "round"
        kind = kinds[(i // 2) % len(kinds)]
        ties = (i % 7 == 3)
        mats = gen_mats(ctx.rng, n, kind, ties)
        mode = modes[(i // 3) % len(modes)]
        shape = gen_shape(ctx.rng, n, mode)
        count = int(np.prod(shape)) if shape else 1
        vals, flags = gen_vals(ctx.rng, mats, branch, count)
        dtype = "float32" if (i % 11 == 5 and branch == "round") else "float64"
        if dtype == "float32":
            vals = [float(np.float32(v)) for v in vals]
        cases.append({"mats": mats, "branch": branch, "shape": list(shape), "vals": vals, "dtype": dtype,
                      "jit": i % 5 == 1, "grad": i % 3 != 2, "_mode": mode, "_flags": sorted(flags), "_ties": ties})
    # forced uniaxial sets (seed C19h): every anisotropic member has eps_x == eps_y != eps_z (or another equal pair), so a
    # set-level "all isotropic?" test that looks at two diagonal entries only takes the wrong branch for the whole set
    for k in range(ctx.scale(6, 30)):
        n = 2 + (k % 3)
        mats = []
        for i in range(n):
            e, z = round(ctx.rng.uniform(1.0, 12.0), 3), round(ctx.rng.uniform(1.0, 12.0), 3)
            if z == e:
                z = e + 1.0
            if i == 0 and k % 2 == 0:
                mats.append({"eps": e, "mu": 1.0})
            else:
                mats.append({"eps": [[e, e, z], [e, z, z], [e, z, e]][(k // 2) % 3 if k >= 4 else 0], "mu": 1.0})
        mats = ctx.rng.shuffle(mats)
        mode = ["single", "lastn", "free"][k % 3]
        shape = gen_shape(ctx.rng, n, mode)
        count = int(np.prod(shape)) if shape else 1
        vals, flags = gen_vals(ctx.rng, mats, "inv", max(count, 1))
        cases.append({"mats": mats, "branch": "inv", "shape": list(shape), "vals": vals[:max(count, 1)], "dtype": "float64",
                      "jit": False, "grad": k % 2 == 0, "_mode": mode, "_flags": sorted(flags), "_ties": False})
    # fixed corner cases (the as-found witnesses of FdtdxProps/C19.lean and the pinned unit test's shape)
    cases.append({"mats": [{"eps": 1.0}, {"eps": 2.0}], "branch": "inv", "shape": [2], "vals": [0.1, 0.9], "_mode": "lastn", "_flags": [], "_ties": False})
    cases.append({"mats": [{"eps": 1.0}, {"eps": 2.0}], "branch": "inv", "shape": [3, 1], "vals": [0.1, 0.9, 0.6], "_mode": "single", "_flags": [], "_ties": False})
    cases.append({"mats": [{"eps": 1.0}, {"eps": 2.0}], "branch": "inv", "shape": [2, 3], "vals": [0.1, 0.9, 0.6, 0.8, 0.7, 0.2], "_mode": "lastnot", "_flags": [], "_ties": False})
    cases.append({"mats": [{"eps": 11.7}, {"eps": 1.0}], "branch": "inv", "shape": [1, 2, 2], "vals": [0.5, 0.1, 0.9, 0.05], "_mode": "lastn", "_flags": [], "_ties": False})

    lines, idx = [], []
    for ci, c in enumerate(cases):
        if c["branch"] == "round" or kind_of(c["mats"]) != "full":
            idx.append(ci)
            lines.append(model_line(c["mats"], c["branch"], c["shape"], c["vals"]))
    replies = dict(zip(idx, ctx.driver.ask_many(lines)))

    near = 0
    for ci, c in enumerate(cases):
        mats, branch, shape, vals = c["mats"], c["branch"], tuple(c["shape"]), c["vals"]
        n = len(mats)
        pub = {k: v for k, v in c.items() if not k.startswith("_")}
        kind = kind_of(mats)
        nontriv = None
        if (1 in shape) or (len(shape) == 0) or (shape and shape[-1] != n) or c["_flags"] or c["_ties"]:
            nontriv = (branch, kind, n, shape, tuple(c["_flags"]))
        try:
            gs, got = impl_call(mats, branch, shape, vals, c.get("dtype", "float64"), c.get("jit", False))
        except Exception as e:
            ctx.case(sample=None, nontrivial=nontriv, branch=branch, kind=kind, n_materials=n, rank=len(shape), shape_mode=c["_mode"])
            ctx.mismatch("call", pub, f"implementation raised {type(e).__name__}: {str(e)[:200]}")
            continue
        ctx.case(sample={"op": branch, **pub, "impl": got[:8]} if ci in (0, 1, 4) else None, nontrivial=nontriv,
                 branch=branch, kind=kind, n_materials=n, rank=len(shape), shape_mode=c["_mode"],
                 dtype=c.get("dtype", "float64"), jit=c.get("jit", False), ties=c["_ties"],
                 **{"val_" + f: True for f in c["_flags"]})
        # model comparison
        if ci in replies:
            ms, mi = parse_reply(replies[ci])
            if ms is None:
                ctx.mismatch(branch, pub, {"model": replies[ci]})
            else:
                ok = ctx.expect_equal(branch + ":shape", pub, tuple(gs), tuple(ms))
                if ok:
                    gi = [int(v) if v == int(v) else v for v in got]
                    if gi != mi:
                        diff = [t for t in range(len(mi)) if gi[t] != mi[t]]
                        if branch == "inv" and kind == "diag" and all(
                                isinstance(gi[t], int) and 0 <= gi[t] < n and near_tie(mats, vals[t], gi[t], mi[t]) for t in diff):
                            near += len(diff)
                        else:
                            ctx.mismatch(branch, pub, {"impl": gi[:40], "model": mi[:40], "first_diff": diff[:5]})
        # property itself on the implementation
        ctx.impl_property_evals += 1
        d = oracle(mats, branch, shape, vals, gs, got)
        if d:
            ctx.violation(pub, d)
        # gradient = identity (jax.grad through the whole transform)
        if c.get("grad", True) and all(np.isfinite(v) for v in vals):
            w = [1.0 + 0.5 * t for t in range(len(vals))]
            try:
                gsh, g = impl_grad(mats, branch, shape, vals, w)
                if tuple(gsh) != shape or g != w:
                    ctx.violation(pub, f"gradient is not passed through unchanged: d/dx sum(w*out) = {g[:6]} for w = {w[:6]}")
            except Exception as e:
                ctx.mismatch("grad", pub, f"jax.grad raised {type(e).__name__}: {str(e)[:200]}")
    ctx.extra["near_tie_index_differences_tolerated"] = near

    # straight_through_estimator alone: value and tangent (jax.jvp) against the model's dual numbers
    jax, jnp = j["jax"], j["jnp"]
    nste = ctx.scale(20, 200)
    quads = [[ctx.rng.uniform(-5, 5), ctx.rng.uniform(-2, 2), float(ctx.rng.randint(0, 4)), ctx.rng.uniform(-2, 2)] for _ in range(nste)]
    quads += [[0.5, 1.0, 0.0, 7.0], [1e30, -1.0, 3.0, 0.0], [-0.0, 2.5, 1.0, 1.0]]
    reps = ctx.driver.ask_many(["ste " + " ".join(f2h(v) for v in q) for q in quads])
    for q, rep in zip(quads, reps):
        x, dx, y, dy = q
        val, tan = jax.jvp(j["ste"], (jnp.asarray(x), jnp.asarray(y)), (jnp.asarray(dx), jnp.asarray(dy)))
        mv, md = [h2f(t) for t in rep.split()]
        case = {"op": "ste", "x": x, "dx": dx, "y": y, "dy": dy}
        ctx.case(sample={**case, "impl": [float(val), float(tan)]} if q is quads[0] else None, nontrivial=("ste", x, y), branch="ste")
        ctx.expect_equal("ste", case, [float(val), float(tan)], [mv, md])
        ctx.impl_property_evals += 1
        if float(val) != y or float(tan) != dx:
            ctx.violation({"ste": q}, f"straight_through_estimator({x},{y}) has value {float(val)} / tangent {float(tan)}, expected {y} / {dx}")

    # output type glue
    PT = j["PT"]
    for n in range(1, 6):
        mats = [{"eps": 1.0 + t} for t in range(n)]
        t = build_transform(mats, "round")
        ctx.case(nontrivial=("type", n), branch="type")
        try:
            ot = t._get_output_type_impl({"a": PT.CONTINUOUS})["a"]
            got = "BINARY" if ot == PT.BINARY else "DISCRETE" if ot == PT.DISCRETE else str(ot)
        except Exception:
            got = "error"
        ctx.expect_equal("type", {"n": n}, got, "error" if n <= 1 else "BINARY" if n == 2 else "DISCRETE")
        ish = t.get_input_shape({"a": (3, 1, 2)})
        ctx.expect_equal("input-shape", {"n": n}, ish, {"a": (3, 1, 2)})


# ------------------------------------------------------------------------------------------- S
def search(ctx, hints):
    for h in hints:
        if isinstance(h, dict) and "mats" in h and "vals" in h:
            ctx.impl_property_evals += 1
            d = property_fails(h)
            if d:
                ctx.violation(shrink(ctx, h), d)
                return
    # smallest inputs first
    vals_round = [0.5, 1.5, 2.5, -0.5, 0.2, 0.8, 1.2, 3.7, -4.0, 1.0, 2.0, 3.5]
    for n in (2, 3, 4, 5):
        mats = [{"eps": 1.0 + 1.5 * t} for t in range(n)]
        tab = [1.0 / (1.0 + 1.5 * t) for t in range(n)]
        vals_inv = tab + [(tab[t] + tab[t + 1]) / 2 + 1e-3 for t in range(n - 1)] + [0.0, 2.0, 0.33, 0.71]
        shapes = [(), (1,), (2,), (n,), (n + 1,), (1, n), (n, 1), (2, 1, 3), (1, 2, n), (2, 3, 1), (1, 1, 1), (2, 2, 2, 1)]
        for shape in shapes:
            cnt = int(np.prod(shape)) if shape else 1
            for branch, pool in (("inv", vals_inv), ("round", vals_round)):
                for matset in (mats, [{"eps": [m["eps"], m["eps"] + 1, m["eps"] + 2]} for m in mats]):
                    vals = [pool[(t * 5 + len(shape)) % len(pool)] for t in range(cnt)]
                    case = {"mats": matset, "branch": branch, "shape": list(shape), "vals": vals}
                    ctx.impl_property_evals += 1
                    d = property_fails(case)
                    if d:
                        ctx.violation(shrink(ctx, case), d)
                        return


def shrink(ctx, case):
    """drop voxels along the leading axes while the property still fails"""
    best = dict(case)
    shape = list(best["shape"])
    for ax in range(len(shape)):
        while shape[ax] > 1:
            s2 = list(shape)
            s2[ax] -= 1
            arr = np.asarray(best["vals"]).reshape(shape)
            sl = [slice(None)] * len(shape)
            sl[ax] = slice(0, s2[ax])
            c2 = dict(best, shape=s2, vals=[float(v) for v in arr[tuple(sl)].ravel()])
            ctx.impl_property_evals += 1
            if property_fails(c2):
                best, shape = c2, s2
            else:
                break
    return {k: v for k, v in best.items() if not k.startswith("_")}


def replay(ctx, inp):
    if "ste" in inp:
        j = J()
        x, dx, y, dy = inp["ste"]
        val, tan = j["jax"].jvp(j["ste"], (j["jnp"].asarray(x), j["jnp"].asarray(y)), (j["jnp"].asarray(dx), j["jnp"].asarray(dy)))
        return None if (float(val) == y and float(tan) == dx) else f"ste value {float(val)} tangent {float(tan)}"
    return property_fails(inp)
