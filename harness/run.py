"""Entry point of one check:  python -m harness.run <PID> --tier quick|thorough [--replay file]

  T  build the property's Lean modules, audit axioms / forbidden tokens (thorough: clean rebuild + leanchecker)
  K  correspondence: model (native Lean driver, binary64) vs /repo/src on generated cases  (module.run)
  S  only when T or K broke: search the real code for an input on which the property fails (module.search)

exit 0: property shown; exit 1: VIOLATION line; exit 2: infrastructure problem / timeout (neither).
"""
import argparse
import glob
import importlib
import json
import os
import signal
import sys
import time
import traceback

from . import common as C


class Timeout(Exception):
    pass


def _alarm(signum, frame):
    raise Timeout()


def main():
    ap = argparse.ArgumentParser()
    ap.add_argument("pid")
    ap.add_argument("--tier", default=os.environ.get("VERIF_TIER", "quick"))
    ap.add_argument("--replay", default=None)
    ap.add_argument("--skip-lean", action="store_true", help="development only: skip T (never used by MANIFEST commands)")
    a = ap.parse_args()
    pid = a.pid
    tier = "thorough" if a.tier == "thorough" else "quick"
    seed = int(os.environ.get("VERIF_SEED", "0") or 0)
    meta = json.load(open(os.path.join(C.ROOT, "props", f"{pid}.json")))
    mod = importlib.import_module(f"harness.{pid.lower()}")
    ctx = C.Ctx(pid, tier, seed)
    t0 = time.time()
    budget = int(os.environ.get("VERIF_BUDGET_S", meta.get("budget_s", {}).get(tier, 900 if tier == "quick" else 5400)))
    signal.signal(signal.SIGALRM, _alarm)
    signal.alarm(budget)
    try:
        return body(a, pid, tier, seed, meta, mod, ctx, t0)
    except Timeout:
        print(f"TIMEOUT property={pid} after {budget}s (neither pass nor violation)")
        return 2
    finally:
        signal.alarm(0)
        ctx.driver.close()


def body(a, pid, tier, seed, meta, mod, ctx, t0):
    theorems = meta["theorems"]
    names = [t["name"] for t in theorems]
    modules = meta["modules"]

    # ------------------------------------------------------------------ replay mode
    if a.replay:
        ok, log, _ = C.lake_build(["fdtdx_driver"])
        payload = json.load(open(a.replay if os.path.isabs(a.replay) else os.path.join(C.ROOT, a.replay)))
        if "input" not in payload or payload["input"] is None:
            print(f"replay names a broken obligation, not an input: {payload.get('broken')}")
            return 1
        detail = mod.replay(ctx, payload["input"])
        if detail:
            print(f"VIOLATION property={pid} replay={a.replay}")
            print("  " + str(detail)[:500])
            return 1
        print(f"replay passes: property={pid} holds on {a.replay}")
        return 0

    # ------------------------------------------------------------------ T
    t_broken = []
    audit = {}
    checker_cmd = f"cd lean && lake build {' '.join(modules)} fdtdx_driver && lake env lean <#print axioms of {len(names)} theorems>"
    if not a.skip_lean:
        bad = C.token_grep(C.lean_sources())
        t_broken += bad
        ok, log, dt = C.lake_build(modules + ["fdtdx_driver"], clean_modules=modules if tier == "thorough" else None)
        if not ok:
            t_broken.append("lake build failed: " + log[-1500:])
        else:
            audit, alog, _ = C.axiom_audit(pid, modules, names)
            for n, (okk, ax) in audit.items():
                if not okk:
                    t_broken.append(f"theorem {n}: axioms {ax}")
            if tier == "thorough":
                okc, clog, _ = C.leanchecker(modules)
                checker_cmd += f" && lake env leanchecker {' '.join(modules)}"
                if not okc:
                    t_broken.append("leanchecker failed: " + clog[-800:])
    if not os.path.exists(C.DRIVER):
        print("model driver missing (lake build failed?)")
        print("\n".join(t_broken)[:3000])
        return 2

    # ------------------------------------------------------------------ corpus + K
    k_error = None
    try:
        for f in sorted(glob.glob(os.path.join(C.ROOT, "corpus", pid, "*.json"))):
            inp = json.load(open(f))
            d = mod.replay(ctx, inp["input"])
            ctx.case(nontrivial=("corpus", os.path.basename(f)))
            if d:
                ctx.violation(inp["input"], d, inp.get("signature"))
        mod.run(ctx)
    except C.subprocess.TimeoutExpired:
        raise
    except Exception as e:  # the implementation (or the model driver) no longer answers the way K expects
        if isinstance(e, (KeyboardInterrupt,)) or type(e).__name__ == "Timeout":
            raise
        k_error = traceback.format_exc()
        ctx.mismatch("harness-exception", None, k_error[-1500:])

    # ------------------------------------------------------------------ S
    searched = False
    if (t_broken or ctx.mismatches) and not ctx.violations and hasattr(mod, "search"):
        searched = True
        try:
            hints = [m["case"] for m in ctx.mismatches if m["case"] is not None]
            mod.search(ctx, hints)
        except Exception:
            if type(sys.exc_info()[1]).__name__ == "Timeout":
                raise
            ctx.notes.append("search raised: " + traceback.format_exc()[-800:])

    # ------------------------------------------------------------------ verdict
    known = C.load_known()
    kf = [k for k in known.get("findings", []) if k["property"] == pid]
    lines, new_viol = [], []
    seen_known = set()
    for v in ctx.violations:
        hit = next((k for k in kf if k["signature"] and k["signature"] == v.get("signature")), None)
        if hit:
            if hit["signature"] not in seen_known:
                seen_known.add(hit["signature"])
                lines.append(f"KNOWN-FINDING: property={pid} {hit['what']}")
        else:
            new_viol.append(v)
    exit_code = 0
    if new_viol:
        v = new_viol[0]
        path = C.write_replay(pid, {"property": pid, "input": v["input"], "detail": v["detail"], "signature": v.get("signature"),
                                    "seed": seed, "tier": tier, "how": f"./check {pid} --replay <this file>"})
        lines.append(f"VIOLATION property={pid} replay={path}")
        exit_code = 1
    elif t_broken or ctx.mismatches:
        broken = {"theorems_or_build": t_broken, "correspondence": ctx.mismatches[:5]}
        path = C.write_replay(pid, {"property": pid, "input": None, "broken": broken, "seed": seed, "tier": tier,
                                    "searched": searched, "notes": ctx.notes})
        lines.append(f"VIOLATION property={pid} replay={path} no-failing-input-found")
        exit_code = 1

    # ------------------------------------------------------------------ evidence
    discharged = sum(1 for n in names if audit.get(n, (False,))[0]) if not t_broken or audit else 0
    if any(s.startswith("lake build failed") for s in t_broken):
        discharged = 0
    cov = {
        "obligations": len(names),
        "discharged": discharged,
        "checker_cmd": checker_cmd,
        "trusted_base": C.TRUSTED_BASE + meta.get("trusted_extra", []),
        "theorems": [{"name": t["name"], "status": t.get("status", "full"), "says": t.get("says", ""),
                      "axioms": audit.get(t["name"], (None, None))[1]} for t in theorems],
        "partial": meta.get("partial", []),
        "not_shown": meta.get("not_shown", []),
        "evaluations": ctx.evaluations,
        "distinct_nontrivial": len(ctx.nontrivial),
        "rule": getattr(mod, "RULE", ""),
        "samples": ctx.samples,
        "traces_validated_against_impl": ctx.evaluations,
        "model_driver_requests": ctx.driver.n,
        "impl_property_evaluations": ctx.impl_property_evals,
        "input_distribution": ctx.dist,
        "correspondence_mismatches": len(ctx.mismatches),
        "exhaustive": bool(ctx.exhaustive),
        "failing_input_search_ran": searched,
        "known_findings_seen": sorted(seen_known),
    }
    cov.update(ctx.extra)
    ev = {"property_id": pid, "tier": tier, "seed": seed, "level": "proof", "coverage": cov,
          "assumptions": meta.get("assumptions", []) + ctx.notes, "wall_s": round(time.time() - t0, 2),
          "violations": len(new_viol) + (1 if exit_code == 1 and not new_viol else 0)}
    C.write_evidence(pid, ev)
    for l in lines:
        print(l)
    if exit_code == 0:
        print(f"OK property={pid} tier={tier} seed={seed} theorems={discharged}/{len(names)} "
              f"K-cases={ctx.evaluations} nontrivial={len(ctx.nontrivial)} wall={ev['wall_s']}s")
    else:
        for m in ctx.mismatches[:3]:
            print("  K-mismatch:", C.canon(m)[:600])
        for s in t_broken[:3]:
            print("  T-broken:", s[:600])
    return exit_code


if __name__ == "__main__":
    sys.exit(main())
