"""C37 — fdtdx.RectilinearGrid geometry helpers vs lean/FdtdxModel/C37.lean"""
import math

import numpy as np

RULE = ("K: grids of 1..8 cells per axis with structured edge kinds (integer / dyadic edges so that ties are exact, "
        "origin+h*arange, near-uniform inside and outside the 1e-4 tolerance, geometric grading, sorted random; scales "
        "1e-9..1e3; negative origins). Per grid: coord_to_index (nearest/lower/upper) at every edge, every midpoint, random "
        "interior points and out-of-range points; length_to_cell_count (incl. negative); bounds_for_center / "
        "bounds_for_anchor for every size 1..n plus 0, -1, n+1 and positions -1,0,1,random,beyond; anchor_coordinate; "
        "axis_extent; centers/widths; face_area; cell_volume; constructor validation, is_uniform / uniform_spacing / "
        "min_spacings / cfl_time_step / SimulationConfig.has_nonuniform_grid and time_step_duration, incl. grids whose widths "
        "deviate from the first x cell in either direction (only narrower, only wider, both; one axis; one thin or fat cell "
        "at an end or inside; coarse rim with refined centre; deviations 3e-5..0.5 around the 1e-4 tolerance); reduce_symmetric for every "
        "symmetry pattern. Discrete outputs compared exactly with the model, binary64 outputs to 1e-12. Every case is "
        "also judged by an independent Python oracle of the property statement (brute force over all candidates, "
        "telescoping sums, the CFL inequality, documented uniformity/reduction behaviour). non-trivial = tie, "
        "out-of-range, error branch, near-uniform grid or non-uniform grid.")

_J = None
EPS8 = 8.0 * float(np.finfo(np.float64).eps)
TOL = 1e-4


def J():
    global _J
    if _J is None:
        import jax
        jax.config.update("jax_enable_x64", True)
        import jax.numpy as jnp
        import fdtdx
        from fdtdx import constants
        from fdtdx.core.grid import RectilinearGrid
        _J = dict(jax=jax, jnp=jnp, fdtdx=fdtdx, RG=RectilinearGrid, c=float(constants.c))
    return _J


# ------------------------------------------------------------------------------------- generators
KINDS = ["int", "dyadic", "arange", "near_in", "near_out", "graded", "random"]


def gen_axis(rng, n, kind, scale=1.0):
    """n cells -> n+1 strictly increasing binary64 edges"""
    if kind == "int":
        o = rng.randint(-6, 3)
        e = [float(o)]
        for _ in range(n):
            e.append(e[-1] + rng.randint(1, 3))
    elif kind == "dyadic":
        o = rng.randint(-16, 8) / 8.0
        e = [o]
        for _ in range(n):
            e.append(e[-1] + rng.randint(1, 12) / 8.0)
    elif kind == "arange":
        h = rng.choice([0.1, 0.25, 1.0, 0.37, 1.23456789, 2.5])
        o = rng.choice([0.0, -n * h / 2.0, rng.uniform(-3, 3)])
        e = [float(x) for x in (o + h * np.arange(n + 1))]
    elif kind in ("near_in", "near_out"):
        h = rng.choice([1.0, 0.5, 0.3])
        amp = 6e-5 if kind == "near_in" else rng.choice([1.6e-4, 5e-4, 1e-2])
        e = [0.0]
        for i in range(n):
            d = amp * (1.0 if (kind == "near_out" and i == n - 1) else rng.uniform(-1, 1))
            e.append(e[-1] + h * (1.0 + d))
    elif kind == "graded":
        q = rng.choice([1.1, 1.5, 0.8])
        e = [rng.uniform(-2, 0)]
        w = rng.uniform(0.2, 1.0)
        for _ in range(n):
            e.append(e[-1] + w)
            w *= q
    else:
        pts = sorted({round(rng.uniform(-4, 4), 3) for _ in range(n + 1)})
        while len(pts) < n + 1:
            pts = sorted(set(pts) | {round(rng.uniform(-4, 4), 3)})
        e = pts
    e = [float(x) * scale for x in e]
    assert all(b > a for a, b in zip(e, e[1:])), (kind, e)
    return e


def gen_grid(rng, nmax):
    scale = rng.choice([1.0, 1.0, 1e-9, 5e-8, 1e-6, 1e3])
    same = rng.chance(0.35)
    k0 = rng.choice(KINDS)
    axes, kinds = [], []
    for a in range(3):
        k = k0 if same else rng.choice(KINDS)
        n = rng.randint(1, nmax)
        if same and k in ("int", "dyadic") and a > 0:
            pass
        axes.append(gen_axis(rng, n, k, scale))
        kinds.append(k)
    if rng.chance(0.2):  # exactly equal widths on all axes: the truly uniform grid
        h = rng.choice([1.0, 0.5, 2.0, 0.125]) * scale
        axes = []
        for _ in range(3):
            o = rng.randint(0, 3)
            axes.append([(i - o) * h for i in range(rng.randint(1, nmax) + 1)])
        kinds = ["equal"] * 3
    if rng.chance(0.25):  # mirror-symmetric widths on some axes (reduce_symmetric accepts)
        for a in range(3):
            if rng.chance(0.7):
                m = rng.randint(1, max(1, nmax // 2))
                w = [rng.randint(1, 4) / 4.0 * scale for _ in range(m)]
                if rng.chance(0.3):
                    w = [x * (1 + 5e-5 * rng.uniform(-1, 1)) for x in w] + w[::-1]
                else:
                    w = w + w[::-1]
                if rng.chance(0.15):
                    w = w[:-1] if len(w) > 2 else w + [w[0]]          # odd count
                e = [-(sum(w) / 2.0)]
                for x in w:
                    e.append(e[-1] + x)
                if all(b > a_ for a_, b in zip(e, e[1:])):
                    axes[a] = e
                    kinds[a] = "mirror"
    return axes, kinds, scale


def coords_for(rng, e, scale):
    n = len(e) - 1
    span = e[-1] - e[0]
    cs = [("edge", x) for x in e]
    cs += [("mid", 0.5 * (a + b)) for a, b in zip(e, e[1:])]
    cs += [("in", rng.uniform(e[0], e[-1])) for _ in range(3)]
    cs += [("below", e[0] - rng.uniform(0.1, 2) * span), ("above", e[-1] + rng.uniform(0.1, 2) * span),
           ("far", 1e6 * scale), ("far", -1e6 * scale), ("ulp", float(np.nextafter(e[rng.randint(0, n)], np.inf))),
           ("ulp", float(np.nextafter(e[rng.randint(0, n)], -np.inf)))]
    return cs


# -------------------------------------------------------------------------- implementation side
_grid_cache = {}


def make_grid(axes):
    j = J()
    key = tuple(tuple(a) for a in axes)
    g = _grid_cache.get(key)
    if g is None:
        jnp = j["jnp"]
        g = j["RG"](x_edges=jnp.asarray(axes[0], dtype=jnp.float64), y_edges=jnp.asarray(axes[1], dtype=jnp.float64),
                    z_edges=jnp.asarray(axes[2], dtype=jnp.float64))
        if len(_grid_cache) > 64:
            _grid_cache.clear()
        _grid_cache[key] = g
    return g


ERR = [("must be positive", "err-size"), ("does not fit", "err-fit"), ("non-negative", "err-neg"),
       ("even number", "err-odd"), ("mirror-symmetric", "err-mirror"), ("strictly increasing", "invalid"),
       ("at least two", "invalid"), ("one-dimensional", "invalid")]


def err_kind(ex):
    m = str(ex)
    for pat, k in ERR:
        if pat in m:
            return k
    return "err-unknown:" + m[:80]


def impl(case):
    """evaluate one case on the real RectilinearGrid; discrete -> python ints / strings, floats -> lists"""
    op = case["op"]
    ax = case.get("axis", 0)
    try:
        g = make_grid(case["axes"])
    except ValueError as ex:
        return err_kind(ex)
    try:
        if op == "snap":
            return int(g.coord_to_index(ax, case["c"], snap=case["mode"]))
        if op == "len2cells":
            return int(g.length_to_cell_count(ax, case["length"], snap=case["mode"]))
        if op == "bcenter":
            lo, up = g.bounds_for_center(ax, case["center"], case["size"])
            return [int(lo), int(up)]
        if op == "banchor":
            lo, up = g.bounds_for_anchor(ax, case["size"], case["anchor"], case["pos"])
            return [int(lo), int(up)]
        if op == "anchorc":
            return [float(g.anchor_coordinate(ax, (case["lo"], case["up"]), case["pos"]))]
        if op == "extent":
            return [float(g.axis_extent(ax, (case["lo"], case["up"])))]
        if op == "centers":
            return [float(x) for x in np.asarray(g.centers(ax))]
        if op == "widths":
            return [float(x) for x in np.asarray(g.cell_widths(ax))]
        if op == "area":
            a = np.asarray(g.face_area(ax, tuple(tuple(s) for s in case["slice"])))
            return {"shape": list(a.shape), "vals": [float(x) for x in a.ravel()]}
        if op == "vol":
            a = np.asarray(g.cell_volume(tuple(tuple(s) for s in case["slice"])))
            return {"shape": list(a.shape), "vals": [float(x) for x in a.ravel()]}
        if op == "grid":
            j = J()
            dt = float(g.cfl_time_step(case["cf"]))
            cfg = j["fdtdx"].SimulationConfig(time=1e-12, grid=g, courant_factor=case["cf"], backend="cpu",
                                              dtype=j["jnp"].float64)
            nonuni_cfg = bool(cfg.has_nonuniform_grid)
            if case.get("via_config"):
                dt = float(cfg.time_step_duration)
            us = None
            if g.is_uniform:
                us = float(g.uniform_spacing)
            else:
                try:
                    g.uniform_spacing
                    us = "no-raise"
                except ValueError:
                    us = None
            return {"uniform": bool(g.is_uniform), "nonuniform_cfg": nonuni_cfg, "spacing": us,
                    "mins": [float(x) for x in g.min_spacings],
                    "min": float(g.min_spacing), "dt": dt, "shape": list(g.shape)}
        if op == "symred":
            r = g.reduce_symmetric(tuple(case["sym"]))
            return [[float(x) for x in np.asarray(r.edges(a))] for a in range(3)]
    except ValueError as ex:
        return err_kind(ex)
    raise ValueError(op)


# ----------------------------------------------------------------------------------- model side
def model_line(case):
    from .common import f2h, fs2h
    op = case["op"]
    axes = case["axes"]
    e = axes[case.get("axis", 0)]
    if op == "snap":
        return f"snap {case['mode']} {f2h(case['c'])} {fs2h(e)}"
    if op == "len2cells":
        return f"len2cells {case['mode']} {f2h(case['length'])} {fs2h(e)}"
    if op == "bcenter":
        return f"bcenter {case['size']} {f2h(case['center'])} {fs2h(e)}"
    if op == "banchor":
        return f"banchor {case['size']} {f2h(case['anchor'])} {f2h(case['pos'])} {fs2h(e)}"
    if op == "anchorc":
        return f"anchorc {case['lo']} {case['up']} {f2h(case['pos'])} {fs2h(e)}"
    if op == "extent":
        return f"extent {case['lo']} {case['up']} {fs2h(e)}"
    if op in ("centers", "widths"):
        return f"{op} {fs2h(e)}"
    if op == "area":
        ta, tb = [a for a in range(3) if a != case["axis"]]
        s = case["slice"]
        return f"area {s[ta][0]} {s[ta][1]} {s[tb][0]} {s[tb][1]} {len(axes[ta])} {fs2h(axes[ta])} {fs2h(axes[tb])}"
    if op == "vol":
        s = case["slice"]
        return (f"vol {s[0][0]} {s[0][1]} {s[1][0]} {s[1][1]} {s[2][0]} {s[2][1]} {len(axes[0])} {len(axes[1])} "
                f"{fs2h(axes[0])} {fs2h(axes[1])} {fs2h(axes[2])}")
    if op == "grid":
        return (f"grid {f2h(case['cf'])} {f2h(J()['c'])} {f2h(TOL)} {f2h(EPS8)} {len(axes[0])} {len(axes[1])} "
                f"{fs2h(axes[0])} {fs2h(axes[1])} {fs2h(axes[2])}")
    if op == "symred":
        sx, sy, sz = [1 if s else 0 for s in case["sym"]]
        return (f"symred {sx} {sy} {sz} {f2h(TOL)} {len(axes[0])} {len(axes[1])} "
                f"{fs2h(axes[0])} {fs2h(axes[1])} {fs2h(axes[2])}")
    raise ValueError(op)


def compare(ctx, case, got, rep):
    """model reply vs implementation result"""
    from .common import h2f, h2fs
    op = case["op"]
    if isinstance(got, str):                       # error kinds
        return ctx.expect_equal(op, case, got, rep)
    if op in ("snap", "len2cells"):
        return ctx.expect_equal(op, case, str(got), rep)
    if op in ("bcenter", "banchor"):
        return ctx.expect_equal(op, case, f"{got[0]} {got[1]}", rep)
    if rep.startswith("err") or rep in ("bad-op", "invalid"):
        return ctx.expect_equal(op, case, "value", rep)
    if op in ("anchorc", "extent", "centers", "widths"):
        return ctx.expect_close(op, case, got, h2fs(rep), tol=1e-12, floor=case["scale"])
    if op in ("area", "vol"):
        p = 2 if op == "area" else 3
        return ctx.expect_close(op, case, got["vals"], h2fs(rep), tol=1e-12, floor=case["scale"] ** p)
    if op == "grid":
        t = rep.split()
        ok = ctx.expect_equal(op + ".uniform", case, "1" if got["uniform"] else "0", t[0])
        ok &= ctx.expect_equal(op + ".has_nonuniform_grid", case, "0" if got["nonuniform_cfg"] else "1", t[0])
        if got["uniform"] and ok:
            ok &= ctx.expect_close(op + ".spacing", case, [got["spacing"]], [h2f(t[1])], tol=1e-15, floor=1e-300)
        else:
            ok &= ctx.expect_equal(op + ".spacing", case, str(got["spacing"]), "None" if t[1] == "none" else t[1])
        ok &= ctx.expect_equal(op + ".mins", case, got["mins"], [h2f(x) for x in t[2:5]])
        ok &= ctx.expect_close(op + ".dt", case, [got["dt"]], [h2f(t[5])], tol=1e-13, floor=1e-300)
        return ok
    if op == "symred":
        parts = [h2fs(p) for p in rep.split("|")[1:]]
        return ctx.expect_equal(op, case, got, parts)
    raise ValueError(op)


# ----------------------------------------------------- independent oracle of the property statement
def oracle(case, got):
    """None when the property statement holds for this case on the implementation, else a detail string"""
    op = case["op"]
    axes = case["axes"]
    e = axes[case.get("axis", 0)]
    n = len(e) - 1
    sc = case["scale"]
    if op == "grid" and isinstance(got, str):
        valid = all(len(a) >= 2 and all(y > x for x, y in zip(a, a[1:])) for a in axes)
        return None if (got == "invalid" and not valid) else f"constructor rejected valid edges / wrong error: {got}"
    if op == "grid":
        if not all(len(a) >= 2 and all(y > x for x, y in zip(a, a[1:])) for a in axes):
            return "constructor accepted edges that are not strictly increasing"
        mins = [min(y - x for x, y in zip(a, a[1:])) for a in axes]
        if got["mins"] != mins or got["min"] != min(mins) or got["shape"] != [len(a) - 1 for a in axes]:
            return f"min_spacings {got['mins']} != {mins} (or shape)"
        q = got["dt"] * J()["c"] * math.sqrt(sum(1.0 / (m * m) for m in mins))
        if not (q <= case["cf"] * (1 + 1e-12)):
            return f"CFL bound violated: dt*c*sqrt(sum 1/dmin^2) = {q!r} > courant_factor = {case['cf']!r}"
        if not (got["dt"] > 0):
            return "dt not positive"
        s = axes[0][1] - axes[0][0]
        dev = max(abs((y - x) - s) for a in axes for x, y in zip(a, a[1:]))
        floor = EPS8 * max(abs(x) for a in axes for x in a)
        if got["nonuniform_cfg"] == got["uniform"]:
            return "config.has_nonuniform_grid is not the negation of grid.is_uniform"
        if dev <= 0.5e-4 * s and not got["uniform"]:
            return f"grid with width deviation {dev / s:.2e} (< 1e-4) not detected as uniform"
        if dev > 1.01e-4 * s + floor and got["uniform"]:
            lo = min((y - x) - s for a in axes for x, y in zip(a, a[1:]))
            hi = max((y - x) - s for a in axes for x, y in zip(a, a[1:]))
            return (f"grid with width deviation {dev / s:.2e} (> 1e-4; narrowest cell {lo / s:+.2e}, widest {hi / s:+.2e} "
                    f"relative to the first x cell) detected as uniform, uniform_spacing = {got['spacing']!r}")
        if got["uniform"] and not (abs(got["spacing"] - s) <= 0.5000001e-14):
            return f"uniform_spacing {got['spacing']!r} is not the nominal spacing {s!r} rounded to 14 decimals"
        if (not got["uniform"]) and got["spacing"] is not None:
            return "uniform_spacing does not raise on a non-uniform grid"
        if not got["uniform"]:   # documented: dt = cf / (c sqrt(...)) exactly on non-uniform grids
            if abs(q - case["cf"]) > 1e-12 * case["cf"]:
                return f"non-uniform dt is not the CFL limit: {q!r} vs {case['cf']!r}"
        elif q < case["cf"] * (1 - 2.1e-4):
            return f"uniform dt much smaller than the CFL limit: {q!r} vs {case['cf']!r}"
        return None
    if op == "symred":
        sym = case["sym"]
        exp = []
        for a in range(3):
            ea = axes[a]
            na = len(ea) - 1
            if not sym[a]:
                exp.append(ea)
                continue
            if na < 2 or na % 2:
                return None if got == "err-odd" else f"odd/short symmetric axis {a} (n={na}) not rejected: {got}"
            w = [y - x for x, y in zip(ea, ea[1:])]
            asym = max(abs(w[i] - w[na - 1 - i]) / w[na - 1 - i] for i in range(na))
            if asym > 1.01e-4:
                return None if got == "err-mirror" else f"non-mirror widths on axis {a} (asym {asym:.2e}) not rejected: {got}"
            if asym > 0.99e-4:
                return None
            exp.append(ea[na // 2:])
        return None if got == exp else f"reduce_symmetric {sym}: got {str(got)[:200]}, documented edges[n//2:] = {str(exp)[:200]}"
    if op == "snap" or op == "len2cells":
        if op == "len2cells":
            if case["length"] < 0:
                return None if got == "err-neg" else f"negative length not rejected: {got}"
            c = e[0] + case["length"]
        else:
            c = case["c"]
        i = got
        if not isinstance(i, int):
            return f"unexpected error {i}"
        m = case["mode"]
        if m == "nearest":
            if not (0 <= i <= n):
                return f"nearest index {i} out of range"
            d = [abs(x - c) for x in e]
            if any(d[j] < d[i] for j in range(n + 1)) or any(d[j] <= d[i] for j in range(i)):
                return f"nearest({c!r}) = {i} is not the first closest edge of {e}"
        elif m == "lower":
            exp = -1 if c < e[0] else max(j for j in range(n + 1) if e[j] <= c)
            if i != exp:
                return f"lower({c!r}) = {i}, last edge <= c is {exp} in {e}"
        else:
            exp = n + 1 if c > e[n] else min(j for j in range(n + 1) if e[j] >= c)
            if i != exp:
                return f"upper({c!r}) = {i}, first edge >= c is {exp} in {e}"
        return None
    if op in ("bcenter", "banchor"):
        size = case["size"]
        if size <= 0:
            return None if got == "err-size" else f"size {size} not rejected: {got}"
        if size > n:
            return None if got == "err-fit" else f"size {size} > {n} cells not rejected: {got}"
        if isinstance(got, str):
            return f"unexpected error {got}"
        lo, up = got
        if up - lo != size or lo < 0 or up > n:
            return f"interval {got} is not a size-{size} interval of the axis"
        if op == "bcenter":
            tgt = case["center"]
            pts = [0.5 * (e[l] + e[l + size]) for l in range(n - size + 1)]
        else:
            tgt = case["anchor"]
            f = 0.5 * (case["pos"] + 1.0)
            pts = [e[l] + f * (e[l + size] - e[l]) for l in range(n - size + 1)]
        d = [abs(p - tgt) for p in pts]
        if any(x < d[lo] for x in d) or any(d[l] <= d[lo] for l in range(lo)):
            return f"{op}: interval {got} is not the first distance-minimising size-{size} interval (distances {d})"
        return None
    if op == "anchorc":
        lo, up, p = case["lo"], case["up"], case["pos"]
        exp = e[lo] + 0.5 * (p + 1.0) * (e[up] - e[lo])
        if abs(got[0] - exp) > 1e-12 * sc:
            return f"anchor_coordinate {got[0]!r} != {exp!r}"
        ulp = 4.0 * float(np.finfo(np.float64).eps) * max(abs(e[lo]), abs(e[up]))   # lo + 1*(up - lo) rounds
        if p == -1.0 and got[0] != e[lo] or p == 1.0 and abs(got[0] - e[up]) > ulp:
            return "anchor_coordinate at position -1/+1 is not the lower/upper edge"
        return None
    if op == "extent":
        lo, up = case["lo"], case["up"]
        w = [y - x for x, y in zip(e, e[1:])]
        if got[0] != e[up] - e[lo] or abs(got[0] - sum(w[lo:up])) > 1e-12 * sc:
            return f"axis_extent {got[0]!r} inconsistent with the edges"
        return None
    if op == "centers":
        exp = [0.5 * (x + y) for x, y in zip(e, e[1:])]
        return None if got == exp else "centers are not the midpoints of the edges"
    if op == "widths":
        exp = [y - x for x, y in zip(e, e[1:])]
        return None if got == exp else "cell widths are not the edge differences"
    if op in ("area", "vol"):
        s = case["slice"]
        w = [[y - x for x, y in zip(a, a[1:])] for a in axes]
        if op == "area":
            ta, tb = [a for a in range(3) if a != case["axis"]]
            exp = np.multiply.outer(np.asarray(w[ta][s[ta][0]:s[ta][1]]), np.asarray(w[tb][s[tb][0]:s[tb][1]]))
            shape = [1, 1, 1]
            shape[ta], shape[tb] = exp.shape
            tot = (axes[ta][s[ta][1]] - axes[ta][s[ta][0]]) * (axes[tb][s[tb][1]] - axes[tb][s[tb][0]])
            p = 2
        else:
            exp = np.einsum("i,j,k->ijk", *[np.asarray(w[a][s[a][0]:s[a][1]]) for a in range(3)])
            shape = list(exp.shape)
            tot = 1.0
            for a in range(3):
                tot *= axes[a][s[a][1]] - axes[a][s[a][0]]
            p = 3
        if got["shape"] != shape:
            return f"{op} shape {got['shape']} != {shape}"
        v = np.asarray(got["vals"]).reshape(exp.shape)
        if exp.size and np.max(np.abs(v - exp)) > 1e-12 * sc ** p:
            return f"{op} entries are not products of the cell widths"
        if abs(float(v.sum()) - tot) > 1e-11 * sc ** p:
            return f"{op} entries sum to {float(v.sum())!r}, product of the extents is {tot!r}"
        return None
    raise ValueError(op)


# ------------------------------------------------------------------------------------------- cases
def cases_for_grid(rng, axes, kinds, scale, rich=True):
    out = []
    base = {"axes": axes, "scale": scale}
    for ax in range(3):
        e = axes[ax]
        n = len(e) - 1
        b = dict(base, axis=ax)
        cs = coords_for(rng, e, scale)
        if not rich:
            cs = rng.shuffle(cs)[:4]
        for tag, c in cs:
            for mode in ("nearest", "lower", "upper"):
                out.append(dict(b, op="snap", mode=mode, c=c, tag=tag))
        span = e[-1] - e[0]
        for length in [0.0, span, e[min(1, n)] - e[0], rng.uniform(0, 1.5 * span), -0.1 * span]:
            out.append(dict(b, op="len2cells", mode=rng.choice(["nearest", "lower", "upper"]), length=length,
                            tag="neg" if length < 0 else "len"))
        sizes = list(range(1, n + 1)) + [0, -1, n + 1]
        if not rich:
            sizes = rng.shuffle(sizes)[:3]
        for size in sizes:
            tgts = [("in", rng.uniform(e[0], e[-1])), ("out", e[0] - span), ("out", e[-1] + 0.5 * span)]
            if 0 < size <= n:
                mids = [0.5 * (e[l] + e[l + size]) for l in range(n - size + 1)]
                tgts.append(("hit", rng.choice(mids)))
                if len(mids) > 1:
                    l = rng.randint(0, len(mids) - 2)
                    tgts.append(("tie", 0.5 * (mids[l] + mids[l + 1])))
            for tag, t in tgts:
                out.append(dict(b, op="bcenter", size=size, center=t, tag=tag if 0 < size <= n else "err"))
            for pos in [-1.0, 0.0, 1.0, rng.uniform(-1, 1), rng.choice([-1.5, 2.0])]:
                tag, t = rng.choice(tgts)
                if 0 < size <= n and rng.chance(0.5):     # exact tie between two neighbouring anchors
                    f = 0.5 * (pos + 1.0)
                    an = [e[l] + f * (e[l + size] - e[l]) for l in range(n - size + 1)]
                    if len(an) > 1:
                        l = rng.randint(0, len(an) - 2)
                        tag, t = "tie", 0.5 * (an[l] + an[l + 1])
                out.append(dict(b, op="banchor", size=size, anchor=t, pos=pos, tag=tag if 0 < size <= n else "err"))
        for _ in range(3 if rich else 1):
            lo = rng.randint(0, n)
            up = rng.randint(lo, n)
            out.append(dict(b, op="extent", lo=lo, up=up, tag="empty" if lo == up else "ext"))
            out.append(dict(b, op="anchorc", lo=lo, up=up, pos=rng.choice([-1.0, 0.0, 1.0, rng.uniform(-1, 1), 1.75]),
                            tag="anchorc"))
        out.append(dict(b, op="centers", tag="centers"))
        out.append(dict(b, op="widths", tag="widths"))
    for _ in range(2 if rich else 1):
        sl = []
        for a in range(3):
            n = len(axes[a]) - 1
            lo = rng.randint(0, n - 1)
            sl.append([lo, rng.randint(lo + 1, n)])
        out.append(dict(base, op="vol", slice=sl, tag="vol"))
        ax = rng.randint(0, 2)
        sl2 = [list(s) for s in sl]
        sl2[ax] = [sl2[ax][0], sl2[ax][0] + 1]
        out.append(dict(base, op="area", axis=ax, slice=sl2, tag="area"))
    for cf in [0.99, 1.0, rng.choice([0.5, 0.9, 0.7])]:
        out.append(dict(base, op="grid", cf=cf, via_config=(cf == 0.99), tag="grid:" + "/".join(kinds)))
    syms = [[1, 0, 0], [0, 1, 0], [0, 0, 1], [1, 1, 1], [0, 0, 0], [-1, 1, 0]]
    for sym in (syms if rich else rng.shuffle(syms)[:2]):
        out.append(dict(base, op="symred", sym=sym, tag="symred"))
    return out


def widths_to_edges(w, o=0.0):
    e = [o]
    for x in w:
        e.append(e[-1] + x)
    return e


def deviation_cases(rng, thorough=False):
    """grids whose widths deviate from the FIRST x cell (the reference of the uniformity rule) in either direction:
    only narrower, only wider, both; on one axis only; a single thin / fat cell at either end or inside; a coarse rim with
    a refined centre; deviations around the 1e-4 tolerance and gross ones; two scales"""
    out = []
    devs = [3e-5, 8e-5, 1.3e-4, 5e-4, 0.05, 0.5]
    patterns = ["last", "first", "middle", "rim", "all-but-first"]
    k = 0
    for direction in ("narrow", "wide", "both"):
        for a in range(3):
            for pat in patterns:
                for dev in (devs if thorough else [devs[(k + t) % len(devs)] for t in (0, 3)]):
                    k += 1
                    sc = [1.0, 2.5e-8][k % 2]
                    n = 4 + k % 3
                    w = [[sc] * n for _ in range(3)]
                    sgn = {"narrow": [-1.0], "wide": [1.0], "both": [-1.0, 1.0]}[direction]
                    idx = {"last": [n - 1], "first": [0], "middle": [n // 2], "rim": list(range(1, n - 1)),
                           "all-but-first": list(range(1, n))}[pat]
                    if a == 0 and pat == "first":
                        idx = [1]            # cell 0 of x IS the reference; deviate its neighbour instead
                    for t, i in enumerate(idx):
                        w[a][i] = sc * (1.0 + sgn[t % len(sgn)] * dev)
                    axes = [widths_to_edges(w[b], o=-(k % 4) * sc) for b in range(3)]
                    out.append({"op": "grid", "axes": axes, "scale": sc, "cf": [0.99, 1.0][k % 2], "via_config": k % 3 == 0,
                                "tag": f"dev:{direction}"})
    # the shapes named in the report: coarse rim / refined centre on every axis, one thin end cell
    for sc in (1.0, 5e-8):
        rim = widths_to_edges([sc, sc, 0.5 * sc, 0.25 * sc, 0.5 * sc, sc, sc])
        out.append({"op": "grid", "axes": [rim, rim, rim], "scale": sc, "cf": 0.99, "via_config": True, "tag": "dev:graded"})
        thin = widths_to_edges([sc, sc, sc, 0.1 * sc])
        uni = widths_to_edges([sc] * 4)
        out.append({"op": "grid", "axes": [uni, uni, thin], "scale": sc, "cf": 1.0, "via_config": False, "tag": "dev:thin-end"})
        out.append({"op": "grid", "axes": [thin, uni, uni], "scale": sc, "cf": 1.0, "via_config": True, "tag": "dev:thin-end"})
    return out


def invalid_grid_cases(rng):
    out = []
    good = [0.0, 1.0, 2.0]
    for bad in ([0.0, 1.0, 1.0], [0.0, 2.0, 1.0], [1.0], [0.0, 1.0, 3.0, 2.5, 4.0], [2.0, 1.0]):
        for pos in range(3):
            axes = [list(good), list(good), list(good)]
            axes[pos] = list(bad)
            out.append({"op": "grid", "axes": axes, "scale": 1.0, "cf": 0.99, "tag": "invalid"})
    return out


def nontrivial(case, got):
    t = case.get("tag", "")
    if isinstance(got, str) or t in ("tie", "mid", "edge", "below", "above", "far", "ulp", "out", "err", "neg", "empty"):
        return (case["op"], t, str(got)[:40], len(case["axes"][case.get("axis", 0)]))
    if case["op"] in ("grid", "symred"):
        return (case["op"], t, str(case.get("sym")), str(got)[:30])
    return None


def judge(ctx, case, got, rep=None):
    if rep is not None:
        compare(ctx, case, got, rep)
    ctx.impl_property_evals += 1
    d = oracle(case, got)
    if d:
        ctx.violation({k: v for k, v in case.items()}, d)
    return d


def run(ctx):
    ngrids = ctx.scale(14, 120)
    nmax = ctx.scale(6, 8)
    cases = invalid_grid_cases(ctx.rng)
    # fixed seeds of known-delicate inputs: near-uniform grid at courant 1, rounded nominal spacing
    cases += cases_for_grid(ctx.rng, [[0.0, 1.0, 1.99995], [0.0, 1.0, 2.0], [0.0, 1.0, 2.0]], ["near_in"] * 3, 1.0, rich=False)
    h = 1.23456789e-8
    ar = [[float(x) for x in (-2 * h + h * np.arange(5))] for _ in range(3)]
    cases += cases_for_grid(ctx.rng, ar, ["arange"] * 3, 1e-8, rich=False)
    # the uniformity threshold from both sides, on each axis, at two scales
    for k, dev in enumerate((3e-5, 8e-5, 1.3e-4, 5e-4)):
        for a in range(3):
            sc = [1.0, 1e-7][(k + a) % 2]
            ax3 = [[i * sc for i in range(4)] for _ in range(3)]
            ax3[a][3] = ax3[a][2] + sc * (1.0 + dev)
            cases += [c for c in cases_for_grid(ctx.rng, ax3, ["thresh"] * 3, sc, rich=False) if c["op"] == "grid"]
    cases += deviation_cases(ctx.rng, thorough=ctx.thorough)
    for gi in range(ngrids):
        axes, kinds, scale = gen_grid(ctx.rng, nmax)
        cases += cases_for_grid(ctx.rng, axes, kinds, scale, rich=(gi % 3 == 0))
    reps = ctx.driver.ask_many([model_line(c) for c in cases])
    for i, (case, rep) in enumerate(zip(cases, reps)):
        got = impl(case)
        ctx.case(sample={"case": case, "impl": got, "model": rep} if i in (20, 400, 900) else None,
                 nontrivial=nontrivial(case, got), op=case["op"], tag=case.get("tag", "").split(":")[0],
                 cells=len(case["axes"][case.get("axis", 0)]) - 1)
        judge(ctx, case, got, rep)


# ------------------------------------------------------------------------------------------- S
def search(ctx, hints):
    for h in hints:
        if isinstance(h, dict) and "op" in h:
            d = oracle(h, impl(h))
            ctx.impl_property_evals += 1
            if d:
                ctx.violation(h, d)
                return
    rng = ctx.rng.fork()
    for case in deviation_cases(rng, thorough=True):
        ctx.impl_property_evals += 1
        d = oracle(case, impl(case))
        if d:
            ctx.violation(case, d)
            return
    for nmax in (1, 2, 3, 4, 6, 8):                 # smallest grids first
        for _ in range(ctx.scale(25, 80)):
            axes, kinds, scale = gen_grid(rng, nmax)
            for case in cases_for_grid(rng, axes, kinds, scale, rich=True):
                ctx.impl_property_evals += 1
                d = oracle(case, impl(case))
                if d:
                    ctx.violation(case, d)
                    return


def replay(ctx, inp):
    return oracle(inp, impl(inp))
